#!/usr/bin/env python3
"""Writes MANIFEST.json from props_cfg.py (kept valid at all times)."""
import json, subprocess
import props_cfg

ALL = ["C%02d" % i for i in range(1, 21)]
hooks_commits = subprocess.run(
    "git -C /repo log --format=%H --grep='^verif hooks'", shell=True, stdout=subprocess.PIPE, text=True
).stdout.split()

checks = []
for pid in ALL:
    if pid not in props_cfg.PROPS:
        continue
    c = props_cfg.PROPS[pid]
    checks.append({
        "property_id": pid,
        "quick_cmd": "./check %s --tier quick" % pid,
        "thorough_cmd": "./check %s --tier thorough" % pid,
        "evidence_file": "/verif/evidence/%s.json" % pid,
        "replay_cmd_template": "./check %s --replay {path}" % pid,
        "engine": "coq-proof+correspondence",
        "level_claimed": {
            "category": "proof",
            "text": c.get("level_text", c.get("explanation", "")),
            "design_ref": "DESIGN.md B/%s" % pid,
        },
        "level_note": c.get("level_note", "Trusted: Coq 8.16.1 kernel; the hand-written model, tied to the "
                            "code by the correspondence check (generator-bounded); see evidence trusted_base."),
        "technique": c.get("technique", "Coq proof over a hand-written model + executable correspondence "
                           "against the real code (vm_compute)"),
    })
na = [{"property_id": p, "reason": props_cfg.NOT_APPLICABLE.get(p, "not claimed yet: check under construction")}
      for p in ALL if p not in props_cfg.PROPS]
m = {
    "version": 1,
    "setup_cmd": "./setup.sh",
    "hooks": {
        "guard": "amiquip_verif",
        "enable": "RUSTFLAGS=\"--cfg amiquip_verif\" (the harness crate /verif/harness depends on /repo by path)",
        "baseline_off_cmd": "cd /repo && cargo test --workspace --no-fail-fast --offline",
        "source_commits": hooks_commits,
        "add_only": True,
    },
    "engines": [{
        "name": "coq-proof+correspondence",
        "path": "/verif/check",
        "serves_properties": [c["property_id"] for c in checks],
        "kind_free_text": "Coq 8.16.1 theorems over a hand-written Gallina model (coq/), Gen/Consts.v "
                          "regenerated from the compiled crate, and a differential correspondence: the Rust "
                          "harness runs the real code, Coq's VM runs model and spec on the same cases",
    }],
    "checks": checks,
    "not_applicable": na,
    "notes": "Genuine defects are repaired by 'fix:' commits in /repo or listed in known_findings.txt.",
}
json.dump(m, open("MANIFEST.json", "w"), indent=1)
print("wrote MANIFEST.json with", len(checks), "checks;", len(na), "unclaimed")
