"""Per-property configuration of ./check (drivers, Coq modules, evidence texts)."""

COMMON_TRUSTED = [
    "Coq 8.16.1 kernel (coqc, full .vo builds; vm_compute used for case evaluation, Examples and "
    "refutation witnesses; no native_compute)",
    "axioms: none - every theorem prints 'Closed under the global context'",
    "hand-written Gallina model of the anchored code (coq/Model), tied to /repo by the correspondence "
    "check: the real code is run by /verif/harness (Rust, cfg amiquip_verif probes) and judged inside "
    "Coq by the model and by the executable spec (coq/Check)",
    "coq/Gen/Consts.v regenerated from the compiled crate on every run",
    "coq/Gen/Src*.v translated from the source text on every run by tools/rs2v.py (make_tune_ok, Heartbeat::fire, "
    "Channel0Handle::new, SealableOutputBuffer::{append, push_method, push_heartbeat, seal}) and tools/rs2sm.py (the content "
    "collector: ContentCollector::{collect_deliver, collect_return, collect_get, collect_header, collect_body} and "
    "State<T>::{collect_header, collect_body}; the handshake: HandshakeState::process; the caller's side of a call: "
    "IoLoopHandle::{send, recv, check_recv_for_error, call_message, call_nowait, get, consume}; the body splitter: "
    "ChannelHandle::send_content; the confirm smoother: ConfirmSmoother::{process, new_iter}, Iter::{next, drop}; the "
    "channel table: ChannelSlots::{insert, insert_unused_channel_id, remove}; the write loop: Inner::write_to_stream; the "
    "frame buffer: Inner::read_from of src/frame_buffer.rs; the queue helpers of connection_state.rs: send, "
    "try_send_return, try_send_confirm, ConnectionState::client_exception; Consumer::cancel and its Drop; the option helpers "
    "QueueDeclareOptions::into_declare, QueueDeleteOptions::into_delete, ExchangeDeclareOptions::into_declare; Connection::close_impl; Inner::{deregister, reregister}_nonzero_channels; amqp_url::{populate_host_and_port, decode}; RxTxHeartbeat::new, HeartbeatTimers::{start, fire_rx, fire_tx}); Inner::process_heartbeat_timers; Inner::{handle_channel0_readable, handle_channel_readable}; the meaning given to the Rust subsets is stated in those files and trusted; "
    "the translations are proved equal to the hand-written models (C15_source_is_model, C17_fire_source_is_model, "
    "C02_limit_source_is_model, C08_seal_source_is_model, C03_source_is_model, C16_process_source_is_model, C04_call_source_is_model, C02_send_content_source_is_model, C14_next_source_is_model / "
    "C14_drop_source_is_model / C14_process_source_is_model, C10_insert_some_source_is_model / C10_insert_none_source_is_model / "
    "C10_remove_source_is_model, C01_write_source_is_model, C06_read_from_source_is_model, C04_send_source_is_model, C13_try_send_return_source_is_model / "
    "C13_try_send_confirm_source_is_model, C07_client_exception_source_is_model, C11_cancel_source_is_model / C11_drop_source_is_model, C12_queue_declare / queue_delete / exchange_declare_source_is_model, C20_close_source_is_model, C18_deregister_source_is_model / C18_reregister_source_is_model, C19_populate_source_is_model / C19_decode_source_is_model, C17_timers_source_is_model, C17_start_fire_source_is_model, C17_pass_source_is_model / C17_pass_source_not_masked)",
    "no extraction is used: the model is evaluated by the kernel's VM",
]

PROPS = {
    "C14": {
        "check_mods": ["C14"],
        "model_out": "model_out",
        "drivers": [{"name": "c14", "n_quick": 600, "n_thorough": 40000}],
        "rule": "corpus (F4 witnesses, the six unit tests) first; then EVERY history over tags 1..n in which "
                "each tag is confirmed exactly once (single, or multiple at an unconfirmed tag), every "
                "ack/nack choice, n<=4 quick / n<=6 thorough (388,610 at n=6), the n<=3 space again with "
                "random early iterator drops; then seeded random histories meeting the theorem's "
                "hypothesis (no tag singly confirmed twice; stale and repeated multiples allowed; starting "
                "tags 1, small, random, 2^64-41) with random drops, and arbitrary (duplicate / stale) "
                "histories for the safety half. non-trivial = at least two raw confirmations and at least "
                "one output; distinct = distinct (start, history, drops, observed outputs).",
        "explanation": "Theorems C14_exact / C14_safety / C14_drop / C14_no_overflow over the model of "
                       "Iter::next and the Drop loop, for all starting tags and all histories; the real "
                       "ConfirmSmoother (public API) is run on every case and its outputs must equal the "
                       "model's (bad_model) and satisfy the first-cover spec directly (bad_oracle).",
        "trusted_base": ["std HashMap behaves as a finite map (modelled as an association list)"],
        "assumptions": ["tags below u64::MAX (C14_no_overflow shows `expected += 1` then cannot overflow)"],
    },
}
PROPS["C10"] = {
    "check_mods": ["C10"],
    "model_out": "model_out",
    "drivers": [{"name": "c10", "n_quick": 1500, "n_thorough": 60000}],
    "rule": "corpus (witnesses of F1 id 0, F2 counter at 65535, F3 re-opened freed id; the unit tests) "
            "first; then EVERY sequence over {open(None), open(Some 0..max+1), close 1..max} of length "
            "<= 5/4/4 for max = 1/2/3 (quick) or <= 8/6/6 (thorough); then seeded random sequences: small "
            "max (1..6, so exhaustion and reuse are frequent) and max in {65535, 65534, 1000} with the "
            "never-used counter driven to the top by failing registrations (run-length encoded), "
            "boundary ids, failing registrations, drain as last op. non-trivial = at least two ops and "
            "at least one successful open; distinct = distinct (max, ops, observed results).",
    "explanation": "C10_step / C10_run: the ChannelSlots model refines the set-of-open-ids spec for all "
                   "channel_max <= 65535 and all op sequences; C10_counter: the u32 counter cannot "
                   "overflow. The real ChannelSlots<()> is driven through the cfg-guarded SlotsProbe; "
                   "results must equal the model's and, independently, be allowed by the spec (any free "
                   "id accepted).",
    "trusted_base": ["std HashMap / indexmap IndexSet behave as finite map / insertion-ordered set",
                     "make_entry (mio registration) does not fail: with failing registrations only the "
                     "correspondence is checked, the completeness clause is waived"],
    "assumptions": ["allocation request/response plumbing (Inner::allocate_channel, IoLoopHandle0) is "
                    "covered by the core and end-to-end drivers, not by this one"],
}
PROPS["C15"] = {
    "check_mods": ["C15"],
    "model_out": "model_out",
    "drivers": [{"name": "c15", "n_quick": 4000, "n_thorough": 300000}],
    "rule": "every pair from an 18-value (u16) / 19-value (u32) boundary set for each field (0, 1, "
            "4095/4096/4097, powers of two, maxima ...) with the other fields fixed, then seeded random "
            "sextuples (2/3 boundary values). Every case is non-trivial (a full negotiation); distinct = "
            "distinct sextuple.",
    "explanation": "C15_negotiation / C15_floor over all 2^96 inputs by lia (no enumeration); "
                   "C15_frame_min pins the regenerated constant. The real make_tune_ok is called through "
                   "the cfg-guarded facade; results must equal the model's and satisfy the documented "
                   "negotiation computed independently with the literal 4096.",
    "trusted_base": [],
    "assumptions": ["the plumbing from TuneOk to channel table, frame splitter and heartbeat timers is "
                    "checked by C10 / C02 / C17 and by the end-to-end driver"],
}
PROPS["C06"] = {
    "check_mods": ["C06"],
    "model_out": "model_out",
    "drivers": [{"name": "c06", "n_quick": 1500, "n_thorough": 40000}],
    "rule": "streams of real frames encoded by amq-protocol (heartbeat, method frames of several classes, "
            "content headers with random 64-bit sizes, bodies 0..60 bytes and around / beyond the 4096-byte "
            "read quantum): every single cut position of 3-frame streams (every pair of cuts in thorough), "
            "byte-at-a-time delivery, random cuts incl. cuts directed at frame boundaries and at header "
            "bytes 6/7/8, would-block after a cut with p=0.6, ending in would-block / EOF / reset; "
            "malformed variants (bad type, bad end byte, size field +-1, unparsable payload, garbage "
            "inserted, truncated stream). non-trivial = at least one frame handed on and a script of >= 3 "
            "items; distinct = distinct (script, observations).",
    "explanation": "C06_episode / C06_malformed / C06_eof / C06_terminates: for every script of reads "
                   "(any chunk sizes, would-block anywhere) the frames handed on are exactly the greedy "
                   "split of the bytes delivered so far. The real FrameBuffer is run over a scripted Read; "
                   "per episode the frames handed on (index, length, adler32 of the re-encoded frame) and "
                   "the result must equal the model's and the oracle computed from the whole stream and "
                   "the cut points only.",
    "trusted_base": ["amq-protocol's parse_frame (payload parser) enters the model as the oracle "
                     "'the i-th complete frame parses'; input_buffer's BytesMut handling (chunks <= "
                     "MIN_READ are accepted whole: measured as truncated_reads = 0)"],
    "assumptions": ["a read returns at most MIN_READ bytes in the correspondence; the theorems allow any size"],
}


CORE_TRUSTED = [
    "std HashMap iteration order is unspecified: the model iterates slots by ascending id; the one place "
    "where the order is observable (a connection-close notification failing midway with >= 2 open slots) "
    "is compared only up to 'both sides fail'",
    "crossbeam-channel / mio-extras channels behave as FIFO queues with the stated capacity and "
    "disconnect semantics (model: Model/Core.v queue / try_send)",
    "amq-protocol (de)serialisation of method payloads: both ends of the harness use it; the frames "
    "the thread itself emits are compared byte for byte with the model's own rendering",
]
PROPS["C03"] = {
    "check_mods": ["C03"],
    "model_out": "model_out",
    "drivers": [{"name": "c03", "n_quick": 480, "n_thorough": 16000}],
    "rule": "valid server histories on the real Inner/ConnectionState (CoreProbe): 1-4 channels, 0-3 "
            "consumers each, return listeners, 0-4 messages per channel (deliveries, returns, get answers; "
            "bodies 0, 1, 2-300, 4088/4096/5000/20000 bytes), every message rendered with a random partition "
            "(1-byte parts, empty parts, whole body), channels interleaved at frame granularity with "
            "heartbeats and harmless methods in between, fed directly or as read episodes through the real "
            "FrameBuffer with random cuts and write activity in the same event. non-trivial = at least 4 "
            "operations and at least one item received; distinct = distinct case term.",
    "explanation": "C03_roundtrip / C03_not_early / C03_sequence (collector, every partition, every "
                   "length), C03_deliver (thread-level dispatch to exactly the consumer's queue), "
                   "C03_frame_lemma (other channels untouched). Correspondence: the real thread state is "
                   "driven op by op; every observation (outcome, out-buffer digest, open ids, every item "
                   "received on every queue) must equal the model's; the oracle - the compliant reading of "
                   "the frames fed, written independently of the model - demands per queue EXACTLY the "
                   "messages addressed to it, in order.",
    "trusted_base": CORE_TRUSTED,
    "assumptions": ["'delays nobody': consumer queues are unbounded and sends never block in the model; "
                    "wall-clock latency is not modelled"],
}
PROPS["C07"] = {
    "check_mods": ["C07"],
    "model_out": "model_out",
    "drivers": [{"name": "c07", "n_quick": 600, "n_thorough": 20000}],
    "rule": "arbitrary frame sequences over the whole dispatch alphabet (every arm of process: 19 method "
            "groups incl. 13 generic replies, 6 unimplemented, 19 client-only methods, 5 other connection "
            "methods; headers with sizes 0,1,2,5,6,2^31,2^63-1,2^63,2^64-1,10^14; bodies; heartbeats on any "
            "channel; protocol header) on channel 0 / open / not-open channels, in random collector states, "
            "with consumers, truncated and overrun content, fed directly or as read episodes; plus a third "
            "of general steady-state mixes (client sends, allocations, listeners, drops). non-trivial = at "
            "least 4 operations and one item received; distinct = distinct case term.",
    "explanation": "C07_no_panic (every frame sequence, invariant WFs established by C07_init), C07_sound "
                   "(collector output = compliant reading, every sequence), C07_overrun, "
                   "C07_out_of_sequence, C07_exception_* (hard-error Close, sealed, frames ignored). "
                   "Correspondence as for C03; oracle: no panic, per-queue messages are a subsequence of the "
                   "compliant reading, consumer queues keep their shape, frame errors are the documented "
                   "ones, in ClientException the out-buffer is sealed and ends with Connection.Close "
                   "carrying the code that matches the offending frame.",
    "trusted_base": CORE_TRUSTED,
    "assumptions": ["memory: the capped pre-allocation of the repaired collector (F5) is not modelled as an "
                    "allocation size; the real code runs on every size in the list above"],
}


def core_prop(pid, driver, nq, nt, rule, explanation, assumptions):
    PROPS[pid] = {
        "check_mods": [pid],
        "model_out": "model_out",
        "drivers": [{"name": driver, "n_quick": nq, "n_thorough": nt}],
        "rule": rule + " non-trivial = at least 4 operations and at least one item received by a client; "
                       "distinct = distinct case term.",
        "explanation": explanation,
        "trusted_base": CORE_TRUSTED,
        "assumptions": assumptions,
    }

core_prop("C04", "c04core", 480, 16000,
    "2-5 channels; 4-30 reply-class frames (all 13 -Ok kinds with random fields, ConsumeOk, CancelOk, "
    "GetEmpty) on random channels, at most two outstanding per channel (the reply queue's capacity), fed "
    "directly or as read episodes with random cuts; the callers take their replies at random moments.",
    "C04_routing / C04_bogus / C04_other_channels. Correspondence on the real Inner/ConnectionState and "
    "the real handles' reply queues; oracle: per reply queue, EXACTLY the reply-class frames of its channel, "
    "unchanged, in order.",
    ["this check covers the I/O-thread side (routing); the handle side (call = send, then take the next "
     "item of the own reply queue, type-check) is exercised end to end by the C12 / C02 drivers"])
core_prop("C05", "c05core", 480, 16000,
    "steady state with 0-3 channels, consumers, listeners, traffic, content half received, a request still "
    "in a mailbox; then one fatal input: EOF / read error / unparsable frame at the end of a read that "
    "carries a content prefix, a write error (after 0 or 1 bytes), server Connection.Close, a client "
    "exception, a frame for a channel that is not open; then the thread state is dropped and every queue "
    "is received from until it reports disconnection.",
    "C05_fatal_* (error mapping), C05_final_results, C05_releases_slots / C05_releases_ch0 (teardown "
    "disconnects every queue). Oracle: the outcome names the injected failure; after teardown the last "
    "receive on every queue the case ever created is Disconnected; no panic.",
    ["bounded time, thread join and transport release are runtime behaviour (not in this check)",
     "missed heartbeats: the timer wheel is not driven by this driver (C17 covers the arithmetic)"])
core_prop("C08", "c08core", 480, 16000,
    "0-4 channels with consumers and traffic, data queued behind a stalled transport, then a close from "
    "either side: client (racing requests before and after the close point, frames still arriving, "
    "CloseOk alone or with EOF in the same read) or server (any code / text, frames after the Close in "
    "the same read, requests submitted afterwards), flushing with short writes, is_connection_done "
    "sampled throughout.",
    "C08_client_close / C08_sealed_drops / C08_server_close / C08_done / C08_close_ok_then_anything / "
    "C08_write_conserves. Oracle: once sealed, bytes written + bytes buffered never changes again; the "
    "sealed buffer ends with the Close the client submitted (or CloseOk); is_connection_done is true "
    "exactly when nothing is left to write; on CloseOk (with or without EOF behind it) the outcome is Ok, "
    "the connection's reply queue ends with CloseOk, every channel's with ClientClosedConnection, every "
    "consumer's with ClientClosedConnection; on server close the same with the server's code and text.",
    ["Connection::close's own return value (join of the thread) is observed end to end by the handshake "
     "driver, not here"])
core_prop("C09", "c09", 480, 16000,
    "2-4 channels with consumers; the victim idle / with a request in its mailbox (handled or still "
    "pending) / with content half received; the server's Channel.Close(code, text) arrives in a read "
    "together with replies for other channels before and after it; then a stale wake-up for the victim, "
    "calls on the old handle, replies on the others, a late CloseOk from the server, and an explicit "
    "re-open of the id.",
    "C09_effect / C09_isolation / C09_reusable / C09_stale_wakeup. Oracle: no error anywhere; bytes "
    "written + buffered grow by exactly the 12 bytes of Channel.CloseOk(n) and the buffer ends with that "
    "frame; the victim's reply queue ends with ServerClosedChannel(n, code, text) and is disconnected, its "
    "consumers end with the same; every other channel's reply queue carries exactly its replies; a later "
    "open of id n is granted.",
    [])
core_prop("C11", "c11", 480, 16000,
    "1-3 channels, consumers with case-unique tags; histories of deliveries, client cancel (request, "
    "deliveries in between, CancelOk), server cancel (nowait or not, possibly followed by the client's "
    "own cancel and its CancelOk), channel close from either side, connection close from either side, in "
    "random order; every queue is read to disconnection.",
    "C11_client_cancel / C11_server_cancel / C11_nothing_after / C11_deliveries_in_order. Oracle (from the "
    "frames alone): each consumer queue carried exactly the deliveries addressed to its tag up to its "
    "terminal event, in order, then exactly the terminal message that event calls for (with the server's "
    "code and text where there is one), then disconnection.",
    ["Consumer::cancel idempotence and cancel-on-drop live in src/consumer.rs and are exercised by the "
     "API-level driver (C12), not here"])
core_prop("C13", "c13", 480, 16000,
    "1-3 channels; acks / nacks (tags, multiple flags), returned messages (bodies 0-100 bytes), blocked / "
    "unblocked notices, interleaved with listener registration, replacement, clearing and receiver drops "
    "at every point.",
    "C13_confirm_forwarded / C13_confirm_discarded / C13_dropped_listener / C13_replaced / "
    "C13_blocked_forwarded. Oracle (its own bookkeeping of who is the current listener, from the "
    "operations alone): every listener queue carried exactly the events sent while it was current, "
    "verbatim and in order; a replaced listener's queue is disconnected; no error, no panic.",
    ["'registered before a publish': registration and publish travel through the same FIFO mailbox "
     "(Model/Core.chan_readable handles it in order); the client-side ordering is Rust program order"])
core_prop("C20", "c20", 480, 16000,
    "1-3 channels; a batch of 2-5 events drawn from {server Connection.Close, server Channel.Close, a frame "
    "that raises a client exception, allocation request, set-blocked request, channel-0 mailbox (client "
    "close), mailbox of the affected channel, mailbox of another channel} in every order, all made pending "
    "before the first is handled; then is_connection_done, flushing, teardown.",
    "C20_no_panic (every batch), C20_serial (a batch is its events handled one after another), C20_stale. "
    "The correspondence compares every observation with the model, which handles a batch serially by "
    "construction; oracle: no panic, no failed assertion, only benign errors, ServerClosing from the "
    "moment the server's close was processed, done exactly when flushed.",
    ["mio puts the events of one poll into one batch in an order the harness cannot force on the real "
     "poll; the probe calls the real handle_steady_event with hand-made events in the order wanted"])


L2_TRUSTED = [
    "the mock transport of /verif/harness/src/l2.rs (a mio::Registration-backed IoStream) and the scripted "
    "broker stand for a TCP socket and a server: the real Connection, its I/O thread and mio::Poll run "
    "unmodified on top of them",
    "amq-protocol (de)serialisation of method and header payloads: both ends use it; frame envelopes are "
    "split by the harness's own splitter",
]
PROPS["C02"] = {
    "check_mods": ["C02"],
    "model_out": "model_out",
    "drivers": [{"name": "c02", "n_quick": 250, "n_thorough": 6000, "timeout": 3000}],
    "rule": "real Channel::basic_publish / Exchange::publish on 1-3 channels of a real connection over the mock "
            "transport, publishes of the channels interleaved; negotiated frame_max from {4096, 4097, 4100, "
            "5000, 8192 (thorough: 16384, 65536, 131072)} reached from either side's setting; for each a sweep "
            "of body lengths k*limit-1, k*limit, k*limit+1 (k = 0..3), then random lengths (0, 1, limit-1, "
            "multiples and neighbours, 2-600), all four flag combinations, 4 property sets, exchange / "
            "routing key from empty to 255 bytes. Bodies are generated by a formula shared with Coq. "
            "non-trivial = at least one publish; distinct = distinct case term (one case = one channel's "
            "publishes and the frames the broker saw on it).",
    "explanation": "C02_concat / C02_sizes / C02_full / C02_empty / C02_count / C02_frame_size / "
                   "C02_publish for every body and every admissible frame_max. The frames the broker "
                   "decodes per channel must equal the model's, and - independently of the splitter model - "
                   "satisfy the property text: method fields, header size and properties, body frames "
                   "non-empty, within frame_max including 8 bytes, each one's checksum that of the next "
                   "bytes of the body, nothing else in between, publishes in order.",
    "trusted_base": L2_TRUSTED,
    "assumptions": ["method and header frames are not limited by frame_max in the code; the property "
                    "constrains body frames only"],
}


PROPS["C16"] = {
    "check_mods": ["C16"],
    "model_out": "model_agrees",
    "drivers": [{"name": "c16", "n_quick": 400, "n_thorough": 6000, "timeout": 3000}],
    "rule": "L1: the real HandshakeState::process through the HandshakeProbe on EVERY frame sequence of length "
            "<= 3 (thorough: 4) over a 12-symbol handshake alphabet {Start ok / wrong mechanism / wrong locale, "
            "Secure, Tune unlimited / too small / ok, OpenOk, Close, heartbeat, two out-of-place frames} "
            "(sequences whose first frame already fails are thinned 1:6), plus random sequences with random "
            "options; per frame: error, state, frames queued, seal flag, heartbeat timer intervals. L2: the "
            "real Connection::insecure_open_stream against a scripted broker: random option sets (PLAIN / "
            "EXTERNAL, users, locale, vhost, information, limits, 250 ms timeout or none) x random server "
            "scripts of read episodes (frames cut anywhere, several frames per read, ending in would-block, "
            "EOF or reset in the SAME read, garbage) and silences; outcome, the frames actually written, the "
            "server properties exposed, the StartOk client properties. non-trivial = at least two frames / "
            "one event; distinct = distinct case term.",
    "explanation": "C16_connected_only_after_exchange / C16_sent_prefix / C16_err_* / C16_no_hang_with_timeout / "
                   "C16_hang_means_silence / C16_heartbeat_as_announced, all for every server behaviour. "
                   "C16_process_source_is_model: HandshakeState::process as translated from the source text on "
                   "every run (Gen/SrcHandshake.v, tools/rs2sm.py) is the model's hprocess for every state and "
                   "frame - state, methods pushed in order, seal, heartbeat start, error. "
                   "Both layers must equal the model; the oracle - a staged reading of what the server did, "
                   "written from the property text with the documented negotiation spelled out - must give "
                   "the same outcome and the same frames on the wire.",
    "trusted_base": L2_TRUSTED + ["ConnectionTimeout is real time: 250 ms timeouts, the broker waits up to 900 ms"],
    "assumptions": ["writes during the handshake are accepted by the transport (the broker's mock does); "
                    "write failures are covered by C05's mapping"],
}
PROPS["C15"]["check_mods"] = ["C15", "C16"]
PROPS["C15"]["drivers"] = PROPS["C15"]["drivers"] + [{"name": "c16", "n_quick": 150, "n_thorough": 2000, "timeout": 3000}]
PROPS["C15"]["rule"] += (" Second driver (c16): the handshake itself - the TuneOk actually sent and the interval the "
                         "heartbeat timers are started with (HandshakeProbe), end to end the frames on the wire.")
PROPS["C15"]["explanation"] += (" 'Then obeyed': C16_heartbeat_as_announced (timers run with the announced interval), "
                                "C02_frame_size (body frames within the announced frame_max), C10 (no id above "
                                "channel_max); the c16 driver compares the timers' intervals and the TuneOk on "
                                "the wire with the model.")


PROPS["C12"] = {
    "check_mods": ["C12"],
    "model_out": "model_out",
    "drivers": [{"name": "c12", "n_quick": 900, "n_thorough": 30000, "timeout": 3000}],
    "rule": "every public entry point of Channel / Queue / Exchange / Consumer / Delivery / Get (30 operation "
            "families, through the channel and through the wrapper objects, sync / nowait / passive variants) "
            "called on a real connection, round robin, with every boolean option random, names of 0-250 bytes "
            "incl. UTF-8 and spaces, source / destination / queue / exchange always distinct, three argument "
            "tables (empty, one entry, nested), numeric extremes; settle operations through all three holders "
            "and in a quarter of the cases through the wrong channel; cancel, cancel twice, cancel by drop. "
            "The methods on the wire are decoded by the harness's own field decoder (amq-protocol's "
            "server-side parser is not used). Every case is non-trivial; distinct = distinct case term.",
    "explanation": "C12_emit_describes (the table the code implements = the documentation table, all "
                   "arguments), C12_nowait_iff, C12_passive_iff, C12_bind_direction, C12_wrong_channel. "
                   "What the broker sees on the operation's channel must equal the model's emission and, "
                   "independently, the documentation table's; nothing may appear on another channel; a "
                   "wrong-channel settle must panic having sent nothing.",
    "trusted_base": L2_TRUSTED + ["amq-protocol's generator for the client's methods (the decoder is the harness's own); "
                                  "argument tables are compared as the bytes amq-protocol generates for the pool tables"],
    "assumptions": ["Basic.Publish is C02's; Connection.Close / Channel.Open are observed by C08 / C10 / C16"],
}


PROPS["C19"] = {
    "check_mods": ["C19"],
    "model_out": "model_out",
    "drivers": [{"name": "c19", "n_quick": 3000, "n_thorough": 200000, "timeout": 3000}],
    "rule": "URLs ASSEMBLED from components: scheme (amqp, amqps, two others), user / password absent or text "
            "over an alphabet of characters that need encoding (@ : / ? # % space + & = UTF-8, literal %41), "
            "6 host forms incl. absent and IPv6, 5 ports or none, virtual host absent / empty / text, an extra "
            "path segment in 1 of 12, 0-4 query pairs from {heartbeat, channel_max, connection_timeout with "
            "numbers at the u16 / u64 edges, '+', leading zeros, empty, junk; auth_mechanism external / "
            "other; unknown keys; a percent-escaped key}, repeated keys. The real `url` crate splits the URL "
            "(its view is what the model gets), verif::decode_url interprets it, and the real secure-only "
            "Connection::open is called for every amqp:// URL. Every case is non-trivial; distinct = distinct URL.",
    "explanation": "C19_* (percent round trip, first error, last occurrence, EXTERNAL precedence, defaults, "
                   "secure gate). The decoded parameters must equal the model's; the oracle compares them "
                   "with what the generator MEANT (the components before encoding) and with the property's "
                   "clauses computed independently (last occurrence, Rust-style integer syntax, defaults); "
                   "Connection::open on amqp:// must answer InsecureUrl (or the URL's own error) and never "
                   "attempt a connection.",
    "trusted_base": ["the `url` crate's splitting and normalisation (dot segments, empty user info), "
                     "percent-encoding crate, str::parse, decode_utf8_lossy (texts are valid UTF-8)"],
    "assumptions": ["a virtual host named '.' or '..' cannot be spelled in a URL: the URL standard removes dot "
                    "segments even when percent-encoded (not generated; DESIGN.md)"],
}


PROPS["C17"] = {
    "check_mods": ["C17"],
    "model_out": "model_agrees",
    "drivers": [{"name": "c17", "n_quick": 1500, "n_thorough": 60000, "timeout": 3000}],
    "rule": "L1: the real Heartbeat::fire asked about (interval, elapsed) pairs through the verif_backdate hook: 13 "
            "intervals x 12 offsets around interval - 5 ms (never closer than 3 ms to the boundary: the clock "
            "moves while the call runs) and random pairs; the real start_heartbeats for 7 values of h incl. 0 "
            "and 65535. L2, real time with h = 1 s (the smallest AMQP can express), five scenarios at once over "
            "the mock transport: idle client kept alive by the broker (gaps between its writes); silent broker "
            "(time and kind of the failure); broker sending a heartbeat every 0.9 s for 4.6 s; broker trickling "
            "single bytes of a frame that never completes every 0.7 s for 4.3 s (any inbound traffic counts); "
            "h = 0 for 2.6 s. A timing miss is retried twice before it counts. Every case is non-trivial; "
            "distinct = distinct case term.",
    "explanation": "C17_not_early / C17_prompt / C17_armed_* / C17_live_server / C17_idle_send / C17_zero / "
                   "C17_intervals over the abstract clock, for every trace. L1 must equal the model; the "
                   "real-time scenarios are judged against the model's numbers with 700 ms slack: gaps in "
                   "[h - slack, h + slack], failure in [2h - 50 ms, 2h + 2 slack] with kind "
                   "MissedServerHeartbeats, no failure for a live or trickling server, nothing at all for h = 0.",
    "trusted_base": L2_TRUSTED + ["real clocks, the mio-extras timer wheel and thread wake-up latency: sampled with slack, not modelled"],
    "assumptions": ["'at least once per h seconds' holds up to the timer latency delta (C17_prompt's delta)"],
}


PROPS["C17"]["rule"] += (" One pass of the real process_heartbeat_timers over real timers (heartbeat_pass probe): "
    "intervals of 400 / 600 ms, the thread away for 1.5 h / 2.5 h / 3.4 h (several entries due at once), with and "
    "without output pending. SilentBusy (real time, h = 1 s): output queued behind a stalled transport, the "
    "server's last byte at 0.45 s, the I/O thread kept busy 2.2 - 2.6 s so that the tx and the rx timer are due in "
    "one pass.")
PROPS["C17"]["explanation"] += (" C17_missed_not_masked / C17_pass_ok (the loop over the timer). HbPass cases: "
    "what the pass reported and what it left in the out-buffer must equal Model.Core.heartbeat_timers on the entries "
    "due; oracle: 2h of silence is reported in the pass that finds it, less is not.")
PROPS["C06"]["check_mods"].append("C06core")
PROPS["C06"]["drivers"].append({"name": "c06core", "n_quick": 48, "n_thorough": 640, "timeout": 3000})
PROPS["C06"]["rule"] += (" At the level of the I/O thread (c06core: real handle_steady_event -> Inner::read_from_stream -> "
    "FrameBuffer through the CoreProbe): 12-70 deliveries with bodies of 0 / 1 / 700 / 3000 / 4088 / 5000 bytes for one "
    "consumer arrive in ONE readiness episode (tens to hundreds of KiB before the socket would block), or the same "
    "frames in two episodes, or with the server's Connection.Close right behind them; then the consumer's queue is "
    "read out.")
PROPS["C06"]["explanation"] += (" c06core: every observation equals the Core model's (which processes every frame of an "
    "episode) and, independently: an episode that ends with would-block reports no transport failure, and when "
    "nothing failed the consumer received exactly as many deliveries as were sent (and the messages that were sent, in order).")
PROPS["C06"]["trusted_base"] = PROPS["C06"]["trusted_base"] + CORE_TRUSTED
PROPS["C10"]["check_mods"].append("CoreMix")
PROPS["C10"]["check_mods"].append("C10core")
PROPS["C10"]["drivers"].append({"name": "c10core", "n_quick": 160, "n_thorough": 8000, "timeout": 3000})
PROPS["C10"]["rule"] += (" At the level of the I/O thread (c10core, CoreProbe): channel_max from {65535, 65534, 4, 2}; "
    "explicit ids from {0, 1, 2, 255, 256, 32767, 32768, 65534, 65535, max-1, max, max+1} and automatic ones are "
    "opened through the real allocation request / event / reply path, used like any other id (requests into the "
    "mailbox, the channel's wake-up token, replies from the server), closed by the server and opened again.")
PROPS["C10"]["explanation"] += (" c10core: every observation equals the Core model's; nothing panics (an id is also a "
    "poll token: the dispatch must accept every id up to 65535: C10_token_dispatch / C10_tokens_injective over the constants "
    "of the compiled crate; oracle taken_ok: a request accepted by a channel's mailbox is handed to the out-buffer by "
    "that channel's next wake-up, whatever the id).")
PROPS["C10"]["trusted_base"] = PROPS["C10"]["trusted_base"] + CORE_TRUSTED
for _p in ("C11", "C09"):
    PROPS[_p]["check_mods"].append("C11l2")
    PROPS[_p]["drivers"].append({"name": "c11l2", "n_quick": 30, "n_thorough": 600, "timeout": 3000})
    PROPS[_p]["rule"] += (" End to end (c11l2): a real connection, consumers A and B on channel 1 and C on channel 2 "
        "from the public API, 0-3 deliveries each; A is dropped (Drop cancels it) / cancelled, read to its terminal "
        "message and dropped / cancelled twice and dropped / dropped while the server answers its Cancel with "
        "Connection.Close / with Channel.Close of channel 1 - in half of the scenarios with the I/O thread slow (4 ms, "
        "scheduling point 2) between notifying consumers and releasing the blocked caller; then the bystanders get "
        "one more delivery where they still can, both channels are tried, the connection is closed and every queue is "
        "drained to disconnection.")
    PROPS[_p]["explanation"] += (" c11l2 oracle: exactly one Basic.Cancel for A; B and C yield their deliveries in "
        "order, then exactly one terminal message naming the true cause (ClientClosedConnection; "
        "ServerClosedConnection; ServerClosedChannel for B only), then disconnection; a server close of channel 1 "
        "leaves channel 2 and the connection usable; close() returns Ok, or ServerClosedConnection(320) when the "
        "server closed.")
    PROPS[_p]["trusted_base"] = PROPS[_p]["trusted_base"] + L2_TRUSTED
PROPS["C11"]["explanation"] += (" C11_notice_before_release / C11_released_after_notice / C11_answer_first_refuted: "
    "the two-thread small-step model of the one non-atomic handler step (Model/CancelRace.v).")
PROPS["C13"]["check_mods"].append("C13l2")
PROPS["C13"]["drivers"].append({"name": "c13l2", "n_quick": 12, "n_thorough": 240, "timeout": 3000})
PROPS["C13"]["rule"] += (" End to end (c13l2): a real connection; the listener comes from the public API "
    "(listen_for_publisher_confirms / listen_for_returns / listen_for_connection_blocked); the broker pushes 1, 7, "
    "300, 1500, 4097 or 4300 notices (acks / nacks with sequential or random tags and multiple flags; returns with "
    "bodies in one or two frames; blocked / unblocked) before the client reads anything; then the receiver is "
    "drained and a synchronous call must still work.")
PROPS["C13"]["explanation"] += (" c13l2: the items the public receiver yields must equal what the Core model's "
    "listener queue accepted for the same frames (model) and, independently, the notices the frames denote, "
    "in order, none missing (oracle) - at any backlog length.")
PROPS["C13"]["trusted_base"] = CORE_TRUSTED + L2_TRUSTED

PROPS["C01"] = {
    "check_mods": ["C01", "C01core", "C18loop"],
    "model_out": "model_out",
    "drivers": [{"name": "c01", "n_quick": 160, "n_thorough": 6000, "timeout": 3000},
                {"name": "c01core", "n_quick": 400, "n_thorough": 16000},
                {"name": "c18loop", "n_quick": 120, "n_thorough": 6000, "timeout": 3000}],
    "rule": "end to end (c01): a real connection over the mock transport whose write() follows a random script "
            "of 50-4000 steps {would-block, 1-7 bytes, 8-300 bytes, up to 6000 bytes} from the very first "
            "byte (the protocol header included), writable re-signalled every 0.3 ms; 1-3 client threads each "
            "owning 1-2 channels issue 3-25 operations (nowait declares, purge, ack_all, publishes with "
            "bodies 0 / limit / limit+1 / 2 limit+5 / 1-900 bytes at frame_max 4096), each logging the "
            "frames it issued; then Connection::close. The wire is split by the harness's own envelope "
            "splitter. Thread level (c01core): 1-4 channels, whole buffers into the mailboxes, channel "
            "events in any order, writes in pieces of 1 .. all bytes blocking anywhere. Under backpressure "
            "(c18loop, see C18): the real run_io_loop with small water marks, stalls and partial writes; whatever "
            "the publishers' sends were accepted must be on the wire once, whole, per channel in order, after the "
            "run has drained, and the socket's interest after every loop tail must be the model's. non-trivial = "
            "every scenario; distinct = distinct case term.",
    "explanation": "C01_write_conserves / C01_trace_conserves / C01_whole_frames / C01_mailbox_fifo / "
                   "C01_write_interest. End to end: exactly the 8-byte header, then whole frames only with "
                   "nothing left over, every channel's frames exactly those its owner issued, in issue "
                   "order, none lost or duplicated, and the run finishes (no data left with nobody to wake "
                   "the thread: a hang is reported). Thread level: every step equals the model; bytes "
                   "written + buffered = bytes taken from the mailboxes at every step.",
    "trusted_base": L2_TRUSTED + CORE_TRUSTED + ["std mpsc / mio-extras channels hand buffers over atomically and in FIFO order"],
    "assumptions": ["thread interleavings are those the OS scheduler produced in this run (1-3 threads, 8 "
                    "scenarios at a time on 16 cores); the theorems cover every order of whole-buffer hand-overs",
                    "io::Write::write returns 1 <= n <= len on success (a transport returning Ok(0) forever "
                    "would spin the write loop)"],
}


PROPS["C18"] = {
    "check_mods": ["C18", "C18loop"],
    "model_out": "model_out",
    "drivers": [{"name": "c18loop", "n_quick": 240, "n_thorough": 12000, "timeout": 3000},
                {"name": "c18", "n_quick": 12, "n_thorough": 400, "timeout": 3000}],
    "rule": "c18loop: the REAL run_io_loop (real mio Poll, real mio-extras channels, real handle_steady_event, "
            "real throttle tail) run on the harness thread through the LoopProbe; a callback plays 1-4 publishing "
            "channels (bursts beyond the mailbox bound, channels opened while throttled, a handle dropped) and the "
            "transport (stalls of 1-6 batches, partial writes); a quarter of the scenarios are built around 'a "
            "channel stops at the mark, the socket takes the data in the same batch, another channel's event follows'; "
            "bound from {1,2,4}, high from {100,300,1000}, low from {0, high/2, high}; every micro-step (send, poll, "
            "channel event, write, allocation, tail) is recorded in the order it happened with what was observed "
            "(accepted?, tokens reported, buffer length, channels_need_repoll, throttle action, socket interest) and "
            "the Coq model (Model/Wake.v + Model/Loop.v) must reproduce every observation; then the run drains and the "
            "wire must hold every accepted message once, per channel in order. Non-trivial = the run throttled or "
            "re-armed at least once. c18, end to end: a real connection with tuning from {bound 1, 2, 16} x {high 1000, 8000, 50000} x {low 0, "
            "high/2}; 1-3 publisher threads, each with its own channel and 2500 publishes of 200 bytes to make; "
            "the transport accepts nothing until every publish counter has stood still for 120 ms (4 s at most), in a third of the "
            "scenarios a channel is opened and used while throttled; then the transport reopens, everybody must "
            "finish, the connection is closed and the wire is split by the harness's own splitter. Afterwards, "
            "alone: the adversarial schedule of the repaired finding drain-overshoot (scheduling-point hook: I/O thread "
            "slow inside its drain loop) and mem_channel_bound = 0. Every scenario is non-trivial; distinct = distinct case term.",
    "explanation": "C18_wake_invariant (no wake-up is lost, any interleaving), C18_tail_leaves_wakeups / "
                   "C18_next_poll_reports / C18_resume_rearms / C18_throttled_has_data (every blocked publisher "
                   "is served again), C18_event_bounded / C18_out_bounded / C18_backlog_bounded (buffering bounded "
                   "by high-water mark + max(1, bound) messages per channel + one message), C18_drain_in_order; "
                   "C18_throttle_spec / C18_resumes_at_low / C18_stays_throttled / C18_throttles_above_high "
                   "(the hysteresis of the loop tail) and C01_write_interest / C01_mailbox_fifo / "
                   "C01_trace_conserves (nothing lost or reordered across throttling). Oracle: every publisher "
                   "stood still during the last part of the stall although it had plenty left; everybody "
                   "finished after the transport reopened; the wire is the header plus whole frames with every "
                   "channel's publishes exactly once and in order. The bytes accepted during the stall are "
                   "compared with high + channels x (bound + 2) x message.",
    "trusted_base": L2_TRUSTED + ["blocking of a sender inside std's sync_channel, mio-extras readiness of its channels, "
                                  "mio edge-triggered (re)registration: library behaviour, sampled not modelled",
                                  "Model/Wake.v contains a model of mio's edge-triggered user-space registrations and of "
                                  "mio-extras' channel readiness (count of pending items, sender drop = one more item): "
                                  "library behaviour, not proved, but compared step by step with the real libraries by c18loop",
                                  "the LoopProbe registers channel 0's three sources and the socket as IoLoop::start / "
                                  "thread_main do (copied lines), starts from Steady with an empty buffer, and its socket is "
                                  "a user-space registration kicked before every poll"],
    "assumptions": [],
}

PROPS["C18"]["check_mods"].append("CoreMix")
PROPS["C18"]["drivers"].append({"name": "c18core", "n_quick": 240, "n_thorough": 12000, "timeout": 3000})
PROPS["C18"]["rule"] += (" c18core (CoreProbe): handle_channel_readable against marks of 0 / 12 / 13 / 30 / 100 / 400 / "
    "16 MiB changed on the way: mailboxes filled to their bound, channel wake-ups (also for slots that are gone), "
    "partial writes; after every wake-up channels_need_repoll is read; every observation must equal the Core "
    "model's (Model/Core.v chan_readable with its high-water check).")
PROPS["C18"]["trusted_base"] = PROPS["C18"]["trusted_base"] + CORE_TRUSTED

for _p in ("C05", "C04", "C08"):
    PROPS[_p]["check_mods"].append("C05l2")
    PROPS[_p]["drivers"].append({"name": "c05l2", "n_quick": 28, "n_thorough": 700, "timeout": 3000})
    PROPS[_p]["rule"] += (" End to end with threads (c05l2): a real connection, 1-3 caller threads each looping "
        "queue_declare with a fresh name on its own channel (every reply's name must be the caller's own: C04), a "
        "consumer on another channel; after 3-60 ms the connection ends: the client itself calls close() while the "
        "callers are busy (C08) / EOF / reset / unparsable bytes / every "
        "write fails / server Connection.Close(320) (the broker sends nothing after it) / silence with h = 1 s / a "
        "frame that forces a client exception; then the threads are joined under a deadline, the consumer's "
        "receiver is read to its end, close() is called (in a quarter of the scenarios the connection is dropped "
        "instead) and the transport must be released when that returns.")
    PROPS[_p]["explanation"] += (" c05l2: close() must report what the Core model ends with for that failure "
        "(term_outcome / the write path / final_result / heartbeat_timers); oracle: no thread hangs, every caller "
        "gets an error within 3 s of the failure (4.5 s for silence: 2h + slack), the consumer's queue is "
        "disconnected (after ServerClosedConnection for a server close, ClientClosedConnection for the client's own), "
        "the transport is released, no caller ever received a reply to somebody else's call, and after the client's "
        "own close() (which returns Ok) the wire is whole frames ending with its Connection.Close.")
    PROPS[_p]["trusted_base"] = PROPS[_p]["trusted_base"] + L2_TRUSTED

PROPS["C03"]["check_mods"].append("C03l2")
PROPS["C03"]["drivers"].append({"name": "c03l2", "n_quick": 24, "n_thorough": 600, "timeout": 3000})
PROPS["C03"]["rule"] += (" End to end (c03l2): a real connection, 1-2 channels with 1-2 consumers each from the "
    "public API; the broker pushes 1 / 6 / 25 / 60 deliveries with bodies of 0 / 1 / 10 / 300 / 4088 / 5000 / 20000 "
    "bytes in any partition (empty body frames included), four property sets, the channels' frames interleaved, the "
    "byte stream pushed in pieces of 1-9 / 1-200 / up to 70000 bytes; every consumer's receiver is read out.")
PROPS["C03"]["explanation"] += (" C03_source_is_model / C03_source_sequence: src/io_loop/content_collector.rs as "
    "translated from the source text on every run (Gen/SrcCollect.v, tools/rs2sm.py) is Model/Collector.v over every "
    "sequence of frames from every state, so the round-trip theorems hold of the translated code itself.")
PROPS["C03"]["explanation"] += (" c03l2: what every public receiver yielded must equal what the Core model's consumer "
    "queue accepted for the same frames (model) and what a plain reader of the frame stream assigns to that consumer, "
    "field by field, in order, nothing missing and nothing extra (oracle).")
PROPS["C03"]["trusted_base"] = PROPS["C03"]["trusted_base"] + L2_TRUSTED

PROPS["C04"]["check_mods"].append("C04h")
PROPS["C04"]["drivers"].append({"name": "c04h", "n_quick": 500, "n_thorough": 40000})
PROPS["C04"]["rule"] += (" The caller's side (c04h, HandleProbe): the real IoLoopHandle - call::<QosOk>, "
    "call::<DeclareOk>, get, consume, call_nowait - with every reply queue of length <= 2 over {QosOk, DeclareOk, "
    "GetOk(None), ConsumeOk, Err(ServerClosedChannel), Err(ClientClosedConnection)}, the I/O thread's end of the reply "
    "queue and of the mailbox each present or gone, and every sequence of <= 2 calls that cannot block; then random "
    "sequences of up to 4 calls.")
PROPS["C04"]["explanation"] += (" C04_calls_in_order / C04_call_takes_head / C04_call_returns_head / "
    "C04_verdict_reported (Model/Handle.v). c04h: results, replies left and requests handed over must equal the "
    "handle model's; oracle: an Ok call consumed exactly one reply of its own kind, in order; a mismatch is "
    "FrameUnexpected; a queued verdict is reported; an empty queue with the thread gone is EventLoopDropped.")
PROPS["C04"]["assumptions"] = [a for a in PROPS["C04"]["assumptions"] if "handle side" not in a]

# the return listener is also how C03's "returned messages" reach the caller
PROPS["C03"]["check_mods"].append("C13l2")
PROPS["C03"]["drivers"].append({"name": "c13l2", "n_quick": 12, "n_thorough": 240, "timeout": 3000})
PROPS["C13"]["rule"] += (" Two more kinds: a few confirms / returns that the server sends between the client's "
    "Channel.Close and its own CloseOk (the listener registered before must still get them). The first eight "
    "scenarios are fixed points of the space: every kind, the backlogs of 4300 / 4097 / 1500 included.")
PROPS["C03"]["rule"] += " Returned messages through listen_for_returns: the c13l2 scenarios (see C13)."

PROPS["C15"]["check_mods"].append("C15l2")
PROPS["C15"]["drivers"].append({"name": "c15l2", "n_quick": 49, "n_thorough": 600, "timeout": 3000})
PROPS["C15"]["rule"] += (" 'Then obeyed', end to end (c15l2): real connections with client channel_max and server "
    "Tune channel_max from {0, 1, 2, 3, 7, 2047, 65535} (all 49 pairs, then random ones below 13): open_channel(None) "
    "until refused (10-14 tries), then on a fresh connection open_channel(Some(max)) and open_channel(Some(max + 1)).")
PROPS["C15"]["explanation"] += (" c15l2: exactly min(tries, negotiated channel_max) channels open, the next is "
    "refused with ExhaustedChannelIds, id max is available and id max + 1 is refused with UnavailableChannelId - "
    "against make_tune_ok of the model and, independently, against the documented rule (0 = no limit, else the smaller).")
PROPS["C15"]["trusted_base"] = PROPS["C15"]["trusted_base"] + L2_TRUSTED
# 'no body frame it sends exceeds frame_max': the publish splitter is driven under C15 too (seed C15d: the
# splitter and the place the handle learns the negotiated limit disagreed by the 8 bytes of framing)
PROPS["C15"]["check_mods"].append("C02")
PROPS["C15"]["drivers"].append({"name": "c02", "n_quick": 120, "n_thorough": 3000, "timeout": 3000})
PROPS["C15"]["rule"] += (" 'Then obeyed', frame_max (c02, see C02): real publishes over real connections whose frame_max "
    "was negotiated from either side's setting, body lengths k*limit-1, k*limit, k*limit+1 and random; every body "
    "frame on the wire is within the announced frame_max including its 8 bytes of framing.")
PROPS["C15"]["explanation"] += (" c02: the frames the broker decodes equal the splitter model's for the NEGOTIATED "
    "frame_max and none exceeds it (C02_frame_size).")

# C09's "the id can be opened again": the same boundary-id / server-close / re-open mix as C10
PROPS["C09"]["check_mods"].append("CoreMix")
PROPS["C09"]["check_mods"].append("C10core")
PROPS["C09"]["drivers"].append({"name": "c10core", "n_quick": 160, "n_thorough": 8000, "timeout": 3000})
PROPS["C09"]["rule"] += (" Re-use after a server close (c10core, see C10): small and maximal channel_max, channels "
    "closed by the server, re-opened explicitly and automatically until the ids run out.")

# a publish under fragmented writes and a close right behind it: the C01 end-to-end scenarios
PROPS["C02"]["check_mods"].append("C01")
PROPS["C02"]["drivers"].append({"name": "c01", "n_quick": 80, "n_thorough": 3000, "timeout": 3000})
PROPS["C02"]["rule"] += (" Under fragmented writes (c01, see C01): publishes with bodies of 0 / limit / limit+1 / "
    "2 limit+5 / 1-900 bytes from 1-3 threads over a transport that takes 0 / 1-7 / 8-300 / up to 6000 bytes per "
    "write from the very first byte, Connection::close right behind them.")
PROPS["C02"]["explanation"] += (" C02_send_content_source_is_model: the splitting loop of ChannelHandle::send_content as "
    "translated from the source on every run (Gen/SrcSend.v) emits, for every body and limit, exactly the header and "
    "the chunks of the model the bound theorems are about.")
PROPS["C14"]["explanation"] += (" C14_process_source_is_model / C14_next_source_is_model / C14_drop_source_is_model: "
    "src/confirm.rs as translated from the source text on every run (Gen/SrcConfirm.v) is Model/Confirm.v step by step, "
    "so the history theorems hold of the translated code: C14_run_all_source_is_model states it for every valid history.")
PROPS["C02"]["explanation"] += (" c01: every channel's publish, header and body frames are on the wire exactly as "
    "issued, once, in order, whole, also when the buffer is sealed by the close while half written.")
PROPS["C02"]["trusted_base"] = PROPS["C02"]["trusted_base"] + L2_TRUSTED

# the whole system around a synchronous call (Model/Sys.v): every schedule of callers, I/O thread and server
for _p in ("C04", "C05"):
    PROPS[_p]["check_mods"].append("C04sys")
    PROPS[_p]["drivers"].append({"name": "c04sys", "n_quick": 120, "n_thorough": 6000, "timeout": 3000})
    PROPS[_p]["rule"] += (" The whole system (c04sys): one real connection, 1-5 caller threads each running a random "
        "program of 1-14 synchronous calls (queue_declare / queue_purge / queue_delete, each answered with a count) "
        "and nowait calls (publish / purge_nowait / delete_nowait) on its own channel, mailbox bound 1 / 2 / 16, the "
        "transport sometimes taking the client's bytes in pieces of 1-40 with would-blocks; the broker answers one "
        "channel's requests in order and the channels in any relative order - at once, in random batches, one reply "
        "per read episode, or only once every running channel is waiting; in a quarter of the scenarios the server goes "
        "away after a random number of requests, in a third it closes some of the channels (see C09).")
PROPS["C04"]["explanation"] += (" C04_system_own_reply / C04_system_reply_queue_never_full / "
    "C04_system_waiting_progress (Model/Sys.v: every interleaving of callers, I/O thread and server), "
    "C04_io_read_is_ARead / C04_io_drain_is_ADrain / C04_io_write_is_AWrite (the system's I/O actions are steps of the "
    "Core model). c04sys: what every call of the real program returned equals what the system model returns under a "
    "pseudo-random schedule of its own (by the theorem the schedule does not matter); oracle: nobody hung, close() = "
    "Ok, the i-th synchronous call of channel n returned answer(n, r_i), the broker saw each channel's requests "
    "exactly as issued.")
PROPS["C05"]["explanation"] += (" c04sys (nobody hangs while the server answers): every call of every caller "
    "returned whatever the order of the server's answers (C04_system_waiting_progress: no reachable state of the "
    "system is a deadlock).")
# the server closes channels of the whole system (ASrvClose of Model/Sys.v; c04sys closes them in the real program)
PROPS["C09"]["check_mods"].append("C04sys")
PROPS["C09"]["drivers"].append({"name": "c04sys", "n_quick": 120, "n_thorough": 6000, "timeout": 3000})
PROPS["C09"]["rule"] += (" The whole system (c04sys, see C04): in a third of the scenarios the broker closes some of the "
    "1-5 channels - instead of its answer to the k-th synchronous request of that channel, or right behind that "
    "answer, so that reply and verdict sit in the reply queue together -, ignores what the client still sends on "
    "them, and goes on answering the others in any order.")
PROPS["C09"]["explanation"] += (" C09_system_isolation / C09_system_closed_caller_released / C09_system_never_stuck "
    "(Model/Sys.v with the action ASrvClose: for EVERY schedule the other channels' calls return their own answers, "
    "the reply queue's capacity 2 is never exceeded, the caller of the closed channel is released; "
    "C09_system_example_capacity_one_refuted: with capacity 1 it is false). c04sys: on the closed channel the calls "
    "before the close returned their own answers, exactly the waiting (or the next synchronous) call failed, the "
    "broker saw that channel's requests as issued up to there; every other channel completed its whole program and "
    "Connection::close returned Ok; the model's server closes at the same point of each channel's history and the "
    "model's results must be the real ones.")
PROPS["C09"]["trusted_base"] = PROPS["C09"]["trusted_base"] + [t for t in L2_TRUSTED if t not in PROPS["C09"]["trusted_base"]]
PROPS["C01"]["check_mods"].append("C04sys")
PROPS["C01"]["drivers"].append({"name": "c04sys", "n_quick": 60, "n_thorough": 3000, "timeout": 3000})
PROPS["C01"]["rule"] += (" The whole system (c04sys, see C04): 1-5 caller threads with programs of synchronous and nowait "
    "calls on their own channels, mailbox bound 1 / 2 / 16, the transport taking the bytes in pieces: the broker must "
    "see each channel's requests exactly as issued, in order.")
PROPS["C01"]["explanation"] += (" C01_system_wire_order (Model/Sys.v): for every schedule of callers, I/O thread and "
    "server, what the server has read of a channel followed by what is still on its way is exactly what that "
    "channel issued, in order; c04sys compares the real program with it.")
PROPS["C01"]["trusted_base"] = PROPS["C01"]["trusted_base"] + L2_TRUSTED
# a synchronous wrapper that calls its nowait twin does not block (seed C04e): every public call, under C04 too
PROPS["C04"]["check_mods"].append("C12")
PROPS["C04"]["drivers"].append({"name": "c12", "n_quick": 400, "n_thorough": 6000, "timeout": 3000})
PROPS["C04"]["rule"] += (" Every public call (c12, see C12): the synchronous operations put the method with nowait = false "
    "on the wire and return after its reply; the nowait variants set the bit and return at once.")
PROPS["C04"]["explanation"] += (" c12: what each call emitted, read from the bytes inside Coq, is the documented method - "
    "in particular the nowait bit is set exactly in the nowait variants, so a synchronous call cannot return without a "
    "reply being owed to it.")
# a consumer that does not keep up delays nobody else (seed C11e): the backlog scenario of c11l2 under C03 too
PROPS["C03"]["check_mods"].append("C11l2")
PROPS["C03"]["drivers"].append({"name": "c11l2", "n_quick": 6, "n_thorough": 100, "timeout": 3000})
PROPS["C03"]["rule"] += (" A consumer that never drains its queue (c11l2, see C11; the first scenario always): 65536+ unread "
    "deliveries for one consumer while the others, the channels and the connection go on.")
# returns after a dropped confirm listener (seed C03f): the listener scenarios of the c13 generator under C03 too
PROPS["C03"]["check_mods"].append("C13")
PROPS["C03"]["drivers"].append({"name": "c13", "n_quick": 160, "n_thorough": 4000, "timeout": 3000})
PROPS["C03"]["rule"] += (" Returned messages at the level of the I/O thread (c13, see C13): return and confirm listeners "
    "installed, replaced and dropped, acks / nacks and returns in any order.")
# Connection::close still reports the server's close (seed C20e): the end-to-end deaths under C20 too
PROPS["C20"]["check_mods"].append("C05l2")
PROPS["C20"]["drivers"].append({"name": "c05l2", "n_quick": 28, "n_thorough": 600, "timeout": 3000})
PROPS["C20"]["rule"] += (" End to end (c05l2, see C05): a real connection with caller threads, the server's Connection.Close "
    "(and six other ways to die) landing while calls and close() are in flight; close() must report the server's close.")
PROPS["C20"]["trusted_base"] = PROPS["C20"]["trusted_base"] + L2_TRUSTED
# the frames the I/O thread writes on its own account are frames too (seed C01f): the c07 scenarios under C01
PROPS["C01"]["check_mods"].append("C07")
PROPS["C01"]["drivers"].append({"name": "c07", "n_quick": 150, "n_thorough": 4000, "timeout": 3000})
PROPS["C01"]["rule"] += (" What the I/O thread writes on its own account (c07, see C07): the Connection.Close of a client "
    "exception for offending frames whose rendering is long and non-ASCII - a well-formed method frame, whatever the text.")
# the client's own exception is one of the ways a connection dies (seed C05f: a panic while building its Close)
PROPS["C05"]["check_mods"].append("C07")
PROPS["C05"]["drivers"].append({"name": "c07", "n_quick": 150, "n_thorough": 4000, "timeout": 3000})
PROPS["C05"]["rule"] += (" The client's own exception (c07, see C07): offending frames whose rendering is long and "
    "non-ASCII - the thread must end with the exception's verdict (no panic), every queue told so.")
# the public wrapper in front of the allocator (seed C10f): open_channel / close through Connection and Channel
PROPS["C10"]["drivers"].append({"name": "c10l2", "n_quick": 60, "n_thorough": 3000, "timeout": 3000})
PROPS["C10"]["rule"] += (" Through the public API (c10l2): real connections whose channel_max (1 / 2 / 3 / 5 / 8) was negotiated "
    "with the broker; 4-24 random operations - open_channel(Some(id)) with id 0, in range, the maximum, just above it, "
    "255 / 256 / 65535, open_channel(None), Channel::close of a random open channel - judged by the same model and the "
    "same oracle as the ChannelSlots cases.")
PROPS["C10"]["trusted_base"] = PROPS["C10"]["trusted_base"] + L2_TRUSTED
# segmentation end to end: the byte stream of a real connection pushed in pieces (c03l2) under C06 too
PROPS["C06"]["check_mods"].append("C03l2")
PROPS["C06"]["drivers"].append({"name": "c03l2", "n_quick": 16, "n_thorough": 400, "timeout": 3000})
PROPS["C06"]["rule"] += (" End to end (c03l2, see C03): deliveries to public consumers with the byte stream pushed in "
    "pieces of 1-9 / 1-200 / up to 70000 bytes: what the consumers receive does not depend on the segmentation.")
PROPS["C06"]["trusted_base"] = PROPS["C06"]["trusted_base"] + L2_TRUSTED
# the answer to a get through the public API (the caller's wrapper was exercised by nothing)
PROPS["C03"]["check_mods"].append("C03get")
PROPS["C03"]["drivers"].append({"name": "c03get", "n_quick": 80, "n_thorough": 4000, "timeout": 3000})
PROPS["C03"]["rule"] += (" The answer to a get (c03get): 1-4 Channel::basic_get calls on a real connection, each "
    "answered with Get-Empty or Get-Ok + header + body frames (bodies of 0 / 1 / 10 / 300 / 4088 / 5000 bytes in any "
    "partition, heartbeats in between, the byte stream in pieces), delivery tags up to 2^64-1, message counts up to "
    "2^32-1, four property sets: every call returns exactly what was sent in answer to it.")
# a frame dropped at the high-water mark is a publish that does not reach the wire intact (seed C02g)
PROPS["C02"]["check_mods"].append("C18loop")
PROPS["C02"]["drivers"].append({"name": "c18loop", "n_quick": 60, "n_thorough": 2000, "timeout": 3000})
PROPS["C02"]["rule"] += (" Under throttling (c18loop, see C18): the real run_io_loop with small water marks, publishers "
    "ahead of the transport: every buffer accepted reaches the wire whole, once, in its channel's order.")
# a silent server while the connection is closing (seed C05d): the heartbeat scenarios of the c05 generator
PROPS["C17"]["check_mods"].append("C05")
PROPS["C17"]["drivers"].append({"name": "c05core", "n_quick": 160, "n_thorough": 2000, "timeout": 3000})
PROPS["C17"]["rule"] += (" At the level of the I/O thread (c05core, see C05): in one case of twelve the fatal event is "
    "the HEARTBEAT token after an absence of more than two intervals (real timers, 100 ms), also while the client's "
    "own close is in flight or the buffer is sealed.")
PROPS["C17"]["explanation"] += (" c05core: the expiry of the receive timer ends the connection with "
    "MissedServerHeartbeats in every phase (oracle_heartbeats), as Model.Core.heartbeat_timers says.")
PROPS["C17"]["trusted_base"] = PROPS["C17"]["trusted_base"] + CORE_TRUSTED

# properties not claimed, with the reason (kept current)
NOT_APPLICABLE = {}


# ---- the technique and the trust note of the properties whose anchored code is (also) translated ----
_TRANSLATED = {
    "C01": "Inner::write_to_stream (C01_write_source_is_model, C01_write_source_conserves)",
    "C02": "Channel0Handle::new and ChannelHandle::send_content (C02_limit_source_is_model, C02_send_content_source_is_model, C02_send_content_source_frames)",
    "C03": "the content collector (C03_source_is_model, C03_source_sequence)",
    "C04": "IoLoopHandle's call path and connection_state.rs's send (C04_call_source_is_model, C04_send_source_is_model)",
    "C05": "IoLoopHandle's call path, client_exception, Connection::close_impl, Inner::process_heartbeat_timers and (relative to its externals) Inner::handle_channel0_readable / handle_channel_readable (C05_call_source_is_model, C05_client_exception_source_is_model, C05_close_source_is_model, C05_pass_source_is_model, C05_ch0_drain_source_is_drain / C05_ch0_readable_source_is_model, C05_chan_drain_source_is_drain / C05_chan_readable_source_is_model)",
    "C06": "the frame buffer's Inner::read_from (C06_read_from_source_is_model)",
    "C08": "SealableOutputBuffer's seal rule and Inner::write_to_stream (C08_seal_source_is_model, C08_write_source_is_model, C08_write_source_conserves)",
    "C09": "IoLoopHandle's call path (C09_call_source_is_model)",
    "C10": "ChannelSlots::{insert, insert_unused_channel_id, remove} (C10_*_source_is_model, C10_run_source_is_model)",
    "C18": "Inner::deregister_nonzero_channels / reregister_nonzero_channels (C18_deregister / reregister_source_is_model)",
    "C19": "amqp_url::populate_host_and_port and amqp_url::decode (C19_populate_source_is_model, C19_decode_source_is_model)",
    "C20": "Connection::close_impl (C20_close_source_is_model, C18_deregister_source_is_model / C18_reregister_source_is_model, C19_populate_source_is_model / C19_decode_source_is_model, C17_timers_source_is_model)",
    "C07": "ConnectionState::client_exception (C07_client_exception_source_is_model, C11_cancel_source_is_model / C11_drop_source_is_model, C12_queue_declare / queue_delete / exchange_declare_source_is_model, C20_close_source_is_model, C18_deregister_source_is_model / C18_reregister_source_is_model, C19_populate_source_is_model / C19_decode_source_is_model, C17_timers_source_is_model)",
    "C11": "Consumer::cancel and impl Drop for Consumer (C11_cancel_source_is_model, C11_drop_source_is_model)",
    "C12": "the option helpers into_declare / into_delete (C12_*_source_is_model)",
    "C13": "connection_state.rs's try_send_return / try_send_confirm (C13_try_send_*_source_is_model)",
    "C14": "the confirm smoother (C14_process / next / drop_source_is_model, C14_run_all_source_is_model)",
    "C15": "ConnectionOptions::make_tune_ok and Channel0Handle::new (C15_source_is_model, C15_limit_source_is_model)",
    "C16": "HandshakeState::process (C16_process_source_is_model)",
    "C17": "Heartbeat::fire, RxTxHeartbeat::new and HeartbeatTimers::{start, fire_rx, fire_tx} and Inner::process_heartbeat_timers (C17_fire_source_is_model, C17_timers_source_is_model, C17_start_fire_source_is_model, C17_pass_source_is_model)",
}
for _p, _what in _TRANSLATED.items():
    PROPS[_p]["technique"] = ("Coq proof over a model of which the anchored functions are REGENERATED from the source text "
        "on every run by a translator (tools/rs2v.py, tools/rs2sm.py) and proved equal to the hand-written model - "
        + _what + " - plus an executable correspondence of the whole model against the real code (vm_compute)")
    PROPS[_p]["level_note"] = ("Trusted: Coq 8.16.1 kernel; the translators (the meaning they give to their Rust subsets, stated in "
        "the files) and what the 'source is model' theorems assume of the functions left external; for the rest of the "
        "model the correspondence check (generator-bounded); see evidence trusted_base.")
