#!/usr/bin/env python3
"""seed_prompt.py <ID> <name> [extra hint]: the prompt given to a fresh sub-agent (property text + scratch worktree only)."""
import json, sys
pid, name = sys.argv[1], sys.argv[2]
hint = sys.argv[3] if len(sys.argv) > 3 else ""
p = next(json.loads(l) for l in open('/verif/properties.jsonl') if json.loads(l)['id'] == pid)
wt = "/tmp/seed_%s" % name
files = ", ".join(p.get("anchors", {}).get("files", []))
print(f"""You are working in a scratch git worktree of a Rust crate (amiquip, a synchronous RabbitMQ / AMQP 0-9-1 client) at {wt}. Work ONLY inside {wt}; never touch /repo or /verif (do not read /verif either). The sandbox has no network: always use `cargo ... --offline`, and set `CARGO_TARGET_DIR={wt}/target` so builds stay inside the worktree.

Here is a semantic property the crate is supposed to satisfy:

  [{pid}] {p['title']}
  {p['statement']}
  Quantifier: {(p.get('quantifier') or {}).get('text','') if isinstance(p.get('quantifier'), dict) else p.get('quantifier','')}
  Code involved (files): {files}

TASK: produce a realistic change (a plausible bug a developer could introduce - a refactor slip, an off-by-one, a wrong branch order, a dropped case, a mis-ordered pair of operations, a 'harmless' optimisation, etc.) to the crate's source under {wt}/src that BREAKS this property, while
  (1) the crate still compiles (`cargo build --offline`, and also with `RUSTFLAGS="--cfg amiquip_verif"`; files src/verif.rs and src/io_loop/verif_probe.rs and any item marked #[cfg(amiquip_verif)] are test scaffolding compiled only under that cfg - do not modify them and do not make your change depend on them), and
  (2) the existing test suite still passes unedited: `cargo test --offline` (40 tests; the heartbeat tests are wall-clock tests and may flake under machine load - re-run if only those fail).
The change must need something SPECIFIC to manifest - a particular interleaving or event batch, a fault at a particular point, a multi-step sequence of operations, an unusual input / boundary value, or two cooperating sites that each look fine alone. It must NOT be something any ordinary use would expose at once (e.g. not 'every publish is corrupted'). Keep it small (a few lines), and do not add comments that point at the bug. {hint}

Also write a DEMONSTRATION: a test or small program that FAILS with your change and PASSES without it. Prefer an in-crate `#[cfg(test)]` unit test added to the relevant source file or a new file under tests/ or examples/ that uses public API (you may use a mock `IoStream` built on `mio::Registration` + `Connection::insecure_open_stream` if you need an end-to-end run; keep it deterministic and finishing within ~20 s).

Deliver, in the directory {wt}/_out/ (create it; it is not part of the crate):
  - patch.diff : `git diff` of the source change ONLY (applies to the worktree's HEAD with `git apply`),
  - demo.diff  : a separate diff that adds only the demonstration (applies to HEAD independently of patch.diff, with `git apply`),
  - meta.json  : {{"property": "{pid}", "summary": "<what the change does>", "needs": "<what specific circumstance is needed for it to manifest>", "demo_cmd": "<exact cargo command that runs the demonstration>", "ran": ["<commands you ran and their outcome>"]}}.
Before finishing, verify yourself from a clean HEAD (use `git stash` / `git checkout -- .` / `git apply`): (a) HEAD + demo.diff: demo passes; (b) HEAD + patch.diff + demo.diff: demo fails; (c) HEAD + patch.diff: `cargo test --offline` passes all 40 tests and the cfg build compiles. Leave the worktree at clean HEAD (no modifications to tracked files) when done; only {wt}/_out/ and {wt}/target may remain. Report briefly what you did and the results of (a), (b), (c).""")
