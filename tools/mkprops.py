#!/usr/bin/env python3
"""mkprops.py <ID> <imports> <spec.json>: writes coq/Props/<ID>.v from a list of
{name, lemma, doc} entries: the statement of each pinned theorem is the type Coq prints for
the lemma (Check), so the file contains only `Theorem ... Proof. exact lemma. Qed.`,
`Check name : statement.` and `Print Assumptions name.`  An optional 'example' block is
copied verbatim."""
import sys, json, subprocess, re, os
pid, spec = sys.argv[1], json.load(open(sys.argv[2]))
imports = spec["imports"]
COQ = "/verif/coq"
src = "From Amq Require Import %s.\nSet Printing Width 100000.\nSet Printing Depth 10000.\n" % imports
for t in spec["theorems"]:
    src += 'Check %s.\n' % t["lemma"]
open("/tmp/_mkprops.v", "w").write(src)
out = subprocess.run(["coqtop", "-Q", COQ, "Amq", "-batch", "-l", "/tmp/_mkprops.v"], stdout=subprocess.PIPE,
                     stderr=subprocess.STDOUT, text=True).stdout
types = {}
for t in spec["theorems"]:
    m = re.search(r"^%s\s*\n?\s*: (.*?)(?=^\S|\Z)" % re.escape(t["lemma"]), out, re.M | re.S)
    if not m:
        print(out[-3000:]); sys.exit("no type for " + t["lemma"])
    types[t["lemma"]] = " ".join(m.group(1).split())
body = "(* %s\n   This file only pins statements. *)\nFrom Amq Require Import %s.\n\n" % (spec["title"], imports)
for t in spec["theorems"]:
    t["doc"] = t["doc"].replace("*)", "* )")
    body += "(* %s *)\nTheorem %s : %s.\nProof. exact %s. Qed.\n\n" % (t["doc"], t["name"], types[t["lemma"]], t["lemma"])
if spec.get("example"):
    body += spec["example"].rstrip() + "\n\n"
for t in spec["theorems"]:
    body += "Check %s : %s.\n" % (t["name"], types[t["lemma"]])
body += "\n"
for t in spec["theorems"]:
    body += "Print Assumptions %s.\n" % t["name"]
if spec.get("example_name"):
    body += "Print Assumptions %s.\n" % spec["example_name"]
for n in spec.get("example_names", []):
    body += "Print Assumptions %s.\n" % n
open(os.path.join(COQ, "Props", pid + ".v"), "w").write(body)
print("wrote Props/%s.v with %d theorems" % (pid, len(spec["theorems"])))
