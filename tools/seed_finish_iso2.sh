#!/bin/bash
# seed_finish_iso.sh <ID> <name> [extra PROP ...]: like seed_finish.sh, but the checks run on the isolated copy
# (tools/seed_iso2.sh), so /repo and /verif stay free.
id=$1; name=$2; shift 2
cd /verif
if [ ! -f seeded/$name/meta.json ]; then
  out=$(tools/seed_confirm.sh $id $name 2>&1 | tail -3); echo "$out"
  echo "$out" | grep -q "^CONFIRMED" || exit 1
fi
specs="$name"; for p in "$@"; do specs="$specs $name:$p"; done
tools/seed_iso2.sh $specs
[ -d /tmp/seed_$name ] && git -C /repo worktree remove --force /tmp/seed_$name && echo "worktree removed"
