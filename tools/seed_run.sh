#!/bin/bash
# seed_run.sh <seeded-name> <PROPERTY> [tier]: apply the seeded patch to /repo, run the check, undo.
name=$1; prop=$2; tier=${3:-quick}
cd /repo && git diff --quiet || { echo "/repo is dirty"; exit 2; }
git -C /repo apply /verif/seeded/$name/patch.diff || exit 2
cp /verif/coq/Gen/Consts.v /verif/.build/Consts.v.saved   # a seeded change may alter a generated constant
cd /verif && timeout 3000 ./check $prop --tier $tier > /verif/.build/seedrun_$name.log 2>&1; rc=$?
git -C /repo checkout -- .
cp /verif/.build/Consts.v.saved /verif/coq/Gen/Consts.v
v=$(grep -m1 "^VIOLATION" /verif/.build/seedrun_$name.log)
echo "$name/$prop: exit=$rc $v"
