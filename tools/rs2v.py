#!/usr/bin/env python3
"""rs2v.py <rust source file>::<fn name> ...: translate small pure Rust functions to Gallina.

A translator for a deliberately small subset of Rust - enough for the arithmetic / decision
functions of amiquip whose model is thereby REGENERATED from the source on every run
(coq/Gen/Src.v), and proved equal to the hand-written model (coq/Proofs/TuneSrc.v).

Subset: `fn` items (also nested ones, translated first), `let [mut] x = e;`, `x = e;`,
`if c { .. }` statements whose body only assigns or returns, `if c { a } else { b }`
expressions, `return e;`, tail expressions, comparison / boolean operators, integer literals,
paths and calls (`u16::min(a, b)`, `u32::from(x)`, `u16::max_value()`, `Ok(e)`, local fns),
field accesses on parameters (`self.frame_max`, `tune.heartbeat`: every distinct one becomes a
parameter of the translated function), struct literals (`TuneOk { a, b: e }`) and the snafu
idiom `XSnafu { f: e, .. }.fail()`.

Also: tuple patterns and tuple values of two components (`let (a, b) = if c { (x, y) } else { (u, v) };`),
`Duration::from_millis(n)` (durations are N, in milliseconds), `+` and `-` on such values, enum values
of the table ENUMS, zero-argument method calls on fields of `self` (`self.last.elapsed()`: an
observation, it becomes a parameter), and EFFECTS: calls on the objects of the table EFFECT_OBJECTS
(`timer.set_timeout(when, self.val)`), assignments to fields of `self` and the logging macros are not
part of the value computed; the numeric arguments of effect calls are returned beside the result (field
`<object>.<method>#<position>`), so that what the function arms a timer with is part of what is proved.

Semantics given to it (the trusted part of this translator): unsigned integers are N (the
functions translated contain no arithmetic that could wrap; `*` and `/` are rejected, `+` is N.add, `-` is
truncated subtraction - Rust panics where that differs, the equivalence proof is where such a case shows); `let`
shadows; an assignment inside an `if` without `else` is the conditional rebinding
`let x := if c then e else x`; `if c { return e; } rest` is `if c then e else rest`; a struct
literal is the constructor name with its (field, value) list in source order; constants are
looked up in coq/Gen/Consts.v by the table CONSTS below.  Anything else makes the translation
fail, and the generated file then does not compile (the proof obligation breaks).
"""
import re, sys

CONSTS = {"FRAME_MIN_SIZE": "c_frame_min_size", "FRAME_OVERHEAD": "c_frame_overhead"}
NUMERIC_TYPES = {"u8", "u16", "u32", "u64", "usize", "Duration"}
ENUMS = {"HeartbeatState::Expired": 1, "HeartbeatState::StillRunning": 0}
EFFECT_OBJECTS = {"timer"}
EFFECT_FIELDS = {"buf"}          # self.buf.<method>(..): a delegation, recorded with the condition it is under
# which arguments of an effect call are numbers (durations) and therefore part of what is proved
EFFECT_NUMERIC_ARGS = {("timer", "set_timeout"): [0]}
MACROS_IGNORED = {"trace", "debug", "warn", "info", "assert", "debug_assert"}   # logging, and panics (not part of the value)
CALLS = {
    "u16::min": ("N.min", 2), "u32::min": ("N.min", 2), "u64::min": ("N.min", 2),
    "u16::max": ("N.max", 2), "u32::max": ("N.max", 2),
    "u16::from": (None, 1), "u32::from": (None, 1), "u64::from": (None, 1), "usize::from": (None, 1),
    "u16::max_value": ("65535", 0), "u32::max_value": ("4294967295", 0), "u8::max_value": ("255", 0),
    "usize::max_value": ("18446744073709551615", 0), "u64::max_value": ("18446744073709551615", 0),
    "Duration::from_millis": (None, 1),
}
BINOPS = {"==": "=?", "<": "<?", "<=": "<=?", "&&": "&&", "||": "||"}
FLIP = {">": "<", ">=": "<="}

TOK = re.compile(r"\s*(?:(//[^\n]*|'[a-z_]\w*(?!'))|(/\*.*?\*/)|([A-Za-z_][A-Za-z0-9_]*)|(\d[\d_]*)|(\"(?:[^\"\\]|\\.)*\"|::|->|=>|==|!=|<=|>=|&&|\|\||[-+*/!&.,;:(){}\[\]<>=?|]))", re.S)


class Fail(Exception):
    pass


def tokenize(src):
    out, i = [], 0
    while i < len(src):
        m = TOK.match(src, i)
        if not m:
            if src[i:].strip() == "":
                break
            raise Fail("cannot tokenize at: %r" % src[i:i + 30])
        i = m.end()
        if m.group(1) or m.group(2):
            continue
        out.append(m.group(3) or m.group(4) or m.group(5))
    return out


def find_fn(src, name):
    if "." in name:
        # Type.fn: the fn inside an `impl Type {` / `impl<..> Type<..> {` / `impl<..> Trait for Type<..> {` block
        ty, name = name.split(".", 1)
        found = None
        for m in re.finditer(r"\bimpl(?:<[^>]*>)?\s+(?:[\w:]+(?:<[^>]*>)?\s+for\s+)?%s\b[^{]*\{" % re.escape(ty), src):
            depth, j = 1, m.end()
            while depth:
                if src[j] == "{":
                    depth += 1
                elif src[j] == "}":
                    depth -= 1
                j += 1
            body = src[m.end():j]
            if re.search(r"\bfn\s+%s\s*(<[^>]*>)?\s*\(" % re.escape(name), body):
                found = body
                break
        if found is None:
            raise Fail("impl %s with fn %s not found" % (ty, name))
        src = found
    m = re.search(r"\bfn\s+%s\s*(<[^>]*>)?\s*\(" % re.escape(name), src)
    if not m:
        raise Fail("fn %s not found" % name)
    i = src.index("{", m.end())
    depth, j = 0, i
    while True:
        if src[j] == "{":
            depth += 1
        elif src[j] == "}":
            depth -= 1
            if depth == 0:
                break
        j += 1
    return src[m.start():j + 1]


def is_field_effect(e):
    return e[0] == "method" and e[1][0] == "field" and e[1][1] == ("var", "self") and e[1][2] in EFFECT_FIELDS


class P:
    def __init__(self, toks):
        self.t, self.i = toks, 0
        self.nonnumeric = set()

    def peek(self, k=0):
        return self.t[self.i + k] if self.i + k < len(self.t) else None

    def eat(self, x=None):
        tok = self.peek()
        if tok is None or (x is not None and tok != x):
            raise Fail("expected %r, found %r" % (x, tok))
        self.i += 1
        return tok

    # fn NAME(params) [-> T] block
    def fn(self):
        self.eat("fn")
        name = self.eat()
        if self.peek() == "<":          # generic parameters
            depth = 0
            while True:
                t = self.eat()
                if t == "<":
                    depth += 1
                elif t == ">":
                    depth -= 1
                    if depth == 0:
                        break
        self.eat("(")
        params = []
        while self.peek() != ")":
            if self.peek() == "&":
                self.eat()
            if self.peek() == "mut":
                self.eat()
            p = self.eat()
            ty = None
            if self.peek() == ":":
                self.eat()
                start = self.i
                self.skip_type([",", ")"])
                ty = "".join(self.t[start:self.i])
            params.append(p)
            if ty is not None and ty not in NUMERIC_TYPES and p != "self":
                self.nonnumeric.add(p)
            if self.peek() == ",":
                self.eat()
        self.eat(")")
        if self.peek() == "->":
            self.eat()
            self.skip_type(["{", "where"])
        if self.peek() == "where":
            while self.peek() != "{":
                self.eat()
        return ("fn", name, params, self.block())

    def skip_parens(self):
        self.eat("(")
        depth = 1
        while depth:
            t = self.eat()
            if t == "(":
                depth += 1
            elif t == ")":
                depth -= 1

    def skip_type(self, stops):
        depth = 0
        while True:
            t = self.peek()
            if t is None:
                raise Fail("type runs off")
            if depth == 0 and t in stops:
                return
            if t in ("<", "("):
                depth += 1
            if t in (">", ")"):
                depth -= 1
            self.eat()

    def block(self):
        self.eat("{")
        stmts, tail = [], None
        while self.peek() != "}":
            t = self.peek()
            if t == "fn":
                stmts.append(self.fn())
            elif t in MACROS_IGNORED and self.peek(1) == "!":
                self.eat(); self.eat(); self.skip_parens(); self.eat(";")
            elif t in EFFECT_OBJECTS and self.peek(1) == ".":
                e = self.expr()
                self.eat(";")
                stmts.append(("effect", e))
            elif t == "self" and self.peek(1) == "." and self.peek(3) == "=":
                # self.field = <expr>;  a state update: its effect calls are recorded, the rest ignored
                self.eat(); self.eat(); f = self.eat(); self.eat("=")
                e = self.expr()
                self.eat(";")
                stmts.append(("setfield", f, e))
            elif t == "let" and self.peek(1) == "(":
                self.eat(); self.eat("(")
                a = self.eat(); self.eat(","); b = self.eat(); self.eat(")")
                self.eat("=")
                e = self.expr()
                self.eat(";")
                stmts.append(("let2", a, b, e))
            elif t == "let":
                self.eat()
                if self.peek() == "mut":
                    self.eat()
                x = self.eat()
                if self.peek() == ":":
                    self.eat()
                    self.skip_type(["="])
                self.eat("=")
                e = self.expr()
                self.eat(";")
                stmts.append(("let", x, e))
            elif t == "return":
                self.eat()
                e = self.expr()
                self.eat(";")
                stmts.append(("return", e))
            elif t == "if":
                e = self.expr()
                if self.peek() == ";":
                    self.eat()
                if e[0] == "if" and e[3] is None:
                    stmts.append(("ifstmt", e[1], e[2]))
                elif self.peek() == "}":
                    tail = e
                else:
                    raise Fail("if/else used as a statement")
            elif re.match(r"[A-Za-z_]", t or "") and self.peek(1) in ("-", "+") and self.peek(2) == "=":
                x = self.eat()
                op = self.eat()
                self.eat("=")
                e = self.expr()
                self.eat(";")
                stmts.append(("assign", x, ("arith", op, ("var", x), e)))
            elif re.match(r"[A-Za-z_]", t or "") and self.peek(1) == "=":
                x = self.eat()
                self.eat("=")
                e = self.expr()
                self.eat(";")
                stmts.append(("assign", x, e))
            else:
                e = self.expr()
                if is_field_effect(e):
                    if self.peek() == ";":
                        self.eat()
                    stmts.append(("effect", e))
                    continue
                if self.peek() == ";":
                    raise Fail("expression statement with effects: %r" % (e,))
                tail = e
        self.eat("}")
        return ("block", stmts, tail)

    def expr(self):
        return self.orr()

    def orr(self):
        a = self.andd()
        while self.peek() == "||":
            self.eat()
            a = ("bin", "||", a, self.andd())
        return a

    def andd(self):
        a = self.cmp()
        while self.peek() == "&&":
            self.eat()
            a = ("bin", "&&", a, self.cmp())
        return a

    def add(self):
        a = self.postfix()
        while self.peek() in ("+", "-"):
            op = self.eat()
            a = ("arith", op, a, self.postfix())
        return a

    def cmp(self):
        a = self.add()
        t = self.peek()
        if t in ("==", "<", "<=", ">", ">=", "!="):
            self.eat()
            b = self.add()
            if t in FLIP:
                return ("bin", FLIP[t], b, a)
            if t == "!=":
                return ("not", ("bin", "==", a, b))
            return ("bin", t, a, b)
        if t in ("*", "/"):
            raise Fail("arithmetic operator %s is outside the subset" % t)
        return a

    def postfix(self):
        e = self.atom()
        while self.peek() == ".":
            self.eat()
            name = self.eat()
            if self.peek() == "(":
                self.eat("(")
                args = self.args()
                e = ("method", e, name, args)
            else:
                e = ("field", e, name)
        return e

    def args(self):
        a = []
        while self.peek() != ")":
            a.append(self.expr())
            if self.peek() == ",":
                self.eat()
        self.eat(")")
        return a

    def atom(self):
        t = self.peek()
        if t == "&":
            self.eat()
            return self.postfix()
        if t == "(":
            self.eat()
            e = self.expr()
            if self.peek() == ",":
                self.eat()
                e2 = self.expr()
                self.eat(")")
                return ("tuple", e, e2)
            self.eat(")")
            return e
        if t == "if":
            self.eat()
            c = self.expr_no_struct()
            th = self.block()
            el = None
            if self.peek() == "else":
                self.eat()
                el = self.block()
            return ("if", c, th, el)
        if t == "!":
            self.eat()
            return ("not", self.postfix())
        if re.match(r"\d", t or ""):
            self.eat()
            return ("int", int(t.replace("_", "")))
        if re.match(r"[A-Za-z_]", t or ""):
            path = [self.eat()]
            while self.peek() == "::":
                self.eat()
                path.append(self.eat())
            name = "::".join(path)
            if self.peek() == "(":
                self.eat("(")
                return ("call", name, self.args())
            if self.peek() == "{" and not getattr(self, "no_struct", False) and name[0].isupper():
                self.eat("{")
                fields = []
                while self.peek() != "}":
                    f = self.eat()
                    if self.peek() == ":":
                        self.eat()
                        v = self.expr()
                    else:
                        v = ("var", f)
                    fields.append((f, v))
                    if self.peek() == ",":
                        self.eat()
                self.eat("}")
                return ("struct", name, fields)
            return ("var", name)
        raise Fail("unexpected token %r" % t)

    def expr_no_struct(self):
        old = getattr(self, "no_struct", False)
        self.no_struct = True
        try:
            return self.expr()
        finally:
            self.no_struct = old


class Gen:
    def __init__(self):
        self.fields = []      # (base, field) in order of first use -> parameters
        self.local_fns = {}
        self.effects = []
        self.wrap = None
        self.nonnumeric = set()

    def var(self, base, field):
        if (base, field) not in self.fields:
            self.fields.append((base, field))
        return "%s_%s" % (base, field)

    def e(self, x):
        k = x[0]
        if k == "int":
            return str(x[1])
        if k == "var":
            if x[1] in ENUMS:
                return str(ENUMS[x[1]])
            return CONSTS.get(x[1], x[1])
        if k == "field":
            if x[1][0] != "var":
                raise Fail("field of a non-variable")
            return self.var(x[1][1], x[2])
        if k == "not":
            return "(negb %s)" % self.cond(x[1])
        if k == "arith":
            return "(%s %s %s)" % (self.e(x[2]), x[1], self.e(x[3]))
        if k == "tuple":
            return "(%s, %s)" % (self.e(x[1]), self.e(x[2]))
        if k == "bin":
            return "(%s %s %s)" % (self.e(x[2]), BINOPS[x[1]], self.e(x[3]))
        if k == "call":
            name, args = x[1], [self.e(a) for a in x[2]]
            if name in self.local_fns:
                return "(%s %s)" % (self.local_fns[name], " ".join(args)) if args else self.local_fns[name]
            if name in CALLS:
                f, n = CALLS[name]
                if len(args) != n:
                    raise Fail("arity of " + name)
                if f is None:
                    return args[0]
                return "(%s %s)" % (f, " ".join(args)) if args else f
            if name in ("Ok", "Some"):
                return args[0]
            raise Fail("call of %s is outside the subset" % name)
        if k == "struct":
            fs = [(f, v) for f, v in x[2] if not (v[0] == "var" and v[1] in self.nonnumeric)]
            return '(RsOk "%s" [%s])' % (x[1], "; ".join('("%s", %s)' % (f, self.e(v)) for f, v in fs))
        if k == "method" and x[1][0] == "field" and x[1][1] == ("var", "self") and not x[3]:
            # an observation of the state: self.last.elapsed()
            return self.var("self", "%s_%s" % (x[1][2], x[2]))
        if k == "method":
            recv, name = x[1], x[2]
            if name == "fail" and recv[0] == "struct" and recv[1].endswith("Snafu"):
                return '(RsErr "%s" [%s])' % (recv[1][:-5], "; ".join('("%s", %s)' % (f, self.e(v)) for f, v in recv[2]))
            raise Fail("method %s is outside the subset" % name)
        if k == "if":
            if x[3] is None:
                raise Fail("if without else as an expression")
            return "(if %s then %s else %s)" % (self.cond(x[1]), self.blk(x[2]), self.blk(x[3]))
        raise Fail("expression kind " + k)

    def cond(self, x):
        """a condition: a bare field / variable read as a condition is a bool kept as 0 / 1"""
        if x[0] in ("field", "var"):
            return "(%s =? 1)" % self.e(x)
        return self.e(x)

    def effect(self, e, guard=None):
        if is_field_effect(e):
            name = "self.%s.%s#called" % (e[1][2], e[2])
            self.effects.append((name, "(if %s then 1 else 0)" % guard if guard else "1"))
            return
        return self.effect_obj(e)

    def effect_obj(self, e):
        """record the numeric arguments of a call on an effect object"""
        if e[0] == "method" and e[1][0] == "var" and e[1][1] in EFFECT_OBJECTS:
            for i in EFFECT_NUMERIC_ARGS.get((e[1][1], e[2]), []):
                self.effects.append(("%s.%s#%d" % (e[1][1], e[2], i), self.e(e[3][i])))
            return
        raise Fail("effect outside the subset: %r" % (e,))

    def blk(self, b):
        return self.stmts(b[1], b[2], top=False)

    def stmts(self, stmts, tail, top=False):
        if not stmts:
            if tail is None and top and self.wrap:
                return '(RsOk "%s" [%s])' % (self.wrap, "; ".join('("%s", %s)' % f for f in self.effects))
            if tail is None:
                raise Fail("block without a value")
            if top and self.wrap:
                fields = [("result", self.e(tail))] + self.effects
                return '(RsOk "%s" [%s])' % (self.wrap, "; ".join('("%s", %s)' % f for f in fields))
            return self.e(tail)
        s, rest = stmts[0], stmts[1:]
        if s[0] == "fn":
            raise Fail("nested fn not hoisted")
        if s[0] == "let":
            return "(let %s := %s in %s)" % (s[1], self.e(s[2]), self.stmts(rest, tail, top))
        if s[0] == "assign":
            return "(let %s := %s in %s)" % (s[1], self.e(s[2]), self.stmts(rest, tail, top))
        if s[0] == "let2":
            return "(let '(%s, %s) := %s in %s)" % (s[1], s[2], self.e(s[3]), self.stmts(rest, tail, top))
        if s[0] == "effect":
            self.effect(s[1])
            return self.stmts(rest, tail, top)
        if s[0] == "setfield":
            v = s[2]
            if v == ("var", "true") or v == ("var", "false"):
                self.effects.append(("self.%s:=" % s[1], "1" if v[1] == "true" else "0"))
            else:
                self.effect(v)      # e.g. self.timeout = timer.set_timeout(..): the call is what counts
            return self.stmts(rest, tail, top)
        if s[0] == "return":
            return self.e(s[1])
        if s[0] == "ifstmt":
            c, body = s[1], s[2]
            inner, btail = body[1], body[2]
            if btail is None and inner and all(i[0] == "effect" and is_field_effect(i[1]) for i in inner):
                for i in inner:
                    self.effect(i[1], guard=self.cond(c))
                return self.stmts(rest, tail, top)
            if btail is None and len(inner) == 1 and inner[0][0] == "return":
                return "(if %s then %s else %s)" % (self.cond(c), self.e(inner[0][1]), self.stmts(rest, tail, top))
            if btail is None and inner and all(i[0] == "assign" for i in inner):
                out = self.stmts(rest, tail, top)
                for i in reversed(inner):
                    out = "(let %s := (if %s then %s else %s) in %s)" % (i[1], self.cond(c), self.e(i[2]), i[1], out)
                return out
            raise Fail("if statement body outside the subset")
        raise Fail("statement kind " + s[0])


def translate(src, name, prefix="gen_"):
    parser = P(tokenize(find_fn(src, name)))
    ast = parser.fn()
    _, fname, params, body = ast
    fname = name.replace(".", "_")
    g = Gen()
    g.nonnumeric = parser.nonnumeric
    params = [p for p in params if p not in parser.nonnumeric]
    defs = []
    hoisted = [s for s in body[1] if s[0] == "fn"]
    rest = [s for s in body[1] if s[0] != "fn"]
    for f in hoisted:
        sub = Gen()
        sub.local_fns = dict(g.local_fns)
        text = sub.blk(f[3])
        if sub.fields:
            raise Fail("nested fn uses fields")
        cname = "%s%s_%s" % (prefix, fname, f[1])
        defs.append("Definition %s %s: N :=\n  %s." % (cname, "".join("(%s : N) " % p for p in f[2]), text))
        g.local_fns[f[1]] = cname
    # a function that does not build a Result / struct itself returns a plain value: it is wrapped,
    # together with what it handed to its effect objects, into a result record at its tail (where
    # the variables the effect arguments mention are in scope)
    if body[2] is None:
        g.wrap = fname          # a unit function: what it delegates, and under which condition
    else:
        probe = Gen()
        probe.local_fns = dict(g.local_fns)
        probe.nonnumeric = parser.nonnumeric
        ptext = probe.stmts(rest, body[2])
        if "RsOk" not in ptext and "RsErr" not in ptext:
            g.wrap = fname
    text = g.stmts(rest, body[2], top=True)
    fields = sorted(g.fields)
    ps = ["%s_%s" % bf for bf in fields] + [p for p in params if p not in ("self",) and p not in EFFECT_OBJECTS and not any(b == p for b, _ in fields)]
    defs.append("(* parameters (the fields the function reads, sorted): %s *)\nDefinition %s%s %s: rs_result :=\n  %s." % (
        ", ".join("%s.%s" % bf for bf in fields), prefix, fname, "".join("(%s : N) " % p for p in ps), text))
    return "\n\n".join(defs)


HEADER = '''(* GENERATED on every run by tools/rs2v.py from %s - do not edit.
   The subset of Rust it accepts and the meaning it gives to it are stated in that file. *)
From Coq Require Import String.
From Amq Require Import Lib.Base Lib.RsResult Gen.Consts.
Open Scope string_scope.
Open Scope N_scope.
'''

if __name__ == "__main__":
    # arguments: <file>::<fn> ...
    specs = [a.rsplit("::", 1) for a in sys.argv[1:]]
    out = [HEADER % ", ".join(sorted(set(p for p, _ in specs)))]
    ok = True
    for path, n in specs:
        try:
            out.append("(* ---- %s :: %s ---- *)\n" % (path, n) + translate(open(path).read(), n))
        except (Fail, OSError) as ex:
            ok = False
            out.append("(* TRANSLATION FAILED for %s: %s *)\nDefinition gen_%s : rs_result := translation_failed." % (n, ex, n.replace(".", "_")))
    print("\n\n".join(out))
    sys.exit(0 if ok else 3)
