#!/usr/bin/env python3
"""rs2v.py <rust source file> <fn name> [<fn name> ...]: translate small pure Rust functions to Gallina.

A translator for a deliberately small subset of Rust - enough for the arithmetic / decision
functions of amiquip whose model is thereby REGENERATED from the source on every run
(coq/Gen/Src.v), and proved equal to the hand-written model (coq/Proofs/TuneSrc.v).

Subset: `fn` items (also nested ones, translated first), `let [mut] x = e;`, `x = e;`,
`if c { .. }` statements whose body only assigns or returns, `if c { a } else { b }`
expressions, `return e;`, tail expressions, comparison / boolean operators, integer literals,
paths and calls (`u16::min(a, b)`, `u32::from(x)`, `u16::max_value()`, `Ok(e)`, local fns),
field accesses on parameters (`self.frame_max`, `tune.heartbeat`: every distinct one becomes a
parameter of the translated function), struct literals (`TuneOk { a, b: e }`) and the snafu
idiom `XSnafu { f: e, .. }.fail()`.

Semantics given to it (the trusted part of this translator): unsigned integers are N (the
functions translated contain no arithmetic that could wrap; `+ - *` are rejected); `let`
shadows; an assignment inside an `if` without `else` is the conditional rebinding
`let x := if c then e else x`; `if c { return e; } rest` is `if c then e else rest`; a struct
literal is the constructor name with its (field, value) list in source order; constants are
looked up in coq/Gen/Consts.v by the table CONSTS below.  Anything else makes the translation
fail, and the generated file then does not compile (the proof obligation breaks).
"""
import re, sys

CONSTS = {"FRAME_MIN_SIZE": "c_frame_min_size"}
CALLS = {
    "u16::min": ("N.min", 2), "u32::min": ("N.min", 2), "u64::min": ("N.min", 2),
    "u16::max": ("N.max", 2), "u32::max": ("N.max", 2),
    "u16::from": (None, 1), "u32::from": (None, 1), "u64::from": (None, 1), "usize::from": (None, 1),
    "u16::max_value": ("65535", 0), "u32::max_value": ("4294967295", 0), "u8::max_value": ("255", 0),
}
BINOPS = {"==": "=?", "<": "<?", "<=": "<=?", "&&": "&&", "||": "||"}
FLIP = {">": "<", ">=": "<="}

TOK = re.compile(r"\s*(?:(//[^\n]*)|(/\*.*?\*/)|([A-Za-z_][A-Za-z0-9_]*)|(\d[\d_]*)|(::|->|=>|==|!=|<=|>=|&&|\|\||[-+*/!&.,;:(){}\[\]<>=]))", re.S)


class Fail(Exception):
    pass


def tokenize(src):
    out, i = [], 0
    while i < len(src):
        m = TOK.match(src, i)
        if not m:
            if src[i:].strip() == "":
                break
            raise Fail("cannot tokenize at: %r" % src[i:i + 30])
        i = m.end()
        if m.group(1) or m.group(2):
            continue
        out.append(m.group(3) or m.group(4) or m.group(5))
    return out


def find_fn(src, name):
    m = re.search(r"\bfn\s+%s\s*(<[^>]*>)?\s*\(" % re.escape(name), src)
    if not m:
        raise Fail("fn %s not found" % name)
    i = src.index("{", m.end())
    depth, j = 0, i
    while True:
        if src[j] == "{":
            depth += 1
        elif src[j] == "}":
            depth -= 1
            if depth == 0:
                break
        j += 1
    return src[m.start():j + 1]


class P:
    def __init__(self, toks):
        self.t, self.i = toks, 0

    def peek(self, k=0):
        return self.t[self.i + k] if self.i + k < len(self.t) else None

    def eat(self, x=None):
        tok = self.peek()
        if tok is None or (x is not None and tok != x):
            raise Fail("expected %r, found %r" % (x, tok))
        self.i += 1
        return tok

    # fn NAME(params) [-> T] block
    def fn(self):
        self.eat("fn")
        name = self.eat()
        self.eat("(")
        params = []
        while self.peek() != ")":
            if self.peek() == "&":
                self.eat()
            if self.peek() == "mut":
                self.eat()
            p = self.eat()
            if self.peek() == ":":
                self.eat()
                self.skip_type([",", ")"])
            params.append(p)
            if self.peek() == ",":
                self.eat()
        self.eat(")")
        if self.peek() == "->":
            self.eat()
            self.skip_type(["{"])
        return ("fn", name, params, self.block())

    def skip_type(self, stops):
        depth = 0
        while True:
            t = self.peek()
            if t is None:
                raise Fail("type runs off")
            if depth == 0 and t in stops:
                return
            if t in ("<", "("):
                depth += 1
            if t in (">", ")"):
                depth -= 1
            self.eat()

    def block(self):
        self.eat("{")
        stmts, tail = [], None
        while self.peek() != "}":
            t = self.peek()
            if t == "fn":
                stmts.append(self.fn())
            elif t == "let":
                self.eat()
                if self.peek() == "mut":
                    self.eat()
                x = self.eat()
                if self.peek() == ":":
                    self.eat()
                    self.skip_type(["="])
                self.eat("=")
                e = self.expr()
                self.eat(";")
                stmts.append(("let", x, e))
            elif t == "return":
                self.eat()
                e = self.expr()
                self.eat(";")
                stmts.append(("return", e))
            elif t == "if":
                e = self.expr()
                if self.peek() == ";":
                    self.eat()
                if e[0] == "if" and e[3] is None:
                    stmts.append(("ifstmt", e[1], e[2]))
                elif self.peek() == "}":
                    tail = e
                else:
                    raise Fail("if/else used as a statement")
            elif re.match(r"[A-Za-z_]", t or "") and self.peek(1) == "=":
                x = self.eat()
                self.eat("=")
                e = self.expr()
                self.eat(";")
                stmts.append(("assign", x, e))
            else:
                e = self.expr()
                if self.peek() == ";":
                    raise Fail("expression statement with effects: %r" % (e,))
                tail = e
        self.eat("}")
        return ("block", stmts, tail)

    def expr(self):
        return self.orr()

    def orr(self):
        a = self.andd()
        while self.peek() == "||":
            self.eat()
            a = ("bin", "||", a, self.andd())
        return a

    def andd(self):
        a = self.cmp()
        while self.peek() == "&&":
            self.eat()
            a = ("bin", "&&", a, self.cmp())
        return a

    def cmp(self):
        a = self.postfix()
        t = self.peek()
        if t in ("==", "<", "<=", ">", ">=", "!="):
            self.eat()
            b = self.postfix()
            if t in FLIP:
                return ("bin", FLIP[t], b, a)
            if t == "!=":
                return ("not", ("bin", "==", a, b))
            return ("bin", t, a, b)
        if t in ("+", "-", "*", "/"):
            raise Fail("arithmetic operator %s is outside the subset" % t)
        return a

    def postfix(self):
        e = self.atom()
        while self.peek() == ".":
            self.eat()
            name = self.eat()
            if self.peek() == "(":
                self.eat("(")
                args = self.args()
                e = ("method", e, name, args)
            else:
                e = ("field", e, name)
        return e

    def args(self):
        a = []
        while self.peek() != ")":
            a.append(self.expr())
            if self.peek() == ",":
                self.eat()
        self.eat(")")
        return a

    def atom(self):
        t = self.peek()
        if t == "(":
            self.eat()
            e = self.expr()
            self.eat(")")
            return e
        if t == "if":
            self.eat()
            c = self.expr_no_struct()
            th = self.block()
            el = None
            if self.peek() == "else":
                self.eat()
                el = self.block()
            return ("if", c, th, el)
        if t == "!":
            self.eat()
            return ("not", self.postfix())
        if re.match(r"\d", t or ""):
            self.eat()
            return ("int", int(t.replace("_", "")))
        if re.match(r"[A-Za-z_]", t or ""):
            path = [self.eat()]
            while self.peek() == "::":
                self.eat()
                path.append(self.eat())
            name = "::".join(path)
            if self.peek() == "(":
                self.eat("(")
                return ("call", name, self.args())
            if self.peek() == "{" and not getattr(self, "no_struct", False) and name[0].isupper():
                self.eat("{")
                fields = []
                while self.peek() != "}":
                    f = self.eat()
                    if self.peek() == ":":
                        self.eat()
                        v = self.expr()
                    else:
                        v = ("var", f)
                    fields.append((f, v))
                    if self.peek() == ",":
                        self.eat()
                self.eat("}")
                return ("struct", name, fields)
            return ("var", name)
        raise Fail("unexpected token %r" % t)

    def expr_no_struct(self):
        old = getattr(self, "no_struct", False)
        self.no_struct = True
        try:
            return self.expr()
        finally:
            self.no_struct = old


class Gen:
    def __init__(self):
        self.fields = []      # (base, field) in order of first use -> parameters
        self.local_fns = {}

    def var(self, base, field):
        if (base, field) not in self.fields:
            self.fields.append((base, field))
        return "%s_%s" % (base, field)

    def e(self, x):
        k = x[0]
        if k == "int":
            return str(x[1])
        if k == "var":
            return CONSTS.get(x[1], x[1])
        if k == "field":
            if x[1][0] != "var":
                raise Fail("field of a non-variable")
            return self.var(x[1][1], x[2])
        if k == "not":
            return "(negb %s)" % self.e(x[1])
        if k == "bin":
            return "(%s %s %s)" % (self.e(x[2]), BINOPS[x[1]], self.e(x[3]))
        if k == "call":
            name, args = x[1], [self.e(a) for a in x[2]]
            if name in self.local_fns:
                return "(%s %s)" % (self.local_fns[name], " ".join(args)) if args else self.local_fns[name]
            if name in CALLS:
                f, n = CALLS[name]
                if len(args) != n:
                    raise Fail("arity of " + name)
                if f is None:
                    return args[0]
                return "(%s %s)" % (f, " ".join(args)) if args else f
            if name in ("Ok", "Some"):
                return args[0]
            raise Fail("call of %s is outside the subset" % name)
        if k == "struct":
            return '(RsOk "%s" [%s])' % (x[1], "; ".join('("%s", %s)' % (f, self.e(v)) for f, v in x[2]))
        if k == "method":
            recv, name = x[1], x[2]
            if name == "fail" and recv[0] == "struct" and recv[1].endswith("Snafu"):
                return '(RsErr "%s" [%s])' % (recv[1][:-5], "; ".join('("%s", %s)' % (f, self.e(v)) for f, v in recv[2]))
            raise Fail("method %s is outside the subset" % name)
        if k == "if":
            if x[3] is None:
                raise Fail("if without else as an expression")
            return "(if %s then %s else %s)" % (self.e(x[1]), self.blk(x[2]), self.blk(x[3]))
        raise Fail("expression kind " + k)

    def blk(self, b):
        return self.stmts(b[1], b[2])

    def stmts(self, stmts, tail):
        if not stmts:
            if tail is None:
                raise Fail("block without a value")
            return self.e(tail)
        s, rest = stmts[0], stmts[1:]
        if s[0] == "fn":
            raise Fail("nested fn not hoisted")
        if s[0] == "let":
            return "(let %s := %s in %s)" % (s[1], self.e(s[2]), self.stmts(rest, tail))
        if s[0] == "assign":
            return "(let %s := %s in %s)" % (s[1], self.e(s[2]), self.stmts(rest, tail))
        if s[0] == "return":
            return self.e(s[1])
        if s[0] == "ifstmt":
            c, body = s[1], s[2]
            inner, btail = body[1], body[2]
            if btail is None and len(inner) == 1 and inner[0][0] == "return":
                return "(if %s then %s else %s)" % (self.e(c), self.e(inner[0][1]), self.stmts(rest, tail))
            if btail is None and inner and all(i[0] == "assign" for i in inner):
                out = self.stmts(rest, tail)
                for i in reversed(inner):
                    out = "(let %s := (if %s then %s else %s) in %s)" % (i[1], self.e(c), self.e(i[2]), i[1], out)
                return out
            raise Fail("if statement body outside the subset")
        raise Fail("statement kind " + s[0])


def translate(src, name, prefix="gen_"):
    ast = P(tokenize(find_fn(src, name))).fn()
    _, fname, params, body = ast
    g = Gen()
    defs = []
    hoisted = [s for s in body[1] if s[0] == "fn"]
    rest = [s for s in body[1] if s[0] != "fn"]
    for f in hoisted:
        sub = Gen()
        sub.local_fns = dict(g.local_fns)
        text = sub.blk(f[3])
        if sub.fields:
            raise Fail("nested fn uses fields")
        cname = "%s%s_%s" % (prefix, fname, f[1])
        defs.append("Definition %s %s: N :=\n  %s." % (cname, "".join("(%s : N) " % p for p in f[2]), text))
        g.local_fns[f[1]] = cname
    text = g.stmts(rest, body[2])
    fields = sorted(g.fields)
    ps = ["%s_%s" % bf for bf in fields] + [p for p in params if p not in ("self",) and not any(b == p for b, _ in fields)]
    defs.append("(* parameters (the fields the function reads, sorted): %s *)\nDefinition %s%s %s: rs_result :=\n  %s." % (
        ", ".join("%s.%s" % bf for bf in fields), prefix, fname, "".join("(%s : N) " % p for p in ps), text))
    return "\n\n".join(defs)


HEADER = '''(* GENERATED on every run by tools/rs2v.py from %s - do not edit.
   The subset of Rust it accepts and the meaning it gives to it are stated in that file. *)
From Coq Require Import String.
From Amq Require Import Lib.Base Gen.Consts.
Open Scope string_scope.
Open Scope N_scope.

Inductive rs_result :=
| RsOk (name : string) (fields : list (string * N))
| RsErr (name : string) (fields : list (string * N)).
'''

if __name__ == "__main__":
    path, names = sys.argv[1], sys.argv[2:]
    src = open(path).read()
    out = [HEADER % path]
    ok = True
    for n in names:
        try:
            out.append(translate(src, n))
        except Fail as ex:
            ok = False
            out.append("(* TRANSLATION FAILED for %s: %s *)\nDefinition gen_%s : rs_result := translation_failed." % (n, ex, n))
    print("\n\n".join(out))
    sys.exit(0 if ok else 3)
