#!/bin/bash
# seed_finish.sh <ID> <name> [extra PROP ...]: confirm a sub-agent's seeded change in /tmp/seed_<name>, keep it under
# /verif/seeded/<name>/, run the property's quick check (and the extra ones) against it, remove the scratch worktree.
id=$1; name=$2; shift 2
cd /verif
out=$(tools/seed_confirm.sh $id $name 2>&1 | tail -3); echo "$out"
if echo "$out" | grep -q "^CONFIRMED"; then
  tools/seed_matrix.sh $name 2>&1 | tail -1
  for p in "$@"; do tools/seed_matrix.sh $name:$p 2>&1 | tail -1; done
  git -C /repo worktree remove --force /tmp/seed_$name && echo "worktree removed"
fi
