#!/bin/bash
# seed_confirm.sh <ID> [name]: confirm a sub-agent's seeded change in its scratch worktree
# /tmp/seed_<ID> (demo passes without / fails with the patch; suite passes with the patch;
# cfg build compiles), then keep it as /verif/seeded/<name>/.
id=$1; name=${2:-$1}; wt=/tmp/seed_$name; out=$wt/_out
export CARGO_TARGET_DIR=$wt/target CARGO_NET_OFFLINE=true
cd $wt || exit 2
git checkout -q -- . ; git clean -qfd -e _out -e target
demo=$(python3 -c "import json;print(json.load(open('$out/meta.json'))['demo_cmd'])")
demo=$(echo "$demo" | sed -e 's/CARGO_TARGET_DIR=[^ ]* //')
log=$out/confirm.log; : > $log
run() { echo "== $*" >> $log; ( eval "timeout 900 $*" ) >> $log 2>&1; echo $?; }
git apply $out/demo.diff || { echo "demo.diff does not apply"; exit 1; }
a=$(run "$demo")
git apply $out/patch.diff || { echo "patch.diff does not apply on demo"; exit 1; }
b=$(run "$demo")
git checkout -q -- . ; git clean -qfd -e _out -e target
git apply $out/patch.diff
c=$(run "cargo test --offline")
[ "$c" != 0 ] && { sleep 5; c=$(run "cargo test --offline"); }  # timing tests of the suite are load-sensitive
[ "$c" != 0 ] && { sleep 20; c=$(run "cargo test --offline -- --test-threads 2"); }
npass=$(grep -E "^test result: ok. 40 passed" $log | wc -l)
d=$(RUSTFLAGS="--cfg amiquip_verif" run "cargo build --offline")
git checkout -q -- . ; git clean -qfd -e _out -e target
echo "$name: demo_without=$a demo_with=$b suite_with=$c (40-pass lines: $npass) cfgbuild=$d"
if [ "$a" = 0 ] && [ "$b" != 0 ] && [ "$c" = 0 ] && [ "$d" = 0 ] && [ "$npass" -ge 1 ]; then
  mkdir -p /verif/seeded/$name
  cp $out/patch.diff $out/demo.diff /verif/seeded/$name/
  python3 - <<P
import json
m=json.load(open('$out/meta.json'))
m['confirmed']={'demo_without_patch_exit':$a,'demo_with_patch_exit':$b,'suite_with_patch_exit':$c,'cfg_build_exit':$d,
  'how':'tools/seed_confirm.sh in the scratch worktree: HEAD+demo passes, HEAD+patch+demo fails, HEAD+patch passes the 40 tests and builds with --cfg amiquip_verif'}
json.dump(m,open('/verif/seeded/$name/meta.json','w'),indent=1)
P
  echo CONFIRMED
else
  echo NOT-CONFIRMED; tail -30 $log
fi
