#!/usr/bin/env python3
"""Assemble /verif/DESIGN.md: docs/design_head.md + part B (per property, from props_cfg.py,
coq/Props/spec/*.json or coq/Props/Cxx.v, properties.jsonl) + docs/design_tail.md + part E (seeded
changes, from seeded/*/meta.json and seeded/RESULTS.json) + part F (hooks, from MANIFEST.json)."""
import json, os, re, sys, glob, textwrap
V = os.path.dirname(os.path.dirname(os.path.abspath(__file__)))
sys.path.insert(0, V)
import props_cfg

props = {}
for l in open(os.path.join(V, "properties.jsonl")):
    d = json.loads(l)
    props[d["id"]] = d


def wrap(s, indent=""):
    sub = "  " if indent == "* " else indent
    return "\n".join(textwrap.wrap(" ".join(s.split()), 98, initial_indent=indent, subsequent_indent=sub))


def theorems(pid):
    spec = os.path.join(V, "coq/Props/spec/%s.json" % pid)
    out = []
    if os.path.exists(spec):
        d = json.load(open(spec))
        for t in d["theorems"]:
            out.append((t["name"], t.get("doc", "")))
        return out
    # hand-written Props file: theorem name + the comment right above it
    txt = open(os.path.join(V, "coq/Props/%s.v" % pid)).read()
    for m in re.finditer(r"(?:\(\*((?:[^*]|\*(?!\)))*)\*\)\s*)?^Theorem\s+(\w+)", txt, re.M):
        out.append((m.group(2), " ".join((m.group(1) or "").split())))
    return out


B = ["", "-" * 99, "", "## B. The properties, as built", "",
     "Generated from `props_cfg.py` (what the drivers do: the same text goes into the evidence files) and",
     "from the theorem lists that generate `coq/Props/Cxx.v`. *Theorems* are the pinned statements (each is",
     "`exact`-closed from a lemma in `coq/Proofs/`, re-stated by `Check`, followed by `Print Assumptions`);",
     "*tie* is how the model those theorems are about is compared with /repo's current code on every run;",
     "*oracle* is the executable statement of the property evaluated on what the real code did.", ""]
for pid in sorted(props):
    p = props[pid]
    cfg = props_cfg.PROPS.get(pid)
    B.append("### %s — %s" % (pid, p["title"]))
    B.append("")
    if not cfg:
        B.append("not claimed: " + props_cfg.NOT_APPLICABLE.get(pid, "?"))
        continue
    B.append("*Theorems* (`coq/Props/%s.v`):" % pid)
    B.append("")
    for n, doc in theorems(pid):
        B.append(wrap("`%s` — %s" % (n, doc) if doc else "`%s`" % n, "* ").replace("* ", "* ", 1))
    B.append("")
    B.append("*Drivers*: " + ", ".join("`vh %s` (%d quick / %d thorough)" % (d["name"], d["n_quick"], d["n_thorough"])
                                       for d in cfg["drivers"]) + "; Coq side `coq/Check/{%s}.v`." % ",".join(cfg["check_mods"]))
    B.append("")
    B.append(wrap("*Tie and cases*: " + cfg.get("rule", "")))
    B.append("")
    B.append(wrap("*What is shown*: " + cfg.get("explanation", "")))
    B.append("")
    tb = cfg.get("trusted_base", [])
    if tb:
        B.append("*Trusted / modelled, not verified (beyond §D)*:")
        B.append("")
        for t in tb:
            B.append(wrap(t, "* ").replace("* ", "* ", 1))
        B.append("")
    if cfg.get("assumptions"):
        B.append("*Assumptions / partial*:")
        B.append("")
        for t in cfg["assumptions"]:
            B.append(wrap(t, "* "))
        B.append("")

E = ["", "-" * 99, "", "## E. Seeded property-breaking changes and which check reports them", "",
     "Each change was produced by a fresh sub-agent that was given only the property's text and a scratch git",
     "worktree of the crate (never /repo, never /verif): a realistic slip that still compiles, passes the 40",
     "tests unedited, needs something specific to manifest, plus a demonstration that fails with it and passes",
     "without. `tools/seed_confirm.sh` re-confirmed each claim (demo without / with the patch, suite with the",
     "patch, cfg build) before it was kept under `seeded/<name>/` (`patch.diff`, `demo.diff`, `meta.json`).",
     "`tools/seed_matrix.sh` applies each patch to /repo's working tree, runs the quick check of the property,",
     "undoes it (`git checkout -- .`; nothing is ever committed in /repo) and records the outcome in",
     "`seeded/RESULTS.json`, from which this table is made. Names ending in `b` are a second round, asked to",
     "differ in site and mechanism from the first. A change first *missed* and what was strengthened is in the",
     "last column; no check was weakened to make room for anything.", "",
     "| seed | what the change does (abridged) | reported by | replay kind | note |", "|---|---|---|---|---|"]
res = {}
rp = os.path.join(V, "seeded/RESULTS.json")
if os.path.exists(rp):
    res = json.load(open(rp))
notes = {}
np_ = os.path.join(V, "seeded/NOTES.json")
if os.path.exists(np_):
    notes = json.load(open(np_))
for d in sorted(glob.glob(os.path.join(V, "seeded/*/meta.json"))):
    name = os.path.basename(os.path.dirname(d))
    m = json.load(open(d))
    s = " ".join(m["summary"].split())
    if len(s) > 330:
        s = s[:327] + "..."
    s = s.replace("|", "\\|")
    r = res.get(name, {})
    by, kinds = [], []
    for k, v in sorted(r.items()):
        if v.get("result") == "caught":
            by.append(k)
            kinds.append("model only" if "no-failing-input-found" in v.get("line", "") else "failing input")
    E.append("| %s | %s | %s | %s | %s |" % (name, s, ", ".join(by) or "**not reported**", ", ".join(kinds), notes.get(name, "")))

F = ["", "-" * 99, "", "## F. Changes to /repo", "",
     "`fix:` commits: §C. Hook commits (all `verif hooks (cfg amiquip_verif): …`, add-only, compiled only under",
     "`--cfg amiquip_verif`): see the table in §A.4 and `MANIFEST.hooks`. With the guard off the crate is",
     "byte-for-byte the repaired upstream code and `cargo test --workspace --offline` passes 40/40 (re-run after",
     "every commit to /repo)."]

head = open(os.path.join(V, "docs/design_head.md")).read().rstrip("\n")
tail = open(os.path.join(V, "docs/design_tail.md")).read().rstrip("\n")
out = head + "\n" + "\n".join(B) + "\n" + tail + "\n" + "\n".join(E) + "\n" + "\n".join(F) + "\n"
open(os.path.join(V, "DESIGN.md"), "w").write(out)
print("wrote DESIGN.md (%d lines)" % out.count("\n"))
