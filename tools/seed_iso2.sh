#!/bin/bash
# seed_iso.sh <name>[:PROP] ...: like seed_matrix.sh, but on an isolated copy of /verif (its committed HEAD) and of /repo (its working tree) under
# /tmp/iso (rsync'ed from the current trees), so that /repo and /verif stay free for editing meanwhile.
# The copy's harness depends on the copied crate; results are recorded in /verif/seeded/RESULTS.json.
ISO=/tmp/iso
mkdir -p $ISO
exec 9>$ISO/.lock; flock 9
mkdir -p $ISO/export && find $ISO/export -mindepth 1 -delete && git -C /verif archive HEAD | tar -x -C $ISO/export
rsync -rlpc --delete --exclude .build --exclude "*.vo" --exclude "*.vos" --exclude "*.vok" --exclude "*.glob" --exclude "*.aux" --exclude ".lia.cache" --exclude ".nia.cache" --exclude "coq/Makefile*" --exclude "coq/.Makefile.d" --exclude "evidence" $ISO/export/ $ISO/verif/
sed -i "s|path = \"/repo\"|path = \"$ISO/repo\"|" $ISO/verif/harness/Cargo.toml
# the translators read the source of the copy too
sed -i "s|\"/repo/|\"$ISO/repo/|g" $ISO/verif/tools/rs2v_targets.json
for spec in "$@"; do
  name=${spec%%:*}
  prop=$(python3 -c "import json;print(json.load(open('/verif/seeded/$name/meta.json'))['property'])")
  case "$spec" in *:*) prop=${spec##*:};; esac
  mkdir -p $ISO/repo_export && find $ISO/repo_export -mindepth 1 -delete && git -C /repo archive HEAD | tar -x -C $ISO/repo_export
  cp /repo/Cargo.lock $ISO/repo_export/ 2>/dev/null
  rsync -rlpc --delete --exclude target $ISO/repo_export/ $ISO/repo/
  if ! (cd $ISO/repo && git apply /verif/seeded/$name/patch.diff 2>/dev/null); then
    res="patch-does-not-apply"; rc=-1; v=""
  else
    cp $ISO/verif/coq/Gen/Consts.v $ISO/Consts.v.saved
    (cd $ISO/verif && timeout 3000 ./check $prop --tier quick > $ISO/seedrun_$name.$prop.log 2>&1); rc=$?
    cp $ISO/Consts.v.saved $ISO/verif/coq/Gen/Consts.v
    v=$(grep -m1 "^VIOLATION" $ISO/seedrun_$name.$prop.log | sed "s|$ISO||")
    res=$([ "$rc" = 1 ] && echo caught || echo MISSED)
  fi
  echo "$name $prop $res rc=$rc $v"
  python3 - "$name" "$prop" "$res" "$rc" "$v" <<'P'
import json,sys,os,subprocess
p='/verif/seeded/RESULTS.json'
d=json.load(open(p)) if os.path.exists(p) else {}
name,prop,res,rc,v=sys.argv[1:6]
d.setdefault(name,{})[prop]={"result":res,"exit":int(rc),"line":v,
         "repo_head":subprocess.check_output("git -C /repo log --format=%h -1",shell=True,text=True).strip(),
         "verif_head":subprocess.check_output("git -C /verif log --format=%h -1",shell=True,text=True).strip()}
json.dump(d,open(p,'w'),indent=1,sort_keys=True)
P
done
