#!/bin/bash
# seed_matrix.sh [name[:PROP]...]: run every seeded change (default: all under /verif/seeded) against the
# check of its own property (or of PROP), serially (each is applied to /repo's working tree and undone), and
# record the outcome in /verif/seeded/RESULTS.json (committed: DESIGN.md's table is made from it).
cd /verif
names=${@:-$(ls seeded | grep -v "RESULTS\|NOTES")}
for spec in $names; do
  name=${spec%%:*}
  prop=$(python3 -c "import json;print(json.load(open('/verif/seeded/$name/meta.json'))['property'])")
  case "$spec" in *:*) prop=${spec##*:};; esac
  if ! git -C /repo diff --quiet; then echo "/repo is dirty"; exit 2; fi
  if ! git -C /repo apply --check /verif/seeded/$name/patch.diff 2>/dev/null; then
    res="patch-does-not-apply"; rc=-1; v=""
  else
    out=$(tools/seed_run.sh $name $prop quick); rc=$(echo "$out" | sed -n 's/.*exit=\([0-9-]*\).*/\1/p'); v=$(echo "$out" | grep -o "VIOLATION.*")
    res=$([ "$rc" = 1 ] && echo caught || echo MISSED)
  fi
  echo "$name $prop $res rc=$rc $v"
  python3 - "$name" "$prop" "$res" "$rc" "$v" <<'P'
import json,sys,os,subprocess
p='/verif/seeded/RESULTS.json'
d=json.load(open(p)) if os.path.exists(p) else {}
name,prop,res,rc,v=sys.argv[1:6]
d.setdefault(name,{})[prop]={"result":res,"exit":int(rc),"line":v,
         "repo_head":subprocess.check_output("git -C /repo log --format=%h -1",shell=True,text=True).strip(),
         "verif_head":subprocess.check_output("git -C /verif log --format=%h -1",shell=True,text=True).strip()}
json.dump(d,open(p,'w'),indent=1,sort_keys=True)
P
done
