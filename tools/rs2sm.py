#!/usr/bin/env python3
"""rs2sm.py <group as JSON>: translate small Rust state-machine functions (enum values, `match`,
`if let`, `?`, early `return`, `&mut self`, effects on a parameter) to Gallina over the universal
value type of coq/Lib/RsVal.v.

Companion of rs2v.py (which covers arithmetic / decision functions over numbers).  The functions
translated here are REGENERATED from the source on every run (coq/Gen/SrcCollect.v,
coq/Gen/SrcHandshake.v) and proved equal to the hand-written models (coq/Proofs/CollectorSrc.v,
coq/Proofs/HandshakeSrc.v).

Subset accepted (anything else makes the translation fail, the generated file then does not
compile and the proof obligation breaks):

  fn f([&mut] self | mut self | self, [mut] x: T, ...) -> R { stmts; [tail] }
  statements   let [mut] pat [: T] = e;      let pat = e?;
               self.f = e;      *self = e;      x.append(&mut y);
               obj.m(args);                     an EFFECT on a parameter named in the group's "effects"
               if let pat = e { block }         (no else)
               match s { pat => block | tail, ... }   followed by more statements
               return e;      return self.f(args);   (f the function itself: recursion, on fuel)
               name!(...);                      logging / assertion macros: skipped
               x = e;   x += e;   x -= e;   x.truncate(n);   self.f.g = e;   self.f.g += e;    rebindings
               if c { block }                   (no else, followed by more statements)
               let pat = match s { .. };        arms give the value, or `return`
               let pat = if let p = e { .. } else { .. };
               continue;
               while c { block }   loop { block }    a loop: a function of its own, recursive on fuel
               while let pat = e { block }           the same; each round evaluates e (it may change self) and
                                                     goes on while its value matches pat
               for pat in e { block }           a function of its own, structurally recursive on the items of e
               if c { block } else { block }    as a statement
  tail         match s { pat => tail | block , ... }
               if c { block } else { block }            a pure expression
  conditions c a == b, a < b, a > b, a <= b, a >= b, x.is_empty(), a bool field / variable / external
               method (x.is_char_boundary(n)), !c, c || c, c && c
  scrutinee s  e | e? | self.f.take()
  patterns     _  [mut] x  0  None  Some(p)  Path::Ctor(p, ..)  Path::Ctor  (p, q)  p | q (no bindings)
  expressions  integer and string literals (a string is its UTF-8 bytes; string literals are patterns too, and
               `==` / `!=` on such operands is structural equality), (), variables, x.f, self.f, e as T (casts are dropped: see below),
               &e, &mut e, *e, x[..n], x[n..], (a, b), Path { f: e, g } (a struct value), f: [move] |x| { .. }
               in a struct literal (a closure value: only its captures are kept), Ctor(args), Path::Ctor(args), Path {}, Vec::new(),
               Vec::with_capacity(e), std::cmp::min(a, b), XSnafu.fail(), e.len(), a.cmp(&b), e.clone(),
               T::new(args) (the associated function of the type parameter: the section variable
               t_new), recv.m(args) for the methods named in the group's "calls" table (a call of
               another translated function, receiver first), any other path::function(args) or
               recv.method(args): an EXTERNAL function (the section variable ext, applied to the
               name and the arguments, receiver first), constants of the file

Semantics given to it (the trusted part of this translator):
  * values are `val` (RsVal.v): unsigned integers VN (no arithmetic occurs in the functions
    translated), byte vectors VBytes, enum values / tuples / unit VC "Path::Ctor" [args], structs
    read by field VR, everything else opaque;
  * `match` tries its arms in order; a value no arm matches (ill-typed, cannot happen) is VStuck;
  * a function taking `&mut self` and / or effect parameters returns the tuple (self afterwards,
    effect objects afterwards ..., value); `self.f = e`, `*self = e` and `self.f.take()` (returns
    the field, leaves None) rebind self; `x.append(&mut y)` rebinds x to the concatenation; an
    effect call `obj.m(args)` appends (m, args) to the object's log (v_log); `let` shadows;
    variables bound by a pattern keep the value they were bound to (they are clones or are not
    used after an assignment to what they borrow from - checked by rustc, not here);
  * `e?`: Err(x) is returned at once (with self and the effect objects as they are then), Ok(v)
    continues with v; on an Option, None is returned at once and Some(v) continues with v;
    `return e` ends the function with e; `continue` is the next round of the enclosing loop;
    `unreachable!(..)` is the value Panic;
  * external functions and T::new are uninterpreted: the theorems about the translation state
    what they assume of them as hypotheses;
  * a self-recursive `return self.f(args)` is a call on one unit less of fuel, and a `while` loop
    is a separate recursive function taking one unit of fuel per round, whose parameters are the
    variables in scope and whose exit branch is what follows the loop (the theorems state how much
    fuel is enough; with too little the result is VStuck);
  * `o.context(XSnafu)` on an Option is Ok(v) / Err(Error::X), on a Result Ok(v) / Err(Error::X(e));
    a method of a parameter named in the group's "handles" (`stream.write(..)`, `entry.insert(..)`)
    is a stateful external that receives the handle, the arguments and self (also through a field
    path of the handle: `ch0_slot.common.rx.try_recv()` is "ch0_slot.common.rx.try_recv"); so is a call named in
    the group's "stateful_calls" (a closure parameter with effects, a parser that counts), and a
    chain of calls on a stateful field (self.buf.prepare_reserve(n).read_from(s)) is one stateful
    external named by the chain; a constant of another crate is an external value; for a free
    function the group's "state_param" names the parameter that plays the part of self (a
    `&mut ChannelSlot`, a `&Sender<T>` standing for the queue behind it), and "self_methods" its
    methods that are stateful externals; a local named in "iterators" is an iterator: `x.next()` yields
    its first item (or None) and leaves the rest in x; the fields named in "cells" are `Cell`s: `self.f.get()`
    reads the field, `self.f.set(e)` rebinds it (a `&self` method of such a group changes self);
  * `as usize` / `as u64` casts are dropped (u64 -> usize is the identity on the 64-bit targets the
    crate is built for here); Vec::with_capacity(n) is the empty vector (capacity is not
    observable); `.clone()` and `&` / `*` are the identity on values.
"""
import json, re, sys
sys.path.insert(0, __import__("os").path.dirname(__file__))
from rs2v import tokenize, find_fn, Fail


def cstr(s):
    return '"%s"' % s


UNIT = '(VC "()" [])'


class Parser:
    def __init__(self, toks, fname):
        self.t, self.i, self.fname = toks, 0, fname

    def peek(self, k=0):
        return self.t[self.i + k] if self.i + k < len(self.t) else None

    def eat(self, x=None):
        tok = self.peek()
        if tok is None or (x is not None and tok != x):
            raise Fail("expected %r, found %r (at token %d)" % (x, tok, self.i))
        self.i += 1
        return tok

    def skip_type(self, stops):
        depth = 0
        while True:
            tok = self.peek()
            if tok is None:
                raise Fail("type runs off the end")
            if depth == 0 and tok in stops:
                return
            if tok in ("<", "(", "["):
                depth += 1
            elif tok in (">", ")", "]"):
                depth -= 1
            elif tok == ">>":
                depth -= 2
            self.i += 1

    def skip_parens(self):
        self.eat("(")
        depth = 1
        while depth:
            tok = self.eat()
            if tok == "(":
                depth += 1
            elif tok == ")":
                depth -= 1

    def fn(self):
        while self.peek() != "fn":
            self.eat()
        self.eat("fn")
        name = self.eat()
        if self.peek() == "<":
            self.skip_type(["("])
        self.eat("(")
        params, mutself = [], False
        while self.peek() != ")":
            if self.peek() == "&":
                self.eat()
                if self.peek() == "mut":
                    self.eat()
                    mutself = True
                if self.peek() != "self":
                    raise Fail("reference pattern in parameters")
            if self.peek() == "mut":
                self.eat()
            p = self.eat()
            params.append(p)
            if self.peek() == ":":
                self.eat()
                self.skip_type([",", ")"])
            if self.peek() == ",":
                self.eat()
        self.eat(")")
        if self.peek() == "->":
            self.eat()
            self.skip_type(["{"])
        body = self.block()
        return name, params, mutself, body

    def block(self):
        self.eat("{")
        stmts = []
        while True:
            tok = self.peek()
            if tok == "}":
                self.eat()
                return ("block", stmts, None)
            if tok == "fn":
                # a nested fn item: not part of the value (its calls are external functions)
                while self.peek() != "{":
                    self.eat()
                depth = 0
                while True:
                    t2 = self.eat()
                    if t2 == "{":
                        depth += 1
                    elif t2 == "}":
                        depth -= 1
                        if depth == 0:
                            break
                continue
            if tok == "let":
                self.eat()
                pat = self.pattern()
                if self.peek() == ":":
                    self.eat()
                    self.skip_type(["="])
                self.eat("=")
                if self.peek() == "match":
                    e = ("matchexpr", self.match())
                elif self.peek() == "if" and self.peek(1) == "let":
                    self.eat(); self.eat()
                    ipat = self.pattern()
                    self.eat("=")
                    iex = self.postfix()
                    th = self.block()
                    self.eat("else")
                    el = self.block()
                    e = ("ifletexpr", ipat, iex, th, el)
                else:
                    e = self.expr()
                self.eat(";")
                stmts.append(("let", pat, e))
                continue
            if tok == "return":
                self.eat()
                if self.peek() == ";":
                    e = ("ctor", "()", [])
                else:
                    e = self.expr()
                self.eat(";")
                stmts.append(("return", e))
                continue
            # name!(...);
            if self.peek(1) == "!" and self.peek(2) == "(":
                self.eat(); self.eat()
                self.skip_parens()
                self.eat(";")
                continue
            # *self = e;
            if tok == "*" and self.peek(1) == "self" and self.peek(2) == "=":
                self.eat(); self.eat(); self.eat()
                e = self.expr()
                self.eat(";")
                stmts.append(("setself", e))
                continue
            # self.f = e;   self.f.g = e;   self.f.g += e;
            if tok == "self" and self.peek(1) == ".":
                j, path = self.i + 1, []
                while self.peek(j - self.i) == "." and re.match(r"[a-z_][a-z0-9_]*$", self.peek(j - self.i + 1) or "") and self.peek(j - self.i + 2) != "(":
                    path.append(self.peek(j - self.i + 1))
                    j += 2
                nxt, nxt2 = self.peek(j - self.i), self.peek(j - self.i + 1)
                if path and (nxt == "=" or (nxt == "+" and nxt2 == "=")):
                    self.i = j
                    plus = self.eat() == "+"
                    if plus:
                        self.eat("=")
                    e = self.expr()
                    self.eat(";")
                    if plus:
                        cur = ("var", "self")
                        for f in path:
                            cur = ("field", cur, f)
                        e = ("add", cur, e)
                    stmts.append(("setpath", path, e))
                    continue
            # x.append(&mut y);
            if self.peek(1) == "." and self.peek(2) == "append" and self.peek(3) == "(":
                x = self.eat(); self.eat("."); self.eat("append"); self.eat("(")
                self.eat("&"); self.eat("mut")
                y = self.eat()
                self.eat(")"); self.eat(";")
                stmts.append(("append", x, y))
                continue
            if tok == "continue":
                self.eat(); self.eat(";")
                stmts.append(("continuestmt",))
                continue
            if tok == "while" and self.peek(1) == "let":
                # while let PAT = e { .. }: the loop goes on as long as e matches PAT
                self.eat(); self.eat()
                pat = self.pattern()
                self.eat("=")
                ex = self.postfix()
                body = self.block()
                stmts.append(("whilelet", pat, ex, body))
                continue
            if tok == "while":
                self.eat()
                c = self.cond()
                body = self.block()
                stmts.append(("while", c, body))
                continue
            if tok == "for":
                self.eat()
                pat = self.pattern()
                self.eat("in")
                it = self.postfix()
                body = self.block()
                stmts.append(("for", pat, it, body))
                continue
            if tok == "loop":
                self.eat()
                body = self.block()
                stmts.append(("while", ("true",), body))
                continue
            # x += e;   x -= e;
            if re.match(r"[a-z_][a-z0-9_]*$", tok) and tok not in ("self", "match", "if", "let", "return") and self.peek(1) in ("+", "-") and self.peek(2) == "=":
                x = self.eat(); op = self.eat(); self.eat("=")
                e = self.expr()
                self.eat(";")
                stmts.append(("assign", x, ("add" if op == "+" else "sub", ("var", x), e)))
                continue
            # self.f.set(e);   (a Cell)
            if tok == "self" and self.peek(1) == "." and self.peek(3) == "." and self.peek(4) == "set" and self.peek(5) == "(":
                self.eat(); self.eat(); f = self.eat(); self.eat("."); self.eat("set"); self.eat("(")
                e = self.expr()
                self.eat(")"); self.eat(";")
                stmts.append(("setfield", f, e))
                continue
            # x.truncate(n);
            if self.peek(1) == "." and self.peek(2) == "truncate" and self.peek(3) == "(":
                x = self.eat(); self.eat("."); self.eat("truncate"); self.eat("(")
                n = self.expr()
                self.eat(")"); self.eat(";")
                stmts.append(("assign", x, ("slice_to", ("var", x), n)))
                continue
            # x = e;   (a local rebinding)
            if re.match(r"[a-z_][a-z0-9_]*$", tok) and tok not in ("self", "match", "if", "let", "return") and self.peek(1) == "=":
                x = self.eat(); self.eat("=")
                e = self.expr()
                self.eat(";")
                stmts.append(("assign", x, e))
                continue
            if tok == "if" and self.peek(1) != "let" and self.if_is_statement():
                self.eat()
                c = self.cond()
                body = self.block()
                stmts.append(("ifstmt", c, body))
                continue
            if tok == "if" and self.peek(1) != "let" and self.if_else_is_statement():
                self.eat()
                c = self.cond()
                body = self.block()
                self.eat("else")
                els = self.block()
                stmts.append(("ifelsestmt", c, body, els))
                continue
            if tok == "if" and self.peek(1) == "let":
                self.eat(); self.eat()
                pat = self.pattern()
                self.eat("=")
                e = self.postfix()
                body = self.block()
                if self.peek() == "else":
                    # if let .. { .. } else { .. } as the value of the block
                    self.eat()
                    els = self.block()
                    self.eat("}")
                    return ("block", stmts, ("value", ("ifletexpr", pat, e, body, els)))
                stmts.append(("iflet", pat, e, body))
                continue
            if tok == "match":
                m = self.match()
                if self.peek() == "}":
                    self.eat()
                    return ("block", stmts, m)
                stmts.append(("matchstmt", m))
                continue
            if tok == "if":
                t = self.tail()
                self.eat("}")
                return ("block", stmts, t)
            # an expression: an effect statement (followed by `;`) or the tail
            e = self.expr()
            if self.peek() == ";":
                self.eat()
                stmts.append(("exprstmt", e))
                continue
            self.eat("}")
            return ("block", stmts, ("value", e))

    def if_is_statement(self):
        """an `if c { .. }` without else that is followed by more of the block"""
        j, depth = self.i, 0
        while j < len(self.t):
            if self.t[j] == "{":
                break
            j += 1
        depth = 0
        while j < len(self.t):
            if self.t[j] == "{":
                depth += 1
            elif self.t[j] == "}":
                depth -= 1
                if depth == 0:
                    break
            j += 1
        return j + 1 < len(self.t) and self.t[j + 1] != "else"

    def if_else_is_statement(self):
        """an `if c { .. } else { .. }` that is followed by more of the block, or whose branches have no value"""
        j = self.i
        def skip_block(j):
            while self.t[j] != "{":
                j += 1
            depth = 0
            while True:
                if self.t[j] == "{":
                    depth += 1
                elif self.t[j] == "}":
                    depth -= 1
                    if depth == 0:
                        return j + 1
                j += 1
        j = skip_block(j)
        if j >= len(self.t) or self.t[j] != "else" or self.t[j + 1] != "{":
            return False
        k = skip_block(j + 1)
        # followed by more statements, or the else block ends in `;` / `}` before its brace (no tail value)
        return self.t[k] != "}" or self.t[k - 2] in (";", "}")

    def cond(self):
        c = self.cond1()
        while self.peek() in ("||", "&&"):
            op = self.eat()
            c = ("or" if op == "||" else "and", c, self.cond1())
        return c

    def cond1(self):
        neg = False
        if self.peek() == "!":
            self.eat()
            neg = True
        a = self.postfix()
        if self.peek() in (">", "<", ">=", "<=", "==", "!="):
            op = self.eat()
            b = self.postfix()
            c = ("cmp", op, a, b)
        else:
            c = ("boolexpr", a)
        return ("not", c) if neg else c

    def match(self):
        self.eat("match")
        scrut = self.scrutinee()
        self.eat("{")
        arms = []
        while self.peek() != "}":
            pat = self.pattern()
            self.eat("=>")
            if self.peek() == "{":
                body = self.block()
            else:
                body = ("block", [], self.tail())
            arms.append((pat, body))
            if self.peek() == ",":
                self.eat()
        self.eat("}")
        return ("match", scrut, arms)

    def tail(self):
        if self.peek() == "match":
            return self.match()
        if self.peek() == "return":
            self.eat()
            if self.peek() in (",", "}"):
                return ("ret", ("ctor", "()", []))
            return ("ret", self.expr())
        if self.peek() == "continue":
            self.eat()
            return ("continue",)
        if self.peek() in ("unreachable", "panic") and self.peek(1) == "!":
            self.eat(); self.eat()
            self.skip_parens()
            return ("panic",)
        if self.peek() == "if":
            self.eat()
            c = self.cond()
            th = self.block()
            self.eat("else")
            el = self.block()
            return ("ifc", c, th, el)
        return ("value", self.expr())

    def scrutinee(self):
        # self.f.take()
        if self.peek() == "self" and self.peek(1) == "." and self.peek(3) == "." and self.peek(4) == "take":
            self.eat(); self.eat(); f = self.eat(); self.eat("."); self.eat("take"); self.eat("("); self.eat(")")
            return ("take", f)
        return ("plain", self.postfix())

    def pattern(self):
        p = self.pattern1()
        if self.peek() == "|":
            alts = [p]
            while self.peek() == "|":
                self.eat()
                alts.append(self.pattern1())
            return ("or", alts)
        return p

    def pattern1(self):
        if self.peek() == "mut":
            self.eat()
        if self.peek() == "_":
            self.eat()
            return ("wild",)
        if re.match(r"\d", self.peek()):
            return ("num", int(self.eat().replace("_", "")))
        if self.peek().startswith('"'):
            return ("strpat", self.eat()[1:-1])
        if self.peek() == "(":
            self.eat()
            ps = []
            while self.peek() != ")":
                ps.append(self.pattern())
                if self.peek() == ",":
                    self.eat()
            self.eat(")")
            return ("ctor", "tuple", ps) if ps else ("ctor", "()", [])
        path = self.path()
        if self.peek() == "(":
            self.eat()
            ps = []
            while self.peek() != ")":
                ps.append(self.pattern())
                if self.peek() == ",":
                    self.eat()
            self.eat(")")
            return ("ctor", path, ps)
        if "::" in path or path[0].isupper():
            return ("ctor", path, [])
        return ("var", path)

    def path(self):
        p = self.eat()
        if not re.match(r"[A-Za-z_]", p):
            raise Fail("path expected, found %r" % p)
        while self.peek() == "::":
            self.eat()
            p += "::" + self.eat()
        return p

    def expr(self):
        e = self.postfix()
        # a product of two operands (CONST * x): the only arithmetic besides += / -=
        if self.peek() == "*" :
            self.eat()
            e = ("mul", e, self.postfix())
        return e

    def args(self):
        self.eat("(")
        out = []
        while self.peek() != ")":
            if self.peek() == "||":
                self.eat()
                out.append(("closure", ("wild",), self.expr()))
                if self.peek() == ",":
                    self.eat()
                continue
            if self.peek() == "|":
                # a closure |pat| expr (only as the argument of map_err)
                self.eat()
                pat = self.pattern1()
                self.eat("|")
                out.append(("closure", pat, self.expr()))
                if self.peek() == ",":
                    self.eat()
                continue
            out.append(self.expr())
            if self.peek() == ",":
                self.eat()
        self.eat(")")
        return out

    def postfix(self):
        e = self.atom()
        while True:
            if self.peek() == "." and self.peek(1) != "." and self.peek(2) == "::" and self.peek(3) == "<":
                # x.parse::<u16>()
                self.eat()
                m = self.eat()
                self.eat("::"); self.eat("<")
                ty = self.eat()
                self.eat(">")
                e = ("method", e, "%s::<%s>" % (m, ty), self.args())
            elif self.peek() == "." and self.peek(1) != "." and self.peek(2) == "(":
                self.eat()
                m = self.eat()
                e = ("method", e, m, self.args())
            elif self.peek() == "." and self.peek(1) != ".":
                self.eat()
                e = ("field", e, self.eat())
            elif self.peek() == "as":
                self.eat()
                ty = self.eat()
                if ty == "u16":
                    e = ("cast16", e)
                elif ty not in ("usize", "u64", "u32"):
                    raise Fail("cast to %s" % ty)
            elif self.peek() == "?":
                self.eat()
                e = ("try", e)
            elif self.peek() == "[":
                # x[..n]  /  x[n..]
                self.eat()
                if self.peek() == "." and self.peek(1) == ".":
                    self.eat(); self.eat()
                    n = self.expr()
                    self.eat("]")
                    e = ("slice_to", e, n)
                else:
                    n = self.expr()
                    self.eat("."); self.eat(".")
                    self.eat("]")
                    e = ("slice_from", e, n)
            else:
                return e

    def closure_value(self):
        """[move] |x| body, as a value: only the names it mentions are kept (those bound outside are its captures)"""
        if self.peek() == "move":
            self.eat()
        self.eat("|")
        bound = []
        while self.peek() != "|":
            bound.append(self.eat())
        self.eat("|")
        names = []
        if self.peek() == "{":
            depth = 0
            while True:
                tok = self.eat()
                if tok == "{":
                    depth += 1
                elif tok == "}":
                    depth -= 1
                    if depth == 0:
                        break
                elif re.match(r"[a-z_]\w*$", tok) and tok not in bound and tok not in names:
                    names.append(tok)
        else:
            raise Fail("closure value without a block body")
        return ("closureval", names)

    def atom(self):
        tok = self.peek()
        if tok == "&":
            self.eat()
            if self.peek() == "mut":
                self.eat()
            return self.postfix()
        if tok == "*":
            self.eat()
            return self.postfix()
        if tok == "(":
            self.eat()
            if self.peek() == ")":
                self.eat()
                return ("ctor", "()", [])
            items = [self.expr()]
            while self.peek() == ",":
                self.eat()
                if self.peek() != ")":
                    items.append(self.expr())
            self.eat(")")
            if len(items) == 1 and self.peek() == "(":
                # (self.f)(args): a call of the closure a field holds
                return ("callval", items[0], self.args())
            return items[0] if len(items) == 1 else ("ctor", "tuple", items)
        if re.match(r"\d", tok):
            self.eat()
            return ("num", int(tok.replace("_", "")))
        if tok.startswith('"'):
            self.eat()
            return ("str", tok[1:-1])
        if tok in ("true", "false"):
            self.eat()
            return ("ctor", tok, [])
        p = self.path()
        if self.peek() == "(":
            return ("call", p, self.args())
        if self.peek() == "{" and self.peek(1) == "}" and p[0].isupper():
            self.eat(); self.eat()
            return ("ctor", p, [])
        if self.peek() == "{" and p[0].isupper() and re.match(r"[a-z_]\w*$", self.peek(1) or "") and self.peek(2) in (":", ",", "}"):
            # a struct literal  Path { f: e, g, .. }
            self.eat()
            fields = []
            while self.peek() != "}":
                f = self.eat()
                if self.peek() == ":":
                    self.eat()
                    if self.peek() in ("move", "|"):
                        fields.append((f, self.closure_value()))
                    else:
                        fields.append((f, self.expr()))
                else:
                    fields.append((f, ("var", f)))
                if self.peek() == ",":
                    self.eat()
            self.eat("}")
            return ("struct", p, fields)
        if "::" in p or p[0].isupper():
            return ("ctor", p, [])
        return ("var", p)


def const_value(src, name):
    m = re.search(r"\bconst\s+%s\s*:\s*\w+\s*=\s*([^;]+);" % re.escape(name), src)
    if not m:
        raise Fail("constant %s not found" % name)
    text = m.group(1).strip().replace("_", "")
    m2 = re.fullmatch(r"(\d+)\s*<<\s*(\d+)", text)
    if m2:
        return int(m2.group(1)) << int(m2.group(2))
    if re.fullmatch(r"\d+", text):
        return int(text)
    raise Fail("constant %s = %s not understood" % (name, text))


class Gen:
    def __init__(self, src, calls, threaded, fname, cname, chans=(), mutcalls=()):
        # threaded: the names whose final value is returned beside the result (self if &mut, effect objects)
        # chans: fields of self that are channel ends (self.tx.send(..), self.rx.recv()): stateful externals
        # mutcalls: translated functions that take &mut self and nothing else threaded (they return (self, v))
        self.src, self.calls, self.threaded, self.fname, self.cname = src, calls, threaded, fname, cname
        self.chans, self.mutcalls = set(chans), set(mutcalls)
        self.effects = [t for t in threaded if t != "self"]
        self.n = 0
        self.recursive = False
        self.uses_fuel = False
        self.loops = []
        self.again = []
        self.handles = set()
        self.fuelcalls = set()
        self.stcalls = set()
        self.stcalls = set()
        self.selfmethods = set()
        self.cells = set()
        self.iterators = set()
        self.ty = " * ".join(["val"] * (len(threaded) + 1))

    def fresh(self, base):
        self.n += 1
        return "%s_%d" % (base, self.n)

    def e(self, x, env):
        k = x[0]
        if k == "num":
            return "(VN %d)" % x[1]
        if k == "str":
            if "\\" in x[1]:
                raise Fail("escape in a string literal")
            return "(VBytes [%s])" % "; ".join(str(b) for b in x[1].encode("utf-8"))
        if k == "var":
            if x[1] in env:
                return env[x[1]]
            raise Fail("unbound variable %s" % x[1])
        if k == "field":
            return "(v_field %s %s)" % (cstr(x[2]), self.e(x[1], env))
        if k == "cast16":
            return "(v_u16 %s)" % self.e(x[1], env)
        if k == "struct":
            rec = "(VR [%s])" % "; ".join("(%s, %s)" % (cstr(f), self.e(v, env)) for f, v in x[2])
            # a struct-like enum variant keeps its name
            return "(VC %s [%s])" % (cstr(x[1]), rec) if "::" in x[1] else rec
        if k == "closureval":
            return "(VC \"closure\" [%s])" % "; ".join(env[n] for n in x[1] if n in env)
        if k == "add":
            return "(v_add %s %s)" % (self.e(x[1], env), self.e(x[2], env))
        if k == "mul":
            return "(v_mul %s %s)" % (self.e(x[1], env), self.e(x[2], env))
        if k == "sub":
            return "(v_sub %s %s)" % (self.e(x[1], env), self.e(x[2], env))
        if k == "callval":
            f = x[1]
            name, cur = [], f
            while cur[0] == "field":
                name.insert(0, cur[2])
                cur = cur[1]
            if cur != ("var", "self"):
                raise Fail("call of a value that is not a field of self")
            return "(ext %s [%s])" % (cstr(".".join(name)), "; ".join([env["self"]] + [self.e(a, env) for a in x[2]]))
        if k == "slice_to":
            return "(v_take %s %s)" % (self.e(x[2], env), self.e(x[1], env))
        if k == "slice_from":
            return "(v_drop %s %s)" % (self.e(x[2], env), self.e(x[1], env))
        if k == "ctor":
            if x[1].isupper() and "::" not in x[1] and not x[2]:
                try:
                    return "(VN %d)" % const_value(self.src, x[1])
                except Fail:
                    # a constant of another crate: an external value
                    return "(ext %s [])" % cstr(x[1])
            if x[1].endswith("Snafu"):
                raise Fail("snafu selector outside .fail()")
            return "(VC %s [%s])" % (cstr(x[1]), "; ".join(self.e(a, env) for a in x[2]))
        if k == "call":
            p, args = x[1], x[2]
            if p == "Vec::new" and not args:
                return "(VBytes [])"
            if p == "Vec::with_capacity" and len(args) == 1:
                self.e(args[0], env)   # must itself be translatable
                return "(VBytes [])"
            if p in ("std::cmp::min", "cmp::min") and len(args) == 2:
                return "(v_min %s %s)" % (self.e(args[0], env), self.e(args[1], env))
            if p in ("u32::from", "u64::from", "usize::from", "u16::from") and len(args) == 1:
                return self.e(args[0], env)
            if p in ("usize::max", "u32::max", "u64::max", "std::cmp::max") and len(args) == 2:
                return "(v_max %s %s)" % (self.e(args[0], env), self.e(args[1], env))
            if p in self.stcalls:
                raise Fail("stateful call %s used as a pure value" % p)
            if p == "T::new":
                # the associated function of the type parameter: what it builds depends on T
                return "(t_new [%s])" % "; ".join(self.e(a, env) for a in args)
            last = p.split("::")[-1]
            if last[0].islower():
                return "(ext %s [%s])" % (cstr(p), "; ".join(self.e(a, env) for a in args))
            return "(VC %s [%s])" % (cstr(p), "; ".join(self.e(a, env) for a in args))
        if k == "method":
            recv, m, args = x[1], x[2], x[3]
            if m == "fail" and recv[0] == "ctor" and recv[1].endswith("Snafu") and not args:
                # the snafu context selector XSnafu builds the variant Error::X
                return "(VC \"Err\" [VC %s []])" % cstr("Error::" + recv[1][:-5])
            if m == "fail" and recv[0] == "struct" and recv[1].endswith("Snafu") and not args:
                return "(VC \"Err\" [VC %s [%s]])" % (cstr("Error::" + recv[1][:-5]), "; ".join(self.e(v, env) for _, v in recv[2]))
            if m == "context" and len(args) == 1 and args[0][0] == "ctor" and args[0][1].endswith("Snafu"):
                # Option::context(XSnafu): Some(v) -> Ok(v), None -> Err(Error::X); Result::context: Err(e) -> Err(Error::X(e))
                return "(v_context %s %s)" % (cstr("Error::" + args[0][1][:-5]), self.e(recv, env))
            if recv[0] == "var" and recv[1] in self.effects:
                raise Fail("effect call %s.%s used as a value" % (recv[1], m))
            if m in ("clone", "to_string", "as_ref", "as_bytes", "into") and not args:
                return self.e(recv, env)
            if m == "unwrap" and not args:
                return "(v_unwrap %s)" % self.e(recv, env)
            if m == "with_context" and len(args) == 1 and args[0][0] == "closure":
                body = args[0][2]
                sel = body[1] if body[0] in ("struct", "ctor") else None
                if not sel or not sel.endswith("Snafu"):
                    raise Fail("with_context closure")
                return "(v_context %s %s)" % (cstr("Error::" + sel[:-5]), self.e(recv, env))
            if m == "get" and not args and recv[0] == "field" and recv[1] == ("var", "self") and recv[2] in self.cells:
                return self.e(recv, env)
            if m == "len" and not args:
                return "(v_len %s)" % self.e(recv, env)
            if m == "unwrap_or" and len(args) == 1:
                return "(v_unwrap_or %s %s)" % (self.e(recv, env), self.e(args[0], env))
            if m == "cmp" and len(args) == 1:
                return "(v_cmp %s %s)" % (self.e(recv, env), self.e(args[0], env))
            if m in self.calls:
                return "(%s %s)" % (self.calls[m], " ".join([self.e(recv, env)] + [self.e(a, env) for a in args]))
            return "(ext %s [%s])" % (cstr(m), "; ".join([self.e(recv, env)] + [self.e(a, env) for a in args]))
        raise Fail("expression %r" % (x,))

    def cond(self, c, env):
        if c[0] == "not":
            return "(negb %s)" % self.cond(c[1], env)
        if c[0] == "true":
            return "true"
        if c[0] == "or":
            return "(%s || %s)" % (self.cond(c[1], env), self.cond(c[2], env))
        if c[0] == "and":
            return "(%s && %s)" % (self.cond(c[1], env), self.cond(c[2], env))
        if c[0] == "cmp" and c[1] in ("==", "!=") and (self.nonnum(c[2]) or self.nonnum(c[3])):
            r = "(v_beq %s %s)" % (self.e(c[2], env), self.e(c[3], env))
            return r if c[1] == "==" else "(negb %s)" % r
        if c[0] == "cmp":
            op, a, b = c[1], self.e(c[2], env), self.e(c[3], env)
            return {"==": "(v_eqb %s %s)" % (a, b), "<": "(v_ltb %s %s)" % (a, b), ">": "(v_ltb %s %s)" % (b, a),
                    "<=": "(negb (v_ltb %s %s))" % (b, a), ">=": "(negb (v_ltb %s %s))" % (a, b)}[op]
        x = c[1]
        if x[0] == "method" and x[2] == "is_empty" and not x[3]:
            return "(v_is_empty %s)" % self.e(x[1], env)
        if x[0] == "method" and x[2] in ("is_some", "is_none") and not x[3]:
            r = "(v_is_some %s)" % self.e(x[1], env)
            return r if x[2] == "is_some" else "(negb %s)" % r
        if x[0] in ("field", "var", "method"):
            return "(v_is_true %s)" % self.e(x, env)
        raise Fail("condition %r" % (c,))

    def nonnum(self, x):
        return x[0] == "str" or (x[0] in ("ctor", "call") and any(self.nonnum(a) or a[0] == "str" for a in x[2])) or (x[0] == "ctor" and not x[2] and not x[1].isupper())

    def assigned(self, b):
        """local variables a block rebinds (x = e; x.append(..))"""
        out = []
        for st in b[1]:
            if st[0] in ("assign", "append") and st[1] not in out:
                out.append(st[1])
            if st[0] in ("ifstmt", "while", "whilelet"):
                out += [v for v in self.assigned(st[2]) if v not in out]
            if st[0] == "ifelsestmt":
                out += [v for v in self.assigned(st[2]) + self.assigned(st[3]) if v not in out]
        return out

    def stateful_chain(self, x):
        """self.<..>.f.a(x).b(y) with f a stateful field: (name "f.a.b", [x; y]) or None"""
        if x[0] != "method":
            return None
        recv, m, args = x[1], x[2], x[3]
        if self.stateful_recv(recv):
            return ("%s.%s" % (recv[2], m), list(args))
        inner = self.stateful_chain(recv)
        if inner is None:
            return None
        return ("%s.%s" % (inner[0], m), inner[1] + list(args))

    def handle_path(self, recv):
        """<h>.<a>.<b> with h one of the group's handles (a parameter standing for state outside self, such
        as a `&Channel0Slot` whose receiver is drained): (h, "a.b") or None"""
        path = []
        cur = recv
        while cur[0] == "field":
            path.append(cur[2])
            cur = cur[1]
        if path and cur[0] == "var" and cur[1] in self.handles:
            return (cur[1], ".".join(reversed(path)))
        return None

    def stateful_recv(self, recv):
        """self.<..>.<f> with f one of the group's stateful fields"""
        if recv[0] != "field" or recv[2] not in self.chans:
            return False
        cur = recv[1]
        while cur[0] == "field":
            cur = cur[1]
        return cur == ("var", "self")

    def effectful(self, x):
        """does evaluating x change self (a call of a translated &mut self function, an operation on a
        channel end of self), or return early (`?`)?"""
        k = x[0]
        if k in ("try", "matchexpr", "ifletexpr"):
            return True
        if k == "call" and x[1] in self.stcalls:
            return True
        if k == "cast16":
            return self.effectful(x[1])
        if k == "method":
            recv, m, args = x[1], x[2], x[3]
            if recv == ("var", "self") and m in self.calls and self.calls[m] in self.mutcalls:
                return True
            if recv == ("var", "self") and m in self.selfmethods:
                return True
            if m == "take" and not args and recv[0] == "field" and recv[1] == ("var", "self"):
                return True
            if self.stateful_recv(recv) and m not in ("len", "is_empty"):
                return True
            if self.stateful_chain(x) is not None and not self.stateful_recv(recv):
                return True
            if recv[0] == "var" and recv[1] in self.handles:
                return True
            if self.handle_path(recv) is not None:
                return True
            if recv[0] == "var" and recv[1] in self.iterators and m == "next" and not args:
                return True
            if m in ("map_err", "unwrap_or_else"):
                return True
            return self.effectful(recv) or any(self.effectful(a) for a in args if a[0] != "closure")
        if k in ("call", "ctor"):
            return any(self.effectful(a) for a in x[2])
        if k == "field":
            return self.effectful(x[1])
        return False

    def ev(self, x, env, k):
        """code for evaluating x, then k(env', code of its value); env' has the current name of self"""
        if not self.effectful(x):
            return k(env, self.e(x, env))
        kind = x[0]
        if kind == "try":
            def after(env2, v):
                r, okv, err = self.fresh("tried"), self.fresh("okval"), self.fresh("err")
                kk = self.fresh("after")
                # Result: Err(e) returns Err(e); Option: None returns None; Ok(v) / Some(v) go on with v
                return "let %s := %s in\nlet %s := fun %s : val =>\n%s in\nmatch %s with\n| VC \"Err\" [%s] => %s\n| VC \"Ok\" [%s] => %s %s\n| VC \"None\" [] => %s\n| VC \"Some\" [%s] => %s %s\n| _ => %s\nend" % (
                    r, v, kk, okv, k(env2, okv), r, err, self.ret("(VC \"Err\" [%s])" % err, env2), okv, kk, okv,
                    self.ret("(VC \"None\" [])", env2), okv, kk, okv, self.stuck(env2))
            return self.ev(x[1], env, after)
        if kind == "matchexpr":
            return self.match(x[1], env, k)
        if kind == "ifletexpr":
            _, ipat, iex, th, el = x

            def go(env2, val):
                v, r = self.fresh("v"), self.fresh("else")
                return ("let %s := %s in\nlet %s := fun _ : unit =>\n%s in\n%s" % (
                    v, val, r, self.block(el, env2, k), self.pat(ipat, v, env2, lambda env3: self.block(th, env3, k), "%s tt" % r)))
            return self.ev(iex, env, go)
        if kind == "call" and x[1] in self.stcalls:
            if "self" not in self.threaded:
                raise Fail("stateful call in a function that does not take &mut self")
            n, v = self.fresh("self"), self.fresh("v")
            env2 = dict(env)
            env2["self"] = n
            return "let '(%s, %s) := ext_st %s [%s] %s in\n%s" % (
                n, v, cstr(x[1]), "; ".join(self.e(a, env) for a in x[2]), env["self"], k(env2, v))
        if kind == "cast16":
            return self.ev(x[1], env, lambda env2, v: k(env2, "(v_u16 %s)" % v))
        if kind == "method":
            recv, m, args = x[1], x[2], x[3]
            if m == "map_err" and len(args) == 1 and args[0][0] == "closure":
                _, cpat, cbody = args[0]
                if cpat[0] != "wild" and cpat != ("ctor", "()", []):
                    raise Fail("map_err closure that uses its argument")
                def after(env2, v):
                    r, okv, res = self.fresh("res"), self.fresh("okval"), self.fresh("mapped")
                    # Ok(v) stays; on Err(_) the closure runs (it may change self)
                    joined = k  # both branches continue with k
                    return ("let %s := %s in\nmatch %s with\n| VC \"Ok\" [%s] =>\n%s\n| VC \"Err\" [_] =>\n%s\n| _ => %s\nend" % (
                        r, v, r, okv, k(env2, "(VC \"Ok\" [%s])" % okv),
                        self.ev(cbody, env2, lambda env3, e3: k(env3, "(VC \"Err\" [%s])" % e3)), self.stuck(env2)))
                return self.ev(recv, env, after)
            if recv == ("var", "self") and m in self.calls and self.calls[m] in self.mutcalls:
                if "self" not in self.threaded:
                    raise Fail("call of a &mut self function from one that does not take &mut self")
                if any(self.effectful(a) for a in args):
                    raise Fail("effectful argument")
                n, v = self.fresh("self"), self.fresh("v")
                env2 = dict(env)
                env2["self"] = n
                fuel = ""
                if self.calls[m] in self.fuelcalls:
                    fuel = "fuel "
                    self.uses_fuel = True
                return "let '(%s, %s) := %s %s%s in\n%s" % (n, v, self.calls[m], fuel, " ".join([env["self"]] + [self.e(a, env) for a in args]), k(env2, v))
            if m == "unwrap_or_else" and len(args) == 1 and args[0][0] == "closure":
                _, cpat, cbody = args[0]

                def after(env2, v):
                    r, sv = self.fresh("opt"), self.fresh("somev")
                    # Some(v) yields v; on None the closure runs
                    return ("let %s := %s in\nmatch %s with\n| VC \"Some\" [%s] =>\n%s\n| VC \"None\" [] =>\n%s\n| _ => %s\nend" % (
                        r, v, r, sv, k(env2, sv), self.ev(cbody, env2, k), self.stuck(env2)))
                return self.ev(recv, env, after)
            if m == "take" and not args and recv[0] == "field" and recv[1] == ("var", "self"):
                # Option::take on a field of self: its value, and None left behind
                if "self" not in self.threaded:
                    raise Fail("take() on a field of self in a function that does not take &mut self")
                n, v = self.fresh("self"), self.fresh("taken")
                env2 = dict(env)
                env2["self"] = n
                return "let %s := v_field %s %s in\nlet %s := v_set %s (VC \"None\" []) %s in\n%s" % (
                    v, cstr(recv[2]), env["self"], n, cstr(recv[2]), env["self"], k(env2, v))
            if recv == ("var", "self") and m in self.selfmethods:
                n, v = self.fresh("self"), self.fresh("v")
                env2 = dict(env)
                env2["self"] = n
                return "let '(%s, %s) := ext_st %s [%s] %s in\n%s" % (
                    n, v, cstr("self.%s" % m), "; ".join(self.e(a, env) for a in args), env["self"], k(env2, v))
            if m == "context" and len(args) == 1 and args[0][0] == "ctor" and args[0][1].endswith("Snafu"):
                return self.ev(recv, env, lambda env2, v: k(env2, "(v_context %s %s)" % (cstr("Error::" + args[0][1][:-5]), v)))
            if recv[0] == "var" and recv[1] in self.iterators and m == "next" and not args:
                # Iterator::next on a local: its first item (or None), the rest stays in the local
                x0 = recv[1]
                v, n = self.fresh("item"), self.fresh(x0)
                env2 = dict(env)
                env2[x0] = n
                return "let %s := v_next %s in\nlet %s := v_rest %s in\n%s" % (v, env[x0], n, env[x0], k(env2, v))
            if self.handle_path(recv) is not None:
                # an operation on something reached through a handle: it goes to self as well
                h, path = self.handle_path(recv)
                n, v = self.fresh("self"), self.fresh("v")
                env2 = dict(env)
                env2["self"] = n
                return "let '(%s, %s) := ext_st %s [%s] %s in\n%s" % (
                    n, v, cstr("%s.%s.%s" % (h, path, m)), "; ".join([env[h]] + [self.e(a, env) for a in args]), env["self"], k(env2, v))
            if recv[0] == "var" and recv[1] in self.handles:
                # a handle obtained from self (a HashMap entry): the operation goes to self
                n, v = self.fresh("self"), self.fresh("v")
                env2 = dict(env)
                env2["self"] = n
                return "let '(%s, %s) := ext_st %s [%s] %s in\n%s" % (
                    n, v, cstr("%s.%s" % (recv[1], m)), "; ".join([env[recv[1]]] + [self.e(a, env) for a in args]), env["self"], k(env2, v))
            if not self.stateful_recv(recv) and self.stateful_chain(x) is not None:
                name, cargs = self.stateful_chain(x)
                n, v = self.fresh("self"), self.fresh("v")
                env2 = dict(env)
                env2["self"] = n
                return "let '(%s, %s) := ext_st %s [%s] %s in\n%s" % (
                    n, v, cstr(name), "; ".join(self.e(a, env) for a in cargs), env["self"], k(env2, v))
            if self.stateful_recv(recv):
                if "self" not in self.threaded:
                    raise Fail("channel operation in a function that does not take &mut self")
                if any(self.effectful(a) for a in args):
                    raise Fail("effectful argument")
                n, v = self.fresh("self"), self.fresh("v")
                env2 = dict(env)
                env2["self"] = n
                return "let '(%s, %s) := ext_st %s [%s] %s in\n%s" % (
                    n, v, cstr("%s.%s" % (recv[2], m)), "; ".join(self.e(a, env) for a in args), env["self"], k(env2, v))
        if kind == "method" and self.effectful(x[1]) and not any(self.effectful(a) for a in x[3] if a[0] != "closure"):
            # a pure method of an effectful receiver: the receiver first
            def apply(env2, val):
                tmp = self.fresh("recv")
                env3 = dict(env2)
                env3[tmp] = tmp
                return "let %s := %s in\n%s" % (tmp, val, self.ev(("method", ("var", tmp), x[2], x[3]), env3, k))
            return self.ev(x[1], env, apply)
        raise Fail("effectful expression in an unsupported position: %r" % (x,))

    def ret(self, v, env):
        parts = [env[t] for t in self.threaded] + [v]
        return "(%s)" % ", ".join(parts) if len(parts) > 1 else v

    def stuck(self, env):
        return self.ret("VStuck", env)

    def block(self, b, env, k):
        return self.stmts(b[1], b[2], dict(env), k)

    def stmts(self, ss, tail, env, k):
        if not ss:
            if tail is None:
                return k(env, UNIT)
            return self.tail(tail, env, k)
        s, rest = ss[0], ss[1:]
        cont = lambda env2: self.stmts(rest, tail, env2, k)
        kind = s[0]
        if kind == "let":
            _, pat, ex = s

            def bind(env2, val):
                v = self.fresh("v")
                return "let %s := %s in\n" % (v, val) + self.pat(pat, v, env2, cont, self.stuck(env2))
            return self.ev(ex, env, bind)
        if kind == "return":
            ex = s[1]
            if ex[0] == "method" and ex[1] == ("var", "self") and ex[2] == self.fname:
                # recursion: the callee returns the same tuple
                self.recursive = True
                args = ex[3]
                names = [a[1] if a[0] == "var" else None for a in args]
                return "(%s fuel_ %s)" % (self.cname, " ".join([env["self"]] + [self.e(a, env) for a in args]))
            return self.ev(ex, env, lambda env2, v: self.ret(v, env2))
        if kind == "setself":
            if "self" not in self.threaded:
                raise Fail("assignment to *self in a function that does not take &mut self")
            n = self.fresh("self")
            env = dict(env)
            code = "let %s := %s in\n" % (n, self.e(s[1], env))
            env["self"] = n
            return code + cont(env)
        if kind == "setfield":
            s = ("setpath", [s[1]], s[2])
            kind = "setpath"
        if kind == "setpath":
            if "self" not in self.threaded:
                raise Fail("assignment to a field of self in a function that does not take &mut self")
            path = s[1]

            def store(env2, val):
                def build(obj, fields):
                    if len(fields) == 1:
                        return "(v_set %s %s %s)" % (cstr(fields[0]), val, obj)
                    return "(v_set %s %s %s)" % (cstr(fields[0]), build("(v_field %s %s)" % (cstr(fields[0]), obj), fields[1:]), obj)
                n = self.fresh("self")
                env3 = dict(env2)
                code = "let %s := %s in\n" % (n, build(env2["self"], path))
                env3["self"] = n
                return code + cont(env3)
            return self.ev(s[2], env, store)
        if kind == "append":
            n = self.fresh(s[1])
            env = dict(env)
            code = "let %s := v_append %s %s in\n" % (n, env[s[1]], env[s[2]])
            env[s[1]] = n
            return code + cont(env)
        if kind == "exprstmt":
            ex = s[1]
            if ex[0] == "method" and ex[1][0] == "var" and ex[1][1] in self.effects:
                obj = ex[1][1]
                n = self.fresh(obj)
                env = dict(env)
                code = "let %s := v_log %s [%s] %s in\n" % (n, cstr(ex[2]), "; ".join(self.e(a, env) for a in ex[3]), env[obj])
                env[obj] = n
                return code + cont(env)
            if self.effectful(ex):
                return self.ev(ex, env, lambda env2, _v: cont(env2))
            raise Fail("expression statement %r" % (ex,))
        if kind == "continuestmt":
            if not self.again:
                raise Fail("continue outside a loop")
            return self.again[-1](env, None)
        if kind == "assign":
            n = self.fresh(s[1])
            env = dict(env)
            code = "let %s := %s in\n" % (n, self.e(s[2], env))
            env[s[1]] = n
            return code + cont(env)
        if kind == "ifstmt":
            _, c, body = s
            if c[0] == "boolexpr" and c[1][0] == "method" and c[1][2] in ("is_some", "is_none") and self.effectful(c[1][1]):
                # the operand is evaluated first (it may advance an iterator)
                def test(env2, val):
                    r = "(v_is_some %s)" % val
                    r = r if c[1][2] == "is_some" else "(negb %s)" % r
                    return "(if %s then\n%s\nelse\n%s)" % (r, self.block(body, env2, lambda env3, _v: cont(env3)), cont(env2))
                return self.ev(c[1][1], env, test)
            return "(if %s then\n%s\nelse\n%s)" % (self.cond(c, env), self.block(body, env, lambda env2, _v: cont(env2)), cont(env))
        if kind == "ifelsestmt":
            _, c, body, els = s
            return "(if %s then\n%s\nelse\n%s)" % (self.cond(c, env), self.block(body, env, lambda env2, _v: cont(env2)),
                                                     self.block(els, env, lambda env2, _v: cont(env2)))
        if kind == "for":
            # `for pat in e { .. }`: a function of its own, structurally recursive on the items
            _, fpat, it, body = s
            lname = "%s_loop%d" % (self.cname, len(self.loops) + 1)
            self.loops.append(None)   # reserve the number
            slot = len(self.loops) - 1

            def run(env1, itv):
                names = sorted(env1.keys(), key=lambda v: (v != "self", v))
                inner = {v: "%s_l" % v.replace("'", "") for v in names}

                def again(env2, _v):
                    return "(%s rest_ %s)" % (lname, " ".join(env2[v] for v in names))
                self.again.append(again)
                body_code = self.pat(fpat, "x_", inner, lambda env2: self.block(body, env2, again), self.stuck(inner))
                self.again.pop()
                rest_code = cont(inner)
                self.loops[slot] = "Fixpoint %s (items_ : list val) %s{struct items_} : %s :=\nmatch items_ with\n| [] =>\n%s\n| x_ :: rest_ =>\n%s\nend." % (
                    lname, "".join("(%s : val) " % inner[v] for v in names), self.ty, rest_code, body_code)
                return "(%s (v_items %s) %s)" % (lname, itv, " ".join(env1[v] for v in names))
            return self.ev(it, env, run)
        if kind == "while":
            # a loop is a function of its own, recursive on fuel, of every variable in scope: those the
            # body rebinds (and the threaded ones) change from one round to the next; what follows the
            # loop is the else-branch of its test
            _, c, body = s
            self.uses_fuel = True
            lname = "%s_loop%d" % (self.cname, len(self.loops) + 1)
            names = sorted(env.keys(), key=lambda v: (v != "self", v))
            params = {v: "%s_l" % v.replace("'", "") for v in names}
            inner = dict(params)

            def again(env2, _v):
                return "(%s fuel_ %s)" % (lname, " ".join(env2[v] for v in names))
            self.again.append(again)
            body_code = self.block(body, inner, again)
            self.again.pop()
            rest_code = cont(inner)
            self.loops.append("Fixpoint %s (fuel : nat) %s{struct fuel} : %s :=\nmatch fuel with\n| O => %s\n| S fuel_ =>\n(if %s then\n%s\nelse\n%s)\nend." % (
                lname, "".join("(%s : val) " % inner[v] for v in names), self.ty, self.ret("VStuck", inner),
                self.cond(c, inner), body_code, rest_code))
            return "(%s fuel %s)" % (lname, " ".join(env[v] for v in names))
        if kind == "whilelet":
            # as `while`: a function of its own, recursive on fuel; each round evaluates e (it may change
            # self), goes through the body and round again when the value matches the pattern, and on to
            # what follows the loop when it does not
            _, wpat, ex, body = s
            self.uses_fuel = True
            lname = "%s_loop%d" % (self.cname, len(self.loops) + 1)
            names = sorted(env.keys(), key=lambda v: (v != "self", v))
            inner = {v: "%s_l" % v.replace("'", "") for v in names}

            def again(env2, _v):
                return "(%s fuel_ %s)" % (lname, " ".join(env2[v] for v in names))

            def after(env2, val):
                v, r = self.fresh("v"), self.fresh("rest")
                code = "let %s := %s in\nlet %s := fun _ : unit =>\n%s in\n" % (v, val, r, cont(env2))
                return code + self.pat(wpat, v, env2, lambda env3: self.block(body, env3, again), "%s tt" % r)
            self.again.append(again)
            body_code = self.ev(ex, inner, after)
            self.again.pop()
            self.loops.append("Fixpoint %s (fuel : nat) %s{struct fuel} : %s :=\nmatch fuel with\n| O => %s\n| S fuel_ =>\n(%s)\nend." % (
                lname, "".join("(%s : val) " % inner[v] for v in names), self.ty, self.ret("VStuck", inner), body_code))
            return "(%s fuel %s)" % (lname, " ".join(env[v] for v in names))
        if kind == "iflet":
            _, pat, ex, body = s
            v, r = self.fresh("v"), self.fresh("rest")
            code = "let %s := %s in\nlet %s := fun _ : unit =>\n%s in\n" % (v, self.e(ex, env), r, cont(env))
            return code + self.pat(pat, v, env, lambda env2: self.block(body, env2, lambda env3, _v: cont(env3)), "%s tt" % r)
        if kind == "matchstmt":
            return self.match(s[1], env, lambda env2, _v: cont(env2))
        raise Fail("statement %r" % (s,))

    def tail(self, t, env, k):
        if t[0] == "value":
            return self.ev(t[1], env, k)
        if t[0] == "ret":
            return self.ev(t[1], env, lambda env2, v: self.ret(v, env2))
        if t[0] == "continue":
            if not self.again:
                raise Fail("continue outside a loop")
            return self.again[-1](env, None)
        if t[0] == "panic":
            return self.ret("(VC \"Panic\" [])", env)
        if t[0] == "ifc":
            return "(if %s then\n%s\nelse\n%s)" % (self.cond(t[1], env), self.block(t[2], env, k), self.block(t[3], env, k))
        if t[0] == "match":
            return self.match(t, env, k)
        raise Fail("tail %r" % (t,))

    def match(self, t, env, k):
        env = dict(env)
        sc = t[1]
        if sc[0] == "take":
            if "self" not in self.threaded:
                raise Fail("take() on a field of self in a function that does not take &mut self")
            v = self.fresh("taken")
            n = self.fresh("self")
            pre = "let %s := v_field %s %s in\nlet %s := v_set %s (VC \"None\" []) %s in\n" % (v, cstr(sc[1]), env["self"], n, cstr(sc[1]), env["self"])
            env["self"] = n
            return "(" + pre + self.arms(v, t[2], env, k) + ")"
        def go(env2, val):
            v = self.fresh("scrut")
            return "let %s := %s in\n" % (v, val) + self.arms(v, t[2], env2, k)
        return "(" + self.ev(sc[1], env, go) + ")"

    def arms(self, v, arms, env, k):
        # arms tried in order; the continuation of a failed arm is a thunk bound once
        if not arms:
            return self.stuck(env)
        (pat, body), rest = arms[0], arms[1:]
        nk = self.fresh("next")
        nxt = self.arms(v, rest, env, k)
        inner = self.pat(pat, v, env, lambda env2: self.block(body, env2, k), "%s tt" % nk)
        return "(let %s := fun _ : unit =>\n%s in\n%s)" % (nk, nxt, inner)

    def binds(self, p):
        if p[0] == "var":
            return True
        if p[0] == "ctor":
            return any(self.binds(q) for q in p[2])
        if p[0] == "or":
            return any(self.binds(q) for q in p[1])
        return False

    def pat(self, p, v, env, succ, fail):
        if p[0] == "wild":
            return succ(env)
        if p[0] == "var":
            env = dict(env)
            env[p[1]] = v
            return succ(env)
        if p[0] == "num":
            return "(if v_eqb %s (VN %d) then %s else %s)" % (v, p[1], succ(env), fail)
        if p[0] == "strpat":
            lit = "(VBytes [%s])" % "; ".join(str(b) for b in p[1].encode("utf-8"))
            return "(if v_beq %s %s then %s else %s)" % (v, lit, succ(env), fail)
        if p[0] == "or" and any(self.binds(a) for a in p[1]):
            # alternatives that bind: the body is generated for each of them
            inner = fail
            for alt in reversed(p[1]):
                t = self.fresh("alt")
                inner = "(let %s := fun _ : unit =>\n%s in\n%s)" % (t, inner, self.pat(alt, v, env, succ, "%s tt" % t))
            return inner
        if p[0] == "or":
            # alternatives bind nothing: the body is generated once, behind a thunk
            b = self.fresh("body")
            code = "let %s := fun _ : unit =>\n%s in\n" % (b, succ(env))
            inner = fail
            for alt in reversed(p[1]):
                inner = self.pat(alt, v, env, lambda _e: "%s tt" % b, inner)
            return "(" + code + inner + ")"
        if p[0] == "ctor":
            names = [self.fresh("a") for _ in p[2]]

            def go(i, env_i):
                if i == len(p[2]):
                    return succ(env_i)
                return self.pat(p[2][i], names[i], env_i, lambda e2: go(i + 1, e2), fail)
            return ("match %s with\n| VC c_ args_ =>\n  if (c_ =? %s)%%string then\n    match args_ with\n    | [%s] => %s\n    | _ => %s\n    end\n  else %s\n| _ => %s\nend" % (
                v, cstr(p[1]), "; ".join(names), go(0, env), fail, fail, fail))
        raise Fail("pattern %r" % (p,))


def translate(src, name, calls, effects, chans=(), mutcalls=None, handles=(), fuelcalls=None, stcalls=(), state_param=None, selfmethods=(), cells=(), iterators=()):
    fn_only = name.split(".")[-1]
    # a statement under #[cfg(amiquip_verif)] is a hook of this machinery, compiled out of the crate
    # proper: it is not part of the function
    body_src = re.sub(r"#\[cfg\(amiquip_verif\)\]\s*[^;{}]*;", "", find_fn(src, name))
    toks = tokenize(body_src)
    if state_param and state_param.get(name):
        # a free function whose state is one of its parameters (a `&mut ChannelSlot`, a `&Sender<T>`):
        # that parameter plays the part of self
        sp = state_param[name]
        if "self" in toks:
            raise Fail("state parameter in a function that has self")
        toks = ["self" if t == sp else t for t in toks]
    p = Parser(toks, fn_only)
    fname, params, mutself, body = p.fn()
    if state_param and state_param.get(name):
        mutself = True
    if cells and "self" in params:
        # interior mutability: a `&self` method that writes Cells of self changes self
        mutself = True
    cname = "gen_" + name.replace(".", "_")
    threaded = (["self"] if mutself else []) + [x for x in params if x in effects]
    if mutcalls is not None and threaded == ["self"]:
        mutcalls.add(cname)
    g = Gen(src, calls, threaded, fn_only, cname, chans, mutcalls or ())
    g.handles = set(handles)
    g.fuelcalls = fuelcalls if fuelcalls is not None else set()
    g.stcalls = set(stcalls)
    g.selfmethods = set(selfmethods)
    g.cells = set(cells)
    g.iterators = set(iterators)
    env = {x: x for x in params}
    text = g.block(body, env, lambda env2, v: g.ret(v, env2))
    ty = " * ".join(["val"] * (len(threaded) + 1))
    ps = "".join("(%s : val) " % x for x in params)
    if g.recursive:
        if g.loops:
            raise Fail("a loop in a self-recursive function")
        return ("Fixpoint %s (fuel : nat) %s{struct fuel} : %s :=\nmatch fuel with\n| O => %s\n| S fuel_ =>\n%s\nend." % (
            cname, ps, ty, g.ret("VStuck", env), text))
    if g.uses_fuel:
        ps = "(fuel : nat) " + ps
        if fuelcalls is not None:
            fuelcalls.add(cname)
    return "\n\n".join(g.loops + ["Definition %s %s: %s :=\n%s." % (cname, ps, ty, text)])


HEADER = '''(* GENERATED on every run by tools/rs2sm.py from %s - do not edit.
   The subset of Rust it accepts and the meaning it gives to it are stated in that file. *)
From Coq Require Import String.
From Amq Require Import Lib.Base Lib.RsVal.
Open Scope string_scope.
Open Scope N_scope.

Section Gen.
(* T::new of the generic functions: which value it builds depends on the type parameter, that is,
   on the kind of its `start` argument; the theorems about these definitions quantify over it *)
Variable t_new : list val -> val.
(* the functions these call that are not translated here (by name, receiver first): the theorems
   state what they assume of them *)
Variable ext : string -> list val -> val.
(* operations on the channel ends a handle holds (self.tx.send(m), self.rx.recv()): given the name,
   the arguments and self, the result and self afterwards *)
Variable ext_st : string -> list val -> val -> val * val.
'''

if __name__ == "__main__":
    # arguments: a JSON object {"fns": ["<file>::<Type.fn>", ...], "calls": {"method": "Type.fn"}, "effects": ["inner"]}
    spec = json.loads(sys.argv[1])
    fns = [a.rsplit("::", 1) for a in spec["fns"]]
    calls = {m: "gen_" + t.replace(".", "_") for m, t in spec.get("calls", {}).items()}
    effects = spec.get("effects", [])
    chans = spec.get("channels", [])
    handles = spec.get("handles", [])
    stcalls = spec.get("stateful_calls", [])
    state_param = spec.get("state_param", {})
    selfmethods = spec.get("self_methods", [])
    cells = spec.get("cells", [])
    iterators = spec.get("iterators", [])
    mutcalls = set()
    fuelcalls = set()
    header = HEADER % ", ".join(sorted(set(p for p, _ in fns)))
    if spec.get("extra_import"):
        header = header.replace("From Amq Require Import Lib.Base Lib.RsVal.", "From Amq Require Import Lib.Base Lib.RsVal %s." % spec["extra_import"])
    out = [header]
    ok = True
    done = set()
    for path, n in fns:
        # a call may only go to a function translated before it
        avail = {m: c for m, c in calls.items() if c in done}
        try:
            out.append("(* ---- %s :: %s ---- *)\n" % (path, n) + translate(open(path).read(), n, avail, effects, chans, mutcalls, handles, fuelcalls, stcalls, state_param, selfmethods, cells, iterators))
            done.add("gen_" + n.replace(".", "_"))
        except (Fail, OSError) as ex:
            ok = False
            out.append("(* TRANSLATION FAILED for %s: %s *)\nDefinition gen_%s : val := translation_failed." % (n, ex, n.replace(".", "_")))
    out.append("End Gen.")
    print("\n\n".join(out))
    sys.exit(0 if ok else 3)
