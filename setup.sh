#!/bin/sh
# MANIFEST.setup_cmd: build everything from files on disk, offline.
set -e
cd "$(dirname "$0")"
V=$(pwd)
export CARGO_TARGET_DIR=$V/.build/target
export CARGO_NET_OFFLINE=true
mkdir -p .build evidence
[ -f harness/Cargo.lock ] || cp /repo/Cargo.lock harness/Cargo.lock
(cd harness && RUSTFLAGS="--cfg amiquip_verif" cargo build --offline 2>&1 | tail -3)
./.build/target/debug/vh consts > .build/Consts.v.new
cmp -s .build/Consts.v.new coq/Gen/Consts.v || cp .build/Consts.v.new coq/Gen/Consts.v
python3 tools/rs2v.py /repo/src/connection_options.rs::make_tune_ok /repo/src/heartbeats.rs::Heartbeat.fire /repo/src/io_loop/channel_handle.rs::Channel0Handle.new > .build/Src.v.new && { cmp -s .build/Src.v.new coq/Gen/Src.v || cp .build/Src.v.new coq/Gen/Src.v; }
cd coq
coq_makefile -f _CoqProject -o Makefile >/dev/null
timeout 3000 make -j16 2>&1 | grep -v "^COQC\|^COQDEP\|Closed under\|^CoqMakefile" | tail -40
