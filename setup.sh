#!/bin/sh
# MANIFEST.setup_cmd: build everything from files on disk, offline.
set -e
cd "$(dirname "$0")"
V=$(pwd)
export CARGO_TARGET_DIR=$V/.build/target
export CARGO_NET_OFFLINE=true
mkdir -p .build evidence
[ -f harness/Cargo.lock ] || cp /repo/Cargo.lock harness/Cargo.lock
(cd harness && RUSTFLAGS="--cfg amiquip_verif" cargo build --offline 2>&1 | tail -3)
./.build/target/debug/vh consts > .build/Consts.v.new
cmp -s .build/Consts.v.new coq/Gen/Consts.v || cp .build/Consts.v.new coq/Gen/Consts.v
python3 - <<'P'
import json,subprocess,os
for mod,specs in sorted(json.load(open("tools/rs2v_targets.json")).items()):
    cmd=["python3","tools/rs2sm.py",json.dumps(specs)] if isinstance(specs,dict) else ["python3","tools/rs2v.py"]+specs
    out=subprocess.run(cmd,stdout=subprocess.PIPE,text=True).stdout
    path="coq/Gen/%s.v"%mod
    if out.strip() and (not os.path.exists(path) or open(path).read()!=out):
        open(path,"w").write(out)
P
cd coq
coq_makefile -f _CoqProject -o Makefile >/dev/null
timeout 3000 make -j16 2>&1 | grep -v "^COQC\|^COQDEP\|Closed under\|^CoqMakefile" | tail -40
