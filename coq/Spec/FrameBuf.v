(* Specification of C06: the frames are a function of the byte stream alone. *)
From Amq Require Import Lib.Base Model.Wire.

(* greedy split of a byte string into complete frame slices, by the size field only;
   returns the slices and the incomplete rest.  fuel: one unit per frame suffices
   because every slice has at least 8 bytes. *)
Fixpoint split_frames (fuel : nat) (s : bytes) : list bytes * bytes :=
  match fuel with
  | O => ([], s)
  | S f =>
      match parse_size s with
      | Some fs =>
          if fs <=? N.of_nat (length s) then
            let '(fs', rest) := split_frames f (skipn (N.to_nat fs) s) in
            (firstn (N.to_nat fs) s :: fs', rest)
          else ([], s)
      | None => ([], s)
      end
  end.

Definition split_all (s : bytes) : list bytes * bytes := split_frames (S (length s)) s.

(* the frames the client may act on: the slices up to (excluding) the first one that
   does not parse; the boolean tells whether such a slice was met *)
Fixpoint good_prefix (accepts : N -> bool) (i : N) (fs : list bytes) : list bytes * bool :=
  match fs with
  | [] => ([], false)
  | fr :: fs' =>
      if envelope_ok fr && accepts i then
        let '(g, bad) := good_prefix accepts (i + 1) fs' in (fr :: g, bad)
      else ([], true)
  end.
