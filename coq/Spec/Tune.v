(* Specification of the negotiation in C15, in the words of the property. *)
From Amq Require Import Lib.Base.

(* "the lower of the two sides' values, where 0 on either side means no limit and two
   unlimited sides yield the field's maximum value" *)
Definition neg (maxv a b r : N) : Prop :=
  (a = 0 -> b = 0 -> r = maxv) /\
  (a = 0 -> b <> 0 -> r = b) /\
  (a <> 0 -> b = 0 -> r = a) /\
  (a <> 0 -> b <> 0 -> r = N.min a b).

(* "for heartbeat the lower of the two values (0, meaning disabled, if either side says 0)" *)
Definition neg_hb (a b r : N) : Prop := r = N.min a b /\ (r = 0 <-> a = 0 \/ b = 0).

(* executable versions for the oracle *)
Definition negf (maxv a b : N) : N :=
  if a =? 0 then (if b =? 0 then maxv else b) else (if b =? 0 then a else N.min a b).
