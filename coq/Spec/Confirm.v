(* Specification of C14, independent of the smoother's code.
   A raw confirmation r covers tag t when it names t, or is `multiple` and t <= its tag.
   The outcome of tag t under history h is that of the FIRST confirmation covering it. *)
From Amq Require Import Lib.Base Model.Confirm.

Definition covers (r : raw) (t : N) : bool :=
  (r_tag r =? t) || (r_multiple r && (t <=? r_tag r)).

Fixpoint first_cover (h : list raw) (t : N) : option bool :=
  match h with
  | [] => None
  | r :: h' => if covers r t then Some (r_ack r) else first_cover h' t
  end.

(* `outs` is what a smoother started at e0 must have emitted, in total, after the
   history h: the tags e0, e0+1, ... of the maximal run of covered tags, each once,
   in order, non-multiple, each with the outcome of its first cover. *)
Definition spec_ok (e0 : N) (h : list raw) (outs : list out) : Prop :=
  (forall i o, nth_error outs i = Some o ->
      o_tag o = e0 + N.of_nat i /\ o_multiple o = false /\
      first_cover h (o_tag o) = Some (o_ack o)) /\
  first_cover h (e0 + N.of_nat (length outs)) = None.

(* Hypothesis of the exact half: no tag is confirmed singly twice, and tags stay
   below u64::MAX so that `expected += 1` cannot overflow. *)
Definition is_single (r : raw) : bool := negb (r_multiple r).

Definition singles_distinct (h : list raw) : Prop :=
  NoDup (map r_tag (filter is_single h)).

Definition tags_below (bound : N) (h : list raw) : Prop :=
  forall r, In r h -> r_tag r < bound.

Definition u64_max : N := 18446744073709551615.

(* Safety half, for arbitrary histories (duplicates, stale confirmations). *)
Definition safe_ok (e0 : N) (h : list raw) (outs : list out) : Prop :=
  forall i o, nth_error outs i = Some o ->
      o_tag o = e0 + N.of_nat i /\ o_multiple o = false /\
      exists r, In r h /\ covers r (o_tag o) = true.

(* ---- executable version of the spec, used as the property oracle on what the
   implementation actually emitted (Check/C14.v) ---- *)
Fixpoint spec_outs (fuel : nat) (e : N) (h : list raw) : list out :=
  match fuel with
  | O => []
  | S f =>
      match first_cover h e with
      | Some c => to_confirm c e :: spec_outs f (e + 1) h
      | None => []
      end
  end.

Definition span_fuel (e0 : N) (h : list raw) : nat :=
  (fold_left (fun acc r => Nat.max acc (N.to_nat (r_tag r + 2 - e0))) h 2%nat).
