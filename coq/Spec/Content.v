(* The compliant reading of a server's frame sequence and the rendering of messages into
   frames (C03 / C07): what a message IS, independently of the collector model. *)
From Amq Require Import Lib.Base Model.Frames Model.Collector.

Inductive addressee := AConsumer (ch : N) (tag : str) | AGetter (ch : N) | AReturn (ch : N)
                     | AConfirm (ch : N) | ABlocked.


Inductive rmsg :=
| RDelivery (m : message)
| RGot (m : message) (count : N)
| RReturned (code : N) (text exch rk : str) (body : bytes) (props : N).

(* per-channel reader state *)
Inductive rstate :=
| RSNone
| RSStart (k : ckind)
| RSBody (k : ckind) (size props : N) (acc : bytes).

Definition finish (ch : N) (k : ckind) (props : N) (body : bytes) : addressee * rmsg :=
  match k with
  | CDeliver tag dtag red exch rk =>
      (AConsumer ch tag, RDelivery {| m_ch := ch; m_dtag := dtag; m_redelivered := red;
                                      m_exch := exch; m_rk := rk; m_body := body; m_props := props |})
  | CGet dtag red exch rk count =>
      (AGetter ch, RGot {| m_ch := ch; m_dtag := dtag; m_redelivered := red;
                           m_exch := exch; m_rk := rk; m_body := body; m_props := props |} count)
  | CReturn code text exch rk => (AReturn ch, RReturned code text exch rk body props)
  end.

(* reads the frames in order; stops at the first frame a compliant server cannot send
   at that point (everything read so far stands) *)
Fixpoint ref_read (st : alist rstate) (fs : list frame) : list (addressee * rmsg) :=
  match fs with
  | [] => []
  | f :: fs' =>
      match f with
      | FMethod ch (MDeliver tag dtag red exch rk) =>
          match alookup ch st with
          | None | Some RSNone => ref_read (ainsert ch (RSStart (CDeliver tag dtag red exch rk)) st) fs'
          | _ => []
          end
      | FMethod ch (MReturn code text exch rk) =>
          match alookup ch st with
          | None | Some RSNone => ref_read (ainsert ch (RSStart (CReturn code text exch rk)) st) fs'
          | _ => []
          end
      | FMethod ch (MGetOk dtag red exch rk count) =>
          match alookup ch st with
          | None | Some RSNone => ref_read (ainsert ch (RSStart (CGet dtag red exch rk count)) st) fs'
          | _ => []
          end
      | FHeader ch size props =>
          match alookup ch st with
          | Some (RSStart k) =>
              if size =? 0 then finish ch k props [] :: ref_read (ainsert ch RSNone st) fs'
              else ref_read (ainsert ch (RSBody k size props []) st) fs'
          | _ => []
          end
      | FBody ch body =>
          match alookup ch st with
          | Some (RSBody k size props acc) =>
              let acc' := acc ++ body in
              match N.of_nat (length acc') ?= size with
              | Eq => finish ch k props acc' :: ref_read (ainsert ch RSNone st) fs'
              | Lt => ref_read (ainsert ch (RSBody k size props acc') st) fs'
              | Gt => []
              end
          | _ => []
          end
      | _ => ref_read st fs'
      end
  end.


(* ---- the generating direction: a message rendered as frames ---- *)

(* the method frame that announces content of kind k on channel ch *)
Definition method_of (k : ckind) : smethod :=
  match k with
  | CDeliver tag dtag red exch rk => MDeliver tag dtag red exch rk
  | CReturn code text exch rk => MReturn code text exch rk
  | CGet dtag red exch rk count => MGetOk dtag red exch rk count
  end.

(* method, header announcing the whole length, one body frame per part *)
Definition render (ch : N) (k : ckind) (props : N) (parts : list bytes) : list frame :=
  FMethod ch (method_of k) :: FHeader ch (N.of_nat (length (concat parts))) props
    :: map (FBody ch) parts.

(* a partition a compliant server can send: body frames may be empty, but the last one
   completes the body, so it is not empty; an empty body has no body frame *)
Definition valid_parts (parts : list bytes) : Prop :=
  parts = [] \/ exists ps p, parts = ps ++ [p] /\ p <> [].

(* one frame of the compliant reading, with the state threaded (used by oracles that need
   to know WHEN a message completed); None: the frame is one a compliant server cannot
   send at this point *)
Definition ref_step (st : alist rstate) (f : frame) : option (alist rstate * list (addressee * rmsg)) :=
  let start ch k :=
    match alookup ch st with
    | None | Some RSNone => Some (ainsert ch (RSStart k) st, [])
    | _ => None
    end in
  match f with
  | FMethod ch (MDeliver tag dtag red exch rk) => start ch (CDeliver tag dtag red exch rk)
  | FMethod ch (MReturn code text exch rk) => start ch (CReturn code text exch rk)
  | FMethod ch (MGetOk dtag red exch rk count) => start ch (CGet dtag red exch rk count)
  | FHeader ch size props =>
      match alookup ch st with
      | Some (RSStart k) =>
          if size =? 0 then Some (ainsert ch RSNone st, [finish ch k props []])
          else Some (ainsert ch (RSBody k size props []) st, [])
      | _ => None
      end
  | FBody ch body =>
      match alookup ch st with
      | Some (RSBody k size props acc) =>
          let acc' := acc ++ body in
          match N.of_nat (length acc') ?= size with
          | Eq => Some (ainsert ch RSNone st, [finish ch k props acc'])
          | Lt => Some (ainsert ch (RSBody k size props acc') st, [])
          | Gt => None
          end
      | _ => None
      end
  | _ => Some (st, [])
  end.
