(* C12: what each public operation is documented to put on the wire, written from the
   API documentation and the AMQP 0-9-1 method definitions, one rule per operation - NOT
   derived from Model/ApiTable.emit. *)
From Amq Require Import Lib.Base Model.ApiTable.

(* AMQP 0-9-1 methods with named fields (class.method) *)
Inductive amqp :=
| BasicQos (prefetch_size prefetch_count : N) (global : bool)
| BasicRecover (requeue : bool)
| ConfirmSelect (nowait : bool)
| QueueDeclare (queue : bytes) (passive durable exclusive auto_delete nowait : bool) (arguments : N)
| BasicGet (queue : bytes) (no_ack : bool)
| BasicConsume (queue consumer_tag : bytes) (no_local no_ack exclusive nowait : bool) (arguments : N)
| QueueBind (queue exchange routing_key : bytes) (nowait : bool) (arguments : N)
| QueueUnbind (queue exchange routing_key : bytes) (arguments : N)
| QueuePurge (queue : bytes) (nowait : bool)
| QueueDelete (queue : bytes) (if_unused if_empty nowait : bool)
| ExchangeDeclare (exchange type : bytes) (passive durable auto_delete internal nowait : bool) (arguments : N)
| ExchangeBind (destination source routing_key : bytes) (nowait : bool) (arguments : N)
| ExchangeUnbind (destination source routing_key : bytes) (nowait : bool) (arguments : N)
| ExchangeDelete (exchange : bytes) (if_unused nowait : bool)
| BasicAck (delivery_tag : N) (multiple : bool)
| BasicNack (delivery_tag : N) (multiple requeue : bool)
| BasicReject (delivery_tag : N) (requeue : bool)
| BasicCancel (consumer_tag : bytes) (nowait : bool)
| ChannelClose (reply_code : N) (reply_text : bytes) (class_id method_id : N).

(* the wire form: class id, method id, fields in the order of the specification (the
   deprecated ticket field, always 0, first where the method has one) *)
Definition wire (m : amqp) : meth :=
  match m with
  | BasicQos a b c => (60, 10, [VNum a; VNum b; VBool c])
  | BasicRecover r => (60, 110, [VBool r])
  | ConfirmSelect n => (85, 10, [VBool n])
  | QueueDeclare q p d e a n t => (50, 10, [VNum 0; VStr q; VBool p; VBool d; VBool e; VBool a; VBool n; VTab t])
  | BasicGet q n => (60, 70, [VNum 0; VStr q; VBool n])
  | BasicConsume q c l a e n t => (60, 20, [VNum 0; VStr q; VStr c; VBool l; VBool a; VBool e; VBool n; VTab t])
  | QueueBind q e r n t => (50, 20, [VNum 0; VStr q; VStr e; VStr r; VBool n; VTab t])
  | QueueUnbind q e r t => (50, 50, [VNum 0; VStr q; VStr e; VStr r; VTab t])
  | QueuePurge q n => (50, 30, [VNum 0; VStr q; VBool n])
  | QueueDelete q u e n => (50, 40, [VNum 0; VStr q; VBool u; VBool e; VBool n])
  | ExchangeDeclare x ty p d a i n t =>
      (40, 10, [VNum 0; VStr x; VStr ty; VBool p; VBool d; VBool a; VBool i; VBool n; VTab t])
  | ExchangeBind d s r n t => (40, 30, [VNum 0; VStr d; VStr s; VStr r; VBool n; VTab t])
  | ExchangeUnbind d s r n t => (40, 40, [VNum 0; VStr d; VStr s; VStr r; VBool n; VTab t])
  | ExchangeDelete x u n => (40, 20, [VNum 0; VStr x; VBool u; VBool n])
  | BasicAck t m => (60, 80, [VNum t; VBool m])
  | BasicNack t m r => (60, 120, [VNum t; VBool m; VBool r])
  | BasicReject t r => (60, 90, [VNum t; VBool r])
  | BasicCancel c n => (60, 30, [VStr c; VBool n])
  | ChannelClose c t ci mi => (20, 40, [VNum c; VStr t; VNum ci; VNum mi])
  end.

Definition is_nowait (m : dmode) : bool := match m with DNowait => true | _ => false end.

(* one rule per documented operation *)
Inductive Describes : api_op -> amqp -> Prop :=
| D_qos s c g : Describes (AQos s c g) (BasicQos s c g)
| D_recover r : Describes (ARecover r) (BasicRecover r)
| D_confirm n : Describes (AConfirmSelect n) (ConfirmSelect n)
    (* enable_publisher_confirms / _nowait *)
| D_qdeclare m q d e a t : m <> DPassive ->
    Describes (AQueueDeclare m q d e a t) (QueueDeclare q false d e a (is_nowait m) t)
| D_qdeclare_passive q d e a t :
    (* "if passive is set all other fields are ignored": sent cleared *)
    Describes (AQueueDeclare DPassive q d e a t) (QueueDeclare q true false false false false 0)
| D_get v q n : Describes (AGet v q n) (BasicGet q n)
| D_consume v q l a e t :
    (* the server picks the tag; consumers are never nowait *)
    Describes (AConsume v q l a e t) (BasicConsume q [] l a e false t)
| D_qbind v n q x r t : Describes (AQueueBind v n q x r t) (QueueBind q x r n t)
| D_qunbind v q x r t : Describes (AQueueUnbind v q x r t) (QueueUnbind q x r t)
| D_qpurge v n q : Describes (AQueuePurge v n q) (QueuePurge q n)
| D_qdelete v n q u e : Describes (AQueueDelete v n q u e) (QueueDelete q u e n)
| D_xdeclare m ty x d a i t : m <> DPassive ->
    Describes (AExchangeDeclare m ty x d a i t) (ExchangeDeclare x ty false d a i (is_nowait m) t)
| D_xdeclare_passive ty x d a i t :
    Describes (AExchangeDeclare DPassive ty x d a i t)
              (ExchangeDeclare x txt_direct true false false false false 0)
| D_xbind_channel n self other r t :
    (* Channel::exchange_bind(destination, source, ..) *)
    Describes (AExchangeBind BChannel n false self other r t) (ExchangeBind self other r n t)
| D_xbind_to_source n self other r t :
    (* self.bind_to_source(other): messages flow from other INTO self *)
    Describes (AExchangeBind BToSource n false self other r t) (ExchangeBind self other r n t)
| D_xbind_to_destination n self other r t :
    (* self.bind_to_destination(other): messages flow from self INTO other *)
    Describes (AExchangeBind BToDestination n false self other r t) (ExchangeBind other self r n t)
| D_xunbind_channel n self other r t :
    Describes (AExchangeBind BChannel n true self other r t) (ExchangeUnbind self other r n t)
| D_xunbind_from_source n self other r t :
    Describes (AExchangeBind BToSource n true self other r t) (ExchangeUnbind self other r n t)
| D_xunbind_from_destination n self other r t :
    Describes (AExchangeBind BToDestination n true self other r t) (ExchangeUnbind other self r n t)
| D_xdelete v n x u : Describes (AExchangeDelete v n x u) (ExchangeDelete x u n)
| D_ack_all : Describes AAckAll (BasicAck 0 true)
| D_nack_all r : Describes (ANackAll r) (BasicNack 0 true r)
| D_ack h t r : Describes (ASettle SAck h t r true) (BasicAck t false)
| D_ack_multiple h t r : Describes (ASettle SAckMultiple h t r true) (BasicAck t true)
| D_nack h t r : Describes (ASettle SNack h t r true) (BasicNack t false r)
| D_nack_multiple h t r : Describes (ASettle SNackMultiple h t r true) (BasicNack t true r)
| D_reject h t r : Describes (ASettle SReject h t r true) (BasicReject t r)
| D_cancel tag : Describes (ACancel tag false) (BasicCancel tag false)
| D_chan_close : Describes AChannelClose (ChannelClose 0 [] 0 0).

(* operations that must not put anything on the wire *)
Definition sends_nothing (o : api_op) : Prop :=
  match o with
  | ASettle _ _ _ _ false => True        (* wrong channel: panics instead of sending *)
  | ACancel _ true => True               (* cancelling twice sends nothing the second time *)
  | _ => False
  end.

(* the same table as a function, for the executable oracle (Check/C12.v); Proofs/Api.v
   shows it is the relation above *)
Definition documented (o : api_op) : option amqp :=
  match o with
  | AQos s c g => Some (BasicQos s c g)
  | ARecover r => Some (BasicRecover r)
  | AConfirmSelect n => Some (ConfirmSelect n)
  | AQueueDeclare DPassive q _ _ _ _ => Some (QueueDeclare q true false false false false 0)
  | AQueueDeclare m q d e a t => Some (QueueDeclare q false d e a (is_nowait m) t)
  | AGet _ q n => Some (BasicGet q n)
  | AConsume _ q l a e t => Some (BasicConsume q [] l a e false t)
  | AQueueBind _ n q x r t => Some (QueueBind q x r n t)
  | AQueueUnbind _ q x r t => Some (QueueUnbind q x r t)
  | AQueuePurge _ n q => Some (QueuePurge q n)
  | AQueueDelete _ n q u e => Some (QueueDelete q u e n)
  | AExchangeDeclare DPassive _ x _ _ _ _ => Some (ExchangeDeclare x txt_direct true false false false false 0)
  | AExchangeDeclare m ty x d a i t => Some (ExchangeDeclare x ty false d a i (is_nowait m) t)
  | AExchangeBind BToDestination n false self other r t => Some (ExchangeBind other self r n t)
  | AExchangeBind _ n false self other r t => Some (ExchangeBind self other r n t)
  | AExchangeBind BToDestination n true self other r t => Some (ExchangeUnbind other self r n t)
  | AExchangeBind _ n true self other r t => Some (ExchangeUnbind self other r n t)
  | AExchangeDelete _ n x u => Some (ExchangeDelete x u n)
  | AAckAll => Some (BasicAck 0 true)
  | ANackAll r => Some (BasicNack 0 true r)
  | ASettle _ _ _ _ false => None
  | ASettle SAck _ t _ true => Some (BasicAck t false)
  | ASettle SAckMultiple _ t _ true => Some (BasicAck t true)
  | ASettle SNack _ t r true => Some (BasicNack t false r)
  | ASettle SNackMultiple _ t r true => Some (BasicNack t true r)
  | ASettle SReject _ t r true => Some (BasicReject t r)
  | ACancel _ true => None
  | ACancel tag false => Some (BasicCancel tag false)
  | AChannelClose => Some (ChannelClose 0 [] 0 0)
  end.
