(* Specification of C10: the abstract state is the set of open ids. *)
From Amq Require Import Lib.Base Model.Slots.

(* is result r allowed for operation o when `opn` is the set of open ids? *)
Definition in_range (mx id : N) : Prop := 1 <= id /\ id <= mx.

Definition allowed (mx : N) (opn : list N) (o : op) (r : res) : Prop :=
  match o with
  | OpenSome id =>
      (in_range mx id /\ ~ In id opn /\ r = ROk id) \/
      (~ (in_range mx id /\ ~ In id opn) /\ r = RUnavailable id)
  | OpenNone =>
      (exists id, r = ROk id /\ in_range mx id /\ ~ In id opn) \/
      (r = RExhausted /\ forall id, in_range mx id -> In id opn)
  | Close id => r = RRemoved (if in_dec N.eq_dec id opn then true else false)
  | Drain => exists ids, r = RDrained ids /\ (forall id, In id ids <-> In id opn)
  | FailSome _ | FailNone => False
  end.

(* abstract effect on the set of open ids *)
Definition spec_next (opn : list N) (o : op) (r : res) : list N :=
  match o, r with
  | (OpenSome _ | OpenNone), ROk id => id :: opn
  | Close id, _ => filter (fun y => negb (id =? y)) opn
  | Drain, _ => []
  | _, _ => opn
  end.

(* a run is allowed when every result is allowed in the abstract state reached *)
Fixpoint allowed_run (mx : N) (opn : list N) (ops : list op) (rs : list res) : Prop :=
  match ops, rs with
  | [], [] => True
  | o :: ops', r :: rs' => allowed mx opn o r /\ allowed_run mx (spec_next opn o r) ops' rs'
  | _, _ => False
  end.

Definition no_fail_ops (ops : list op) : Prop :=
  forall o, In o ops -> match o with FailSome _ | FailNone => False | _ => True end.

(* ---- executable oracle on observed results (Check/C10.v) ---- *)
Definition in_rangeb (mx id : N) : bool := (1 <=? id) && (id <=? mx).

Fixpoint all_open_from (fuel : nat) (id mx : N) (opn : list N) : bool :=
  match fuel with
  | O => true
  | S f => if id <=? mx then memN id opn && all_open_from f (id + 1) mx opn else true
  end.

(* `lost` : a registration failed earlier in the run, so ids may have been lost and
   exhaustion may be reported although an id is free (outside the property's scope:
   mio registration is assumed not to fail) *)
Definition allowedb (lost : bool) (mx : N) (opn : list N) (o : op) (r : res) : bool :=
  match o, r with
  | OpenSome id, ROk id' => (id =? id') && in_rangeb mx id && negb (memN id opn)
  | OpenSome id, RUnavailable id' => (id =? id') && negb (in_rangeb mx id && negb (memN id opn))
  | OpenNone, ROk id => in_rangeb mx id && negb (memN id opn)
  | OpenNone, RExhausted => lost || all_open_from (S (N.to_nat mx)) 1 mx opn
  | Close id, RRemoved b => Bool.eqb b (memN id opn)
  | Drain, RDrained ids => forallb (fun i => memN i opn) ids && forallb (fun i => memN i ids) opn
  | FailSome id, RUnavailable id' => (id =? id') && negb (in_rangeb mx id && negb (memN id opn))
  | FailSome id, RMakeEntryFailed => in_rangeb mx id && negb (memN id opn)
  | FailNone, RMakeEntryFailed => true
  | FailNone, RExhausted => lost || all_open_from (S (N.to_nat mx)) 1 mx opn
  | _, _ => false
  end.

Definition is_fail (r : res) : bool :=
  match r with RMakeEntryFailed => true | _ => false end.

Fixpoint allowed_runb (lost : bool) (mx : N) (opn : list N) (ops : list op) (rs : list res) : bool :=
  match ops, rs with
  | [], [] => true
  | o :: ops', r :: rs' =>
      allowedb lost mx opn o r &&
      allowed_runb (lost || is_fail r) mx (spec_next opn o r) ops' rs'
  | _, _ => false
  end.
