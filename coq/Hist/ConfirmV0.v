(* HISTORICAL model: Iter::next as it was at the pinned commit, before the fix of F4
   ("fix: confirm smoother ignores stored out-of-order confirmation...").
   Kept only to carry the machine-checked refutation that justified the fix; no
   property theorem depends on this file. *)
From Amq Require Import Lib.Base Model.Confirm Spec.Confirm.

Definition next_v0 (p : smoother) (it : iter) : option out * smoother * iter :=
  if it_done it then (None, p, it) else
  let r := it_payload it in
  let tag := r_tag r in
  let e := expected p in
  if tag =? e then
    let e' := e + 1 in
    (Some (to_confirm (r_ack r) tag), {| expected := e'; ooo := aremove e' (ooo p) |},
     {| it_payload := r; it_next := alookup e' (ooo p); it_done := false |})
  else if e <? tag then
    if r_multiple r then
      (Some (to_confirm (r_ack r) e), {| expected := e + 1; ooo := ooo p |}, it)
    else
      (None, {| expected := e; ooo := ainsert tag (to_confirm (r_ack r) tag) (ooo p) |},
       {| it_payload := r; it_next := it_next it; it_done := true |})
  else
    match it_next it with
    | Some nx =>
        let e' := e + 1 in
        (Some nx, {| expected := e'; ooo := aremove e' (ooo p) |},
         {| it_payload := r; it_next := alookup e' (ooo p); it_done := false |})
    | None => (None, p, {| it_payload := r; it_next := None; it_done := true |})
    end.

Fixpoint pull_all_v0 (fuel : nat) (p : smoother) (it : iter) : list out * smoother :=
  match fuel with
  | O => ([], p)
  | S f =>
      match next_v0 p it with
      | (None, p', _) => ([], p')
      | (Some o, p', it') => let '(os, p'') := pull_all_v0 f p' it' in (o :: os, p'')
      end
  end.

Definition run_all_v0 (p : smoother) (h : list raw) : list out * smoother :=
  fold_left (fun '(acc, p) r =>
               let '(os, p') := pull_all_v0 (fuel_for p r) p (new_iter r) in
               (acc ++ os, p')) h ([], p).

Definition f4_witness : list raw :=
  [ {| r_tag := 3; r_multiple := false; r_ack := false |};
    {| r_tag := 5; r_multiple := true; r_ack := true |} ].

(* F4: tag 3 was nacked individually, then acked by a later multiple: the old code
   reports it as acked and leaks the stored entry. *)
Lemma C14_v0_refuted :
  singles_distinct f4_witness /\
  (let '(outs, p) := run_all_v0 (new_smoother 1) f4_witness in
   nth_error outs 2 = Some (to_confirm true 3) /\
   first_cover f4_witness 3 = Some false /\
   alookup 3 (ooo p) = Some (to_confirm false 3) /\ expected p = 6).
Proof.
  split.
  - unfold singles_distinct; simpl. repeat constructor; simpl; tauto.
  - vm_compute. repeat split; reflexivity.
Qed.
