(* C10 — channel ids: unique among open channels, within 1..=channel_max, reusable.
   This file only pins statements. *)
From Amq Require Import Lib.RsVal Gen.SrcSlots Proofs.SlotsSrc.
From Amq Require Import Lib.Base Gen.Consts Model.Slots Spec.Slots Proofs.Slots Model.Tokens Proofs.Tokens.

(* One step, from EVERY state satisfying the invariant (not only reachable ones): the
   result is one the abstract specification allows for the current set of open ids
   (exact id / UnavailableChannelId incl. id 0 / some free id in range / Exhausted only
   when all ids are open / close frees), the invariant is re-established and the set
   of open ids changes exactly as specified. *)
Theorem C10_step : forall s o,
  Inv s -> is_fail_op o = false ->
  let '(r, s') := step s o in
  allowed (cmax s) (open_ids s) o r /\ Inv s' /\ cmax s' = cmax s /\
  same_set (open_ids s') (spec_next (open_ids s) o r).
Proof. exact step_refines. Qed.

(* Every finite sequence of open(Some)/open(None)/close/drain, of any length, for
   every channel_max <= 65535: all results are allowed by the specification run on
   the abstract set, and the invariant holds at the end. *)
Theorem C10_run : forall mx ops,
  mx <= 65535 -> forallb (fun o => negb (is_fail_op o)) ops = true ->
  let '(rs, s') := run (new_slots mx) ops in
  allowed_run mx [] ops rs /\ Inv s'.
Proof.
  intros mx ops Hmx Hnf.
  pose proof (@run_refines ops (new_slots mx) [] (Inv_new Hmx)) as H.
  simpl in H. apply H; [intro; tauto|exact Hnf].
Qed.

(* What "allowed" excludes: the unreachable! panic, fuel exhaustion of the model's
   counter loop (= the loop terminates), id 0, ids above channel_max, ids already open. *)
Theorem C10_allowed_excludes : forall mx opn o r,
  allowed mx opn o r ->
  r <> RPanic /\ r <> RFuel /\
  (forall id, r = ROk id -> in_range mx id /\ ~ In id opn).
Proof. exact allowed_no_panic. Qed.

(* The never-used counter stays within [1, 65536]: the u32 in the code cannot overflow. *)
Theorem C10_counter : forall s, Inv s -> 1 <= next s /\ next s <= 65536.
Proof. exact Inv_counter. Qed.

(* An id is also a poll token (a channel's mailbox is registered under Token(id)): the wake-up of
   EVERY event source - every channel id in 1..=65535, channel 0, the socket, the heartbeat timer,
   the allocation queue, the set-blocked queue - is dispatched to the handler of that very source,
   with the four constants as the compiled crate has them (Gen/Consts.v): no id makes a call hang
   because its wake-up is taken for something else, none reaches the unreachable! arm. *)
Theorem C10_token_dispatch : forall s, source_ok s -> dispatch_token (token_of s) = kind_of s.
Proof. exact dispatch_own_source. Qed.

(* ... and no two sources share a token *)
Theorem C10_tokens_injective : forall s1 s2,
  source_ok s1 -> source_ok s2 -> token_of s1 = token_of s2 -> s1 = s2.
Proof. exact tokens_injective. Qed.

(* THE MODEL IS THE SOURCE (src/io_loop/channel_slots.rs as translated from the source text on every run:
   Gen/SrcSlots.v, tools/rs2sm.py).  ChannelSlots::insert(Some(id), make_entry) is Model/Slots.v's insert_some -
   the function C10_step / C10_run are about - for every table state, every id, make_entry succeeding or failing.
   ext_st_model is HashMap::{entry, remove} / Entry::insert and IndexSet::{insert, shift_remove, pop} as the code
   uses them, ext_model the make_entry closure. *)
Theorem C10_insert_some_source_is_model : forall (ok : bool) (id : N) (s : slots) (fuel : nat) (me : val), gen_ChannelSlots_insert (ext_model ok) ext_st_model fuel (enc s) (VC "Some" [VN id]) me = (enc (snd (insert_some ok id s)), enc_res (fst (insert_some ok id s))).
Proof. exact insert_some_source_is_model. Qed.

(* insert(None, make_entry) - the loop over the never-used counter (a recursive function on fuel), then the freed set -
   is insert_none, whenever channel_max fits a u16, the freed set has no duplicates (an IndexSet) and the fuel the model
   takes is enough. *)
Theorem C10_insert_none_source_is_model : forall (ok : bool) (s : slots) (me : val), cmax s <= 65535 -> NoDup (freed s) -> fst (scan (scan_fuel s) ok s) <> Some RFuel -> gen_ChannelSlots_insert (ext_model ok) ext_st_model (scan_fuel s) (enc s) (VC "None" []) me = (enc (snd (insert_none ok s)), enc_res (fst (insert_none ok s))).
Proof. exact insert_none_source_is_model. Qed.

(* ... all of which hold in every state satisfying C10's invariant: no side condition is left. *)
Theorem C10_insert_none_source_inv : forall (s : slots) (me : val), Inv s -> gen_ChannelSlots_insert (ext_model true) ext_st_model (scan_fuel s) (enc s) (VC "None" []) me = (enc (snd (insert_none true s)), enc_res (fst (insert_none true s))).
Proof. exact insert_none_source_inv. Qed.

(* ChannelSlots::remove is the model's remove. *)
Theorem C10_remove_source_is_model : forall (id : N) (s : slots), gen_ChannelSlots_remove ext_st_model (enc s) (VN id) = (enc (snd (remove id s)), match fst (remove id s) with | RRemoved true => VC "Some" [VC "slot" [VN id]] | _ => VC "None" [] end).
Proof. exact remove_source_is_model. Qed.

(* C10 AS A THEOREM ABOUT THE TRANSLATED CODE: any sequence of open(Some(id)) / open(None) / close run through the translated
   ChannelSlots::insert / remove (Gen/SrcSlots.v), from any table satisfying the invariant, gives result by result what the
   model gives and ends in the model's table - so everything C10_step / C10_run state (every result allowed by the abstract
   set of open ids, no panic, the counter loop terminates) holds of the translated code. *)
Theorem C10_run_source_is_model : forall (me : val) (ops : list op) (s : slots), Inv s -> forallb is_open_close ops = true -> grun me (enc s) ops = (map (fun '(o, r) => enc_step_res o r) (combine ops (fst (run s ops))), enc (snd (run s ops))).
Proof. exact run_source_is_model. Qed.

(* non-vacuity: the witnesses of the three repaired defects run through the model *)
Example C10_example :
  fst (run (new_slots 2) [OpenSome 0; OpenSome 2; Close 2; OpenNone; OpenNone; OpenNone]) =
    [RUnavailable 0; ROk 2; RRemoved true; ROk 1; ROk 2; RExhausted] /\
  Inv (new_slots 2).
Proof. split; [vm_compute; reflexivity|apply Inv_new; lia]. Qed.

Check C10_step : forall s o,
  Inv s -> is_fail_op o = false ->
  let '(r, s') := step s o in
  allowed (cmax s) (open_ids s) o r /\ Inv s' /\ cmax s' = cmax s /\
  same_set (open_ids s') (spec_next (open_ids s) o r).
Check C10_run : forall mx ops,
  mx <= 65535 -> forallb (fun o => negb (is_fail_op o)) ops = true ->
  let '(rs, s') := run (new_slots mx) ops in
  allowed_run mx [] ops rs /\ Inv s'.
Check C10_allowed_excludes : forall mx opn o r,
  allowed mx opn o r ->
  r <> RPanic /\ r <> RFuel /\
  (forall id, r = ROk id -> in_range mx id /\ ~ In id opn).
Check C10_counter : forall s, Inv s -> 1 <= next s /\ next s <= 65536.
Check C10_token_dispatch : forall s, source_ok s -> dispatch_token (token_of s) = kind_of s.
Check C10_tokens_injective : forall s1 s2,
  source_ok s1 -> source_ok s2 -> token_of s1 = token_of s2 -> s1 = s2.

Check C10_insert_some_source_is_model : forall (ok : bool) (id : N) (s : slots) (fuel : nat) (me : val), gen_ChannelSlots_insert (ext_model ok) ext_st_model fuel (enc s) (VC "Some" [VN id]) me = (enc (snd (insert_some ok id s)), enc_res (fst (insert_some ok id s))).
Check C10_insert_none_source_is_model : forall (ok : bool) (s : slots) (me : val), cmax s <= 65535 -> NoDup (freed s) -> fst (scan (scan_fuel s) ok s) <> Some RFuel -> gen_ChannelSlots_insert (ext_model ok) ext_st_model (scan_fuel s) (enc s) (VC "None" []) me = (enc (snd (insert_none ok s)), enc_res (fst (insert_none ok s))).
Check C10_insert_none_source_inv : forall (s : slots) (me : val), Inv s -> gen_ChannelSlots_insert (ext_model true) ext_st_model (scan_fuel s) (enc s) (VC "None" []) me = (enc (snd (insert_none true s)), enc_res (fst (insert_none true s))).
Check C10_remove_source_is_model : forall (id : N) (s : slots), gen_ChannelSlots_remove ext_st_model (enc s) (VN id) = (enc (snd (remove id s)), match fst (remove id s) with | RRemoved true => VC "Some" [VC "slot" [VN id]] | _ => VC "None" [] end).

Check C10_run_source_is_model : forall (me : val) (ops : list op) (s : slots), Inv s -> forallb is_open_close ops = true -> grun me (enc s) ops = (map (fun '(o, r) => enc_step_res o r) (combine ops (fst (run s ops))), enc (snd (run s ops))).

Print Assumptions C10_step.
Print Assumptions C10_run.
Print Assumptions C10_allowed_excludes.
Print Assumptions C10_counter.
Print Assumptions C10_token_dispatch.
Print Assumptions C10_tokens_injective.
Print Assumptions C10_example.
Print Assumptions C10_insert_some_source_is_model.
Print Assumptions C10_insert_none_source_is_model.
Print Assumptions C10_insert_none_source_inv.
Print Assumptions C10_remove_source_is_model.
Print Assumptions slots_source_example.
Print Assumptions C10_run_source_is_model.
