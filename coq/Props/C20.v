(* C20 — simultaneous closes and requests never panic; they resolve as some serial order.
   This file only pins statements. *)
From Amq Require Import Lib.RsVal Gen.SrcClose Proofs.CloseSrc Model.Close.
From Amq Require Import Lib.Base Gen.Consts Model.Wire Model.Frames Model.OutBuf Model.Collector
     Model.Slots Model.Core Proofs.CoreInv.

(* Every batch: any events (socket readable / writable with any frames and any transport
   behaviour, heartbeat timer, set-blocked, allocation, channel-0 mailbox, any channel's
   mailbox - live or stale), any number of them, in any order, from any state satisfying
   the invariant: the I/O thread never panics, never fails an assertion (is_connection_done
   included) and never blocks on one of its own queues; and the invariant holds again. *)
Theorem C20_no_panic : forall evs c o c' wire,
  run_batch c evs = (o, c', wire) -> WFs c -> batch_ok c evs ->
  (forall site, o <> OPanic site) /\ WFs c' /\ is_done c' <> DAssertFailed.
Proof. exact run_batch_WFs. Qed.

Theorem C20_one_event : forall c e o c' wire,
  handle_event c e = (o, c', wire) -> WFs c -> ev_ok c e ->
  (forall site, o <> OPanic site) /\ WFs c'.
Proof. exact handle_event_WFs. Qed.

(* the state the steady-state loop starts from satisfies the invariant *)
Theorem C20_init : forall mx bound, mx <= 65535 -> WFs (init_core mx bound).
Proof. exact WFs_init. Qed.

(* The outcome of a batch IS the outcome of handling its events one after another: a batch
   can be cut anywhere into two batches handled in sequence (so a request handled before
   the close takes effect against the state before it, one handled after it against the
   state after it - there is nothing in between). *)
Theorem C20_serial : forall evs1 evs2 c,
  run_batch c (evs1 ++ evs2) =
  let '(o1, c1, w1) := run_batch c evs1 in
  match o1 with
  | OOk => let '(o2, c2, w2) := run_batch c1 evs2 in (o2, c2, w1 ++ w2)
  | _ => (o1, c1, w1)
  end.
Proof. exact run_batch_app. Qed.

(* After a server Connection.Close (or a client exception) the channel-0 sources are gone:
   the wake-ups for them that were pending in the same batch are ignored - they do not
   panic - and so is a wake-up for a channel whose slot the close removed (nothing is
   received; only the re-poll flag is set if the buffer is above the high-water mark). *)
Theorem C20_stale : forall c,
  c_ch0 c = None ->
  handle_event c EvAlloc = (OOk, c, []) /\
  handle_event c EvSetBlocked = (OOk, c, []) /\
  handle_event c (EvChan 0) = (OOk, c, []) /\
  (forall n, n <> 0 -> alookup n (c_slots c) = None ->
     handle_event c (EvChan n) = (OOk, (if c_high c <? out_len c then set_need c true else c), [])).
Proof. exact stale_wakeups. Qed.

(* THE MODEL IS THE SOURCE: Connection::close_impl of src/connection.rs as translated from the source text on every run
   (Gen/SrcClose.v, tools/rs2sm.py) is Model/Close.v's close_impl: the close request goes out first, the I/O thread is joined,
   a panic of the thread is IoThreadPanic, the error the thread ended with - the server's Connection.Close among them - takes
   precedence over what the request returned, and a second call (Drop after close) does nothing (seed C20e gave the
   request's error precedence: this obligation breaks). *)
Theorem C20_close_source_is_model : forall (have : bool) (req : req_res) (io : io_end), gen_Connection_close_impl (ext_st_model req io) (enc_self have false) = (enc_self false (snd (close_impl have req io)), enc_res (fst (close_impl have req io))).
Proof. exact close_source_is_model. Qed.

(* non-vacuity: the witness of the repaired defect F6 - the server's Connection.Close and
   an allocation request in one batch - runs to the end without a panic, the thread is in
   ServerClosing(320), and the request is simply not served *)
Example C20_example :
  let c0 := init_core 10 16 in
  let c1 := match c_ch0 c0 with
            | Some z => set_ch0 c0 (Some (z_with_alloc z [None]))
            | None => c0
            end in
  WFs c1 /\
  batch_ok c1 [EvStream None (Some ([(FMethod 0 (MConnClose 320 [102]), [])], TBlock)); EvAlloc] /\
  match run_batch c1 [EvStream None (Some ([(FMethod 0 (MConnClose 320 [102]), [])], TBlock)); EvAlloc] with
  | (OOk, c', _) => c_phase c' = PServerClosing 320 [102] /\ c_slots c' = []
  | _ => False
  end.
Proof.
  cbv zeta. split; [|split].
  - constructor.
    + intros _. eexists. split; [reflexivity|]. cbn.
      refine (conj eq_refl (conj eq_refl (conj I (conj _ (conj _ (conj _ _)))))).
      * intros q [].
      * eexists. split; [reflexivity|]. split; reflexivity.
      * constructor.
      * split; [cbn; lia|]. cbn. intros _. eexists. split; [reflexivity|]. split; reflexivity.
    + intros n s [].
    + cbn. intros [(a & b & E)|E]; discriminate.
    + cbn. apply Proofs.Slots.Inv_new. lia.
    + cbn. lia.
    + cbn. intro Hx. contradiction.
  - cbn. auto.
  - vm_compute. split; reflexivity.
Qed.

Check C20_no_panic : forall evs c o c' wire,
  run_batch c evs = (o, c', wire) -> WFs c -> batch_ok c evs ->
  (forall site, o <> OPanic site) /\ WFs c' /\ is_done c' <> DAssertFailed.
Check C20_one_event : forall c e o c' wire,
  handle_event c e = (o, c', wire) -> WFs c -> ev_ok c e ->
  (forall site, o <> OPanic site) /\ WFs c'.
Check C20_init : forall mx bound, mx <= 65535 -> WFs (init_core mx bound).
Check C20_serial : forall evs1 evs2 c,
  run_batch c (evs1 ++ evs2) =
  let '(o1, c1, w1) := run_batch c evs1 in
  match o1 with
  | OOk => let '(o2, c2, w2) := run_batch c1 evs2 in (o2, c2, w1 ++ w2)
  | _ => (o1, c1, w1)
  end.
Check C20_stale : forall c,
  c_ch0 c = None ->
  handle_event c EvAlloc = (OOk, c, []) /\
  handle_event c EvSetBlocked = (OOk, c, []) /\
  handle_event c (EvChan 0) = (OOk, c, []) /\
  (forall n, n <> 0 -> alookup n (c_slots c) = None ->
     handle_event c (EvChan n) = (OOk, (if c_high c <? out_len c then set_need c true else c), [])).

Check C20_close_source_is_model : forall (have : bool) (req : req_res) (io : io_end), gen_Connection_close_impl (ext_st_model req io) (enc_self have false) = (enc_self false (snd (close_impl have req io)), enc_res (fst (close_impl have req io))).

Print Assumptions C20_no_panic.
Print Assumptions C20_one_event.
Print Assumptions C20_init.
Print Assumptions C20_serial.
Print Assumptions C20_stale.
Print Assumptions C20_example.
Print Assumptions C20_close_source_is_model.
