(* C04 - a synchronous call returns the server's reply to that very call (I/O-thread side: routing).
   This file only pins statements. *)
From Amq Require Import Lib.Base Gen.Consts Model.Wire Model.Frames Model.OutBuf Model.Collector Model.Slots Model.Core Spec.Slots Spec.Content Proofs.Slots Proofs.OutBuf Proofs.Collector Proofs.CoreContent Proofs.CoreInv Proofs.CoreMore.

(* A reply-class frame (the 13 -Ok methods with all their fields, Get-Empty) on channel n is appended, unchanged, to the reply queue of slot n; the resulting state differs from the old one in that queue ONLY (set_qs c (pushed ...)): no other queue, slot, buffer or phase changes, for every n, every reply, every state *)
Theorem C04_routing : forall (n : N) (m : smethod) (dbg : str) (c : core) (s : slot), steady c -> n <> 0 -> alookup n (c_slots c) = Some s -> is_reply m -> has_room (s_reply s) (c_qs c) -> process c (FMethod n m, dbg) = (OOk, set_qs c (pushed (s_reply s) (reply_item m) (c_qs c))).
Proof. exact reply_routing. Qed.

(* a reply on a channel that is not open is handed to nobody: the connection ends with ReceivedFrameWithBogusChannelId *)
Theorem C04_bogus : forall (n : N) (m : smethod) (dbg : str) (c : core), steady c -> n <> 0 -> alookup n (c_slots c) = None -> is_reply m -> process c (FMethod n m, dbg) = (OErr (EBogusChannel n), c).
Proof. exact reply_bogus. Qed.

(* whatever a frame of channel m is, every other channel's slot (reply queue id, collector, consumers) is exactly as before: overlapping calls on different channels cannot disturb each other *)
Theorem C04_other_channels : forall (f : frame) (dbg : str) (c : core) (o : outcome) (c' : core), frame_chan f <> 0 -> process c (f, dbg) = (o, c') -> slots_off (frame_chan f) c c'.
Proof. exact frame_other_channels. Qed.

(* non-vacuity: Queue.DeclareOk("q", 7, 2) on channel 3 lands in slot 3's reply queue (id 5) *)
Example C04_example :
  let s := {| s_mail := []; s_mail_tx := true; s_reply := 5; s_coll := CNone;
              s_consumers := []; s_ret := None; s_conf := None; s_ncons := 0 |} in
  let c0 := init_core 10 16 in
  let c := set_slot (set_qs c0 (ainsert 5 (new_queue (Some 2)) (c_qs c0))) 3 s in
  steady c /\ has_room 5 (c_qs c) /\
  option_map (fun qu => q_items qu)
    (alookup 5 (c_qs (snd (process c (FMethod 3 (MGeneric KQDeclareOk [113] 7 2), []))))) =
  Some [IReplyMethod (MGeneric KQDeclareOk [113] 7 2)].
Proof.
  cbv zeta. split; [reflexivity|]. split.
  - eexists. split; [reflexivity|]. split; [reflexivity|]. cbn. lia.
  - vm_compute. reflexivity.
Qed.

Check C04_routing : forall (n : N) (m : smethod) (dbg : str) (c : core) (s : slot), steady c -> n <> 0 -> alookup n (c_slots c) = Some s -> is_reply m -> has_room (s_reply s) (c_qs c) -> process c (FMethod n m, dbg) = (OOk, set_qs c (pushed (s_reply s) (reply_item m) (c_qs c))).
Check C04_bogus : forall (n : N) (m : smethod) (dbg : str) (c : core), steady c -> n <> 0 -> alookup n (c_slots c) = None -> is_reply m -> process c (FMethod n m, dbg) = (OErr (EBogusChannel n), c).
Check C04_other_channels : forall (f : frame) (dbg : str) (c : core) (o : outcome) (c' : core), frame_chan f <> 0 -> process c (f, dbg) = (o, c') -> slots_off (frame_chan f) c c'.

Print Assumptions C04_routing.
Print Assumptions C04_bogus.
Print Assumptions C04_other_channels.
Print Assumptions C04_example.
