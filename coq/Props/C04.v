(* C04 - a synchronous call returns the server's reply to that very call (I/O-thread side: routing).
   This file only pins statements. *)
From Amq Require Import Lib.Base Gen.Consts Model.Wire Model.Frames Model.OutBuf Model.Collector Model.Slots Model.Core Spec.Slots Spec.Content Proofs.Slots Proofs.OutBuf Proofs.Collector Proofs.CoreContent Proofs.CoreInv Proofs.CoreMore Model.Handle Proofs.Handle Model.Sys Proofs.Sys Proofs.SysRefine Proofs.SysLive Lib.RsVal Gen.SrcHandle Proofs.HandleSrc Gen.SrcQueues Proofs.QueuesSrc.

(* A reply-class frame (the 13 -Ok methods with all their fields, Get-Empty) on channel n is appended, unchanged, to the reply queue of slot n; the resulting state differs from the old one in that queue ONLY (set_qs c (pushed ...)): no other queue, slot, buffer or phase changes, for every n, every reply, every state *)
Theorem C04_routing : forall (n : N) (m : smethod) (dbg : str) (c : core) (s : slot), steady c -> n <> 0 -> alookup n (c_slots c) = Some s -> is_reply m -> has_room (s_reply s) (c_qs c) -> process c (FMethod n m, dbg) = (OOk, set_qs c (pushed (s_reply s) (reply_item m) (c_qs c))).
Proof. exact reply_routing. Qed.

(* a reply on a channel that is not open is handed to nobody: the connection ends with ReceivedFrameWithBogusChannelId *)
Theorem C04_bogus : forall (n : N) (m : smethod) (dbg : str) (c : core), steady c -> n <> 0 -> alookup n (c_slots c) = None -> is_reply m -> process c (FMethod n m, dbg) = (OErr (EBogusChannel n), c).
Proof. exact reply_bogus. Qed.

(* whatever a frame of channel m is, every other channel's slot (reply queue id, collector, consumers) is exactly as before: overlapping calls on different channels cannot disturb each other *)
Theorem C04_other_channels : forall (f : frame) (dbg : str) (c : core) (o : outcome) (c' : core), frame_chan f <> 0 -> process c (f, dbg) = (o, c') -> slots_off (frame_chan f) c c'.
Proof. exact frame_other_channels. Qed.

(* THE CALLER'S SIDE (IoLoopHandle::call): n successive calls on a channel whose reply queue holds their n replies get them in order - the i-th call the i-th reply - and leave the rest of the queue untouched; with C04_routing (the I/O thread puts each reply-class frame on the reply queue of its channel, in order) a call returns the server's reply to that very call *)
Theorem C04_calls_in_order : forall (wants : list N) (s : hstate) (rest : list hitem), h_mail_rx s = true -> h_replies s = map HMethod wants ++ rest -> fst (hrun (map CCall wants) s) = map ROk wants /\ h_replies (snd (hrun (map CCall wants) s)) = rest /\ h_mail (snd (hrun (map CCall wants) s)) = h_mail s + N.of_nat (Datatypes.length wants).
Proof. exact calls_in_order. Qed.

(* a call that returns consumes at most the head of its reply queue and never reorders it *)
Theorem C04_call_takes_head : forall (c : hcall) (s : hstate) (r : hres) (s' : hstate), hstep c s = Some (r, s') -> h_replies s' = h_replies s \/ (exists it : hitem, h_replies s = it :: h_replies s').
Proof. exact call_takes_head. Qed.

(* when the request went out and the reply at the head of the queue is of the type the call expects, the call returns exactly it *)
Theorem C04_call_returns_head : forall (want : N) (rest : list hitem) (s : hstate), h_mail_rx s = true -> h_replies s = HMethod want :: rest -> hstep (CCall want) s = Some (ROk want, with_replies s rest (h_mail s + 1)).
Proof. exact call_returns_head. Qed.

(* a verdict of the I/O thread at the head of the reply queue (channel closed by the server, connection closed, ...) is what the call reports - whether or not its own request could still be handed over (check_recv_for_error) *)
Theorem C04_verdict_reported : forall (c : hcall) (e : N) (rest : list hitem) (s : hstate), c <> CNowait \/ h_mail_rx s = false -> h_replies s = HErr e :: rest -> exists s' : hstate, hstep c s = Some (RErrItem e, s') /\ h_replies s' = rest.
Proof. exact verdict_reported. Qed.

(* THE WHOLE SYSTEM, EVERY SCHEDULE (Model/Sys.v): any number of channels, each with its caller and its program of synchronous and nowait calls; the I/O thread draining mailboxes (any prefix at a time), writing (any number of frames at a time) and routing replies; a server that answers the requests of one channel in order and the channels in ANY relative order, at any time, and that may CLOSE any channel at any moment (Channel.Close: what it owed on it is dropped, nothing follows on it). After every finite interleaving of these actions: the I/O thread never found a reply queue full nor a frame for a channel that is gone; what channel n's calls have returned is exactly the server's answers to the first so-many synchronous requests channel n issued, in order (the i-th call got the reply to the i-th request - never another channel's, never another call's) - also on a channel the server closed; on a channel the server has not closed, a caller that is not blocked has the reply of every synchronous request it issued and a blocked caller is owed exactly one item, the answer to its last request; a reply queue never holds more than two items (one reply and the verdict of a close); what was issued is a prefix of the program; and a caller is marked failed only after the I/O thread has ended or the server has closed its channel *)
Theorem C04_system_own_reply : forall (answer : N -> N -> N) (bound qcap : N) (progs : N -> list call), 2 <= qcap -> forall sched : list act, let s := yrun answer bound qcap (init_sys progs) sched in y_fail s = false /\ (forall n : N, let c := y_ch s n in yc_results c = map (answer n) (firstn (Datatypes.length (yc_results c)) (syncs (yc_issued c))) /\ (yc_srv_closed c = false -> yc_wait c = false -> yc_failed c = false -> yc_results c = map (answer n) (syncs (yc_issued c))) /\ (yc_srv_closed c = false -> yc_wait c = true -> exists r : N, syncs (yc_issued c) = firstn (Datatypes.length (yc_results c)) (syncs (yc_issued c)) ++ [r] /\ inflight answer s n = [answer n r]) /\ (Datatypes.length (yc_replyq c) <= 2)%nat /\ yc_issued c ++ yc_prog c = progs n /\ (yc_failed c = true -> y_dead s = true \/ yc_srv_closed c = true)).
Proof. exact sys_own_reply. Qed.

(* ... in particular the capacity the code gives a reply queue (2, from the compiled crate: one reply and one verdict) is never exceeded under a compliant server, even when the server closes the channel while a reply is still queued: the hypothesis has_room of C04_routing holds in every reachable state (hypothesis 2 <= qcap; with qcap = 1 the statement is false - a queued reply followed by the Close's verdict) *)
Theorem C04_system_reply_queue_never_full : forall (answer : N -> N -> N) (bound qcap : N) (progs : N -> list call), 2 <= qcap -> forall sched : list act, y_fail (yrun answer bound qcap (init_sys progs) sched) = false.
Proof. exact sys_reply_queue_never_full. Qed.

(* NOBODY WAITS FOR NOTHING: in every reachable state, a blocked caller of a channel the server has not closed has its one outstanding item in one of the six stages (reply queue, inbound wire, server, outbound wire, out-buffer, mailbox) and the action that moves it on is enabled: no reachable state is a deadlock *)
Theorem C04_system_waiting_progress : forall (answer : N -> N -> N) (bound qcap : N) (progs : N -> list call), 2 <= qcap -> forall (sched : list act) (n : N), let s := yrun answer bound qcap (init_sys progs) sched in yc_srv_closed (y_ch s n) = false -> yc_wait (y_ch s n) = true -> yc_replyq (y_ch s n) <> [] \/ y_inwire s <> [] \/ yc_pend (y_ch s n) <> [] \/ y_outwire s <> [] \/ y_outbuf s <> [] \/ yc_mail (y_ch s n) <> [].
Proof. exact sys_waiting_progress. Qed.

(* BLOCKS UNTIL THE REPLY ARRIVES - AND IT CAN ALWAYS ARRIVE: from every reachable state of the system in which the I/O thread lives and caller n is blocked there is a continuation that does not contain the I/O thread's end and after which caller n has returned - if the server has not closed n: drain n's mailbox, write the out-buffer, let the server read and answer, read the replies (each of which, and each Close for another channel, finds room in its queue), receive; if the server has closed n: read what is on the wire, the Close among it (it is never lost: CInv), receive the verdict. The system has no deadlock and no lost wake-up at the level of the protocol (the wake-up discipline underneath is C18_wake_invariant) *)
Theorem C04_system_never_stuck : forall (answer : N -> N -> N) (bound qcap : N) (progs : N -> list call), 2 <= qcap -> forall (sched : list act) (n : N), let s := yrun answer bound qcap (init_sys progs) sched in y_dead s = false -> yc_wait (y_ch s n) = true -> exists cont : list act, ~ In ADie cont /\ yc_wait (y_ch (yrun answer bound qcap s cont) n) = false.
Proof. exact sys_never_stuck. Qed.

(* the system's I/O actions ARE steps of the I/O-thread model (which the CoreProbe ties to the real code). ARead: processing a reply-class frame of channel n, with at most one item queued (the system invariant), appends the reply to n's reply queue; every other reply queue, every mailbox, the out-buffer and the phase are unchanged *)
Theorem C04_io_read_is_ARead : forall (n : N) (m : smethod) (dbg : str) (c : core), steady c -> n <> 0 -> is_reply m -> reply_queue_ok c n -> reply_queues_distinct c -> (Datatypes.length (view_replyq c n) <= 1)%nat -> exists c' : core, process c (FMethod n m, dbg) = (OOk, c') /\ view_replyq c' n = view_replyq c n ++ [reply_item m] /\ (forall k : N, k <> n -> view_replyq c' k = view_replyq c k) /\ (forall k : N, view_mail c' k = view_mail c k) /\ c_out c' = c_out c /\ c_phase c' = c_phase c.
Proof. exact io_read_is_ARead. Qed.

(* ADrain: a wake-up of channel n takes some prefix of its mailbox, appends those buffers whole and in order to the out-buffer and leaves the rest; other mailboxes, all queues and the phase are unchanged *)
Theorem C04_io_drain_is_ADrain : forall (n : N) (bufs : list bytes) (c : core) (s : slot), n <> 0 -> alookup n (c_slots c) = Some s -> s_mail s = map MsgSend bufs -> s_mail_tx s = true -> ob_sealed (c_out c) = false -> exists (c' : core) (k : nat), handle_event c (EvChan n) = (OOk, c', []) /\ view_mail c' n = map MsgSend (skipn k bufs) /\ ob (c_out c') = ob (c_out c) ++ concat (firstn k bufs) /\ (forall j : N, j <> n -> view_mail c' j = view_mail c j) /\ c_qs c' = c_qs c /\ c_phase c' = c_phase c.
Proof. exact io_drain_is_ADrain. Qed.

(* AWrite: a write event puts a prefix of the out-buffer on the wire and keeps the rest; mailboxes and reply queues are unchanged *)
Theorem C04_io_write_is_AWrite : forall (c : core) (oracle : list wr) (bs : bytes) (wr0 : wres) (ob' : outbuf) (rest : list wr), write_to_stream (c_out c) oracle = (bs, wr0, ob', rest) -> wr0 = WOk -> exists c' : core, handle_event c (EvStream (Some oracle) None) = (OOk, c', bs) /\ bs ++ ob (c_out c') = ob (c_out c) /\ (forall k : N, view_mail c' k = view_mail c k) /\ (forall k : N, view_replyq c' k = view_replyq c k).
Proof. exact io_write_is_AWrite. Qed.

(* THE MODEL IS THE SOURCE: IoLoopHandle::{call_message (the body of call), get, consume, call_nowait, send, recv, check_recv_for_error} of src/io_loop/io_loop_handle.rs as translated from the source text on every run (Gen/SrcHandle.v, tools/rs2sm.py) return, whenever the model says the call does not block, exactly what Model/Handle.v's hstep says and leave mailbox and reply queue as it says - the function C04_call_returns_head / C04_calls_in_order / C04_verdict_reported are about. ext_st_model states what is assumed of crossbeam's channel ends (send fails iff the receiver is gone; recv yields the oldest item, fails when empty and disconnected, blocks otherwise), ext_model that T::try_from accepts exactly the expected method type *)
Theorem C04_call_source_is_model : forall (c : hcall) (s : hstate) (r : hres) (s' : hstate) (arg : val), hstep c s = Some (r, s') -> gen_call c (enc_state s) arg = (enc_state s', enc_res c r).
Proof. exact call_source_is_model. Qed.

(* ... and the system's ARead of a server Channel.Close is the Core's step: verdict behind the queued reply, slot and mailbox gone, other slots untouched, CloseOk(n) queued *)
Theorem C04_io_close_is_ARead_close : forall (n code : N) (text dbg : str) (c : core) (s : slot), steady c -> n <> 0 -> alookup n (c_slots c) = Some s -> s_consumers s = [] -> reply_queue_ok c n -> (Datatypes.length (view_replyq c n) <= 1)%nat -> exists c' : core, process c (FMethod n (MChanClose code text), dbg) = (OOk, c') /\ alookup n (c_slots c') = None /\ items_of (s_reply s) (c_qs c') = Some (view_replyq c n ++ [IReplyErr (EServerClosedChannel n code text)]) /\ (forall k : N, k <> n -> alookup k (c_slots c') = alookup k (c_slots c)) /\ c_out c' = ob_append (c_out c) (ser_chan_close_ok n).
Proof. exact io_close_is_ARead_close. Qed.

(* THE MODEL IS THE SOURCE: connection_state.rs's `send` - through which every reply, verdict and consumer message reaches a client-side queue - as translated from the source on every run (Gen/SrcQueues.v) is the model's send / try_send: appended when the queue has room and a receiver, FrameUnexpected when full, EventLoopClientDropped when the receiver is gone, the queues untouched in both failure cases *)
Theorem C04_send_source_is_model : forall (enc_item : qitem -> val) (q : N) (it : qitem) (c : core), gen_send ext_st_model (enc_tx enc_item q (c_qs c)) (enc_item it) = (enc_tx enc_item q (c_qs (snd (send q it c))), enc_outcome (fst (send q it c))).
Proof. exact send_source_is_model. Qed.

(* non-vacuity: Queue.DeclareOk("q", 7, 2) on channel 3 lands in slot 3's reply queue (id 5) *)
Example C04_example :
  let s := {| s_mail := []; s_mail_tx := true; s_reply := 5; s_coll := CNone;
              s_consumers := []; s_ret := None; s_conf := None; s_ncons := 0 |} in
  let c0 := init_core 10 16 in
  let c := set_slot (set_qs c0 (ainsert 5 (new_queue (Some 2)) (c_qs c0))) 3 s in
  steady c /\ has_room 5 (c_qs c) /\
  option_map (fun qu => q_items qu)
    (alookup 5 (c_qs (snd (process c (FMethod 3 (MGeneric KQDeclareOk [113] 7 2), []))))) =
  Some [IReplyMethod (MGeneric KQDeclareOk [113] 7 2)].
Proof.
  cbv zeta. split; [reflexivity|]. split.
  - eexists. split; [reflexivity|]. split; [reflexivity|]. cbn. lia.
  - vm_compute. reflexivity.
Qed.

(* non-vacuity of the system theorem: two callers, the server reads both requests and answers
   channel 2 FIRST although channel 1 asked first; each call still returns its own reply *)
Example C04_system_example :
  let answer := fun n r => n * 1000 + r in
  let progs := fun n => if n =? 1 then [(KSync, 7); (KNowait, 8); (KSync, 9)] else if n =? 2 then [(KSync, 5)] else [] in
  let s := yrun answer 16 2 (init_sys progs)
             [ASend 1; ASend 2; ADrain 1 1; ADrain 2 1; AWrite 2; ASrvRead; ASrvRead;
              ASrvAnswer 2; ASrvAnswer 1; ARead; ARead; ARecv 2; ARecv 1;
              ASend 1; ASend 1; ADrain 1 2; AWrite 1; AWrite 1; ASrvRead; ASrvRead; ASrvAnswer 1; ARead; ARecv 1] in
  yc_results (y_ch s 1) = [1007; 1009] /\ yc_results (y_ch s 2) = [2005] /\ y_fail s = false /\
  yc_prog (y_ch s 1) = [] /\ yc_wait (y_ch s 1) = false.
Proof. vm_compute. repeat split. Qed.

Check C04_routing : forall (n : N) (m : smethod) (dbg : str) (c : core) (s : slot), steady c -> n <> 0 -> alookup n (c_slots c) = Some s -> is_reply m -> has_room (s_reply s) (c_qs c) -> process c (FMethod n m, dbg) = (OOk, set_qs c (pushed (s_reply s) (reply_item m) (c_qs c))).
Check C04_bogus : forall (n : N) (m : smethod) (dbg : str) (c : core), steady c -> n <> 0 -> alookup n (c_slots c) = None -> is_reply m -> process c (FMethod n m, dbg) = (OErr (EBogusChannel n), c).
Check C04_other_channels : forall (f : frame) (dbg : str) (c : core) (o : outcome) (c' : core), frame_chan f <> 0 -> process c (f, dbg) = (o, c') -> slots_off (frame_chan f) c c'.
Check C04_calls_in_order : forall (wants : list N) (s : hstate) (rest : list hitem), h_mail_rx s = true -> h_replies s = map HMethod wants ++ rest -> fst (hrun (map CCall wants) s) = map ROk wants /\ h_replies (snd (hrun (map CCall wants) s)) = rest /\ h_mail (snd (hrun (map CCall wants) s)) = h_mail s + N.of_nat (Datatypes.length wants).
Check C04_call_takes_head : forall (c : hcall) (s : hstate) (r : hres) (s' : hstate), hstep c s = Some (r, s') -> h_replies s' = h_replies s \/ (exists it : hitem, h_replies s = it :: h_replies s').
Check C04_call_returns_head : forall (want : N) (rest : list hitem) (s : hstate), h_mail_rx s = true -> h_replies s = HMethod want :: rest -> hstep (CCall want) s = Some (ROk want, with_replies s rest (h_mail s + 1)).
Check C04_verdict_reported : forall (c : hcall) (e : N) (rest : list hitem) (s : hstate), c <> CNowait \/ h_mail_rx s = false -> h_replies s = HErr e :: rest -> exists s' : hstate, hstep c s = Some (RErrItem e, s') /\ h_replies s' = rest.
Check C04_system_own_reply : forall (answer : N -> N -> N) (bound qcap : N) (progs : N -> list call), 2 <= qcap -> forall sched : list act, let s := yrun answer bound qcap (init_sys progs) sched in y_fail s = false /\ (forall n : N, let c := y_ch s n in yc_results c = map (answer n) (firstn (Datatypes.length (yc_results c)) (syncs (yc_issued c))) /\ (yc_srv_closed c = false -> yc_wait c = false -> yc_failed c = false -> yc_results c = map (answer n) (syncs (yc_issued c))) /\ (yc_srv_closed c = false -> yc_wait c = true -> exists r : N, syncs (yc_issued c) = firstn (Datatypes.length (yc_results c)) (syncs (yc_issued c)) ++ [r] /\ inflight answer s n = [answer n r]) /\ (Datatypes.length (yc_replyq c) <= 2)%nat /\ yc_issued c ++ yc_prog c = progs n /\ (yc_failed c = true -> y_dead s = true \/ yc_srv_closed c = true)).
Check C04_system_reply_queue_never_full : forall (answer : N -> N -> N) (bound qcap : N) (progs : N -> list call), 2 <= qcap -> forall sched : list act, y_fail (yrun answer bound qcap (init_sys progs) sched) = false.
Check C04_system_waiting_progress : forall (answer : N -> N -> N) (bound qcap : N) (progs : N -> list call), 2 <= qcap -> forall (sched : list act) (n : N), let s := yrun answer bound qcap (init_sys progs) sched in yc_srv_closed (y_ch s n) = false -> yc_wait (y_ch s n) = true -> yc_replyq (y_ch s n) <> [] \/ y_inwire s <> [] \/ yc_pend (y_ch s n) <> [] \/ y_outwire s <> [] \/ y_outbuf s <> [] \/ yc_mail (y_ch s n) <> [].
Check C04_system_never_stuck : forall (answer : N -> N -> N) (bound qcap : N) (progs : N -> list call), 2 <= qcap -> forall (sched : list act) (n : N), let s := yrun answer bound qcap (init_sys progs) sched in y_dead s = false -> yc_wait (y_ch s n) = true -> exists cont : list act, ~ In ADie cont /\ yc_wait (y_ch (yrun answer bound qcap s cont) n) = false.
Check C04_io_read_is_ARead : forall (n : N) (m : smethod) (dbg : str) (c : core), steady c -> n <> 0 -> is_reply m -> reply_queue_ok c n -> reply_queues_distinct c -> (Datatypes.length (view_replyq c n) <= 1)%nat -> exists c' : core, process c (FMethod n m, dbg) = (OOk, c') /\ view_replyq c' n = view_replyq c n ++ [reply_item m] /\ (forall k : N, k <> n -> view_replyq c' k = view_replyq c k) /\ (forall k : N, view_mail c' k = view_mail c k) /\ c_out c' = c_out c /\ c_phase c' = c_phase c.
Check C04_io_drain_is_ADrain : forall (n : N) (bufs : list bytes) (c : core) (s : slot), n <> 0 -> alookup n (c_slots c) = Some s -> s_mail s = map MsgSend bufs -> s_mail_tx s = true -> ob_sealed (c_out c) = false -> exists (c' : core) (k : nat), handle_event c (EvChan n) = (OOk, c', []) /\ view_mail c' n = map MsgSend (skipn k bufs) /\ ob (c_out c') = ob (c_out c) ++ concat (firstn k bufs) /\ (forall j : N, j <> n -> view_mail c' j = view_mail c j) /\ c_qs c' = c_qs c /\ c_phase c' = c_phase c.
Check C04_io_write_is_AWrite : forall (c : core) (oracle : list wr) (bs : bytes) (wr0 : wres) (ob' : outbuf) (rest : list wr), write_to_stream (c_out c) oracle = (bs, wr0, ob', rest) -> wr0 = WOk -> exists c' : core, handle_event c (EvStream (Some oracle) None) = (OOk, c', bs) /\ bs ++ ob (c_out c') = ob (c_out c) /\ (forall k : N, view_mail c' k = view_mail c k) /\ (forall k : N, view_replyq c' k = view_replyq c k).
Check C04_call_source_is_model : forall (c : hcall) (s : hstate) (r : hres) (s' : hstate) (arg : val), hstep c s = Some (r, s') -> gen_call c (enc_state s) arg = (enc_state s', enc_res c r).
Check C04_io_close_is_ARead_close : forall (n code : N) (text dbg : str) (c : core) (s : slot), steady c -> n <> 0 -> alookup n (c_slots c) = Some s -> s_consumers s = [] -> reply_queue_ok c n -> (Datatypes.length (view_replyq c n) <= 1)%nat -> exists c' : core, process c (FMethod n (MChanClose code text), dbg) = (OOk, c') /\ alookup n (c_slots c') = None /\ items_of (s_reply s) (c_qs c') = Some (view_replyq c n ++ [IReplyErr (EServerClosedChannel n code text)]) /\ (forall k : N, k <> n -> alookup k (c_slots c') = alookup k (c_slots c)) /\ c_out c' = ob_append (c_out c) (ser_chan_close_ok n).
Check C04_send_source_is_model : forall (enc_item : qitem -> val) (q : N) (it : qitem) (c : core), gen_send ext_st_model (enc_tx enc_item q (c_qs c)) (enc_item it) = (enc_tx enc_item q (c_qs (snd (send q it c))), enc_outcome (fst (send q it c))).

Print Assumptions C04_routing.
Print Assumptions C04_bogus.
Print Assumptions C04_other_channels.
Print Assumptions C04_calls_in_order.
Print Assumptions C04_call_takes_head.
Print Assumptions C04_call_returns_head.
Print Assumptions C04_verdict_reported.
Print Assumptions C04_system_own_reply.
Print Assumptions C04_system_reply_queue_never_full.
Print Assumptions C04_system_waiting_progress.
Print Assumptions C04_system_never_stuck.
Print Assumptions C04_io_read_is_ARead.
Print Assumptions C04_io_drain_is_ADrain.
Print Assumptions C04_io_write_is_AWrite.
Print Assumptions C04_call_source_is_model.
Print Assumptions C04_io_close_is_ARead_close.
Print Assumptions C04_send_source_is_model.
Print Assumptions C04_example.
Print Assumptions C04_system_example.
