(* C04 - a synchronous call returns the server's reply to that very call (I/O-thread side: routing).
   This file only pins statements. *)
From Amq Require Import Lib.Base Gen.Consts Model.Wire Model.Frames Model.OutBuf Model.Collector Model.Slots Model.Core Spec.Slots Spec.Content Proofs.Slots Proofs.OutBuf Proofs.Collector Proofs.CoreContent Proofs.CoreInv Proofs.CoreMore Model.Handle Proofs.Handle.

(* A reply-class frame (the 13 -Ok methods with all their fields, Get-Empty) on channel n is appended, unchanged, to the reply queue of slot n; the resulting state differs from the old one in that queue ONLY (set_qs c (pushed ...)): no other queue, slot, buffer or phase changes, for every n, every reply, every state *)
Theorem C04_routing : forall (n : N) (m : smethod) (dbg : str) (c : core) (s : slot), steady c -> n <> 0 -> alookup n (c_slots c) = Some s -> is_reply m -> has_room (s_reply s) (c_qs c) -> process c (FMethod n m, dbg) = (OOk, set_qs c (pushed (s_reply s) (reply_item m) (c_qs c))).
Proof. exact reply_routing. Qed.

(* a reply on a channel that is not open is handed to nobody: the connection ends with ReceivedFrameWithBogusChannelId *)
Theorem C04_bogus : forall (n : N) (m : smethod) (dbg : str) (c : core), steady c -> n <> 0 -> alookup n (c_slots c) = None -> is_reply m -> process c (FMethod n m, dbg) = (OErr (EBogusChannel n), c).
Proof. exact reply_bogus. Qed.

(* whatever a frame of channel m is, every other channel's slot (reply queue id, collector, consumers) is exactly as before: overlapping calls on different channels cannot disturb each other *)
Theorem C04_other_channels : forall (f : frame) (dbg : str) (c : core) (o : outcome) (c' : core), frame_chan f <> 0 -> process c (f, dbg) = (o, c') -> slots_off (frame_chan f) c c'.
Proof. exact frame_other_channels. Qed.

(* THE CALLER'S SIDE (IoLoopHandle::call): n successive calls on a channel whose reply queue holds their n replies get them in order - the i-th call the i-th reply - and leave the rest of the queue untouched; with C04_routing (the I/O thread puts each reply-class frame on the reply queue of its channel, in order) a call returns the server's reply to that very call *)
Theorem C04_calls_in_order : forall (wants : list N) (s : hstate) (rest : list hitem), h_mail_rx s = true -> h_replies s = map HMethod wants ++ rest -> fst (hrun (map CCall wants) s) = map ROk wants /\ h_replies (snd (hrun (map CCall wants) s)) = rest /\ h_mail (snd (hrun (map CCall wants) s)) = h_mail s + N.of_nat (length wants).
Proof. exact calls_in_order. Qed.

(* a call that returns consumes at most the head of its reply queue and never reorders it *)
Theorem C04_call_takes_head : forall (c : hcall) (s : hstate) (r : hres) (s' : hstate), hstep c s = Some (r, s') -> h_replies s' = h_replies s \/ (exists it : hitem, h_replies s = it :: h_replies s').
Proof. exact call_takes_head. Qed.

(* when the request went out and the reply at the head of the queue is of the type the call expects, the call returns exactly it *)
Theorem C04_call_returns_head : forall (want : N) (rest : list hitem) (s : hstate), h_mail_rx s = true -> h_replies s = HMethod want :: rest -> hstep (CCall want) s = Some (ROk want, with_replies s rest (h_mail s + 1)).
Proof. exact call_returns_head. Qed.

(* a verdict of the I/O thread at the head of the reply queue (channel closed by the server, connection closed, ...) is what the call reports - whether or not its own request could still be handed over (check_recv_for_error) *)
Theorem C04_verdict_reported : forall (c : hcall) (e : N) (rest : list hitem) (s : hstate), c <> CNowait \/ h_mail_rx s = false -> h_replies s = HErr e :: rest -> exists s' : hstate, hstep c s = Some (RErrItem e, s') /\ h_replies s' = rest.
Proof. exact verdict_reported. Qed.

(* non-vacuity: Queue.DeclareOk("q", 7, 2) on channel 3 lands in slot 3's reply queue (id 5) *)
Example C04_example :
  let s := {| s_mail := []; s_mail_tx := true; s_reply := 5; s_coll := CNone;
              s_consumers := []; s_ret := None; s_conf := None; s_ncons := 0 |} in
  let c0 := init_core 10 16 in
  let c := set_slot (set_qs c0 (ainsert 5 (new_queue (Some 2)) (c_qs c0))) 3 s in
  steady c /\ has_room 5 (c_qs c) /\
  option_map (fun qu => q_items qu)
    (alookup 5 (c_qs (snd (process c (FMethod 3 (MGeneric KQDeclareOk [113] 7 2), []))))) =
  Some [IReplyMethod (MGeneric KQDeclareOk [113] 7 2)].
Proof.
  cbv zeta. split; [reflexivity|]. split.
  - eexists. split; [reflexivity|]. split; [reflexivity|]. cbn. lia.
  - vm_compute. reflexivity.
Qed.

Check C04_routing : forall (n : N) (m : smethod) (dbg : str) (c : core) (s : slot), steady c -> n <> 0 -> alookup n (c_slots c) = Some s -> is_reply m -> has_room (s_reply s) (c_qs c) -> process c (FMethod n m, dbg) = (OOk, set_qs c (pushed (s_reply s) (reply_item m) (c_qs c))).
Check C04_bogus : forall (n : N) (m : smethod) (dbg : str) (c : core), steady c -> n <> 0 -> alookup n (c_slots c) = None -> is_reply m -> process c (FMethod n m, dbg) = (OErr (EBogusChannel n), c).
Check C04_other_channels : forall (f : frame) (dbg : str) (c : core) (o : outcome) (c' : core), frame_chan f <> 0 -> process c (f, dbg) = (o, c') -> slots_off (frame_chan f) c c'.
Check C04_calls_in_order : forall (wants : list N) (s : hstate) (rest : list hitem), h_mail_rx s = true -> h_replies s = map HMethod wants ++ rest -> fst (hrun (map CCall wants) s) = map ROk wants /\ h_replies (snd (hrun (map CCall wants) s)) = rest /\ h_mail (snd (hrun (map CCall wants) s)) = h_mail s + N.of_nat (length wants).
Check C04_call_takes_head : forall (c : hcall) (s : hstate) (r : hres) (s' : hstate), hstep c s = Some (r, s') -> h_replies s' = h_replies s \/ (exists it : hitem, h_replies s = it :: h_replies s').
Check C04_call_returns_head : forall (want : N) (rest : list hitem) (s : hstate), h_mail_rx s = true -> h_replies s = HMethod want :: rest -> hstep (CCall want) s = Some (ROk want, with_replies s rest (h_mail s + 1)).
Check C04_verdict_reported : forall (c : hcall) (e : N) (rest : list hitem) (s : hstate), c <> CNowait \/ h_mail_rx s = false -> h_replies s = HErr e :: rest -> exists s' : hstate, hstep c s = Some (RErrItem e, s') /\ h_replies s' = rest.

Print Assumptions C04_routing.
Print Assumptions C04_bogus.
Print Assumptions C04_other_channels.
Print Assumptions C04_calls_in_order.
Print Assumptions C04_call_takes_head.
Print Assumptions C04_call_returns_head.
Print Assumptions C04_verdict_reported.
Print Assumptions C04_example.
