(* C05 - when a connection dies every caller is released with an error (I/O-thread side).
   This file only pins statements. *)
From Amq Require Import Lib.Base Gen.Consts Model.Wire Model.Frames Model.OutBuf Model.Collector Model.Slots Model.Core Spec.Slots Spec.Content Proofs.Slots Proofs.OutBuf Proofs.Collector Proofs.CoreContent Proofs.CoreInv Proofs.CoreMore Check.Core Proofs.Examples Model.Handle Proofs.Handle Model.Sys Proofs.Sys Model.Close Proofs.Close Lib.RsVal Gen.SrcDrain Proofs.DrainSrc Gen.SrcHandle Proofs.HandleSrc Gen.SrcException Proofs.ExceptionSrc Gen.SrcClose Proofs.CloseSrc Gen.SrcHbPass Proofs.HbPassSrc.

(* a read that ends in EOF / an I/O error / an unparsable frame after frames that were all processed: the event's outcome is the error that names it (unless the close handshake had completed) *)
Theorem C05_fatal_read : forall (c : core) (fs : list dframe) (t : rterm) (c2 : core), process_all c fs = (OOk, c2) -> is_client_closed c2 = false -> fst (fst (handle_event c (EvStream None (Some (fs, t))))) = term_outcome t.
Proof. exact fatal_read_maps. Qed.

(* the mapping itself *)
Theorem C05_fatal_outcomes : term_outcome TEof = OErr EUnexpectedSocketClose /\ term_outcome TIoErr = OErr EIoRead /\ term_outcome TMalformed = OErr EMalformed /\ term_outcome TBlock = OOk.
Proof. exact fatal_outcomes. Qed.

(* a failing write ends the connection with IoErrorWritingSocket whatever else the event carries *)
Theorem C05_fatal_write : forall (c : core) (oracle : list wr) (r : option (list dframe * rterm)) (bs : bytes) (wr0 : wres) (ob' : outbuf) (rest : list wr), write_to_stream (c_out c) oracle = (bs, wr0, ob', rest) -> wr0 = WIoErr -> fst (fst (handle_event c (EvStream (Some oracle) r))) = OErr EIoWrite.
Proof. exact fatal_write_maps. Qed.

(* expiry of the receive timer ends it with MissedServerHeartbeats *)
Theorem C05_missed_heartbeats : forall (c : core) (rest : list (hbkind * bool)), fst (heartbeat_timers ((HbRx, true) :: rest) c) = OErr EMissedHeartbeats.
Proof. exact missed_heartbeats. Qed.

(* what the thread reports when the loop ends without an error: the server's close with its code and text, ClientException, or Ok after a completed client close *)
Theorem C05_final_results : forall c : core, (forall (code : N) (text : str), c_phase c = PServerClosing code text -> final_result c = OErr (EServerClosedConnection code text)) /\ (c_phase c = PClientException -> final_result c = OErr EClientException) /\ (c_phase c = PClientClosed -> final_result c = OOk /\ is_done c = DDone).
Proof. exact final_results. Qed.

(* when the thread's state is dropped, every queue any slot held a sender of - reply queue, every consumer queue, return and confirm listener - has no sender left: a blocked or later receive on it returns 'disconnected' at once *)
Theorem C05_releases_slots : forall (c : core) (n : N) (s : slot) (q : N), In (n, s) (c_slots c) -> slot_refs s q -> tx_gone q (c_qs (teardown c)).
Proof. exact teardown_releases. Qed.

(* the same for the connection's own reply queue and the allocation-reply queue *)
Theorem C05_releases_ch0 : forall (c : core) (z : ch0slot), c_ch0 c = Some z -> tx_gone (z_reply z) (c_qs (teardown c)) /\ tx_gone (z_alloc_rep z) (c_qs (teardown c)).
Proof. exact teardown_releases_ch0. Qed.

(* once the I/O thread is gone and nothing is queued, every call on a handle returns EventLoopDropped at once: nobody blocks on a dead connection *)
Theorem C05_dead_thread_never_blocks : forall (c : hcall) (s : hstate), h_reply_tx s = false -> h_mail_rx s = false -> h_replies s = [] -> hstep c s = Some (RDropped, s).
Proof. exact dead_thread_never_blocks. Qed.

(* a call blocks only while the I/O thread still holds its end of the reply queue and has not answered yet *)
Theorem C05_blocks_only_waiting : forall (c : hcall) (s : hstate), hstep c s = None -> h_reply_tx s = true /\ h_replies s = [].
Proof. exact blocks_only_waiting. Qed.

(* a verdict of the I/O thread at the head of the reply queue (channel closed by the server, connection closed, ...) is what the call reports - whether or not its own request could still be handed over (check_recv_for_error) *)
Theorem C05_verdict_reported : forall (c : hcall) (e : N) (rest : list hitem) (s : hstate), c <> CNowait \/ h_mail_rx s = false -> h_replies s = HErr e :: rest -> exists s' : hstate, hstep c s = Some (RErrItem e, s') /\ h_replies s' = rest.
Proof. exact verdict_reported. Qed.

(* THE WHOLE SYSTEM, EVERY SCHEDULE (Model/Sys.v: any number of callers with their programs, the I/O thread, the server - which may also close any channel at any moment -, and the I/O thread ENDING AT ANY MOMENT - action ADie - for whatever reason, with whatever in flight): in every reachable state in which the I/O thread has ended (or has dropped channel n's slot after the server's close), a blocked caller's receive returns at once (the reply that was already queued, the verdict, or an error: it is no longer waiting afterwards), and a caller's next call returns an error at once without handing anything over - every call in flight and every later call returns, nobody hangs *)
Theorem C05_system_dead_releases : forall (answer : N -> N -> N) (bound qcap : N) (progs : N -> list call), 2 <= qcap -> forall (sched : list act) (n : N), let s := yrun answer bound qcap (init_sys progs) sched in y_dead s = true \/ yc_slot_gone (y_ch s n) = true -> yc_wait (y_ch (ystep answer bound qcap s (ARecv n)) n) = false /\ yc_wait (y_ch (ystep answer bound qcap s (ASend n)) n) = yc_wait (y_ch s n) /\ (yc_wait (y_ch s n) = false -> yc_failed (y_ch s n) = false -> yc_prog (y_ch s n) <> [] -> yc_failed (y_ch (ystep answer bound qcap s (ASend n)) n) = true /\ yc_mail (y_ch (ystep answer bound qcap s (ASend n)) n) = yc_mail (y_ch s n)).
Proof. exact sys_dead_releases. Qed.

(* ... and whenever it ends, what the calls returned before is still exactly the server's replies to that channel's own requests, in order; a caller is marked failed only after the I/O thread has ended or the server has closed its channel *)
Theorem C05_system_own_reply : forall (answer : N -> N -> N) (bound qcap : N) (progs : N -> list call), 2 <= qcap -> forall sched : list act, let s := yrun answer bound qcap (init_sys progs) sched in y_fail s = false /\ (forall n : N, let c := y_ch s n in yc_results c = map (answer n) (firstn (Datatypes.length (yc_results c)) (syncs (yc_issued c))) /\ (yc_srv_closed c = false -> yc_wait c = false -> yc_failed c = false -> yc_results c = map (answer n) (syncs (yc_issued c))) /\ (yc_srv_closed c = false -> yc_wait c = true -> exists r : N, syncs (yc_issued c) = firstn (Datatypes.length (yc_results c)) (syncs (yc_issued c)) ++ [r] /\ inflight answer s n = [answer n r]) /\ (Datatypes.length (yc_replyq c) <= 2)%nat /\ yc_issued c ++ yc_prog c = progs n /\ (yc_failed c = true -> y_dead s = true \/ yc_srv_closed c = true)).
Proof. exact sys_own_reply. Qed.

(* the caller's side of Connection::close (close_impl, Model/Close.v): whatever the close request on channel 0 itself returned (Ok, EventLoopDropped because the slot was dropped, the verdict left in the reply queue), an error the I/O thread ended with is what close() returns - the root cause, not a consequence of it *)
Theorem C05_close_reports_root_cause : forall (req : req_res) (e : N), fst (close_impl true req (IoErr e)) = CErr e.
Proof. exact close_reports_root_cause. Qed.

(* close() returns Ok exactly when the I/O thread ended cleanly (the close handshake completed) and the close request was answered *)
Theorem C05_close_ok_iff : forall (req : req_res) (io : io_end), fst (close_impl true req io) = COk <-> io = IoOk /\ req = ReqOk.
Proof. exact close_ok_iff. Qed.

(* ... and the translated source of a call (Gen/SrcHandle.v) is that model: when the I/O thread is gone the translated call returns the queued verdict, or EventLoopDropped, at once *)
Theorem C05_call_source_is_model : forall (c : hcall) (s : hstate) (r : hres) (s' : hstate) (arg : val), hstep c s = Some (r, s') -> gen_call c (enc_state s) arg = (enc_state s', HandleSrc.enc_res c r).
Proof. exact call_source_is_model. Qed.

(* ... and when the connection dies by the client's own exception, the translated client_exception (Gen/SrcException.v) builds its Connection.Close without panicking for every reply text (cut at a character boundary), seals the buffer and sets the state the verdict is derived from *)
Theorem C05_client_exception_source_is_model : forall (self code : val) (s : list N) (log : list val), (forall b : N, nth_error s 0 = Some b -> is_cont b = false) -> gen_ConnectionState_client_exception ext_model 257 self (VC "effects" log) code (VBytes s) = finish code (trunc255 s) log.
Proof. exact client_exception_source_is_model. Qed.

(* THE MODEL IS THE SOURCE: Connection::close_impl of src/connection.rs as translated from the source text on every run (Gen/SrcClose.v) is the model's close_impl C05_close_reports_root_cause is about: the close request goes out first, the I/O thread is joined, a panic of the thread is IoThreadPanic, an error the thread ended with takes precedence over what the request returned, a second call does nothing *)
Theorem C05_close_source_is_model : forall (have : bool) (req : req_res) (io : io_end), gen_Connection_close_impl (CloseSrc.ext_st_model req io) (CloseSrc.enc_self have false) = (CloseSrc.enc_self false (snd (close_impl have req io)), enc_res (fst (close_impl have req io))).
Proof. exact close_source_is_model. Qed.

(* THE MODEL IS THE SOURCE: Inner::process_heartbeat_timers as translated from src/io_loop/mod.rs on every run (Gen/SrcHbPass.v) is Model/Core.v's heartbeat_timers - the function C05_missed_heartbeats (the fatal MissedServerHeartbeats) is about - for every sequence of timer entries and every out-buffer *)
Theorem C05_pass_source_is_model : forall (fired : list (hbkind * bool)) (c : core), gen_Inner_process_heartbeat_timers ext_st_model (S (Datatypes.length fired)) (enc_self fired (c_out c)) = (enc_self (hb_rest fired) (c_out (snd (heartbeat_timers fired c))), enc_outcome (fst (heartbeat_timers fired c))).
Proof. exact pass_source_is_model. Qed.

(* Inner::handle_channel0_readable as translated from src/io_loop/mod.rs on every run (Gen/SrcDrain.v) is, for EVERY behaviour of try_recv on channel 0's mailbox and of process_channel_message (any Result), the generic loop `drain`: take a message and process it; an empty mailbox returns Ok, a disconnected one EventLoopClientDropped, a failing process_channel_message its error *)
Theorem C05_ch0_drain_source_is_drain : forall (ext_st : string -> list val -> val -> val * val) (slot : val), (forall m s : val, (exists u : val, snd (ext_st "self.process_channel_message" [VN 0; m] s) = VC "Ok" [u]) \/ (exists e : val, snd (ext_st "self.process_channel_message" [VN 0; m] s) = VC "Err" [e])) -> forall (fuel : nat) (self : val), gen_Inner_handle_channel0_readable ext_st fuel self slot = drain (rcv_v ext_st slot) (proc_v ext_st) VStuck fuel self.
Proof. exact ch0_drain_source_is_drain. Qed.

(* Model/Core.v's ch0_readable - the mailbox drain the C05 / C09 core theorems are about - is the same generic loop over the model's state *)
Theorem C05_ch0_readable_is_drain : forall (fuel : nat) (c : core), ch0_readable fuel c = (let '(c', o) := drain rcv_core proc_core OOk fuel c in (o, c')).
Proof. exact ch0_readable_is_drain. Qed.

(* THE MODEL IS THE SOURCE, relative to the externals: under ANY relation between the model's state and the translated one that try_recv and process_channel_message preserve (the hypotheses of the statement), the translated handle_channel0_readable and ch0_readable end in related states with related results, for every mailbox content and length *)
Theorem C05_ch0_readable_source_is_model : forall (ext_st : string -> list val -> val -> val * val) (slot : val) (RS : core -> val -> Prop) (RM : msg -> val -> Prop) (RR : outcome -> val -> Prop), (forall m s : val, (exists u : val, snd (ext_st "self.process_channel_message" [VN 0; m] s) = VC "Ok" [u]) \/ (exists e : val, snd (ext_st "self.process_channel_message" [VN 0; m] s) = VC "Err" [e])) -> (forall (c : core) (s : val), RS c s -> RS (fst (rcv_core c)) (fst (rcv_v ext_st slot s)) /\ step_rel RM RR (snd (rcv_core c)) (snd (rcv_v ext_st slot s))) -> (forall (m : msg) (mv : val) (c : core) (s : val), RM m mv -> RS c s -> RS (fst (proc_core m c)) (fst (proc_v ext_st mv s)) /\ opt_rel RR (snd (proc_core m c)) (snd (proc_v ext_st mv s))) -> RR OOk VStuck -> forall (fuel : nat) (c : core) (self : val), RS c self -> RS (snd (ch0_readable fuel c)) (fst (gen_Inner_handle_channel0_readable ext_st fuel self slot)) /\ RR (fst (ch0_readable fuel c)) (snd (gen_Inner_handle_channel0_readable ext_st fuel self slot)).
Proof. exact ch0_readable_source_is_model. Qed.

(* Inner::handle_channel_readable (the drain of a channel's mailbox, translated from src/io_loop/mod.rs on every run; the #[cfg(amiquip_verif)] hook statement is not part of it) is the generic loop `drain` whose receive step is: out-buffer above the high-water mark -> owe a re-poll and return Ok BEFORE anything else; no slot (stale wake-up) -> Ok; otherwise try_recv on the slot's mailbox *)
Theorem C05_chan_drain_source_is_drain : forall (ext_st : string -> list val -> val -> val * val) (id high : val), (forall m s : val, (exists u : val, snd (ext_st "self.process_channel_message" [id; m] s) = VC "Ok" [u]) \/ (exists e : val, snd (ext_st "self.process_channel_message" [id; m] s) = VC "Err" [e])) -> forall (fuel : nat) (self : val), gen_Inner_handle_channel_readable ext_st fuel self id high = drain (rcv_v2 ext_st id high) (proc_v2 ext_st id) VStuck fuel self.
Proof. exact chan_drain_source_is_drain. Qed.

(* Model/Core.v's chan_readable is the same generic loop over the model's state *)
Theorem C05_chan_readable_is_drain : forall (n : N) (fuel : nat) (c : core), chan_readable fuel n c = (let '(c', o) := drain (rcv_core2 n) (proc_core2 n) OOk fuel c in (o, c')).
Proof. exact chan_readable_is_drain. Qed.

(* ... so under any relation between model state and translated state that the externals preserve, the translated handle_channel_readable and chan_readable end in related states with related results *)
Theorem C05_chan_readable_source_is_model : forall (ext_st : string -> list val -> val -> val * val) (n : N) (id high : val) (RS : core -> val -> Prop) (RM : msg -> val -> Prop) (RR : outcome -> val -> Prop), (forall m s : val, (exists u : val, snd (ext_st "self.process_channel_message" [id; m] s) = VC "Ok" [u]) \/ (exists e : val, snd (ext_st "self.process_channel_message" [id; m] s) = VC "Err" [e])) -> (forall (c : core) (s : val), RS c s -> RS (fst (rcv_core2 n c)) (fst (rcv_v2 ext_st id high s)) /\ step_rel RM RR (snd (rcv_core2 n c)) (snd (rcv_v2 ext_st id high s))) -> (forall (m : msg) (mv : val) (c : core) (s : val), RM m mv -> RS c s -> RS (fst (proc_core2 n m c)) (fst (proc_v2 ext_st id mv s)) /\ opt_rel RR (snd (proc_core2 n m c)) (snd (proc_v2 ext_st id mv s))) -> RR OOk VStuck -> forall (fuel : nat) (c : core) (self : val), RS c self -> RS (snd (chan_readable fuel n c)) (fst (gen_Inner_handle_channel_readable ext_st fuel self id high)) /\ RR (fst (chan_readable fuel n c)) (snd (gen_Inner_handle_channel_readable ext_st fuel self id high)).
Proof. exact chan_readable_source_is_model. Qed.

(* non-vacuity of C05_releases_*: in a reachable state with two channels and a consumer on
   each, every queue has a live sender; after the thread's state is dropped none has *)
Example C05_example :
  forallb snd (ex_senders ex_two_channels) = true /\
  existsb snd (ex_senders (teardown ex_two_channels)) = false /\
  length (c_qs (teardown ex_two_channels)) = 6%nat.
Proof. vm_compute. repeat split. Qed.

(* non-vacuity of the system theorem: the I/O thread dies while caller 1 waits (its request is on
   the wire, never answered) and caller 2's reply is already queued: 2 still gets its reply, 1 gets
   an error, the next call of 2 fails at once *)
Example C05_system_example :
  let answer := fun n r => n * 1000 + r in
  let progs := fun n => if n =? 1 then [(KSync, 7)] else if n =? 2 then [(KSync, 5); (KSync, 6)] else [] in
  let s := yrun answer 16 2 (init_sys progs)
             [ASend 1; ASend 2; ADrain 2 1; AWrite 1; ASrvRead; ASrvAnswer 2; ARead; ADrain 1 1; AWrite 1;
              ADie; ARecv 1; ARecv 2; ASend 2] in
  yc_results (y_ch s 1) = [] /\ yc_failed (y_ch s 1) = true /\ yc_wait (y_ch s 1) = false /\
  yc_results (y_ch s 2) = [2005] /\ yc_failed (y_ch s 2) = true /\ yc_wait (y_ch s 2) = false.
Proof. vm_compute. repeat split. Qed.

Check C05_fatal_read : forall (c : core) (fs : list dframe) (t : rterm) (c2 : core), process_all c fs = (OOk, c2) -> is_client_closed c2 = false -> fst (fst (handle_event c (EvStream None (Some (fs, t))))) = term_outcome t.
Check C05_fatal_outcomes : term_outcome TEof = OErr EUnexpectedSocketClose /\ term_outcome TIoErr = OErr EIoRead /\ term_outcome TMalformed = OErr EMalformed /\ term_outcome TBlock = OOk.
Check C05_fatal_write : forall (c : core) (oracle : list wr) (r : option (list dframe * rterm)) (bs : bytes) (wr0 : wres) (ob' : outbuf) (rest : list wr), write_to_stream (c_out c) oracle = (bs, wr0, ob', rest) -> wr0 = WIoErr -> fst (fst (handle_event c (EvStream (Some oracle) r))) = OErr EIoWrite.
Check C05_missed_heartbeats : forall (c : core) (rest : list (hbkind * bool)), fst (heartbeat_timers ((HbRx, true) :: rest) c) = OErr EMissedHeartbeats.
Check C05_final_results : forall c : core, (forall (code : N) (text : str), c_phase c = PServerClosing code text -> final_result c = OErr (EServerClosedConnection code text)) /\ (c_phase c = PClientException -> final_result c = OErr EClientException) /\ (c_phase c = PClientClosed -> final_result c = OOk /\ is_done c = DDone).
Check C05_releases_slots : forall (c : core) (n : N) (s : slot) (q : N), In (n, s) (c_slots c) -> slot_refs s q -> tx_gone q (c_qs (teardown c)).
Check C05_releases_ch0 : forall (c : core) (z : ch0slot), c_ch0 c = Some z -> tx_gone (z_reply z) (c_qs (teardown c)) /\ tx_gone (z_alloc_rep z) (c_qs (teardown c)).
Check C05_dead_thread_never_blocks : forall (c : hcall) (s : hstate), h_reply_tx s = false -> h_mail_rx s = false -> h_replies s = [] -> hstep c s = Some (RDropped, s).
Check C05_blocks_only_waiting : forall (c : hcall) (s : hstate), hstep c s = None -> h_reply_tx s = true /\ h_replies s = [].
Check C05_verdict_reported : forall (c : hcall) (e : N) (rest : list hitem) (s : hstate), c <> CNowait \/ h_mail_rx s = false -> h_replies s = HErr e :: rest -> exists s' : hstate, hstep c s = Some (RErrItem e, s') /\ h_replies s' = rest.
Check C05_system_dead_releases : forall (answer : N -> N -> N) (bound qcap : N) (progs : N -> list call), 2 <= qcap -> forall (sched : list act) (n : N), let s := yrun answer bound qcap (init_sys progs) sched in y_dead s = true \/ yc_slot_gone (y_ch s n) = true -> yc_wait (y_ch (ystep answer bound qcap s (ARecv n)) n) = false /\ yc_wait (y_ch (ystep answer bound qcap s (ASend n)) n) = yc_wait (y_ch s n) /\ (yc_wait (y_ch s n) = false -> yc_failed (y_ch s n) = false -> yc_prog (y_ch s n) <> [] -> yc_failed (y_ch (ystep answer bound qcap s (ASend n)) n) = true /\ yc_mail (y_ch (ystep answer bound qcap s (ASend n)) n) = yc_mail (y_ch s n)).
Check C05_system_own_reply : forall (answer : N -> N -> N) (bound qcap : N) (progs : N -> list call), 2 <= qcap -> forall sched : list act, let s := yrun answer bound qcap (init_sys progs) sched in y_fail s = false /\ (forall n : N, let c := y_ch s n in yc_results c = map (answer n) (firstn (Datatypes.length (yc_results c)) (syncs (yc_issued c))) /\ (yc_srv_closed c = false -> yc_wait c = false -> yc_failed c = false -> yc_results c = map (answer n) (syncs (yc_issued c))) /\ (yc_srv_closed c = false -> yc_wait c = true -> exists r : N, syncs (yc_issued c) = firstn (Datatypes.length (yc_results c)) (syncs (yc_issued c)) ++ [r] /\ inflight answer s n = [answer n r]) /\ (Datatypes.length (yc_replyq c) <= 2)%nat /\ yc_issued c ++ yc_prog c = progs n /\ (yc_failed c = true -> y_dead s = true \/ yc_srv_closed c = true)).
Check C05_close_reports_root_cause : forall (req : req_res) (e : N), fst (close_impl true req (IoErr e)) = CErr e.
Check C05_close_ok_iff : forall (req : req_res) (io : io_end), fst (close_impl true req io) = COk <-> io = IoOk /\ req = ReqOk.
Check C05_call_source_is_model : forall (c : hcall) (s : hstate) (r : hres) (s' : hstate) (arg : val), hstep c s = Some (r, s') -> gen_call c (enc_state s) arg = (enc_state s', HandleSrc.enc_res c r).
Check C05_client_exception_source_is_model : forall (self code : val) (s : list N) (log : list val), (forall b : N, nth_error s 0 = Some b -> is_cont b = false) -> gen_ConnectionState_client_exception ext_model 257 self (VC "effects" log) code (VBytes s) = finish code (trunc255 s) log.
Check C05_close_source_is_model : forall (have : bool) (req : req_res) (io : io_end), gen_Connection_close_impl (CloseSrc.ext_st_model req io) (CloseSrc.enc_self have false) = (CloseSrc.enc_self false (snd (close_impl have req io)), enc_res (fst (close_impl have req io))).
Check C05_pass_source_is_model : forall (fired : list (hbkind * bool)) (c : core), gen_Inner_process_heartbeat_timers ext_st_model (S (Datatypes.length fired)) (enc_self fired (c_out c)) = (enc_self (hb_rest fired) (c_out (snd (heartbeat_timers fired c))), enc_outcome (fst (heartbeat_timers fired c))).
Check C05_ch0_drain_source_is_drain : forall (ext_st : string -> list val -> val -> val * val) (slot : val), (forall m s : val, (exists u : val, snd (ext_st "self.process_channel_message" [VN 0; m] s) = VC "Ok" [u]) \/ (exists e : val, snd (ext_st "self.process_channel_message" [VN 0; m] s) = VC "Err" [e])) -> forall (fuel : nat) (self : val), gen_Inner_handle_channel0_readable ext_st fuel self slot = drain (rcv_v ext_st slot) (proc_v ext_st) VStuck fuel self.
Check C05_ch0_readable_is_drain : forall (fuel : nat) (c : core), ch0_readable fuel c = (let '(c', o) := drain rcv_core proc_core OOk fuel c in (o, c')).
Check C05_ch0_readable_source_is_model : forall (ext_st : string -> list val -> val -> val * val) (slot : val) (RS : core -> val -> Prop) (RM : msg -> val -> Prop) (RR : outcome -> val -> Prop), (forall m s : val, (exists u : val, snd (ext_st "self.process_channel_message" [VN 0; m] s) = VC "Ok" [u]) \/ (exists e : val, snd (ext_st "self.process_channel_message" [VN 0; m] s) = VC "Err" [e])) -> (forall (c : core) (s : val), RS c s -> RS (fst (rcv_core c)) (fst (rcv_v ext_st slot s)) /\ step_rel RM RR (snd (rcv_core c)) (snd (rcv_v ext_st slot s))) -> (forall (m : msg) (mv : val) (c : core) (s : val), RM m mv -> RS c s -> RS (fst (proc_core m c)) (fst (proc_v ext_st mv s)) /\ opt_rel RR (snd (proc_core m c)) (snd (proc_v ext_st mv s))) -> RR OOk VStuck -> forall (fuel : nat) (c : core) (self : val), RS c self -> RS (snd (ch0_readable fuel c)) (fst (gen_Inner_handle_channel0_readable ext_st fuel self slot)) /\ RR (fst (ch0_readable fuel c)) (snd (gen_Inner_handle_channel0_readable ext_st fuel self slot)).
Check C05_chan_drain_source_is_drain : forall (ext_st : string -> list val -> val -> val * val) (id high : val), (forall m s : val, (exists u : val, snd (ext_st "self.process_channel_message" [id; m] s) = VC "Ok" [u]) \/ (exists e : val, snd (ext_st "self.process_channel_message" [id; m] s) = VC "Err" [e])) -> forall (fuel : nat) (self : val), gen_Inner_handle_channel_readable ext_st fuel self id high = drain (rcv_v2 ext_st id high) (proc_v2 ext_st id) VStuck fuel self.
Check C05_chan_readable_is_drain : forall (n : N) (fuel : nat) (c : core), chan_readable fuel n c = (let '(c', o) := drain (rcv_core2 n) (proc_core2 n) OOk fuel c in (o, c')).
Check C05_chan_readable_source_is_model : forall (ext_st : string -> list val -> val -> val * val) (n : N) (id high : val) (RS : core -> val -> Prop) (RM : msg -> val -> Prop) (RR : outcome -> val -> Prop), (forall m s : val, (exists u : val, snd (ext_st "self.process_channel_message" [id; m] s) = VC "Ok" [u]) \/ (exists e : val, snd (ext_st "self.process_channel_message" [id; m] s) = VC "Err" [e])) -> (forall (c : core) (s : val), RS c s -> RS (fst (rcv_core2 n c)) (fst (rcv_v2 ext_st id high s)) /\ step_rel RM RR (snd (rcv_core2 n c)) (snd (rcv_v2 ext_st id high s))) -> (forall (m : msg) (mv : val) (c : core) (s : val), RM m mv -> RS c s -> RS (fst (proc_core2 n m c)) (fst (proc_v2 ext_st id mv s)) /\ opt_rel RR (snd (proc_core2 n m c)) (snd (proc_v2 ext_st id mv s))) -> RR OOk VStuck -> forall (fuel : nat) (c : core) (self : val), RS c self -> RS (snd (chan_readable fuel n c)) (fst (gen_Inner_handle_channel_readable ext_st fuel self id high)) /\ RR (fst (chan_readable fuel n c)) (snd (gen_Inner_handle_channel_readable ext_st fuel self id high)).

Print Assumptions C05_fatal_read.
Print Assumptions C05_fatal_outcomes.
Print Assumptions C05_fatal_write.
Print Assumptions C05_missed_heartbeats.
Print Assumptions C05_final_results.
Print Assumptions C05_releases_slots.
Print Assumptions C05_releases_ch0.
Print Assumptions C05_dead_thread_never_blocks.
Print Assumptions C05_blocks_only_waiting.
Print Assumptions C05_verdict_reported.
Print Assumptions C05_system_dead_releases.
Print Assumptions C05_system_own_reply.
Print Assumptions C05_close_reports_root_cause.
Print Assumptions C05_close_ok_iff.
Print Assumptions C05_call_source_is_model.
Print Assumptions C05_client_exception_source_is_model.
Print Assumptions C05_close_source_is_model.
Print Assumptions C05_pass_source_is_model.
Print Assumptions C05_ch0_drain_source_is_drain.
Print Assumptions C05_ch0_readable_is_drain.
Print Assumptions C05_ch0_readable_source_is_model.
Print Assumptions C05_chan_drain_source_is_drain.
Print Assumptions C05_chan_readable_is_drain.
Print Assumptions C05_chan_readable_source_is_model.
Print Assumptions C05_example.
Print Assumptions C05_system_example.
