(* C06 — frame decoding does not depend on how the byte stream is segmented.
   This file only pins statements.

   Rel accepts D fb F : "D is everything delivered so far, F the frame slices handed on
   so far (all parsing), and the buffer holds exactly what greedy splitting of D leaves
   over".  It holds initially (C06_init) and every episode re-establishes it
   (C06_episode), so the theorems apply after any number of episodes, i.e. to every way
   of cutting the stream into reads and would-block points. *)
From Amq Require Import Lib.RsVal Gen.SrcFrameBuf Proofs.FrameBufSrc Proofs.FrameBufEpisode.
From Amq Require Import Lib.Base Gen.Consts Model.Wire Model.FrameBuf Spec.FrameBuf Proofs.FrameBuf.

Theorem C06_init : forall accepts, Rel accepts [] new_fbuf [].
Proof. exact Rel_init. Qed.

(* An episode that ends in would-block after the chunks `pre` (ANY chunk sizes, any
   number of reads): the frames handed on so far are EXACTLY the complete frames of the
   bytes delivered so far, in order, each once (indices consecutive), none is left
   waiting in the buffer, the byte count is right, and the relation holds again. *)
Theorem C06_episode : forall accepts fuel fb nread script D F hs n fb' sc',
  Rel accepts D fb F ->
  read_from accepts okh fuel fb nread script = (hs, EpOk n, fb', sc') ->
  exists pre, all_chunks pre /\ script = pre ++ Block :: sc' /\
    let D' := D ++ chunk_bytes pre in
    n = nread + N.of_nat (length (chunk_bytes pre)) /\
    split_all D' = (F ++ map snd hs, buf fb') /\
    all_good accepts (F ++ map snd hs) /\
    map fst hs = map N.of_nat (seq (length F) (length hs)) /\
    Rel accepts D' fb' (F ++ map snd hs).
Proof. exact episode_ok. Qed.

(* MalformedFrame is raised exactly at the first complete frame that does not parse:
   everything handed on before is the good prefix, nothing after it is acted on. *)
Theorem C06_malformed : forall accepts fuel fb nread script D F hs fb' sc',
  Rel accepts D fb F ->
  read_from accepts okh fuel fb nread script = (hs, EpMalformed, fb', sc') ->
  exists pre, all_chunks pre /\ script = pre ++ sc' /\
    good_prefix accepts 0 (fst (split_all (D ++ chunk_bytes pre))) = (F ++ map snd hs, true).
Proof. exact episode_malformed. Qed.

(* End of stream: UnexpectedSocketClose after all complete frames before it. *)
Theorem C06_eof : forall accepts fuel fb nread script D F hs fb' sc',
  Rel accepts D fb F ->
  read_from accepts okh fuel fb nread script = (hs, EpClosed, fb', sc') ->
  exists pre, all_chunks pre /\ script = pre ++ Eof :: sc' /\
    split_all (D ++ chunk_bytes pre) = (F ++ map snd hs, buf fb') /\
    all_good accepts (F ++ map snd hs).
Proof. exact episode_eof. Qed.

(* The loop terminates: with the fuel ep_fuel hands out, a script that contains a
   would-block / EOF / error never runs out of fuel. *)
Theorem C06_terminates : forall accepts fb nread script hs res fb' sc',
  has_term script ->
  read_from accepts okh (ep_fuel fb script) fb nread script = (hs, res, fb', sc') ->
  res <> EpStuck.
Proof.
  intros accepts fb nread script hs res fb' sc' Ht Hrun.
  eapply read_from_not_stuck; [|exact Ht|exact Hrun]. unfold ep_fuel. lia.
Qed.

(* THE MODEL IS THE SOURCE: Inner::read_from of src/frame_buffer.rs - the loop that cuts the inbound byte stream into
   frames - as translated from the source text on every run (Gen/SrcFrameBuf.v, tools/rs2sm.py: the `loop` is a
   recursive function on fuel), for EVERY buffer content, EVERY behaviour of the transport (non-empty chunks of any
   size, would-block, end of stream, error) and every outcome of the payload parser and of the frame handler, hands
   on the same frames in the same order, keeps the same bytes buffered and returns the same result as
   Model/FrameBuf.v's read_from - the function C06_episode / C06_malformed / C06_eof / C06_terminates are about.
   ext_st_model is InputBuffer::{chunk, advance, prepare_reserve(..).read_from}, Kind::parse_frame (envelope rules +
   parser oracle) and the handler; ext_model Kind::parse_size (Model/Wire.v), MIN_READ (Gen/Consts.v) and
   io::Error::kind. *)
Theorem C06_read_from_source_is_model : forall (accepts : N -> bool) (handler : N -> bytes -> bool) (hv stream : val) (fuel : nat) (fb : fbuf) (script : list rd) (delivered : list (N * bytes)), chunks_nonempty script -> snd (fst (fst (read_from accepts handler fuel fb 0 script))) <> EpStuck -> gen_Inner_read_from ext_model (ext_st_model accepts handler) fuel (enc_self fb script delivered) stream hv = (let '(hs, r, fb', sc') := read_from accepts handler fuel fb 0 script in (enc_self fb' sc' (delivered ++ hs), enc_ep r)).
Proof. exact read_from_source_is_model. Qed.

(* C06 AS A THEOREM ABOUT THE TRANSLATED CODE: a call of the translated read_from (Gen/SrcFrameBuf.v) that ends in would-block - after
   chunks of ANY sizes - has handed on exactly the complete frames of the bytes delivered so far, in order, each once, keeps exactly
   the incomplete rest buffered and reports the byte count: the frames do not depend on how the stream was cut. *)
Theorem C06_read_from_source_episode : forall (accepts : N -> bool) (fuel : nat) (fb : fbuf) (script : list rd) (D : bytes) (F : list bytes) (delivered : list (N * bytes)) (hv stream : val) (hs : list (N * bytes)) (n : N) (fb' : fbuf) (sc' : list rd), Rel accepts D fb F -> chunks_nonempty script -> read_from accepts okh fuel fb 0 script = (hs, EpOk n, fb', sc') -> gen_Inner_read_from ext_model (ext_st_model accepts okh) fuel (enc_self fb script delivered) stream hv = (enc_self fb' sc' (delivered ++ hs), VC "Ok" [VN n]) /\ (exists pre : list rd, all_chunks pre /\ script = pre ++ Block :: sc' /\ split_all (D ++ chunk_bytes pre) = (F ++ map snd hs, buf fb')).
Proof. exact read_from_source_episode. Qed.

(* non-vacuity: two heartbeat frames cut in the middle of the second one *)
Example C06_example :
  let hb := [8; 0; 0; 0; 0; 0; 0; 206] in
  let sc := [Chunk (hb ++ [8; 0; 0]); Block; Chunk [0; 0; 0; 0; 206]; Block] in
  map (fun '(hs, r) => (map fst hs, r))
      (fst (run_episodes 5 (fun _ => true) new_fbuf sc)) =
  [([0], EpOk 11); ([1], EpOk 5)].
Proof. vm_compute. reflexivity. Qed.

Check C06_init : forall accepts, Rel accepts [] new_fbuf [].
Check C06_episode : forall accepts fuel fb nread script D F hs n fb' sc',
  Rel accepts D fb F ->
  read_from accepts okh fuel fb nread script = (hs, EpOk n, fb', sc') ->
  exists pre, all_chunks pre /\ script = pre ++ Block :: sc' /\
    let D' := D ++ chunk_bytes pre in
    n = nread + N.of_nat (length (chunk_bytes pre)) /\
    split_all D' = (F ++ map snd hs, buf fb') /\
    all_good accepts (F ++ map snd hs) /\
    map fst hs = map N.of_nat (seq (length F) (length hs)) /\
    Rel accepts D' fb' (F ++ map snd hs).
Check C06_malformed : forall accepts fuel fb nread script D F hs fb' sc',
  Rel accepts D fb F ->
  read_from accepts okh fuel fb nread script = (hs, EpMalformed, fb', sc') ->
  exists pre, all_chunks pre /\ script = pre ++ sc' /\
    good_prefix accepts 0 (fst (split_all (D ++ chunk_bytes pre))) = (F ++ map snd hs, true).
Check C06_eof : forall accepts fuel fb nread script D F hs fb' sc',
  Rel accepts D fb F ->
  read_from accepts okh fuel fb nread script = (hs, EpClosed, fb', sc') ->
  exists pre, all_chunks pre /\ script = pre ++ Eof :: sc' /\
    split_all (D ++ chunk_bytes pre) = (F ++ map snd hs, buf fb') /\
    all_good accepts (F ++ map snd hs).
Check C06_terminates : forall accepts fb nread script hs res fb' sc',
  has_term script ->
  read_from accepts okh (ep_fuel fb script) fb nread script = (hs, res, fb', sc') ->
  res <> EpStuck.

Check C06_read_from_source_is_model : forall (accepts : N -> bool) (handler : N -> bytes -> bool) (hv stream : val) (fuel : nat) (fb : fbuf) (script : list rd) (delivered : list (N * bytes)), chunks_nonempty script -> snd (fst (fst (read_from accepts handler fuel fb 0 script))) <> EpStuck -> gen_Inner_read_from ext_model (ext_st_model accepts handler) fuel (enc_self fb script delivered) stream hv = (let '(hs, r, fb', sc') := read_from accepts handler fuel fb 0 script in (enc_self fb' sc' (delivered ++ hs), enc_ep r)).

Check C06_read_from_source_episode : forall (accepts : N -> bool) (fuel : nat) (fb : fbuf) (script : list rd) (D : bytes) (F : list bytes) (delivered : list (N * bytes)) (hv stream : val) (hs : list (N * bytes)) (n : N) (fb' : fbuf) (sc' : list rd), Rel accepts D fb F -> chunks_nonempty script -> read_from accepts okh fuel fb 0 script = (hs, EpOk n, fb', sc') -> gen_Inner_read_from ext_model (ext_st_model accepts okh) fuel (enc_self fb script delivered) stream hv = (enc_self fb' sc' (delivered ++ hs), VC "Ok" [VN n]) /\ (exists pre : list rd, all_chunks pre /\ script = pre ++ Block :: sc' /\ split_all (D ++ chunk_bytes pre) = (F ++ map snd hs, buf fb')).

Print Assumptions C06_init.
Print Assumptions C06_episode.
Print Assumptions C06_malformed.
Print Assumptions C06_eof.
Print Assumptions C06_terminates.
Print Assumptions C06_example.
Print Assumptions C06_read_from_source_is_model.
Print Assumptions read_from_source_example.
Print Assumptions C06_read_from_source_episode.
