(* C07 — server protocol violations are contained.  This file only pins statements. *)
From Amq Require Import Lib.RsVal Gen.SrcException Proofs.ExceptionSrc.
From Amq Require Import Lib.Base Gen.Consts Model.Wire Model.Frames Model.OutBuf Model.Collector
     Model.Slots Model.Core Spec.Content Proofs.Collector Proofs.CoreInv.

(* For EVERY finite sequence of frames over the whole dispatch alphabet (any channel, any
   method, any announced body size up to 2^64 and beyond, any collector state), from any
   state satisfying the invariant WFs - which the state after the handshake does - the
   thread neither panics, nor fails an assertion, nor blocks on one of its own queues
   (OPanic covers the unwrap / unreachable! / assert! sites and blocking sends), and the
   invariant holds again afterwards whatever the outcome was. *)
Theorem C07_no_panic : forall fs c o c',
  process_all c fs = (o, c') -> WFs c ->
  (forall site, o <> OPanic site) /\ WFs c'.
Proof. exact process_all_WFs. Qed.

Theorem C07_init : forall mx bound, mx <= 65535 -> WFs (init_core mx bound).
Proof. exact WFs_init. Qed.

(* Never mis-delivered: for EVERY sequence of content frames on a channel, what the
   collector hands on is exactly what the compliant reading of the same frames yields
   (and where the collector rejects a frame, the compliant reading ends too). *)
Theorem C07_sound : forall ch evs st rst,
  alookup ch rst = Some (rs_of st) ->
  map (fun '(k, props, body) => finish ch k props body) (fst (crun st evs))
  = ref_read rst (map (frame_of ch) evs).
Proof. exact collector_sound. Qed.

(* more body bytes than announced are rejected, for every announced size *)
Theorem C07_overrun : forall k size props acc b,
  size < N.of_nat (length (acc ++ b)) -> collect_body b (CBody k size props acc) = CErr.
Proof. exact collector_overrun. Qed.

(* content without a method, a second header, a method while content is outstanding *)
Theorem C07_out_of_sequence : forall st,
  (st <> CNone -> forall k, collect_method k st = CErr) /\
  ((forall k, st <> CStart k) -> forall s p, collect_header s p st = CErr) /\
  ((forall k s p a, st <> CBody k s p a) -> forall b, collect_body b st = CErr).
Proof. exact collector_out_of_sequence. Qed.

(* unimplemented / not-allowed frames: Connection.Close with the hard-error code is
   appended, the buffer is sealed (so it is the last frame ever queued), the phase is
   ClientException, and every later frame is ignored *)
Theorem C07_exception_codes : forall c dbg,
  c_phase c = PSteady ->
  (forall n, n <> 0 -> process c (FMethod n MUnimpl, dbg)
     = client_exception hard_not_implemented (txt_unimpl_a ++ dec n ++ txt_method ++ dbg) c) /\
  (forall n, n <> 0 -> process c (FMethod n MIllegal, dbg)
     = client_exception hard_not_allowed (txt_illegal_a ++ dec n ++ txt_method ++ dbg) c) /\
  (process c (FMethod 0 MConnOther, dbg) = client_exception hard_not_implemented (txt_ch0_method ++ dbg) c) /\
  (forall size props, process c (FHeader 0 size props, dbg) = client_exception hard_not_allowed (txt_ch0_frame ++ dbg) c) /\
  (forall body, process c (FBody 0 body, dbg) = client_exception hard_not_allowed (txt_ch0_frame ++ dbg) c).
Proof. exact exception_codes. Qed.

Theorem C07_exception_effect : forall code text c,
  ob_sealed (c_out c) = false ->
  exists c', client_exception code text c = (OOk, c') /\
    c_phase c' = PClientException /\ ob_sealed (c_out c') = true /\
    ob (c_out c') = ob (c_out c) ++ ser_conn_close code (trunc255 text) /\
    c_ch0 c' = None.
Proof. exact client_exception_effect. Qed.

(* ... and the text of that Close fits an AMQP short string (at most 255 bytes), is a prefix of
   the full text and is cut at a UTF-8 character boundary: the truncation cannot panic and the
   frame is well formed whatever the offending frame's rendering contains *)
Theorem C07_exception_text : forall text,
  (length (trunc255 text) <= 255)%nat /\
  (exists rest, text = trunc255 text ++ rest) /\
  ((length text <= 255)%nat -> trunc255 text = text) /\
  is_boundary text (length (trunc255 text)).
Proof. exact trunc255_spec. Qed.

Theorem C07_exception_ignores : forall c f,
  c_phase c = PClientException -> process c f = (OOk, c).
Proof. exact exception_ignores_frames. Qed.

(* THE MODEL IS THE SOURCE: ConnectionState::client_exception of src/io_loop/connection_state.rs as translated from the source
   text on every run (Gen/SrcException.v, tools/rs2sm.py: the boundary search is a recursive function on fuel), for EVERY reply
   code and EVERY text whose first byte is not a UTF-8 continuation byte (any Rust String): the text cut to at most 255 bytes at
   a character boundary exactly as the model's trunc255 cuts it, exactly one Connection.Close with that text and class / method
   id 0 pushed on channel 0, the writes sealed, the state ClientException, Ok returned - what C07_exception_effect /
   C07_exception_text say of Model/Core.v's client_exception (seed C07h cut at 255 characters: this obligation breaks). *)
Theorem C07_client_exception_source_is_model : forall (self code : val) (s : list N) (log : list val), (forall b : N, nth_error s 0 = Some b -> is_cont b = false) -> gen_ConnectionState_client_exception ext_model 257 self (VC "effects" log) code (VBytes s) = ExceptionSrc.finish code (trunc255 s) log.
Proof. exact client_exception_source_is_model. Qed.

(* non-vacuity: from the initial state, a header announcing 2^64-1 bytes without a method
   and a frame on a channel that is not open are errors, not panics *)
Example C07_example :
  fst (process_all (init_core 10 16) [(FHeader 1 18446744073709551615 0, [])]) = OErr (EBogusChannel 1) /\
  hard_not_implemented = 540 /\ hard_not_allowed = 530.
Proof. vm_compute. repeat split. Qed.

Check C07_no_panic : forall fs c o c',
  process_all c fs = (o, c') -> WFs c ->
  (forall site, o <> OPanic site) /\ WFs c'.
Check C07_init : forall mx bound, mx <= 65535 -> WFs (init_core mx bound).
Check C07_sound : forall ch evs st rst,
  alookup ch rst = Some (rs_of st) ->
  map (fun '(k, props, body) => finish ch k props body) (fst (crun st evs))
  = ref_read rst (map (frame_of ch) evs).
Check C07_overrun : forall k size props acc b,
  size < N.of_nat (length (acc ++ b)) -> collect_body b (CBody k size props acc) = CErr.
Check C07_out_of_sequence : forall st,
  (st <> CNone -> forall k, collect_method k st = CErr) /\
  ((forall k, st <> CStart k) -> forall s p, collect_header s p st = CErr) /\
  ((forall k s p a, st <> CBody k s p a) -> forall b, collect_body b st = CErr).
Check C07_exception_codes : forall c dbg,
  c_phase c = PSteady ->
  (forall n, n <> 0 -> process c (FMethod n MUnimpl, dbg)
     = client_exception hard_not_implemented (txt_unimpl_a ++ dec n ++ txt_method ++ dbg) c) /\
  (forall n, n <> 0 -> process c (FMethod n MIllegal, dbg)
     = client_exception hard_not_allowed (txt_illegal_a ++ dec n ++ txt_method ++ dbg) c) /\
  (process c (FMethod 0 MConnOther, dbg) = client_exception hard_not_implemented (txt_ch0_method ++ dbg) c) /\
  (forall size props, process c (FHeader 0 size props, dbg) = client_exception hard_not_allowed (txt_ch0_frame ++ dbg) c) /\
  (forall body, process c (FBody 0 body, dbg) = client_exception hard_not_allowed (txt_ch0_frame ++ dbg) c).
Check C07_exception_effect : forall code text c,
  ob_sealed (c_out c) = false ->
  exists c', client_exception code text c = (OOk, c') /\
    c_phase c' = PClientException /\ ob_sealed (c_out c') = true /\
    ob (c_out c') = ob (c_out c) ++ ser_conn_close code (trunc255 text) /\
    c_ch0 c' = None.
Check C07_exception_text : forall text,
  (length (trunc255 text) <= 255)%nat /\
  (exists rest, text = trunc255 text ++ rest) /\
  ((length text <= 255)%nat -> trunc255 text = text) /\
  is_boundary text (length (trunc255 text)).
Check C07_exception_ignores : forall c f,
  c_phase c = PClientException -> process c f = (OOk, c).

Check C07_client_exception_source_is_model : forall (self code : val) (s : list N) (log : list val), (forall b : N, nth_error s 0 = Some b -> is_cont b = false) -> gen_ConnectionState_client_exception ext_model 257 self (VC "effects" log) code (VBytes s) = ExceptionSrc.finish code (trunc255 s) log.

Print Assumptions C07_no_panic.
Print Assumptions C07_init.
Print Assumptions C07_sound.
Print Assumptions C07_overrun.
Print Assumptions C07_out_of_sequence.
Print Assumptions C07_exception_codes.
Print Assumptions C07_exception_effect.
Print Assumptions C07_exception_text.
Print Assumptions C07_exception_ignores.
Print Assumptions C07_example.
Print Assumptions C07_client_exception_source_is_model.
