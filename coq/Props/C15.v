(* C15 — tuning is negotiated as documented (and then obeyed: see the links below).
   This file only pins statements. *)
From Coq Require Import String.
From Amq Require Import Lib.Base Gen.Consts Model.Tune Spec.Tune Proofs.Tune Lib.RsResult Gen.SrcTune Proofs.TuneSrc Model.Publish Gen.SrcLimit Proofs.PublishSrc.

(* the constant the crate compiles in (regenerated from the crate on every run) is the
   protocol's frame-min-size *)
Theorem C15_frame_min : c_frame_min_size = 4096.
Proof. reflexivity. Qed.

(* For ALL 2^96 combinations of (client channel_max, frame_max, heartbeat) x (server
   channel_max, frame_max, heartbeat): an Ok result carries, per field, the negotiated
   value in the sense of the property; frame_max >= 4096; channel_max >= 1; all within
   their wire widths. *)
Theorem C15_negotiation : forall c_cm c_fm c_hb s_cm s_fm s_hb cm fm hb,
  in_u16 c_cm -> in_u32 c_fm -> in_u16 c_hb -> in_u16 s_cm -> in_u32 s_fm -> in_u16 s_hb ->
  make_tune_ok c_cm c_fm c_hb s_cm s_fm s_hb = TuneOk cm fm hb ->
  neg u16_max c_cm s_cm cm /\ neg u32_max c_fm s_fm fm /\ neg_hb c_hb s_hb hb /\
  c_frame_min_size <= fm /\ in_u16 cm /\ in_u32 fm /\ in_u16 hb /\ 1 <= cm.
Proof. exact tune_negotiation. Qed.

(* The floor: the attempt fails with FrameMaxTooSmall{min, requested = negotiated value}
   exactly when the negotiated frame_max is below the minimum, and succeeds exactly
   otherwise. *)
Theorem C15_floor : forall c_cm c_fm c_hb s_cm s_fm s_hb,
  in_u16 c_cm -> in_u32 c_fm -> in_u16 c_hb -> in_u16 s_cm -> in_u32 s_fm -> in_u16 s_hb ->
  forall fm, neg u32_max c_fm s_fm fm ->
  (fm < c_frame_min_size <->
   make_tune_ok c_cm c_fm c_hb s_cm s_fm s_hb = FrameMaxTooSmall c_frame_min_size fm) /\
  (c_frame_min_size <= fm <->
   exists cm hb, make_tune_ok c_cm c_fm c_hb s_cm s_fm s_hb = TuneOk cm fm hb).
Proof. exact tune_floor. Qed.

Example C15_example :
  make_tune_ok 0 0 60 2047 131072 60 = TuneOk 2047 131072 60 /\
  make_tune_ok 10 4095 0 0 0 7 = FrameMaxTooSmall 4096 4095 /\
  make_tune_ok 0 0 5 0 0 9 = TuneOk 65535 4294967295 5.
Proof. vm_compute. repeat split; reflexivity. Qed.

(* THE MODEL IS THE SOURCE: coq/Gen/Src.v is translated from src/connection_options.rs
   (fn make_tune_ok with its nested functions) on every run by tools/rs2v.py; the translated
   function and the hand-written model are equal on ALL inputs, so the theorems of this file
   are theorems about the translated source.  A change to the function changes Gen/Src.v and
   this obligation is re-proved against it (or breaks). *)
Theorem C15_source_is_model : forall c_cm c_fm c_hb s_cm s_fm s_hb,
  gen_make_tune_ok c_cm c_fm c_hb s_cm s_fm s_hb = to_rs (make_tune_ok c_cm c_fm c_hb s_cm s_fm s_hb).
Proof. exact source_is_model. Qed.

(* ... and the limit the publish path then obeys is computed from the negotiated frame_max as the
   model says (Channel0Handle::new, translated from the source on every run) *)
Theorem C15_limit_source_is_model : forall frame_max,
  gen_Channel0Handle_new frame_max = RsOk "Channel0Handle"%string [("frame_max"%string, payload_limit frame_max)].
Proof. exact limit_source_is_model. Qed.

Check C15_limit_source_is_model : forall frame_max,
  gen_Channel0Handle_new frame_max = RsOk "Channel0Handle"%string [("frame_max"%string, payload_limit frame_max)].
Check C15_source_is_model : forall c_cm c_fm c_hb s_cm s_fm s_hb,
  gen_make_tune_ok c_cm c_fm c_hb s_cm s_fm s_hb = to_rs (make_tune_ok c_cm c_fm c_hb s_cm s_fm s_hb).
Check C15_frame_min : c_frame_min_size = 4096.
Check C15_negotiation : forall c_cm c_fm c_hb s_cm s_fm s_hb cm fm hb,
  in_u16 c_cm -> in_u32 c_fm -> in_u16 c_hb -> in_u16 s_cm -> in_u32 s_fm -> in_u16 s_hb ->
  make_tune_ok c_cm c_fm c_hb s_cm s_fm s_hb = TuneOk cm fm hb ->
  neg u16_max c_cm s_cm cm /\ neg u32_max c_fm s_fm fm /\ neg_hb c_hb s_hb hb /\
  c_frame_min_size <= fm /\ in_u16 cm /\ in_u32 fm /\ in_u16 hb /\ 1 <= cm.
Check C15_floor : forall c_cm c_fm c_hb s_cm s_fm s_hb,
  in_u16 c_cm -> in_u32 c_fm -> in_u16 c_hb -> in_u16 s_cm -> in_u32 s_fm -> in_u16 s_hb ->
  forall fm, neg u32_max c_fm s_fm fm ->
  (fm < c_frame_min_size <->
   make_tune_ok c_cm c_fm c_hb s_cm s_fm s_hb = FrameMaxTooSmall c_frame_min_size fm) /\
  (c_frame_min_size <= fm <->
   exists cm hb, make_tune_ok c_cm c_fm c_hb s_cm s_fm s_hb = TuneOk cm fm hb).

Print Assumptions C15_limit_source_is_model.
Print Assumptions C15_source_is_model.
Print Assumptions C15_frame_min.
Print Assumptions C15_negotiation.
Print Assumptions C15_floor.
Print Assumptions C15_example.
