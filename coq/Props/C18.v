(* C18 - backpressure bounds buffering, loses nothing, and always resumes.
   This file only pins statements. *)
From Amq Require Import Lib.Base Gen.Consts Model.Wire Model.Frames Model.OutBuf Model.Collector Model.Slots Model.Core Model.Loop Proofs.OutBuf Proofs.Loop Proofs.CoreContent Proofs.CoreInv Proofs.CoreMore.

(* the throttle is a hysteresis: channels stop being polled only above the high-water mark, are polled again only at or below the low-water mark, and nothing changes in between *)
Theorem C18_throttle_spec : forall (listening : bool) (outlen high low : N), low <= high -> match throttle_of listening outlen high low with | TNone => (listening = true -> outlen <= high) /\ (listening = false -> low < outlen) | TDeregister => listening = true /\ high < outlen | TReregister => listening = false /\ outlen <= low end.
Proof. exact throttle_spec. Qed.

(* above the high-water mark after a batch: the non-zero channels are no longer polled *)
Theorem C18_throttles_above_high : forall (l : loop) (had : bool) (outlen high low : N), l_listening l = true -> high < outlen -> l_listening (fst (loop_tail l had outlen high low)) = false.
Proof. exact throttles_above_high. Qed.

(* while the buffer is above the low-water mark a throttled connection stays throttled *)
Theorem C18_stays_throttled : forall (l : loop) (had : bool) (outlen high low : N), l_listening l = false -> low < outlen -> l_listening (fst (loop_tail l had outlen high low)) = false.
Proof. exact stays_throttled. Qed.

(* ALWAYS RESUMES: as soon as a batch ends with the buffer at or below the low-water mark the channels are polled again *)
Theorem C18_resumes_at_low : forall (l : loop) (had : bool) (outlen high low : N), l_listening l = false -> outlen <= low -> l_listening (fst (loop_tail l had outlen high low)) = true.
Proof. exact resumes_at_low. Qed.

(* ... and the batches keep coming while data is buffered: unsent data keeps the socket's writable interest *)
Theorem C18_write_interest : forall (l : loop) (outlen outlen' high low : N), loop_inv l outlen -> let '(l', _) := loop_tail l (negb (outlen =? 0)) outlen' high low in loop_inv l' outlen'.
Proof. exact write_interest. Qed.

(* LOSES NOTHING: messages parked in a mailbox while throttled are taken in order, whole, when polling resumes *)
Theorem C18_mailbox_fifo : forall (n : N) (bufs : list bytes) (fuel : nat) (c : core) (s : slot), n <> 0 -> alookup n (c_slots c) = Some s -> s_mail s = map MsgSend bufs -> s_mail_tx s = true -> ob_sealed (c_out c) = false -> (length bufs < fuel)%nat -> exists c' : core, chan_readable fuel n c = (OOk, c') /\ ob (c_out c') = ob (c_out c) ++ concat bufs /\ ob_sealed (c_out c') = false /\ c_phase c' = c_phase c /\ c_qs c' = c_qs c /\ (forall k : N, k <> n -> alookup k (c_slots c') = alookup k (c_slots c)) /\ (exists s' : slot, alookup n (c_slots c') = Some s' /\ s_mail s' = []).
Proof. exact mailbox_fifo. Qed.

(* ... and what is buffered reaches the wire once, in order, across any number of stalls *)
Theorem C18_trace_conserves : forall (ops : list bop) (st : list N * outbuf * list N), (let '(wire, b, acc) := st in wire ++ ob b = acc) -> (fix ok (st0 : bytes * outbuf * bytes) (ops0 : list bop) {struct ops0} : Prop := match ops0 with | [] => True | o :: ops' => no_write_failure st0 o /\ ok (bstep st0 o) ops' end) st ops -> let '(wire', b', acc') := fold_left bstep ops st in wire' ++ ob b' = acc'.
Proof. exact trace_conserves. Qed.

(* non-vacuity: high 1000, low 0: 1001 bytes buffered throttles, 1 byte left keeps it, 0 resumes *)
Example C18_example :
  let l0 := loop_init in
  let l1 := fst (loop_tail l0 true 1001 1000 0) in
  let l2 := fst (loop_tail l1 true 1 1000 0) in
  let l3 := fst (loop_tail l2 true 0 1000 0) in
  (l_listening l1, l_listening l2, l_listening l3) = (false, false, true).
Proof. vm_compute. reflexivity. Qed.

Check C18_throttle_spec : forall (listening : bool) (outlen high low : N), low <= high -> match throttle_of listening outlen high low with | TNone => (listening = true -> outlen <= high) /\ (listening = false -> low < outlen) | TDeregister => listening = true /\ high < outlen | TReregister => listening = false /\ outlen <= low end.
Check C18_throttles_above_high : forall (l : loop) (had : bool) (outlen high low : N), l_listening l = true -> high < outlen -> l_listening (fst (loop_tail l had outlen high low)) = false.
Check C18_stays_throttled : forall (l : loop) (had : bool) (outlen high low : N), l_listening l = false -> low < outlen -> l_listening (fst (loop_tail l had outlen high low)) = false.
Check C18_resumes_at_low : forall (l : loop) (had : bool) (outlen high low : N), l_listening l = false -> outlen <= low -> l_listening (fst (loop_tail l had outlen high low)) = true.
Check C18_write_interest : forall (l : loop) (outlen outlen' high low : N), loop_inv l outlen -> let '(l', _) := loop_tail l (negb (outlen =? 0)) outlen' high low in loop_inv l' outlen'.
Check C18_mailbox_fifo : forall (n : N) (bufs : list bytes) (fuel : nat) (c : core) (s : slot), n <> 0 -> alookup n (c_slots c) = Some s -> s_mail s = map MsgSend bufs -> s_mail_tx s = true -> ob_sealed (c_out c) = false -> (length bufs < fuel)%nat -> exists c' : core, chan_readable fuel n c = (OOk, c') /\ ob (c_out c') = ob (c_out c) ++ concat bufs /\ ob_sealed (c_out c') = false /\ c_phase c' = c_phase c /\ c_qs c' = c_qs c /\ (forall k : N, k <> n -> alookup k (c_slots c') = alookup k (c_slots c)) /\ (exists s' : slot, alookup n (c_slots c') = Some s' /\ s_mail s' = []).
Check C18_trace_conserves : forall (ops : list bop) (st : list N * outbuf * list N), (let '(wire, b, acc) := st in wire ++ ob b = acc) -> (fix ok (st0 : bytes * outbuf * bytes) (ops0 : list bop) {struct ops0} : Prop := match ops0 with | [] => True | o :: ops' => no_write_failure st0 o /\ ok (bstep st0 o) ops' end) st ops -> let '(wire', b', acc') := fold_left bstep ops st in wire' ++ ob b' = acc'.

Print Assumptions C18_throttle_spec.
Print Assumptions C18_throttles_above_high.
Print Assumptions C18_stays_throttled.
Print Assumptions C18_resumes_at_low.
Print Assumptions C18_write_interest.
Print Assumptions C18_mailbox_fifo.
Print Assumptions C18_trace_conserves.
Print Assumptions C18_example.
