(* C18 - backpressure bounds buffering, loses nothing, and always resumes.
   This file only pins statements. *)
From Amq Require Import Lib.Base Gen.Consts Model.Wire Model.Frames Model.OutBuf Model.Collector Model.Slots Model.Core Model.Loop Proofs.OutBuf Proofs.Loop Proofs.CoreContent Proofs.CoreInv Proofs.CoreMore Model.Wake Proofs.Wake Lib.RsVal Gen.SrcRegister Proofs.RegisterSrc.

(* the throttle is a hysteresis: channels stop being polled only above the high-water mark, are polled again only at or below the low-water mark, and nothing changes in between *)
Theorem C18_throttle_spec : forall (listening : bool) (outlen high low : N), low <= high -> match throttle_of listening outlen high low with | TNone => (listening = true -> outlen <= high) /\ (listening = false -> low < outlen) | TDeregister => listening = true /\ high < outlen | TReregister => listening = false /\ outlen <= low end.
Proof. exact throttle_spec. Qed.

(* above the high-water mark after a batch: the non-zero channels are no longer polled *)
Theorem C18_throttles_above_high : forall (l : loop) (had : bool) (outlen high low : N), l_listening l = true -> high < outlen -> l_listening (fst (loop_tail l had outlen high low)) = false.
Proof. exact throttles_above_high. Qed.

(* while the buffer is above the low-water mark a throttled connection stays throttled *)
Theorem C18_stays_throttled : forall (l : loop) (had : bool) (outlen high low : N), l_listening l = false -> low < outlen -> l_listening (fst (loop_tail l had outlen high low)) = false.
Proof. exact stays_throttled. Qed.

(* ALWAYS RESUMES: as soon as a batch ends with the buffer at or below the low-water mark the channels are polled again *)
Theorem C18_resumes_at_low : forall (l : loop) (had : bool) (outlen high low : N), l_listening l = false -> outlen <= low -> l_listening (fst (loop_tail l had outlen high low)) = true.
Proof. exact resumes_at_low. Qed.

(* ... and the batches keep coming while data is buffered: unsent data keeps the socket's writable interest *)
Theorem C18_write_interest : forall (l : loop) (outlen outlen' high low : N), loop_inv l outlen -> let '(l', _) := loop_tail l (negb (outlen =? 0)) outlen' high low in loop_inv l' outlen'.
Proof. exact write_interest. Qed.

(* a channel's mailbox is taken from in FIFO order, each buffer appended whole; what is not taken (the loop stops as soon as it finds the out-buffer above the high-water mark) stays in the mailbox, in order, and a re-poll of the channels is owed - nothing is lost or reordered across throttling *)
Theorem C18_mailbox_fifo : forall (n : N) (bufs : list bytes) (fuel : nat) (c : core) (s : slot), n <> 0 -> alookup n (c_slots c) = Some s -> s_mail s = map MsgSend bufs -> s_mail_tx s = true -> ob_sealed (c_out c) = false -> (Datatypes.length bufs < fuel)%nat -> exists (c' : core) (taken rest : list bytes), chan_readable fuel n c = (OOk, c') /\ bufs = taken ++ rest /\ ob (c_out c') = ob (c_out c) ++ concat taken /\ ob_sealed (c_out c') = false /\ c_phase c' = c_phase c /\ c_qs c' = c_qs c /\ c_high c' = c_high c /\ (forall k : N, k <> n -> alookup k (c_slots c') = alookup k (c_slots c)) /\ (exists s' : slot, alookup n (c_slots c') = Some s' /\ s_mail s' = map MsgSend rest) /\ (rest <> [] -> c_need c' = true /\ c_high c < out_len c').
Proof. exact mailbox_fifo. Qed.

(* ... and below the mark nothing is left behind: if even with everything appended the out-buffer does not exceed the high-water mark, the whole mailbox is taken in that one wake-up *)
Theorem C18_mailbox_fifo_below_mark : forall (n : N) (bufs : list bytes) (fuel : nat) (c : core) (s : slot), n <> 0 -> alookup n (c_slots c) = Some s -> s_mail s = map MsgSend bufs -> s_mail_tx s = true -> ob_sealed (c_out c) = false -> (Datatypes.length bufs < fuel)%nat -> N.of_nat (Datatypes.length (ob (c_out c) ++ concat bufs)) <= c_high c -> exists c' : core, chan_readable fuel n c = (OOk, c') /\ ob (c_out c') = ob (c_out c) ++ concat bufs /\ (exists s' : slot, alookup n (c_slots c') = Some s' /\ s_mail s' = []).
Proof. exact mailbox_fifo_below_mark. Qed.

(* ... and what is buffered reaches the wire once, in order, across any number of stalls *)
Theorem C18_trace_conserves : forall (ops : list bop) (st : list N * outbuf * list N), (let '(wire, b, acc) := st in wire ++ ob b = acc) -> (fix ok (st0 : bytes * outbuf * bytes) (ops0 : list bop) {struct ops0} : Prop := match ops0 with | [] => True | o :: ops' => no_write_failure st0 o /\ ok (bstep st0 o) ops' end) st ops -> let '(wire', b', acc') := fold_left bstep ops st in wire' ++ ob b' = acc'.
Proof. exact trace_conserves. Qed.

(* NO LOST WAKE-UP, for every interleaving of publishers' sends, dropped handles, polls, channel events, socket writes, frames queued by the thread itself, allocations, removals and loop tails (wrun over ANY op list): in every reachable state every channel holding a message has its readiness set, respects the mailbox bound, and - while channels are polled - has a wake-up on the way: queued in the poll, reported and not yet handled, or owed by the loop tail (channels_need_repoll). J is spelled out in Proofs/Wake.v (cok) *)
Theorem C18_wake_invariant : forall (mx bound high low : N) (ops : list wop), Forall (op_ok mx) ops -> J mx (wrun (winit bound high low) ops).
Proof. exact wake_invariant. Qed.

(* ... so after the tail of a batch whose events were all handled, while channels are polled, every channel that holds a message is queued in the poll *)
Theorem C18_tail_leaves_wakeups : forall (mx : N) (w : wstate) (ch : N) (c : chan), J mx w -> w_pending w = [] -> let w' := snd (wtail w) in alookup ch (w_chans w') = Some c -> k_mail c <> [] -> w_listening w' = true -> k_queued c = true /\ k_ready c = true.
Proof. exact tail_leaves_wakeups. Qed.

(* ... and the very next poll reports it: a publisher blocked on a full mailbox is always served again *)
Theorem C18_next_poll_reports : forall (mx : N) (w : wstate) (ch : N) (c : chan), J mx w -> w_pending w = [] -> let w' := snd (wtail w) in alookup ch (w_chans w') = Some c -> k_mail c <> [] -> w_listening w' = true -> In ch (fst (wpoll w')).
Proof. exact next_poll_reports. Qed.

(* while channels are NOT polled there is unsent data (hence, C18_write_interest, a writable interest on the socket, hence another batch as soon as the transport takes data) *)
Theorem C18_throttled_has_data : forall w : wstate, w_listening (snd (wtail w)) = false -> 0 < w_out (snd (wtail w)).
Proof. exact throttled_has_data. Qed.

(* ALWAYS RESUMES: the first tail that finds the buffer at or below the low-water mark polls the channels again, clears channels_need_repoll and queues every channel that holds a message (edge-triggered sources are re-armed, also those allocated while throttled) *)
Theorem C18_resume_rearms : forall (mx : N) (w : wstate) (ch : N) (c : chan), J mx w -> w_listening w = false -> w_out w <= w_low w -> let w' := snd (wtail w) in w_listening w' = true /\ w_need w' = false /\ (alookup ch (w_chans w') = Some c -> k_mail c <> [] -> k_queued c = true).
Proof. exact resume_rearms. Qed.

(* BOUNDED: a channel event receives nothing while the buffer is above the high-water mark: it leaves the buffer no larger than it found it, or at most one message above the mark *)
Theorem C18_event_bounded : forall (mx : N) (w : wstate) (ch : N), J mx w -> w_out (snd (wevent w ch)) <= N.max (w_out w) (w_high w + mx).
Proof. exact event_bounded. Qed.

(* ... for every run: the out-buffer never exceeds high-water mark + one message + what the I/O thread queued itself (replies, heartbeats) *)
Theorem C18_out_bounded : forall (mx bound high low : N) (ops : list wop), Forall (op_ok mx) ops -> w_out (wrun (winit bound high low) ops) <= high + mx + grown ops.
Proof. exact out_bounded. Qed.

(* ... and everything publishers were allowed to hand over that the socket has not taken yet (buffer + mailboxes) is bounded in terms of the tuning: high-water mark plus max(1, mem_channel_bound) messages per channel plus one message *)
Theorem C18_backlog_bounded : forall (mx bound high low : N) (ops : list wop), Forall (op_ok mx) ops -> let w := wrun (winit bound high low) ops in backlog w <= high + mx + grown ops + N.of_nat (Datatypes.length (w_chans w)) * (N.max 1 bound * mx).
Proof. exact backlog_bounded. Qed.

(* PROGRESS: a channel event that finds the buffer at or below the mark hands over at least the channel's oldest message. With C18_next_poll_reports (a channel holding a message is reported by the next poll while channels are polled), C18_throttled_has_data and C18_resume_rearms (while they are not, there is data to write, and the first tail at or below the low-water mark polls them again): every accepted message moves towards the wire as long as the transport goes on taking data *)
Theorem C18_event_progress : forall (w : wstate) (ch : N) (c : chan) (m : N) (rest : list N), In ch (w_pending w) -> alookup ch (w_chans w) = Some c -> k_mail c = m :: rest -> w_out w <= w_high w -> exists (c' : chan) (more : list N), alookup ch (w_chans (snd (wevent w ch))) = Some c' /\ rest = more ++ k_mail c' /\ w_out (snd (wevent w ch)) = w_out w + m + sum more.
Proof. exact event_progress. Qed.

(* LOSES NOTHING: a channel event hands a prefix of the mailbox to the buffer, whole and in order; the rest stays in the mailbox *)
Theorem C18_drain_in_order : forall (fuel : nat) (high : N) (c : chan) (out : N), (Datatypes.length (k_mail c) < fuel)%nat -> let '(_, c', out', _) := drain fuel high c out in exists taken : list N, k_mail c = taken ++ k_mail c' /\ out' = out + sum taken.
Proof. exact drain_in_order. Qed.

(* THE MODEL IS THE SOURCE: Inner::deregister_nonzero_channels of src/io_loop/mod.rs as translated from the source text on every run (Gen/SrcRegister.v, tools/rs2sm.py: the `for` loop is structurally recursive on the table's entries) deregisters EVERY channel's mailbox, whatever channels_are_registered said before, then clears the flag - what the wake-up model's throttling step (ADeregister of wtail) assumes *)
Theorem C18_deregister_source_is_model : forall (poll : val) (ids : list N) (calls : list val) (registered need : bool), gen_Inner_deregister_nonzero_channels ext_st_model (enc_self ids calls registered need) poll = (enc_self ids (calls ++ map dereg_call ids) false need, VC "Ok" [VC "()" []]).
Proof. exact deregister_source_is_model. Qed.

(* ... and reregister_nonzero_channels re-registers EVERY channel's mailbox - readable, edge-triggered, under its own id as token - whatever the flags said before, then sets channels_are_registered and clears channels_need_repoll: the re-arming (rearm_all) that AResume / ARearm rely on to re-fire a mailbox that was cut short at the high-water mark (seed C18h made both functions skip the calls when the flag already had the target value: this obligation breaks) *)
Theorem C18_reregister_source_is_model : forall (poll : val) (ids : list N) (calls : list val) (registered need : bool), gen_Inner_reregister_nonzero_channels ext_model ext_st_model (enc_self ids calls registered need) poll = (enc_self ids (calls ++ map rereg_call ids) true false, VC "Ok" [VC "()" []]).
Proof. exact reregister_source_is_model. Qed.

(* non-vacuity: high 1000, low 0: 1001 bytes buffered throttles, 1 byte left keeps it, 0 resumes *)
Example C18_example :
  let l0 := loop_init in
  let l1 := fst (loop_tail l0 true 1001 1000 0) in
  let l2 := fst (loop_tail l1 true 1 1000 0) in
  let l3 := fst (loop_tail l2 true 0 1000 0) in
  (l_listening l1, l_listening l2, l_listening l3) = (false, false, true).
Proof. vm_compute. reflexivity. Qed.

(* non-vacuity of the wake-up theorems: bound 3, high 10, low 0; channel 1 holds three
   messages of 8 bytes; its event takes two (the buffer was not above the mark when it looked),
   stops at the mark with one message left and owes a wake-up; the socket takes everything in
   that same batch, so the tail re-arms instead of throttling, and the next poll reports
   channel 1 again *)
Example C18_example_wake :
  let w := wrun (winit 3 10 0) [WAlloc 1; WSend 1 8; WSend 1 8; WSend 1 8; WPoll; WEv 1] in
  (w_out w, w_need w, map (fun e => (k_mail (snd e), k_queued (snd e))) (w_chans w))
    = (16, true, [([8], false)]) /\
  let w2 := wrun w [WWrote 16] in
  fst (wtail w2) = ARearm /\ fst (wpoll (snd (wtail w2))) = [1].
Proof. vm_compute. repeat split. Qed.

Check C18_throttle_spec : forall (listening : bool) (outlen high low : N), low <= high -> match throttle_of listening outlen high low with | TNone => (listening = true -> outlen <= high) /\ (listening = false -> low < outlen) | TDeregister => listening = true /\ high < outlen | TReregister => listening = false /\ outlen <= low end.
Check C18_throttles_above_high : forall (l : loop) (had : bool) (outlen high low : N), l_listening l = true -> high < outlen -> l_listening (fst (loop_tail l had outlen high low)) = false.
Check C18_stays_throttled : forall (l : loop) (had : bool) (outlen high low : N), l_listening l = false -> low < outlen -> l_listening (fst (loop_tail l had outlen high low)) = false.
Check C18_resumes_at_low : forall (l : loop) (had : bool) (outlen high low : N), l_listening l = false -> outlen <= low -> l_listening (fst (loop_tail l had outlen high low)) = true.
Check C18_write_interest : forall (l : loop) (outlen outlen' high low : N), loop_inv l outlen -> let '(l', _) := loop_tail l (negb (outlen =? 0)) outlen' high low in loop_inv l' outlen'.
Check C18_mailbox_fifo : forall (n : N) (bufs : list bytes) (fuel : nat) (c : core) (s : slot), n <> 0 -> alookup n (c_slots c) = Some s -> s_mail s = map MsgSend bufs -> s_mail_tx s = true -> ob_sealed (c_out c) = false -> (Datatypes.length bufs < fuel)%nat -> exists (c' : core) (taken rest : list bytes), chan_readable fuel n c = (OOk, c') /\ bufs = taken ++ rest /\ ob (c_out c') = ob (c_out c) ++ concat taken /\ ob_sealed (c_out c') = false /\ c_phase c' = c_phase c /\ c_qs c' = c_qs c /\ c_high c' = c_high c /\ (forall k : N, k <> n -> alookup k (c_slots c') = alookup k (c_slots c)) /\ (exists s' : slot, alookup n (c_slots c') = Some s' /\ s_mail s' = map MsgSend rest) /\ (rest <> [] -> c_need c' = true /\ c_high c < out_len c').
Check C18_mailbox_fifo_below_mark : forall (n : N) (bufs : list bytes) (fuel : nat) (c : core) (s : slot), n <> 0 -> alookup n (c_slots c) = Some s -> s_mail s = map MsgSend bufs -> s_mail_tx s = true -> ob_sealed (c_out c) = false -> (Datatypes.length bufs < fuel)%nat -> N.of_nat (Datatypes.length (ob (c_out c) ++ concat bufs)) <= c_high c -> exists c' : core, chan_readable fuel n c = (OOk, c') /\ ob (c_out c') = ob (c_out c) ++ concat bufs /\ (exists s' : slot, alookup n (c_slots c') = Some s' /\ s_mail s' = []).
Check C18_trace_conserves : forall (ops : list bop) (st : list N * outbuf * list N), (let '(wire, b, acc) := st in wire ++ ob b = acc) -> (fix ok (st0 : bytes * outbuf * bytes) (ops0 : list bop) {struct ops0} : Prop := match ops0 with | [] => True | o :: ops' => no_write_failure st0 o /\ ok (bstep st0 o) ops' end) st ops -> let '(wire', b', acc') := fold_left bstep ops st in wire' ++ ob b' = acc'.
Check C18_wake_invariant : forall (mx bound high low : N) (ops : list wop), Forall (op_ok mx) ops -> J mx (wrun (winit bound high low) ops).
Check C18_tail_leaves_wakeups : forall (mx : N) (w : wstate) (ch : N) (c : chan), J mx w -> w_pending w = [] -> let w' := snd (wtail w) in alookup ch (w_chans w') = Some c -> k_mail c <> [] -> w_listening w' = true -> k_queued c = true /\ k_ready c = true.
Check C18_next_poll_reports : forall (mx : N) (w : wstate) (ch : N) (c : chan), J mx w -> w_pending w = [] -> let w' := snd (wtail w) in alookup ch (w_chans w') = Some c -> k_mail c <> [] -> w_listening w' = true -> In ch (fst (wpoll w')).
Check C18_throttled_has_data : forall w : wstate, w_listening (snd (wtail w)) = false -> 0 < w_out (snd (wtail w)).
Check C18_resume_rearms : forall (mx : N) (w : wstate) (ch : N) (c : chan), J mx w -> w_listening w = false -> w_out w <= w_low w -> let w' := snd (wtail w) in w_listening w' = true /\ w_need w' = false /\ (alookup ch (w_chans w') = Some c -> k_mail c <> [] -> k_queued c = true).
Check C18_event_bounded : forall (mx : N) (w : wstate) (ch : N), J mx w -> w_out (snd (wevent w ch)) <= N.max (w_out w) (w_high w + mx).
Check C18_out_bounded : forall (mx bound high low : N) (ops : list wop), Forall (op_ok mx) ops -> w_out (wrun (winit bound high low) ops) <= high + mx + grown ops.
Check C18_backlog_bounded : forall (mx bound high low : N) (ops : list wop), Forall (op_ok mx) ops -> let w := wrun (winit bound high low) ops in backlog w <= high + mx + grown ops + N.of_nat (Datatypes.length (w_chans w)) * (N.max 1 bound * mx).
Check C18_event_progress : forall (w : wstate) (ch : N) (c : chan) (m : N) (rest : list N), In ch (w_pending w) -> alookup ch (w_chans w) = Some c -> k_mail c = m :: rest -> w_out w <= w_high w -> exists (c' : chan) (more : list N), alookup ch (w_chans (snd (wevent w ch))) = Some c' /\ rest = more ++ k_mail c' /\ w_out (snd (wevent w ch)) = w_out w + m + sum more.
Check C18_drain_in_order : forall (fuel : nat) (high : N) (c : chan) (out : N), (Datatypes.length (k_mail c) < fuel)%nat -> let '(_, c', out', _) := drain fuel high c out in exists taken : list N, k_mail c = taken ++ k_mail c' /\ out' = out + sum taken.
Check C18_deregister_source_is_model : forall (poll : val) (ids : list N) (calls : list val) (registered need : bool), gen_Inner_deregister_nonzero_channels ext_st_model (enc_self ids calls registered need) poll = (enc_self ids (calls ++ map dereg_call ids) false need, VC "Ok" [VC "()" []]).
Check C18_reregister_source_is_model : forall (poll : val) (ids : list N) (calls : list val) (registered need : bool), gen_Inner_reregister_nonzero_channels ext_model ext_st_model (enc_self ids calls registered need) poll = (enc_self ids (calls ++ map rereg_call ids) true false, VC "Ok" [VC "()" []]).

Print Assumptions C18_throttle_spec.
Print Assumptions C18_throttles_above_high.
Print Assumptions C18_stays_throttled.
Print Assumptions C18_resumes_at_low.
Print Assumptions C18_write_interest.
Print Assumptions C18_mailbox_fifo.
Print Assumptions C18_mailbox_fifo_below_mark.
Print Assumptions C18_trace_conserves.
Print Assumptions C18_wake_invariant.
Print Assumptions C18_tail_leaves_wakeups.
Print Assumptions C18_next_poll_reports.
Print Assumptions C18_throttled_has_data.
Print Assumptions C18_resume_rearms.
Print Assumptions C18_event_bounded.
Print Assumptions C18_out_bounded.
Print Assumptions C18_backlog_bounded.
Print Assumptions C18_event_progress.
Print Assumptions C18_drain_in_order.
Print Assumptions C18_deregister_source_is_model.
Print Assumptions C18_reregister_source_is_model.
Print Assumptions C18_example.
Print Assumptions C18_example_wake.
