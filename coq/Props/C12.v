(* C12 - every API call emits exactly the AMQP method its arguments describe.
   This file only pins statements. *)
From Amq Require Import Lib.Base Model.ApiTable Spec.Api Proofs.Api Model.Method Proofs.Method Lib.RsVal Gen.SrcOptions Proofs.OptionsSrc.

(* for EVERY operation and all argument values: where the documentation says nothing is sent (a delivery settled through another channel: panic; a second cancel) nothing is emitted; otherwise exactly ONE method is emitted and it is the one the documentation table (Spec/Api.Describes, written independently) gives for these arguments, field by field *)
Theorem C12_emit_describes : forall o : api_op, (sends_nothing o -> emit o = None \/ emit o = Some []) /\ (~ sends_nothing o -> exists m : amqp, emit o = Some [wire m] /\ Describes o m).
Proof. exact emit_describes. Qed.

(* the nowait flag of the method is set exactly in the nowait variants *)
Theorem C12_nowait_iff : forall (o : api_op) (m : amqp) (b : bool), Describes o m -> nowait_of m = Some b -> b = op_nowait o.
Proof. exact nowait_iff. Qed.

(* the passive flag exactly in the passive variants *)
Theorem C12_passive_iff : forall (o : api_op) (m : amqp), Describes o m -> match m with | QueueDeclare _ p _ _ _ _ _ => p = match o with | AQueueDeclare DPassive _ _ _ _ _ => true | _ => false end | ExchangeDeclare _ _ p _ _ _ _ _ => p = match o with | AExchangeDeclare DPassive _ _ _ _ _ _ => true | _ => false end | _ => True end.
Proof. exact passive_iff. Qed.

(* source and destination are never swapped, whichever of the three ways the bind / unbind is phrased *)
Theorem C12_bind_direction : forall (s : bside) (n u : bool) (self other r : bytes) (t : N) (m : amqp), Describes (AExchangeBind s n u self other r t) m -> let '(dst, src) := match s with | BToDestination => (other, self) | _ => (self, other) end in m = (if u then ExchangeUnbind dst src r n t else ExchangeBind dst src r n t).
Proof. exact bind_direction. Qed.

(* ack / ack_multiple / nack / nack_multiple / reject through Delivery, Get or Consumer on a channel other than the delivery's: nothing is sent *)
Theorem C12_wrong_channel : forall (how : settle) (h : holder) (t : N) (r : bool), emit (ASettle how h t r false) = None.
Proof. exact wrong_channel_sends_nothing. Qed.

(* the executable form of the documentation table used by the oracle is the relation *)
Theorem C12_documented_iff : forall (o : api_op) (m : amqp), documented o = Some m <-> Describes o m.
Proof. exact documented_iff. Qed.

(* ... and it says 'nothing' exactly for the operations that must not send *)
Theorem C12_documented_none : forall o : api_op, documented o = None <-> sends_nothing o.
Proof. exact documented_none. Qed.

(* DOWN TO THE BYTES (Model/Method.v: the payload of every method amiquip's client side writes - class and method id, then the fields in the order of the AMQP 0-9-1 specification: big-endian integers, short strings with one length byte, long strings and tables with a four-byte length, consecutive bit fields packed into one octet from bit 0 upwards): what a server reads back from the bytes of a method is exactly the method that was written, for every method of the table and every field value its width can carry, with nothing left over. The check of C12 applies this reading, inside Coq, to the raw bytes the real client wrote *)
Theorem C12_wire_roundtrip : forall (cls meth : N) (fs : list field), cls < 65536 -> meth < 65536 -> schema cls meth = Some (map type_of fs) -> Forall wf_field fs -> dec_method (enc_method cls meth fs) = Some (cls, meth, fs).
Proof. exact dec_enc_method. Qed.

(* ... hence the bytes determine the method: two different methods (another class, another method, any field different) are never written the same way *)
Theorem C12_wire_injective : forall (c1 m1 : N) (f1 : list field) (c2 m2 : N) (f2 : list field), c1 < 65536 -> m1 < 65536 -> schema c1 m1 = Some (map type_of f1) -> Forall wf_field f1 -> c2 < 65536 -> m2 < 65536 -> schema c2 m2 = Some (map type_of f2) -> Forall wf_field f2 -> enc_method c1 m1 f1 = enc_method c2 m2 f2 -> (c1, m1, f1) = (c2, m2, f2).
Proof. exact enc_method_injective. Qed.

(* the same for any field list followed by anything else (a method's fields never swallow or leave over a byte) *)
Theorem C12_wire_fields : forall (fs : list field) (r : list N), Forall wf_field fs -> dec_fields (map type_of fs) (enc_fields fs ++ r) = Some (fs, r).
Proof. exact dec_enc_fields. Qed.

(* THE MODEL IS THE SOURCE (the option helpers of src/queue.rs and src/exchange.rs as translated from the source text on every run: Gen/SrcOptions.v): QueueDeclareOptions::into_declare puts every option into the Queue.Declare field the table `emit` says - for declare, declare_nowait and declare_passive *)
Theorem C12_queue_declare_source_is_model : forall (name : list N) (durable exclusive auto_delete : bool) (args : N) (nowait : bool), in_order queue_declare_fields (gen_QueueDeclareOptions_into_declare (VR [("durable", enc_bool durable); ("exclusive", enc_bool exclusive); ("auto_delete", enc_bool auto_delete); ("arguments", VO args)]) (VBytes name) (enc_bool false) (enc_bool nowait)) = fields_of (AQueueDeclare (if nowait then DNowait else DSync) name durable exclusive auto_delete args) /\ in_order queue_declare_fields (gen_QueueDeclareOptions_into_declare (VR [("durable", enc_bool false); ("exclusive", enc_bool false); ("auto_delete", enc_bool false); ("arguments", VO 0)]) (VBytes name) (enc_bool true) (enc_bool false)) = fields_of (AQueueDeclare DPassive name durable exclusive auto_delete args).
Proof. exact queue_declare_source_is_model. Qed.

(* ... QueueDeleteOptions::into_delete likewise (seed C12g filled if_empty from if_unused: this obligation breaks) *)
Theorem C12_queue_delete_source_is_model : forall (v : via) (name : list N) (if_unused if_empty nowait : bool), in_order queue_delete_fields (gen_QueueDeleteOptions_into_delete (VR [("if_unused", enc_bool if_unused); ("if_empty", enc_bool if_empty)]) (VBytes name) (enc_bool nowait)) = fields_of (AQueueDelete v nowait name if_unused if_empty).
Proof. exact queue_delete_source_is_model. Qed.

(* ... and ExchangeDeclareOptions::into_declare *)
Theorem C12_exchange_declare_source_is_model : forall (ty name : list N) (durable auto_delete internal : bool) (args : N) (nowait : bool), in_order exchange_declare_fields (gen_ExchangeDeclareOptions_into_declare (VR [("durable", enc_bool durable); ("auto_delete", enc_bool auto_delete); ("internal", enc_bool internal); ("arguments", VO args)]) (VBytes ty) (VBytes name) (enc_bool false) (enc_bool nowait)) = fields_of (AExchangeDeclare (if nowait then DNowait else DSync) ty name durable auto_delete internal args).
Proof. exact exchange_declare_source_is_model. Qed.

(* non-vacuity: Exchange::bind_to_destination puts self as the SOURCE *)
Example C12_example :
  emit (AExchangeBind BToDestination true false [97] [98] [114] 2)
  = Some [wire (ExchangeBind [98] [97] [114] true 2)] /\
  Describes (AExchangeBind BToDestination true false [97] [98] [114] 2) (ExchangeBind [98] [97] [114] true 2).
Proof. split; [reflexivity | constructor]. Qed.

Check C12_emit_describes : forall o : api_op, (sends_nothing o -> emit o = None \/ emit o = Some []) /\ (~ sends_nothing o -> exists m : amqp, emit o = Some [wire m] /\ Describes o m).
Check C12_nowait_iff : forall (o : api_op) (m : amqp) (b : bool), Describes o m -> nowait_of m = Some b -> b = op_nowait o.
Check C12_passive_iff : forall (o : api_op) (m : amqp), Describes o m -> match m with | QueueDeclare _ p _ _ _ _ _ => p = match o with | AQueueDeclare DPassive _ _ _ _ _ => true | _ => false end | ExchangeDeclare _ _ p _ _ _ _ _ => p = match o with | AExchangeDeclare DPassive _ _ _ _ _ _ => true | _ => false end | _ => True end.
Check C12_bind_direction : forall (s : bside) (n u : bool) (self other r : bytes) (t : N) (m : amqp), Describes (AExchangeBind s n u self other r t) m -> let '(dst, src) := match s with | BToDestination => (other, self) | _ => (self, other) end in m = (if u then ExchangeUnbind dst src r n t else ExchangeBind dst src r n t).
Check C12_wrong_channel : forall (how : settle) (h : holder) (t : N) (r : bool), emit (ASettle how h t r false) = None.
Check C12_documented_iff : forall (o : api_op) (m : amqp), documented o = Some m <-> Describes o m.
Check C12_documented_none : forall o : api_op, documented o = None <-> sends_nothing o.
Check C12_wire_roundtrip : forall (cls meth : N) (fs : list field), cls < 65536 -> meth < 65536 -> schema cls meth = Some (map type_of fs) -> Forall wf_field fs -> dec_method (enc_method cls meth fs) = Some (cls, meth, fs).
Check C12_wire_injective : forall (c1 m1 : N) (f1 : list field) (c2 m2 : N) (f2 : list field), c1 < 65536 -> m1 < 65536 -> schema c1 m1 = Some (map type_of f1) -> Forall wf_field f1 -> c2 < 65536 -> m2 < 65536 -> schema c2 m2 = Some (map type_of f2) -> Forall wf_field f2 -> enc_method c1 m1 f1 = enc_method c2 m2 f2 -> (c1, m1, f1) = (c2, m2, f2).
Check C12_wire_fields : forall (fs : list field) (r : list N), Forall wf_field fs -> dec_fields (map type_of fs) (enc_fields fs ++ r) = Some (fs, r).
Check C12_queue_declare_source_is_model : forall (name : list N) (durable exclusive auto_delete : bool) (args : N) (nowait : bool), in_order queue_declare_fields (gen_QueueDeclareOptions_into_declare (VR [("durable", enc_bool durable); ("exclusive", enc_bool exclusive); ("auto_delete", enc_bool auto_delete); ("arguments", VO args)]) (VBytes name) (enc_bool false) (enc_bool nowait)) = fields_of (AQueueDeclare (if nowait then DNowait else DSync) name durable exclusive auto_delete args) /\ in_order queue_declare_fields (gen_QueueDeclareOptions_into_declare (VR [("durable", enc_bool false); ("exclusive", enc_bool false); ("auto_delete", enc_bool false); ("arguments", VO 0)]) (VBytes name) (enc_bool true) (enc_bool false)) = fields_of (AQueueDeclare DPassive name durable exclusive auto_delete args).
Check C12_queue_delete_source_is_model : forall (v : via) (name : list N) (if_unused if_empty nowait : bool), in_order queue_delete_fields (gen_QueueDeleteOptions_into_delete (VR [("if_unused", enc_bool if_unused); ("if_empty", enc_bool if_empty)]) (VBytes name) (enc_bool nowait)) = fields_of (AQueueDelete v nowait name if_unused if_empty).
Check C12_exchange_declare_source_is_model : forall (ty name : list N) (durable auto_delete internal : bool) (args : N) (nowait : bool), in_order exchange_declare_fields (gen_ExchangeDeclareOptions_into_declare (VR [("durable", enc_bool durable); ("auto_delete", enc_bool auto_delete); ("internal", enc_bool internal); ("arguments", VO args)]) (VBytes ty) (VBytes name) (enc_bool false) (enc_bool nowait)) = fields_of (AExchangeDeclare (if nowait then DNowait else DSync) ty name durable auto_delete internal args).

Print Assumptions C12_emit_describes.
Print Assumptions C12_nowait_iff.
Print Assumptions C12_passive_iff.
Print Assumptions C12_bind_direction.
Print Assumptions C12_wrong_channel.
Print Assumptions C12_documented_iff.
Print Assumptions C12_documented_none.
Print Assumptions C12_wire_roundtrip.
Print Assumptions C12_wire_injective.
Print Assumptions C12_wire_fields.
Print Assumptions C12_queue_declare_source_is_model.
Print Assumptions C12_queue_delete_source_is_model.
Print Assumptions C12_exchange_declare_source_is_model.
Print Assumptions C12_example.
