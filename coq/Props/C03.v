(* C03 — inbound messages are reassembled and delivered exactly once, intact, in order.
   This file only pins statements. *)
From Amq Require Import Lib.RsVal Gen.SrcCollect Proofs.CollectorSrc.
From Amq Require Import Lib.Base Gen.Consts Model.Wire Model.Frames Model.OutBuf Model.Collector
     Model.Slots Model.Core Spec.Content Proofs.Collector Proofs.CoreContent.

(* One message rendered as method + header + body frames with ANY valid partition of its
   body (empty parts allowed, every length including 0): the collector hands on exactly
   that message - kind, properties, the whole body - exactly once, and is idle again. *)
Theorem C03_roundtrip : forall k props parts,
  valid_parts parts ->
  crun CNone (crender k props parts) = ([(k, props, concat parts)], Some CNone).
Proof. exact collector_roundtrip. Qed.

(* ... and not before the last frame of the message has arrived. *)
Theorem C03_not_early : forall k props parts evs1 e evs2,
  valid_parts parts ->
  crender k props parts = evs1 ++ e :: evs2 ->
  exists st, crun CNone evs1 = ([], Some st).
Proof. exact collector_not_early. Qed.

(* Any number of messages one after the other on a channel: all of them, in the order
   sent, each once. *)
Theorem C03_sequence : forall msgs : list msg3,
  Forall (fun '(_, _, parts) => valid_parts parts) msgs ->
  crun CNone (flat_map (fun '(k, props, parts) => crender k props parts) msgs)
  = (map (fun '(k, props, parts) => (k, props, concat parts)) msgs, Some CNone).
Proof. exact collector_sequence. Qed.

(* At the level of the I/O thread's dispatch: a delivery for consumer `tag` on channel n,
   however its body is partitioned, ends up - intact, with all its metadata - at the end
   of exactly that consumer's queue q; slot n is as before, every other slot is as before,
   phase / out-buffer / channel-0 state are as before, and the queue map differs only by
   that one append (upd ... (pushed q ...)). *)
Theorem C03_deliver : forall n c s tag dtag red exch rk props parts q,
  steady c -> n <> 0 -> alookup n (c_slots c) = Some s -> s_coll s = CNone ->
  lookup_tag tag (s_consumers s) = Some q -> receivable q (c_qs c) ->
  valid_parts parts ->
  exists c',
    process_all c (map (df n) (crender (CDeliver tag dtag red exch rk) props parts)) = (OOk, c') /\
    upd n s
        (pushed q (IDelivery {| m_ch := n; m_dtag := dtag; m_redelivered := red; m_exch := exch;
                               m_rk := rk; m_body := concat parts; m_props := props |}) (c_qs c))
        c c'.
Proof. exact deliver_roundtrip. Qed.

(* Interleaving: whatever a frame of another channel m is and whatever it leads to, the
   slot of channel n (its collector state, consumers, listeners) is untouched - so content
   being assembled on n is unaffected by frames of other channels between its frames. *)
Theorem C03_frame_lemma : forall f dbg c o c',
  frame_chan f <> 0 -> process c (f, dbg) = (o, c') ->
  forall n, n <> frame_chan f -> alookup n (c_slots c') = alookup n (c_slots c).
Proof. intros f dbg c o c' H1 H2. exact (frame_other_channels H1 H2). Qed.

(* THE MODEL IS THE SOURCE: the functions of src/io_loop/content_collector.rs as translated from the
   source text on every run (Gen/SrcCollect.v, tools/rs2sm.py: collect_deliver / collect_return /
   collect_get / collect_header / collect_body of ContentCollector and of State<T>), run over ANY
   sequence of method / header / body frames from any collector state, complete the same messages in
   the same order, end in the same state and fail at the same frame as Model/Collector.v - the model
   C03_roundtrip, C03_not_early, C03_sequence and the Core theorems are about.  t_new is T::new
   (Delivery::new builds a (tag, delivery) pair: the hypothesis), payload the method a content
   starts with, class_id / weight the header fields the collector does not read. *)
Theorem C03_source_is_model : forall (t_new : list val -> val) (payload : ckind -> val), (forall (ch : val) (tag : str) (dtag : N) (red : bool) (exch rk : str) (buf props : val), exists t d : val, t_new [ch; payload (CDeliver tag dtag red exch rk); buf; props] = VC "tuple" [t; d]) -> forall (class_id weight : val) (ch : N) (evs : list cev) (st : cstate), grun t_new payload class_id weight (enc_self payload class_id weight ch st) evs = (map (enc_out t_new payload ch) (fst (crun st evs)), option_map (enc_self payload class_id weight ch) (snd (crun st evs))).
Proof. exact run_source_is_model. Qed.

(* ... hence C03_sequence holds of the translated code itself: any number of messages, each with any
   valid partition of its body: exactly those messages, each once, in order, and idle again. *)
Theorem C03_source_sequence : forall (t_new : list val -> val) (payload : ckind -> val), (forall (ch : val) (tag : str) (dtag : N) (red : bool) (exch rk : str) (buf props : val), exists t d : val, t_new [ch; payload (CDeliver tag dtag red exch rk); buf; props] = VC "tuple" [t; d]) -> forall (class_id weight : val) (ch : N) (msgs : list msg3), Forall (fun '(_, _, parts) => valid_parts parts) msgs -> grun t_new payload class_id weight (enc_self payload class_id weight ch CNone) (flat_map (fun '(k, props, parts) => crender k props parts) msgs) = (map (fun '(k, props, parts) => enc_out t_new payload ch (k, props, concat parts)) msgs, Some (enc_self payload class_id weight ch CNone)).
Proof. exact source_sequence. Qed.

(* non-vacuity: a 5-byte body in parts [ab][][cde] for consumer "t" on channel 3 *)
Example C03_example :
  let s := {| s_mail := []; s_mail_tx := true; s_reply := 2; s_coll := CNone;
              s_consumers := [([116], 7)]; s_ret := None; s_conf := None; s_ncons := 1 |} in
  let c0 := init_core 10 16 in
  let c := set_slot (set_qs c0 (ainsert 7 (new_queue None) (c_qs c0))) 3 s in
  valid_parts [[1; 2]; []; [3; 4; 5]] /\ steady c /\ receivable 7 (c_qs c) /\
  match process_all c (map (df 3) (crender (CDeliver [116] 9 false [] []) 0 [[1; 2]; []; [3; 4; 5]])) with
  | (OOk, c') => option_map (fun qu => map (fun it => match it with IDelivery m => m_body m | _ => [] end)
                                           (q_items qu)) (alookup 7 (c_qs c')) = Some [[1; 2; 3; 4; 5]]
  | _ => False
  end.
Proof.
  cbv zeta. split; [|split; [|split]].
  - right. exists [[1; 2]; []], [3; 4; 5]. split; [reflexivity | discriminate].
  - reflexivity.
  - exists (new_queue None). repeat split.
  - vm_compute. reflexivity.
Qed.

Check C03_roundtrip : forall k props parts,
  valid_parts parts ->
  crun CNone (crender k props parts) = ([(k, props, concat parts)], Some CNone).
Check C03_not_early : forall k props parts evs1 e evs2,
  valid_parts parts ->
  crender k props parts = evs1 ++ e :: evs2 ->
  exists st, crun CNone evs1 = ([], Some st).
Check C03_sequence : forall msgs : list msg3,
  Forall (fun '(_, _, parts) => valid_parts parts) msgs ->
  crun CNone (flat_map (fun '(k, props, parts) => crender k props parts) msgs)
  = (map (fun '(k, props, parts) => (k, props, concat parts)) msgs, Some CNone).
Check C03_deliver : forall n c s tag dtag red exch rk props parts q,
  steady c -> n <> 0 -> alookup n (c_slots c) = Some s -> s_coll s = CNone ->
  lookup_tag tag (s_consumers s) = Some q -> receivable q (c_qs c) ->
  valid_parts parts ->
  exists c',
    process_all c (map (df n) (crender (CDeliver tag dtag red exch rk) props parts)) = (OOk, c') /\
    upd n s
        (pushed q (IDelivery {| m_ch := n; m_dtag := dtag; m_redelivered := red; m_exch := exch;
                               m_rk := rk; m_body := concat parts; m_props := props |}) (c_qs c))
        c c'.
Check C03_frame_lemma : forall f dbg c o c',
  frame_chan f <> 0 -> process c (f, dbg) = (o, c') ->
  forall n, n <> frame_chan f -> alookup n (c_slots c') = alookup n (c_slots c).

Check C03_source_is_model : forall (t_new : list val -> val) (payload : ckind -> val), (forall (ch : val) (tag : str) (dtag : N) (red : bool) (exch rk : str) (buf props : val), exists t d : val, t_new [ch; payload (CDeliver tag dtag red exch rk); buf; props] = VC "tuple" [t; d]) -> forall (class_id weight : val) (ch : N) (evs : list cev) (st : cstate), grun t_new payload class_id weight (enc_self payload class_id weight ch st) evs = (map (enc_out t_new payload ch) (fst (crun st evs)), option_map (enc_self payload class_id weight ch) (snd (crun st evs))).
Check C03_source_sequence : forall (t_new : list val -> val) (payload : ckind -> val), (forall (ch : val) (tag : str) (dtag : N) (red : bool) (exch rk : str) (buf props : val), exists t d : val, t_new [ch; payload (CDeliver tag dtag red exch rk); buf; props] = VC "tuple" [t; d]) -> forall (class_id weight : val) (ch : N) (msgs : list msg3), Forall (fun '(_, _, parts) => valid_parts parts) msgs -> grun t_new payload class_id weight (enc_self payload class_id weight ch CNone) (flat_map (fun '(k, props, parts) => crender k props parts) msgs) = (map (fun '(k, props, parts) => enc_out t_new payload ch (k, props, concat parts)) msgs, Some (enc_self payload class_id weight ch CNone)).

Print Assumptions C03_roundtrip.
Print Assumptions C03_not_early.
Print Assumptions C03_sequence.
Print Assumptions C03_deliver.
Print Assumptions C03_frame_lemma.
Print Assumptions C03_example.
Print Assumptions C03_source_is_model.
Print Assumptions C03_source_sequence.
Print Assumptions tie_hypothesis_example.
