(* C01 - the outbound byte stream is the protocol header plus whole frames, in order.
   This file only pins statements. *)
From Amq Require Import Lib.Base Gen.Consts Model.Wire Model.Frames Model.OutBuf Model.Collector Model.Slots Model.Core Model.Loop Spec.FrameBuf Proofs.FrameBuf Proofs.OutBuf Proofs.Wire Proofs.Loop Proofs.CoreContent Proofs.CoreInv Proofs.CoreMore Model.Sys Proofs.Sys Lib.RsVal Gen.SrcWrite Proofs.WriteSrc.

(* the write loop, for EVERY behaviour of the transport (short writes of any size, would-block at any offset, an error anywhere): bytes put on the wire followed by bytes kept = bytes that were buffered; the seal flag is untouched *)
Theorem C01_write_conserves : forall (o : outbuf) (oracle : list wr) (w : bytes) (r : wres) (o' : outbuf) (rest : list wr), write_to_stream o oracle = (w, r, o', rest) -> ob_sealed o' = ob_sealed o /\ match r with | WOk => w ++ ob o' = ob o | WIoErr => ob o' = ob o /\ (exists k : nat, w = firstn k (ob o)) | WStuck => True end.
Proof. exact write_conserves. Qed.

(* for every trace of appends, seals and write episodes: wire ++ buffer = everything accepted, in order - no byte lost, duplicated or reordered *)
Theorem C01_trace_conserves : forall (ops : list bop) (st : list N * outbuf * list N), (let '(wire, b, acc) := st in wire ++ ob b = acc) -> (fix ok (st0 : bytes * outbuf * bytes) (ops0 : list bop) {struct ops0} : Prop := match ops0 with | [] => True | o :: ops' => no_write_failure st0 o /\ ok (bstep st0 o) ops' end) st ops -> let '(wire', b', acc') := fold_left bstep ops st in wire' ++ ob b' = acc'.
Proof. exact trace_conserves. Qed.

(* appends go to the end of the buffer, whole *)
Theorem C01_append_spec : forall (o : outbuf) (bs : bytes), ob (ob_append o bs) = (if ob_sealed o then ob o else ob o ++ bs) /\ ob_sealed (ob_append o bs) = ob_sealed o.
Proof. exact append_spec. Qed.

(* a concatenation of well-formed frames splits back into exactly those frames with nothing left over: frames interleave only at frame boundaries, and any prefix of the stream is whole frames plus at most one partial frame *)
Theorem C01_whole_frames : forall fs : list (N * N * bytes), Forall wf_frame fs -> split_all (concat (map enc3 fs)) = (map enc3 fs, []).
Proof. exact split_all_frames. Qed.

(* a channel's mailbox is taken from in FIFO order, each buffer appended whole; what is not taken (the loop stops as soon as it finds the out-buffer above the high-water mark) stays in the mailbox, in order, and a re-poll of the channels is owed - nothing is lost or reordered across throttling *)
Theorem C01_mailbox_fifo : forall (n : N) (bufs : list bytes) (fuel : nat) (c : core) (s : slot), n <> 0 -> alookup n (c_slots c) = Some s -> s_mail s = map MsgSend bufs -> s_mail_tx s = true -> ob_sealed (c_out c) = false -> (Datatypes.length bufs < fuel)%nat -> exists (c' : core) (taken rest : list bytes), chan_readable fuel n c = (OOk, c') /\ bufs = taken ++ rest /\ ob (c_out c') = ob (c_out c) ++ concat taken /\ ob_sealed (c_out c') = false /\ c_phase c' = c_phase c /\ c_qs c' = c_qs c /\ c_high c' = c_high c /\ (forall k : N, k <> n -> alookup k (c_slots c') = alookup k (c_slots c)) /\ (exists s' : slot, alookup n (c_slots c') = Some s' /\ s_mail s' = map MsgSend rest) /\ (rest <> [] -> c_need c' = true /\ c_high c < out_len c').
Proof. exact mailbox_fifo. Qed.

(* ... and below the mark nothing is left behind: if even with everything appended the out-buffer does not exceed the high-water mark, the whole mailbox is taken in that one wake-up *)
Theorem C01_mailbox_fifo_below_mark : forall (n : N) (bufs : list bytes) (fuel : nat) (c : core) (s : slot), n <> 0 -> alookup n (c_slots c) = Some s -> s_mail s = map MsgSend bufs -> s_mail_tx s = true -> ob_sealed (c_out c) = false -> (Datatypes.length bufs < fuel)%nat -> N.of_nat (Datatypes.length (ob (c_out c) ++ concat bufs)) <= c_high c -> exists c' : core, chan_readable fuel n c = (OOk, c') /\ ob (c_out c') = ob (c_out c) ++ concat bufs /\ (exists s' : slot, alookup n (c_slots c') = Some s' /\ s_mail s' = []).
Proof. exact mailbox_fifo_below_mark. Qed.

(* a write event of the I/O thread: the bytes written followed by what stays buffered are what was buffered *)
Theorem C01_stream_write : forall (c : core) (oracle : list wr) (bs : bytes) (wr0 : wres) (ob' : outbuf) (rest : list wr), write_to_stream (c_out c) oracle = (bs, wr0, ob', rest) -> wr0 = WOk -> exists c' : core, handle_event c (EvStream (Some oracle) None) = (OOk, c', bs) /\ bs ++ ob (c_out c') = ob (c_out c) /\ ob_sealed (c_out c') = ob_sealed (c_out c) /\ c_slots c' = c_slots c /\ c_qs c' = c_qs c /\ c_phase c' = c_phase c.
Proof. exact stream_write_conserves. Qed.

(* the tail of the event loop, whatever the batch did: unsent data always leaves the socket registered for writable (and before the first write there is always data: the protocol header), so nothing can be left behind with nobody to wake the thread *)
Theorem C01_write_interest : forall (l : loop) (outlen outlen' high low : N), loop_inv l outlen -> let '(l', _) := loop_tail l (negb (outlen =? 0)) outlen' high low in loop_inv l' outlen'.
Proof. exact write_interest. Qed.

(* the first batch marks the socket as written to even when its first write was short or blocked *)
Theorem C01_first_batch : forall (l : loop) (outlen outlen' high low : N), loop_inv l outlen -> l_have_written l = false -> l_have_written (fst (loop_tail l (negb (outlen =? 0)) outlen' high low)) = true.
Proof. exact first_batch_marks. Qed.

(* AT THE LEVEL OF THE WHOLE SYSTEM, EVERY SCHEDULE (Model/Sys.v: any number of channels and callers, the I/O thread draining any prefix of a mailbox and writing any number of frames at a time, the server reading, the server closing OTHER channels at any moment): for a channel the server has not closed, what the server has read of channel n, followed by what is still on its way (wire, out-buffer, mailbox), is exactly what caller n issued, in order - no frame of a channel is lost, duplicated or overtaken by another frame of the same channel, however the channels interleave; and what was issued is a prefix of the caller's program *)
Theorem C01_system_wire_order : forall (answer : N -> N -> N) (bound qcap : N) (progs : N -> list call), 2 <= qcap -> forall (sched : list act) (n : N), let s := yrun answer bound qcap (init_sys progs) sched in yc_srv_closed (y_ch s n) = false -> projc n (y_seen s) ++ projc n (y_outwire s) ++ projc n (y_outbuf s) ++ yc_mail (y_ch s n) = yc_issued (y_ch s n) /\ yc_issued (y_ch s n) ++ yc_prog (y_ch s n) = progs n.
Proof. exact sys_wire_order. Qed.

(* THE MODEL IS THE SOURCE: Inner::write_to_stream of src/io_loop/mod.rs - the loop that writes the out-buffer to the socket - as translated from the source text on every run (Gen/SrcWrite.v, tools/rs2sm.py: the `while` loop is a recursive function on fuel), for EVERY buffer content and EVERY behaviour of the transport (any sequence of partial writes, would-blocks and errors, as long as the model's oracle does not run out), puts the same bytes on the wire, keeps the same bytes buffered and returns the same result as Model/OutBuf.v's write_to_stream - the function C01_stream_conservation and the write theorems are about. ext_st_model states the io::Write contract (Ok(n) with n at most the slice offered) and OutputBuffer::{drain_written, clear} *)
Theorem C01_write_source_is_model : forall (stream : val) (o : outbuf) (oracle : list wr) (wire : bytes), snd (fst (fst (write_to_stream o oracle))) <> WStuck -> gen_Inner_write_to_stream ext_model ext_st_model (S (Datatypes.length oracle)) (enc_self (ob o) oracle wire) stream = (let '(ws, r, o', rest) := write_to_stream o oracle in (enc_self (ob o') rest (wire ++ ws), enc_wres r)).
Proof. exact write_source_is_model. Qed.

(* C01 AS A THEOREM ABOUT THE TRANSLATED CODE: whatever the transport does (any sequence of partial writes, would-blocks, errors), a pass of the translated write loop (Gen/SrcWrite.v) that returns Ok leaves (what has reached the wire) ++ (what is still buffered) unchanged - nothing is lost, duplicated or reordered; on an I/O error the buffer is untouched and what was written is a prefix of it *)
Theorem C01_write_source_conserves : forall (stream : val) (o : outbuf) (oracle : list wr) (wire : bytes), snd (fst (fst (write_to_stream o oracle))) <> WStuck -> exists (ws : list N) (buf' : bytes) (rest : list wr) (r : wres), gen_Inner_write_to_stream ext_model ext_st_model (S (Datatypes.length oracle)) (enc_self (ob o) oracle wire) stream = (enc_self buf' rest (wire ++ ws), enc_wres r) /\ match r with | WOk => (wire ++ ws) ++ buf' = wire ++ ob o | WIoErr => buf' = ob o /\ (exists k : nat, ws = firstn k (ob o)) | WStuck => False end.
Proof. exact write_source_conserves. Qed.

(* non-vacuity: three buffers, a transport that takes 2 bytes, blocks, then the rest *)
Example C01_example :
  fold_left bstep [BAppend [1; 2; 3]; BWrite [Wrote 2; WBlock]; BAppend [4]; BSeal; BAppend [9]; BWrite [Wrote 10]]
            ([], {| ob := []; ob_sealed := false |}, [])
  = ([1; 2; 3; 4], {| ob := []; ob_sealed := true |}, [1; 2; 3; 4]).
Proof. vm_compute. reflexivity. Qed.

Check C01_write_conserves : forall (o : outbuf) (oracle : list wr) (w : bytes) (r : wres) (o' : outbuf) (rest : list wr), write_to_stream o oracle = (w, r, o', rest) -> ob_sealed o' = ob_sealed o /\ match r with | WOk => w ++ ob o' = ob o | WIoErr => ob o' = ob o /\ (exists k : nat, w = firstn k (ob o)) | WStuck => True end.
Check C01_trace_conserves : forall (ops : list bop) (st : list N * outbuf * list N), (let '(wire, b, acc) := st in wire ++ ob b = acc) -> (fix ok (st0 : bytes * outbuf * bytes) (ops0 : list bop) {struct ops0} : Prop := match ops0 with | [] => True | o :: ops' => no_write_failure st0 o /\ ok (bstep st0 o) ops' end) st ops -> let '(wire', b', acc') := fold_left bstep ops st in wire' ++ ob b' = acc'.
Check C01_append_spec : forall (o : outbuf) (bs : bytes), ob (ob_append o bs) = (if ob_sealed o then ob o else ob o ++ bs) /\ ob_sealed (ob_append o bs) = ob_sealed o.
Check C01_whole_frames : forall fs : list (N * N * bytes), Forall wf_frame fs -> split_all (concat (map enc3 fs)) = (map enc3 fs, []).
Check C01_mailbox_fifo : forall (n : N) (bufs : list bytes) (fuel : nat) (c : core) (s : slot), n <> 0 -> alookup n (c_slots c) = Some s -> s_mail s = map MsgSend bufs -> s_mail_tx s = true -> ob_sealed (c_out c) = false -> (Datatypes.length bufs < fuel)%nat -> exists (c' : core) (taken rest : list bytes), chan_readable fuel n c = (OOk, c') /\ bufs = taken ++ rest /\ ob (c_out c') = ob (c_out c) ++ concat taken /\ ob_sealed (c_out c') = false /\ c_phase c' = c_phase c /\ c_qs c' = c_qs c /\ c_high c' = c_high c /\ (forall k : N, k <> n -> alookup k (c_slots c') = alookup k (c_slots c)) /\ (exists s' : slot, alookup n (c_slots c') = Some s' /\ s_mail s' = map MsgSend rest) /\ (rest <> [] -> c_need c' = true /\ c_high c < out_len c').
Check C01_mailbox_fifo_below_mark : forall (n : N) (bufs : list bytes) (fuel : nat) (c : core) (s : slot), n <> 0 -> alookup n (c_slots c) = Some s -> s_mail s = map MsgSend bufs -> s_mail_tx s = true -> ob_sealed (c_out c) = false -> (Datatypes.length bufs < fuel)%nat -> N.of_nat (Datatypes.length (ob (c_out c) ++ concat bufs)) <= c_high c -> exists c' : core, chan_readable fuel n c = (OOk, c') /\ ob (c_out c') = ob (c_out c) ++ concat bufs /\ (exists s' : slot, alookup n (c_slots c') = Some s' /\ s_mail s' = []).
Check C01_stream_write : forall (c : core) (oracle : list wr) (bs : bytes) (wr0 : wres) (ob' : outbuf) (rest : list wr), write_to_stream (c_out c) oracle = (bs, wr0, ob', rest) -> wr0 = WOk -> exists c' : core, handle_event c (EvStream (Some oracle) None) = (OOk, c', bs) /\ bs ++ ob (c_out c') = ob (c_out c) /\ ob_sealed (c_out c') = ob_sealed (c_out c) /\ c_slots c' = c_slots c /\ c_qs c' = c_qs c /\ c_phase c' = c_phase c.
Check C01_write_interest : forall (l : loop) (outlen outlen' high low : N), loop_inv l outlen -> let '(l', _) := loop_tail l (negb (outlen =? 0)) outlen' high low in loop_inv l' outlen'.
Check C01_first_batch : forall (l : loop) (outlen outlen' high low : N), loop_inv l outlen -> l_have_written l = false -> l_have_written (fst (loop_tail l (negb (outlen =? 0)) outlen' high low)) = true.
Check C01_system_wire_order : forall (answer : N -> N -> N) (bound qcap : N) (progs : N -> list call), 2 <= qcap -> forall (sched : list act) (n : N), let s := yrun answer bound qcap (init_sys progs) sched in yc_srv_closed (y_ch s n) = false -> projc n (y_seen s) ++ projc n (y_outwire s) ++ projc n (y_outbuf s) ++ yc_mail (y_ch s n) = yc_issued (y_ch s n) /\ yc_issued (y_ch s n) ++ yc_prog (y_ch s n) = progs n.
Check C01_write_source_is_model : forall (stream : val) (o : outbuf) (oracle : list wr) (wire : bytes), snd (fst (fst (write_to_stream o oracle))) <> WStuck -> gen_Inner_write_to_stream ext_model ext_st_model (S (Datatypes.length oracle)) (enc_self (ob o) oracle wire) stream = (let '(ws, r, o', rest) := write_to_stream o oracle in (enc_self (ob o') rest (wire ++ ws), enc_wres r)).
Check C01_write_source_conserves : forall (stream : val) (o : outbuf) (oracle : list wr) (wire : bytes), snd (fst (fst (write_to_stream o oracle))) <> WStuck -> exists (ws : list N) (buf' : bytes) (rest : list wr) (r : wres), gen_Inner_write_to_stream ext_model ext_st_model (S (Datatypes.length oracle)) (enc_self (ob o) oracle wire) stream = (enc_self buf' rest (wire ++ ws), enc_wres r) /\ match r with | WOk => (wire ++ ws) ++ buf' = wire ++ ob o | WIoErr => buf' = ob o /\ (exists k : nat, ws = firstn k (ob o)) | WStuck => False end.

Print Assumptions C01_write_conserves.
Print Assumptions C01_trace_conserves.
Print Assumptions C01_append_spec.
Print Assumptions C01_whole_frames.
Print Assumptions C01_mailbox_fifo.
Print Assumptions C01_mailbox_fifo_below_mark.
Print Assumptions C01_stream_write.
Print Assumptions C01_write_interest.
Print Assumptions C01_first_batch.
Print Assumptions C01_system_wire_order.
Print Assumptions C01_write_source_is_model.
Print Assumptions C01_write_source_conserves.
Print Assumptions C01_example.
