(* C09 - a server-initiated channel close affects that channel only.
   This file only pins statements. *)
From Amq Require Import Lib.Base Gen.Consts Model.Wire Model.Frames Model.OutBuf Model.Collector Model.Slots Model.Core Spec.Slots Spec.Content Proofs.Slots Proofs.OutBuf Proofs.Collector Proofs.CoreContent Proofs.CoreInv Proofs.CoreMore Check.Core Proofs.Examples.

(* a successful Channel.Close(n): slot n and its id are gone, exactly Channel.CloseOk(n) is queued, phase and channel-0 state are untouched and every other slot is as before *)
Theorem C09_effect : forall (n code : N) (text dbg : str) (c c' : core), steady c -> n <> 0 -> process c (FMethod n (MChanClose code text), dbg) = (OOk, c') -> alookup n (c_slots c') = None /\ c_ids c' = snd (remove n (c_ids c)) /\ c_out c' = ob_append (c_out c) (ser_chan_close_ok n) /\ c_phase c' = c_phase c /\ c_ch0 c' = c_ch0 c /\ (forall k : N, k <> n -> alookup k (c_slots c') = alookup k (c_slots c)).
Proof. exact chan_close_effect. Qed.

(* for EVERY frame of channel m and every outcome: the slots of all other channels are unchanged *)
Theorem C09_isolation : forall (f : frame) (dbg : str) (c : core) (o : outcome) (c' : core), frame_chan f <> 0 -> process c (f, dbg) = (o, c') -> slots_off (frame_chan f) c c'.
Proof. exact frame_other_channels. Qed.

(* the id is available again: an explicit open of it is granted (from the C10 refinement) *)
Theorem C09_reusable : forall (ids : slots) (n : N), Inv ids -> in_range (cmax ids) n -> fst (insert_some true n (snd (remove n ids))) = ROk n.
Proof. exact closed_id_reusable. Qed.

(* a wake-up for the closed channel that was already pending is ignored, not an error *)
Theorem C09_stale_wakeup : forall (n : N) (c : core), n <> 0 -> alookup n (c_slots c) = None -> handle_event c (EvChan n) = (OOk, if c_high c <? out_len c then set_need c true else c, []).
Proof. exact closed_slot_wakeup. Qed.

(* and nothing in all this can panic the thread, in any state satisfying the invariant *)
Theorem C09_no_panic : forall (c : core) (f : dframe) (o : outcome) (c' : core), process c f = (o, c') -> WFs c -> (forall site : N, o <> OPanic site) /\ WFs c'.
Proof. exact process_WFs. Qed.

(* non-vacuity of C09_chan_close_effect: the server closes channel 1 of two: its slot is gone,
   Channel.CloseOk(1) is queued, its consumer and its caller are told, channel 2 is untouched *)
Example C09_example :
  let '(o, c) := process ex_two_channels (FMethod 1 (MChanClose 406 [120]), []) in
  (o, map fst (c_slots c), ob (c_out c)) = (OOk, [2], [1; 0; 1; 0; 0; 0; 4; 0; 20; 0; 41; 206]) /\
  alookup 2 (c_slots c) = alookup 2 (c_slots ex_two_channels) /\
  ex_queues c = [(4297064448, [IServerClosedChannel (EServerClosedChannel 1 406 [120])], false);
                 (2, [IReplyConsumeOk [116] 4297064448; IReplyErr (EServerClosedChannel 1 406 [120])], false);
                 (3, [IReplyConsumeOk [117] 4298113024], true); (4298113024, [], true);
                 (1, [IAllocOk 1; IAllocOk 2], true); (0, [], true)].
Proof. vm_compute. repeat split. Qed.

Check C09_effect : forall (n code : N) (text dbg : str) (c c' : core), steady c -> n <> 0 -> process c (FMethod n (MChanClose code text), dbg) = (OOk, c') -> alookup n (c_slots c') = None /\ c_ids c' = snd (remove n (c_ids c)) /\ c_out c' = ob_append (c_out c) (ser_chan_close_ok n) /\ c_phase c' = c_phase c /\ c_ch0 c' = c_ch0 c /\ (forall k : N, k <> n -> alookup k (c_slots c') = alookup k (c_slots c)).
Check C09_isolation : forall (f : frame) (dbg : str) (c : core) (o : outcome) (c' : core), frame_chan f <> 0 -> process c (f, dbg) = (o, c') -> slots_off (frame_chan f) c c'.
Check C09_reusable : forall (ids : slots) (n : N), Inv ids -> in_range (cmax ids) n -> fst (insert_some true n (snd (remove n ids))) = ROk n.
Check C09_stale_wakeup : forall (n : N) (c : core), n <> 0 -> alookup n (c_slots c) = None -> handle_event c (EvChan n) = (OOk, if c_high c <? out_len c then set_need c true else c, []).
Check C09_no_panic : forall (c : core) (f : dframe) (o : outcome) (c' : core), process c f = (o, c') -> WFs c -> (forall site : N, o <> OPanic site) /\ WFs c'.

Print Assumptions C09_effect.
Print Assumptions C09_isolation.
Print Assumptions C09_reusable.
Print Assumptions C09_stale_wakeup.
Print Assumptions C09_no_panic.
Print Assumptions C09_example.
