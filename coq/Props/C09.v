(* C09 - a server-initiated channel close affects that channel only.
   This file only pins statements. *)
From Amq Require Import Lib.Base Gen.Consts Model.Wire Model.Frames Model.OutBuf Model.Collector Model.Slots Model.Core Spec.Slots Spec.Content Proofs.Slots Proofs.OutBuf Proofs.Collector Proofs.CoreContent Proofs.CoreInv Proofs.CoreMore Check.Core Proofs.Examples Model.Sys Proofs.Sys Proofs.SysLive Lib.RsVal Gen.SrcHandle Proofs.HandleSrc Model.Handle Proofs.SysRefine.

(* a successful Channel.Close(n): slot n and its id are gone, exactly Channel.CloseOk(n) is queued, phase and channel-0 state are untouched and every other slot is as before *)
Theorem C09_effect : forall (n code : N) (text dbg : str) (c c' : core), steady c -> n <> 0 -> process c (FMethod n (MChanClose code text), dbg) = (OOk, c') -> alookup n (c_slots c') = None /\ c_ids c' = snd (Slots.remove n (c_ids c)) /\ c_out c' = ob_append (c_out c) (ser_chan_close_ok n) /\ c_phase c' = c_phase c /\ c_ch0 c' = c_ch0 c /\ (forall k : N, k <> n -> alookup k (c_slots c') = alookup k (c_slots c)).
Proof. exact chan_close_effect. Qed.

(* for EVERY frame of channel m and every outcome: the slots of all other channels are unchanged *)
Theorem C09_isolation : forall (f : frame) (dbg : str) (c : core) (o : outcome) (c' : core), frame_chan f <> 0 -> process c (f, dbg) = (o, c') -> slots_off (frame_chan f) c c'.
Proof. exact frame_other_channels. Qed.

(* the id is available again: an explicit open of it is granted (from the C10 refinement) *)
Theorem C09_reusable : forall (ids : slots) (n : N), Inv ids -> in_range (cmax ids) n -> fst (insert_some true n (snd (Slots.remove n ids))) = Slots.ROk n.
Proof. exact closed_id_reusable. Qed.

(* a wake-up for the closed channel that was already pending is ignored, not an error *)
Theorem C09_stale_wakeup : forall (n : N) (c : core), n <> 0 -> alookup n (c_slots c) = None -> handle_event c (EvChan n) = (OOk, if c_high c <? out_len c then set_need c true else c, []).
Proof. exact closed_slot_wakeup. Qed.

(* and nothing in all this can panic the thread, in any state satisfying the invariant *)
Theorem C09_no_panic : forall (c : core) (f : dframe) (o : outcome) (c' : core), process c f = (o, c') -> WFs c -> (forall site : N, o <> OPanic site) /\ WFs c'.
Proof. exact process_WFs. Qed.

(* THE WHOLE SYSTEM, EVERY SCHEDULE, THE SERVER CLOSING ANY CHANNEL AT ANY MOMENT (Model/Sys.v, action ASrvClose): the guarantees of every channel the server has not closed are what they are without any close - each call returns the answer to its own request, a blocked caller is owed exactly its one reply, nothing of it is lost -; on the closed channel what the calls returned before is still exactly the answers to its own first requests; the I/O thread never finds a reply queue full (a queued reply plus the verdict fit: 2 <= qcap) nor a frame for the slot it dropped; a caller is marked failed only when the I/O thread ended or the server closed ITS channel *)
Theorem C09_system_isolation : forall (answer : N -> N -> N) (bound qcap : N) (progs : N -> list call), 2 <= qcap -> forall sched : list act, let s := yrun answer bound qcap (init_sys progs) sched in y_fail s = false /\ (forall n : N, let c := y_ch s n in yc_results c = map (answer n) (firstn (Datatypes.length (yc_results c)) (syncs (yc_issued c))) /\ (yc_srv_closed c = false -> yc_wait c = false -> yc_failed c = false -> yc_results c = map (answer n) (syncs (yc_issued c))) /\ (yc_srv_closed c = false -> yc_wait c = true -> exists r : N, syncs (yc_issued c) = (firstn (Datatypes.length (yc_results c)) (syncs (yc_issued c)) ++ [r])%list /\ inflight answer s n = [answer n r]) /\ (Datatypes.length (yc_replyq c) <= 2)%nat /\ (yc_issued c ++ yc_prog c)%list = progs n /\ (yc_failed c = true -> y_dead s = true \/ yc_srv_closed c = true)).
Proof. exact sys_own_reply. Qed.

(* ... and once the I/O thread has processed the server's close of channel n (slot gone), a caller blocked on n returns at once - the reply already queued, the verdict ServerClosedChannel, or an error -, and every later call on n fails at once without handing anything over *)
Theorem C09_system_closed_caller_released : forall (answer : N -> N -> N) (bound qcap : N) (progs : N -> list call), 2 <= qcap -> forall (sched : list act) (n : N), let s := yrun answer bound qcap (init_sys progs) sched in y_dead s = true \/ yc_slot_gone (y_ch s n) = true -> yc_wait (y_ch (ystep answer bound qcap s (ARecv n)) n) = false /\ yc_wait (y_ch (ystep answer bound qcap s (ASend n)) n) = yc_wait (y_ch s n) /\ (yc_wait (y_ch s n) = false -> yc_failed (y_ch s n) = false -> yc_prog (y_ch s n) <> [] -> yc_failed (y_ch (ystep answer bound qcap s (ASend n)) n) = true /\ yc_mail (y_ch (ystep answer bound qcap s (ASend n)) n) = yc_mail (y_ch s n)).
Proof. exact sys_dead_releases. Qed.

(* ... and before that, the Close is never lost: from every reachable state with the I/O thread alive a caller blocked on a channel the server has closed can be released by reading what is on the wire and receiving (and callers of the other channels by the usual continuation) *)
Theorem C09_system_never_stuck : forall (answer : N -> N -> N) (bound qcap : N) (progs : N -> list call), 2 <= qcap -> forall (sched : list act) (n : N), let s := yrun answer bound qcap (init_sys progs) sched in y_dead s = false -> yc_wait (y_ch s n) = true -> exists cont : list act, ~ In ADie cont /\ yc_wait (y_ch (yrun answer bound qcap s cont) n) = false.
Proof. exact sys_never_stuck. Qed.

(* ... and the translated source of a call (Gen/SrcHandle.v: send, and on a failed send check_recv_for_error with its BLOCKING recv) is the model hstep: the next call on a channel the server closed reports the verdict queued for it (seed C09h replaced that recv by try_recv: the proof breaks, and c04sys finds the window in which the verdict is not queued yet) *)
Theorem C09_call_source_is_model : forall (c : hcall) (s : hstate) (r : hres) (s' : hstate) (arg : val), hstep c s = Some (r, s') -> gen_call c (enc_state s) arg = (enc_state s', enc_res c r).
Proof. exact call_source_is_model. Qed.

(* THE SYSTEM'S STEP IS THE CORE'S: the I/O thread processing the server's Channel.Close for channel n (Model/Core.v's process, which the CoreProbe ties to the real code) puts the verdict BEHIND whatever the reply queue of n holds - at most one reply by C09_system_isolation, so the capacity 2 from the compiled crate has room -, drops the slot with its mailbox, leaves every other slot as it was and queues Channel.CloseOk(n): the step ARead of Model/Sys.v takes on the Close *)
Theorem C09_io_close_is_ARead_close : forall (n code : N) (text dbg : str) (c : core) (s : slot), steady c -> n <> 0 -> alookup n (c_slots c) = Some s -> s_consumers s = [] -> reply_queue_ok c n -> (Datatypes.length (view_replyq c n) <= 1)%nat -> exists c' : core, process c (FMethod n (MChanClose code text), dbg) = (OOk, c') /\ alookup n (c_slots c') = None /\ items_of (s_reply s) (c_qs c') = Some (view_replyq c n ++ [IReplyErr (EServerClosedChannel n code text)])%list /\ (forall k : N, k <> n -> alookup k (c_slots c') = alookup k (c_slots c)) /\ c_out c' = ob_append (c_out c) (ser_chan_close_ok n).
Proof. exact io_close_is_ARead_close. Qed.

(* non-vacuity of C09_chan_close_effect: the server closes channel 1 of two: its slot is gone,
   Channel.CloseOk(1) is queued, its consumer and its caller are told, channel 2 is untouched *)
Example C09_example :
  let '(o, c) := process ex_two_channels (FMethod 1 (MChanClose 406 [120]), []) in
  (o, map fst (c_slots c), ob (c_out c)) = (OOk, [2], [1; 0; 1; 0; 0; 0; 4; 0; 20; 0; 41; 206]) /\
  alookup 2 (c_slots c) = alookup 2 (c_slots ex_two_channels) /\
  ex_queues c = [(4297064448, [IServerClosedChannel (EServerClosedChannel 1 406 [120])], false);
                 (2, [IReplyConsumeOk [116] 4297064448; IReplyErr (EServerClosedChannel 1 406 [120])], false);
                 (3, [IReplyConsumeOk [117] 4298113024], true); (4298113024, [], true);
                 (1, [IAllocOk 1; IAllocOk 2], true); (0, [], true)].
Proof. vm_compute. repeat split. Qed.

(* non-vacuity and tightness at system level: the server answers channel 1's first request and
   closes channel 1 at once; the I/O thread reads both before the caller wakes: the reply queue
   of channel 1 holds TWO items (the reply, then the verdict) - with the capacity 2 the code
   gives it nothing fails, channel 1's caller gets its reply and then an error, channel 2
   completes both of its calls *)
Example C09_system_example :
  let answer := fun n r => n * 1000 + r in
  let progs := fun n => if n =? 1 then [(KSync, 7); (KSync, 9)] else if n =? 2 then [(KSync, 5); (KSync, 6)] else [] in
  let sched := [ASend 1; ASend 2; ADrain 1 1; ADrain 2 1; AWrite 2; ASrvRead; ASrvRead;
                ASrvAnswer 1; ASrvClose 1; ARead; ARead] in
  let s := yrun answer 16 2 (init_sys progs) sched in
  let s' := yrun answer 16 2 s [ARecv 1; ASend 1; ASrvAnswer 2; ARead; ARecv 2; ASend 2; ADrain 2 1; AWrite 1;
                                ASrvRead; ASrvAnswer 2; ARead; ARecv 2] in
  yc_replyq (y_ch s 1) = [RVal 1007; RVerdict] /\ y_fail s = false /\ yc_slot_gone (y_ch s 1) = true /\
  yc_results (y_ch s' 1) = [1007] /\ yc_failed (y_ch s' 1) = true /\ yc_wait (y_ch s' 1) = false /\
  yc_results (y_ch s' 2) = [2005; 2006] /\ yc_failed (y_ch s' 2) = false /\ yc_prog (y_ch s' 2) = [] /\ y_fail s' = false.
Proof. vm_compute. repeat split. Qed.

(* ... and the hypothesis 2 <= qcap of the system theorems is needed: with room for one item only
   the same schedule makes the I/O thread find the queue full *)
Example C09_system_example_capacity_one_refuted :
  let answer := fun n r => n * 1000 + r in
  let progs := fun n => if n =? 1 then [(KSync, 7); (KSync, 9)] else [] in
  exists sched, y_fail (yrun answer 16 1 (init_sys progs) sched) = true.
Proof.
  exists [ASend 1; ADrain 1 1; AWrite 1; ASrvRead; ASrvAnswer 1; ASrvClose 1; ARead; ARead]. vm_compute. reflexivity.
Qed.

Check C09_effect : forall (n code : N) (text dbg : str) (c c' : core), steady c -> n <> 0 -> process c (FMethod n (MChanClose code text), dbg) = (OOk, c') -> alookup n (c_slots c') = None /\ c_ids c' = snd (Slots.remove n (c_ids c)) /\ c_out c' = ob_append (c_out c) (ser_chan_close_ok n) /\ c_phase c' = c_phase c /\ c_ch0 c' = c_ch0 c /\ (forall k : N, k <> n -> alookup k (c_slots c') = alookup k (c_slots c)).
Check C09_isolation : forall (f : frame) (dbg : str) (c : core) (o : outcome) (c' : core), frame_chan f <> 0 -> process c (f, dbg) = (o, c') -> slots_off (frame_chan f) c c'.
Check C09_reusable : forall (ids : slots) (n : N), Inv ids -> in_range (cmax ids) n -> fst (insert_some true n (snd (Slots.remove n ids))) = Slots.ROk n.
Check C09_stale_wakeup : forall (n : N) (c : core), n <> 0 -> alookup n (c_slots c) = None -> handle_event c (EvChan n) = (OOk, if c_high c <? out_len c then set_need c true else c, []).
Check C09_no_panic : forall (c : core) (f : dframe) (o : outcome) (c' : core), process c f = (o, c') -> WFs c -> (forall site : N, o <> OPanic site) /\ WFs c'.
Check C09_system_isolation : forall (answer : N -> N -> N) (bound qcap : N) (progs : N -> list call), 2 <= qcap -> forall sched : list act, let s := yrun answer bound qcap (init_sys progs) sched in y_fail s = false /\ (forall n : N, let c := y_ch s n in yc_results c = map (answer n) (firstn (Datatypes.length (yc_results c)) (syncs (yc_issued c))) /\ (yc_srv_closed c = false -> yc_wait c = false -> yc_failed c = false -> yc_results c = map (answer n) (syncs (yc_issued c))) /\ (yc_srv_closed c = false -> yc_wait c = true -> exists r : N, syncs (yc_issued c) = (firstn (Datatypes.length (yc_results c)) (syncs (yc_issued c)) ++ [r])%list /\ inflight answer s n = [answer n r]) /\ (Datatypes.length (yc_replyq c) <= 2)%nat /\ (yc_issued c ++ yc_prog c)%list = progs n /\ (yc_failed c = true -> y_dead s = true \/ yc_srv_closed c = true)).
Check C09_system_closed_caller_released : forall (answer : N -> N -> N) (bound qcap : N) (progs : N -> list call), 2 <= qcap -> forall (sched : list act) (n : N), let s := yrun answer bound qcap (init_sys progs) sched in y_dead s = true \/ yc_slot_gone (y_ch s n) = true -> yc_wait (y_ch (ystep answer bound qcap s (ARecv n)) n) = false /\ yc_wait (y_ch (ystep answer bound qcap s (ASend n)) n) = yc_wait (y_ch s n) /\ (yc_wait (y_ch s n) = false -> yc_failed (y_ch s n) = false -> yc_prog (y_ch s n) <> [] -> yc_failed (y_ch (ystep answer bound qcap s (ASend n)) n) = true /\ yc_mail (y_ch (ystep answer bound qcap s (ASend n)) n) = yc_mail (y_ch s n)).
Check C09_system_never_stuck : forall (answer : N -> N -> N) (bound qcap : N) (progs : N -> list call), 2 <= qcap -> forall (sched : list act) (n : N), let s := yrun answer bound qcap (init_sys progs) sched in y_dead s = false -> yc_wait (y_ch s n) = true -> exists cont : list act, ~ In ADie cont /\ yc_wait (y_ch (yrun answer bound qcap s cont) n) = false.
Check C09_call_source_is_model : forall (c : hcall) (s : hstate) (r : hres) (s' : hstate) (arg : val), hstep c s = Some (r, s') -> gen_call c (enc_state s) arg = (enc_state s', enc_res c r).
Check C09_io_close_is_ARead_close : forall (n code : N) (text dbg : str) (c : core) (s : slot), steady c -> n <> 0 -> alookup n (c_slots c) = Some s -> s_consumers s = [] -> reply_queue_ok c n -> (Datatypes.length (view_replyq c n) <= 1)%nat -> exists c' : core, process c (FMethod n (MChanClose code text), dbg) = (OOk, c') /\ alookup n (c_slots c') = None /\ items_of (s_reply s) (c_qs c') = Some (view_replyq c n ++ [IReplyErr (EServerClosedChannel n code text)])%list /\ (forall k : N, k <> n -> alookup k (c_slots c') = alookup k (c_slots c)) /\ c_out c' = ob_append (c_out c) (ser_chan_close_ok n).

Print Assumptions C09_effect.
Print Assumptions C09_isolation.
Print Assumptions C09_reusable.
Print Assumptions C09_stale_wakeup.
Print Assumptions C09_no_panic.
Print Assumptions C09_system_isolation.
Print Assumptions C09_system_closed_caller_released.
Print Assumptions C09_system_never_stuck.
Print Assumptions C09_call_source_is_model.
Print Assumptions C09_io_close_is_ARead_close.
Print Assumptions C09_example.
Print Assumptions C09_system_example.
Print Assumptions C09_system_example_capacity_one_refuted.
