(* C02 - a published message reaches the wire intact and correctly framed.
   This file only pins statements. *)
From Amq Require Import Lib.Base Gen.Consts Model.Publish Proofs.Publish Lib.RsResult Gen.SrcLimit Proofs.PublishSrc Lib.RsVal Gen.SrcSend Proofs.SendContentSrc.

(* for EVERY body and every positive payload limit: the body frames' payloads concatenate to exactly the body *)
Theorem C02_concat : forall (fm : N) (body : bytes), 0 < fm -> concat (body_chunks fm body) = body.
Proof. exact body_chunks_concat. Qed.

(* every body frame is non-empty and at most the limit long *)
Theorem C02_sizes : forall (fm : N) (body : bytes), 0 < fm -> Forall (fun c : list N => 0 < N.of_nat (Datatypes.length c) <= fm) (body_chunks fm body).
Proof. exact body_chunks_sizes. Qed.

(* every body frame but the last is exactly the limit long *)
Theorem C02_full : forall (fm : N) (body : bytes) (pre : list bytes) (c : bytes), 0 < fm -> body_chunks fm body = (pre ++ [c])%list -> Forall (fun x : list N => N.of_nat (Datatypes.length x) = fm) pre.
Proof. exact body_chunks_full. Qed.

(* an empty body produces no body frame at all *)
Theorem C02_empty : forall fm : N, body_chunks fm [] = [].
Proof. exact body_chunks_empty. Qed.

(* the number of body frames is ceil(len / limit) *)
Theorem C02_count : forall (fm : N) (body : bytes), 0 < fm -> N.of_nat (Datatypes.length (body_chunks fm body)) = (N.of_nat (Datatypes.length body) + fm - 1) / fm.
Proof. exact body_chunks_count. Qed.

(* with the negotiated frame_max (>= FRAME_MIN_SIZE, regenerated from the crate; the 8 bytes of framing too) no body frame including its framing exceeds frame_max *)
Theorem C02_frame_size : forall (frame_max : N) (body : bytes), c_frame_min_size <= frame_max -> Forall (fun c : list N => N.of_nat (Datatypes.length c) + c_frame_overhead <= frame_max) (body_chunks (payload_limit frame_max) body).
Proof. exact body_frame_size. Qed.

(* the payload limit derived from every admissible frame_max (0 = unlimited, or >= 4096) is positive, so the theorems above apply to every negotiated value *)
Theorem C02_limit_pos : forall frame_max : N, frame_max = 0 \/ c_frame_min_size <= frame_max -> 0 < payload_limit frame_max.
Proof. exact payload_limit_pos. Qed.

(* one publish: Basic.Publish with exactly the given exchange, routing key, mandatory and immediate; one header of class 60 announcing exactly the body length with the given properties; then non-empty body frames concatenating to the body, none if it is empty *)
Theorem C02_publish : forall (frame_max : N) (p : publish), frame_max = 0 \/ c_frame_min_size <= frame_max -> exists bodies : list bytes, publish_frames frame_max p = PMethod (p_exchange p) (p_rk p) (p_mandatory p) (p_immediate p) :: PHeader 60 (N.of_nat (Datatypes.length (p_body p))) (p_props p) :: map PBody bodies /\ concat bodies = p_body p /\ Forall (fun c : list N => c <> []) bodies /\ (p_body p = [] -> bodies = []).
Proof. exact publish_frames_spec. Qed.

(* THE MODEL IS THE SOURCE, for the body limit: Channel0Handle::new (src/io_loop/channel_handle.rs) is translated into coq/Gen/Src.v on every run by tools/rs2v.py, and what it stores as the handle's frame_max is exactly the model's payload_limit (0 = no limit; the frame overhead from the compiled crate taken off) for every value; C02_frame_size is about that limit *)
Theorem C02_limit_source_is_model : forall frame_max : N, gen_Channel0Handle_new frame_max = RsOk "Channel0Handle" [("frame_max", payload_limit frame_max)].
Proof. exact limit_source_is_model. Qed.

(* THE MODEL IS THE SOURCE: ChannelHandle::send_content of src/io_loop/channel_handle.rs - the loop that cuts a body into frames - as translated from the source text on every run (Gen/SrcSend.v, tools/rs2sm.py: the `while` loop is a recursive function on fuel), for EVERY body and every limit >= 1, hands the channel exactly the content header (class, the body's length, the properties) and then the chunks Model/Publish.v's body_chunks says, in order, and returns Ok - body_chunks is what C02_frames_bounded / C02_concat are about, the limit is Channel0Handle::new's (C02_limit_source_is_model). One unit of fuel per byte plus one is enough *)
Theorem C02_send_content_source_is_model : forall (fm : N) (cid props : val) (body : list N) (log : list val), 1 <= fm -> gen_ChannelHandle_send_content ext_st_model (S (Datatypes.length body)) (enc_self fm log) (VBytes body) cid props = (enc_self fm (log ++ VC "header" [cid; VN (N.of_nat (Datatypes.length body)); props] :: map body_item (body_chunks fm body)), VC "Ok" [VC "()" []]).
Proof. exact send_content_source_is_model. Qed.

(* C02 AS A THEOREM ABOUT THE TRANSLATED CODE: with the limit Channel0Handle::new computes from the negotiated frame_max (0 = no limit, else at least FRAME_MIN_SIZE), the translated send_content hands over the header announcing the body's length and then body frames that are non-empty, fit frame_max including the 8 bytes of frame overhead, are all full except possibly the last and concatenate to exactly the body - and none for an empty body *)
Theorem C02_send_content_source_frames : forall (frame_max : N) (cid props : val) (body : list N) (log : list val), frame_max = 0 \/ c_frame_min_size <= frame_max -> exists chunks : list bytes, gen_ChannelHandle_send_content ext_st_model (S (Datatypes.length body)) (enc_self (payload_limit frame_max) log) (VBytes body) cid props = (enc_self (payload_limit frame_max) (log ++ VC "header" [cid; VN (N.of_nat (Datatypes.length body)); props] :: map body_item chunks), VC "Ok" [VC "()" []]) /\ concat chunks = body /\ Forall (fun c : list N => 0 < N.of_nat (Datatypes.length c) <= payload_limit frame_max) chunks /\ (c_frame_min_size <= frame_max -> Forall (fun c : list N => N.of_nat (Datatypes.length c) + c_frame_overhead <= frame_max) chunks) /\ (forall (pre : list bytes) (c : bytes), chunks = (pre ++ [c])%list -> Forall (fun x : list N => N.of_nat (Datatypes.length x) = payload_limit frame_max) pre) /\ (body = [] -> chunks = []).
Proof. exact send_content_source_frames. Qed.

(* non-vacuity: a 10-byte body with frame_max 4096 is one frame; 4089 bytes are two (4088 + 1) *)
Example C02_example :
  map (fun c => N.of_nat (length c)) (body_chunks (payload_limit 4096) (repeat 7 4089)) = [4088; 1] /\
  c_frame_min_size = 4096 /\ c_frame_overhead = 8.
Proof. vm_compute. repeat split. Qed.

Check C02_concat : forall (fm : N) (body : bytes), 0 < fm -> concat (body_chunks fm body) = body.
Check C02_sizes : forall (fm : N) (body : bytes), 0 < fm -> Forall (fun c : list N => 0 < N.of_nat (Datatypes.length c) <= fm) (body_chunks fm body).
Check C02_full : forall (fm : N) (body : bytes) (pre : list bytes) (c : bytes), 0 < fm -> body_chunks fm body = (pre ++ [c])%list -> Forall (fun x : list N => N.of_nat (Datatypes.length x) = fm) pre.
Check C02_empty : forall fm : N, body_chunks fm [] = [].
Check C02_count : forall (fm : N) (body : bytes), 0 < fm -> N.of_nat (Datatypes.length (body_chunks fm body)) = (N.of_nat (Datatypes.length body) + fm - 1) / fm.
Check C02_frame_size : forall (frame_max : N) (body : bytes), c_frame_min_size <= frame_max -> Forall (fun c : list N => N.of_nat (Datatypes.length c) + c_frame_overhead <= frame_max) (body_chunks (payload_limit frame_max) body).
Check C02_limit_pos : forall frame_max : N, frame_max = 0 \/ c_frame_min_size <= frame_max -> 0 < payload_limit frame_max.
Check C02_publish : forall (frame_max : N) (p : publish), frame_max = 0 \/ c_frame_min_size <= frame_max -> exists bodies : list bytes, publish_frames frame_max p = PMethod (p_exchange p) (p_rk p) (p_mandatory p) (p_immediate p) :: PHeader 60 (N.of_nat (Datatypes.length (p_body p))) (p_props p) :: map PBody bodies /\ concat bodies = p_body p /\ Forall (fun c : list N => c <> []) bodies /\ (p_body p = [] -> bodies = []).
Check C02_limit_source_is_model : forall frame_max : N, gen_Channel0Handle_new frame_max = RsOk "Channel0Handle" [("frame_max", payload_limit frame_max)].
Check C02_send_content_source_is_model : forall (fm : N) (cid props : val) (body : list N) (log : list val), 1 <= fm -> gen_ChannelHandle_send_content ext_st_model (S (Datatypes.length body)) (enc_self fm log) (VBytes body) cid props = (enc_self fm (log ++ VC "header" [cid; VN (N.of_nat (Datatypes.length body)); props] :: map body_item (body_chunks fm body)), VC "Ok" [VC "()" []]).
Check C02_send_content_source_frames : forall (frame_max : N) (cid props : val) (body : list N) (log : list val), frame_max = 0 \/ c_frame_min_size <= frame_max -> exists chunks : list bytes, gen_ChannelHandle_send_content ext_st_model (S (Datatypes.length body)) (enc_self (payload_limit frame_max) log) (VBytes body) cid props = (enc_self (payload_limit frame_max) (log ++ VC "header" [cid; VN (N.of_nat (Datatypes.length body)); props] :: map body_item chunks), VC "Ok" [VC "()" []]) /\ concat chunks = body /\ Forall (fun c : list N => 0 < N.of_nat (Datatypes.length c) <= payload_limit frame_max) chunks /\ (c_frame_min_size <= frame_max -> Forall (fun c : list N => N.of_nat (Datatypes.length c) + c_frame_overhead <= frame_max) chunks) /\ (forall (pre : list bytes) (c : bytes), chunks = (pre ++ [c])%list -> Forall (fun x : list N => N.of_nat (Datatypes.length x) = payload_limit frame_max) pre) /\ (body = [] -> chunks = []).

Print Assumptions C02_concat.
Print Assumptions C02_sizes.
Print Assumptions C02_full.
Print Assumptions C02_empty.
Print Assumptions C02_count.
Print Assumptions C02_frame_size.
Print Assumptions C02_limit_pos.
Print Assumptions C02_publish.
Print Assumptions C02_limit_source_is_model.
Print Assumptions C02_send_content_source_is_model.
Print Assumptions C02_send_content_source_frames.
Print Assumptions C02_example.
