(* C13 - confirms, returns and blocked notices are forwarded verbatim, in order.
   This file only pins statements. *)
From Amq Require Import Lib.Base Gen.Consts Model.Wire Model.Frames Model.OutBuf Model.Collector Model.Slots Model.Core Spec.Slots Spec.Content Proofs.Slots Proofs.OutBuf Proofs.Collector Proofs.CoreContent Proofs.CoreInv Proofs.CoreMore Check.Core Proofs.Examples.

(* an ack / nack on channel n reaches the current confirm listener as exactly (ack|nack, tag, multiple), appended at the end of its queue; nothing else changes *)
Theorem C13_confirm_forwarded : forall (n dtag : N) (multiple ack : bool) (dbg : str) (c : core) (s : slot) (q : N), steady c -> n <> 0 -> alookup n (c_slots c) = Some s -> s_conf s = Some q -> has_room q (c_qs c) -> process c (FMethod n (if ack then MAck dtag multiple else MNack dtag multiple), dbg) = (OOk, set_slot (set_qs c (pushed q (IConfirm ack dtag multiple) (c_qs c))) n s).
Proof. exact confirm_forwarded. Qed.

(* with no listener the event is discarded: phase, buffer, every queue, every other slot unchanged *)
Theorem C13_confirm_discarded : forall (n dtag : N) (multiple ack : bool) (dbg : str) (c : core) (s : slot), steady c -> n <> 0 -> alookup n (c_slots c) = Some s -> s_conf s = None -> process c (FMethod n (if ack then MAck dtag multiple else MNack dtag multiple), dbg) = (OOk, set_slot c n s).
Proof. exact confirm_discarded. Qed.

(* a listener whose receiver was dropped is cleared and its sender dropped; the event is discarded; nothing else changes *)
Theorem C13_dropped_listener : forall (n dtag : N) (multiple : bool) (dbg : str) (c : core) (s : slot) (q : N) (qu : queue), steady c -> n <> 0 -> alookup n (c_slots c) = Some s -> s_conf s = Some q -> alookup q (c_qs c) = Some qu -> q_rx qu = false -> process c (FMethod n (MAck dtag multiple), dbg) = (OOk, set_slot (set_qs c (drop_tx q (c_qs c))) n (with_conf s None)).
Proof. exact confirm_dropped_listener. Qed.

(* registering a listener drops the previous one's sender (its queue disconnects) and makes the new one current - for confirms and for returns *)
Theorem C13_replaced : forall (n : N) (h : option N) (c : core) (s : slot), n <> 0 -> alookup n (c_slots c) = Some s -> channel_message n (MsgSetConfirm h) c = (OOk, set_slot (set_qs c (drop_tx_opt (s_conf s) (c_qs c))) n (with_conf s h)) /\ channel_message n (MsgSetReturn h) c = (OOk, set_slot (set_qs c (drop_tx_opt (s_ret s) (c_qs c))) n (with_ret s h)).
Proof. exact listener_replaced. Qed.

(* a Connection.Blocked notice reaches the connection's listener with its reason *)
Theorem C13_blocked_forwarded : forall (reason dbg : str) (c : core) (z : ch0slot) (q : N), steady c -> c_ch0 c = Some z -> z_blocked z = Some q -> has_room q (c_qs c) -> exists z' : ch0slot, process c (FMethod 0 (MBlocked reason), dbg) = (OOk, set_ch0 (set_qs c (pushed q (IBlocked reason) (c_qs c))) (Some z')) /\ z_blocked z' = Some q.
Proof. exact blocked_forwarded. Qed.

(* no frame sequence, with or without listeners, panics the thread *)
Theorem C13_no_panic : forall (c : core) (f : dframe) (o : outcome) (c' : core), process c f = (o, c') -> WFs c -> (forall site : N, o <> OPanic site) /\ WFs c'.
Proof. exact process_WFs. Qed.

(* non-vacuity of C13_confirm_forwarded: a confirm listener installed the way the handle does
   it (queue 3, through the mailbox of channel 1); an ack (multiple) and a nack arrive: the
   listener's queue holds exactly those two, verbatim, in order *)
Example C13_example :
  let c0 := ex_build [OClAllocReq None; OEvent EvAlloc; OClRecv 1; OClNewQ;
                      OClSend 1 (MsgSetConfirm (Some 3)); OEvent (EvChan 1)] in
  map (fun '(n, s) => (n, s_conf s)) (c_slots c0) = [(1, Some 3)] /\
  let '(o, c) := process_all c0 [(FMethod 1 (MAck 5 true), []); (FMethod 1 (MNack 7 false), [])] in
  (o, ex_queues c) = (OOk, [(3, [IConfirm true 5 true; IConfirm false 7 false], true);
                            (1, [IAllocOk 1], true); (2, [], true); (0, [], true)]).
Proof. vm_compute. repeat split. Qed.

Check C13_confirm_forwarded : forall (n dtag : N) (multiple ack : bool) (dbg : str) (c : core) (s : slot) (q : N), steady c -> n <> 0 -> alookup n (c_slots c) = Some s -> s_conf s = Some q -> has_room q (c_qs c) -> process c (FMethod n (if ack then MAck dtag multiple else MNack dtag multiple), dbg) = (OOk, set_slot (set_qs c (pushed q (IConfirm ack dtag multiple) (c_qs c))) n s).
Check C13_confirm_discarded : forall (n dtag : N) (multiple ack : bool) (dbg : str) (c : core) (s : slot), steady c -> n <> 0 -> alookup n (c_slots c) = Some s -> s_conf s = None -> process c (FMethod n (if ack then MAck dtag multiple else MNack dtag multiple), dbg) = (OOk, set_slot c n s).
Check C13_dropped_listener : forall (n dtag : N) (multiple : bool) (dbg : str) (c : core) (s : slot) (q : N) (qu : queue), steady c -> n <> 0 -> alookup n (c_slots c) = Some s -> s_conf s = Some q -> alookup q (c_qs c) = Some qu -> q_rx qu = false -> process c (FMethod n (MAck dtag multiple), dbg) = (OOk, set_slot (set_qs c (drop_tx q (c_qs c))) n (with_conf s None)).
Check C13_replaced : forall (n : N) (h : option N) (c : core) (s : slot), n <> 0 -> alookup n (c_slots c) = Some s -> channel_message n (MsgSetConfirm h) c = (OOk, set_slot (set_qs c (drop_tx_opt (s_conf s) (c_qs c))) n (with_conf s h)) /\ channel_message n (MsgSetReturn h) c = (OOk, set_slot (set_qs c (drop_tx_opt (s_ret s) (c_qs c))) n (with_ret s h)).
Check C13_blocked_forwarded : forall (reason dbg : str) (c : core) (z : ch0slot) (q : N), steady c -> c_ch0 c = Some z -> z_blocked z = Some q -> has_room q (c_qs c) -> exists z' : ch0slot, process c (FMethod 0 (MBlocked reason), dbg) = (OOk, set_ch0 (set_qs c (pushed q (IBlocked reason) (c_qs c))) (Some z')) /\ z_blocked z' = Some q.
Check C13_no_panic : forall (c : core) (f : dframe) (o : outcome) (c' : core), process c f = (o, c') -> WFs c -> (forall site : N, o <> OPanic site) /\ WFs c'.

Print Assumptions C13_confirm_forwarded.
Print Assumptions C13_confirm_discarded.
Print Assumptions C13_dropped_listener.
Print Assumptions C13_replaced.
Print Assumptions C13_blocked_forwarded.
Print Assumptions C13_no_panic.
Print Assumptions C13_example.
