(* C13 - confirms, returns and blocked notices are forwarded verbatim, in order.
   This file only pins statements. *)
From Amq Require Import Lib.Base Gen.Consts Model.Wire Model.Frames Model.OutBuf Model.Collector Model.Slots Model.Core Spec.Slots Spec.Content Proofs.Slots Proofs.OutBuf Proofs.Collector Proofs.CoreContent Proofs.CoreInv Proofs.CoreMore Check.Core Proofs.Examples Lib.RsVal Gen.SrcQueues Proofs.QueuesSrc.

(* an ack / nack on channel n reaches the current confirm listener as exactly (ack|nack, tag, multiple), appended at the end of its queue; nothing else changes *)
Theorem C13_confirm_forwarded : forall (n dtag : N) (multiple ack : bool) (dbg : str) (c : core) (s : slot) (q : N), steady c -> n <> 0 -> alookup n (c_slots c) = Some s -> s_conf s = Some q -> has_room q (c_qs c) -> process c (FMethod n (if ack then MAck dtag multiple else MNack dtag multiple), dbg) = (OOk, set_slot (set_qs c (pushed q (IConfirm ack dtag multiple) (c_qs c))) n s).
Proof. exact confirm_forwarded. Qed.

(* with no listener the event is discarded: phase, buffer, every queue, every other slot unchanged *)
Theorem C13_confirm_discarded : forall (n dtag : N) (multiple ack : bool) (dbg : str) (c : core) (s : slot), steady c -> n <> 0 -> alookup n (c_slots c) = Some s -> s_conf s = None -> process c (FMethod n (if ack then MAck dtag multiple else MNack dtag multiple), dbg) = (OOk, set_slot c n s).
Proof. exact confirm_discarded. Qed.

(* a listener whose receiver was dropped is cleared and its sender dropped; the event is discarded; nothing else changes *)
Theorem C13_dropped_listener : forall (n dtag : N) (multiple : bool) (dbg : str) (c : core) (s : slot) (q : N) (qu : queue), steady c -> n <> 0 -> alookup n (c_slots c) = Some s -> s_conf s = Some q -> alookup q (c_qs c) = Some qu -> q_rx qu = false -> process c (FMethod n (MAck dtag multiple), dbg) = (OOk, set_slot (set_qs c (drop_tx q (c_qs c))) n (with_conf s None)).
Proof. exact confirm_dropped_listener. Qed.

(* registering a listener drops the previous one's sender (its queue disconnects) and makes the new one current - for confirms and for returns *)
Theorem C13_replaced : forall (n : N) (h : option N) (c : core) (s : slot), n <> 0 -> alookup n (c_slots c) = Some s -> channel_message n (MsgSetConfirm h) c = (OOk, set_slot (set_qs c (drop_tx_opt (s_conf s) (c_qs c))) n (with_conf s h)) /\ channel_message n (MsgSetReturn h) c = (OOk, set_slot (set_qs c (drop_tx_opt (s_ret s) (c_qs c))) n (with_ret s h)).
Proof. exact listener_replaced. Qed.

(* a Connection.Blocked notice reaches the connection's listener with its reason *)
Theorem C13_blocked_forwarded : forall (reason dbg : str) (c : core) (z : ch0slot) (q : N), steady c -> c_ch0 c = Some z -> z_blocked z = Some q -> has_room q (c_qs c) -> exists z' : ch0slot, process c (FMethod 0 (MBlocked reason), dbg) = (OOk, set_ch0 (set_qs c (pushed q (IBlocked reason) (c_qs c))) (Some z')) /\ z_blocked z' = Some q.
Proof. exact blocked_forwarded. Qed.

(* no frame sequence, with or without listeners, panics the thread *)
Theorem C13_no_panic : forall (c : core) (f : dframe) (o : outcome) (c' : core), process c f = (o, c') -> WFs c -> (forall site : N, o <> OPanic site) /\ WFs c'.
Proof. exact process_WFs. Qed.

(* THE MODEL IS THE SOURCE: try_send_return of src/io_loop/connection_state.rs as translated from the source text on every run (Gen/SrcQueues.v, tools/rs2sm.py) is the model's listener_send on the return handler: no handler - nothing happens; the queue takes the item - appended, handler kept; full or receiver gone - the handler is cleared and nothing else changes; the confirm handler is never touched. enc_item is how an item is passed on, the world is every client-visible queue (Model/Core.v's qs) *)
Theorem C13_try_send_return_source_is_model : forall (enc_item : qitem -> val) (ret conf : option N) (it : qitem) (m : qs), gen_try_send_return ext_st_model (enc_slot enc_item ret conf m) (enc_item it) = (enc_slot enc_item (fst (listener_send ret it m)) conf (world_after ret it m), VC "()" []).
Proof. exact try_send_return_source_is_model. Qed.

(* ... and try_send_confirm is listener_send on the confirm handler, the return handler untouched (seed C13i cleared the wrong one: this obligation breaks) *)
Theorem C13_try_send_confirm_source_is_model : forall (enc_item : qitem -> val) (ret conf : option N) (it : qitem) (m : qs), gen_try_send_confirm ext_st_model (enc_slot enc_item ret conf m) (enc_item it) = (enc_slot enc_item ret (fst (listener_send conf it m)) (world_after conf it m), VC "()" []).
Proof. exact try_send_confirm_source_is_model. Qed.

(* ... where the model's world differs from the encoded one only by the sender flag of a cleared handler's queue (drop_tx: in the code the effect of dropping the Sender value) *)
Theorem C13_listener_send_world : forall (h : option N) (it : qitem) (m : qs), snd (listener_send h it m) = world_after h it m \/ (exists q' : N, h = Some q' /\ fst (listener_send h it m) = None /\ snd (listener_send h it m) = drop_tx q' (world_after h it m)).
Proof. exact listener_send_world. Qed.

(* non-vacuity of C13_confirm_forwarded: a confirm listener installed the way the handle does
   it (queue 3, through the mailbox of channel 1); an ack (multiple) and a nack arrive: the
   listener's queue holds exactly those two, verbatim, in order *)
Example C13_example :
  let c0 := ex_build [OClAllocReq None; OEvent EvAlloc; OClRecv 1; OClNewQ;
                      OClSend 1 (MsgSetConfirm (Some 3)); OEvent (EvChan 1)] in
  map (fun '(n, s) => (n, s_conf s)) (c_slots c0) = [(1, Some 3)] /\
  let '(o, c) := process_all c0 [(FMethod 1 (MAck 5 true), []); (FMethod 1 (MNack 7 false), [])] in
  (o, ex_queues c) = (OOk, [(3, [IConfirm true 5 true; IConfirm false 7 false], true);
                            (1, [IAllocOk 1], true); (2, [], true); (0, [], true)]).
Proof. vm_compute. repeat split. Qed.

Check C13_confirm_forwarded : forall (n dtag : N) (multiple ack : bool) (dbg : str) (c : core) (s : slot) (q : N), steady c -> n <> 0 -> alookup n (c_slots c) = Some s -> s_conf s = Some q -> has_room q (c_qs c) -> process c (FMethod n (if ack then MAck dtag multiple else MNack dtag multiple), dbg) = (OOk, set_slot (set_qs c (pushed q (IConfirm ack dtag multiple) (c_qs c))) n s).
Check C13_confirm_discarded : forall (n dtag : N) (multiple ack : bool) (dbg : str) (c : core) (s : slot), steady c -> n <> 0 -> alookup n (c_slots c) = Some s -> s_conf s = None -> process c (FMethod n (if ack then MAck dtag multiple else MNack dtag multiple), dbg) = (OOk, set_slot c n s).
Check C13_dropped_listener : forall (n dtag : N) (multiple : bool) (dbg : str) (c : core) (s : slot) (q : N) (qu : queue), steady c -> n <> 0 -> alookup n (c_slots c) = Some s -> s_conf s = Some q -> alookup q (c_qs c) = Some qu -> q_rx qu = false -> process c (FMethod n (MAck dtag multiple), dbg) = (OOk, set_slot (set_qs c (drop_tx q (c_qs c))) n (with_conf s None)).
Check C13_replaced : forall (n : N) (h : option N) (c : core) (s : slot), n <> 0 -> alookup n (c_slots c) = Some s -> channel_message n (MsgSetConfirm h) c = (OOk, set_slot (set_qs c (drop_tx_opt (s_conf s) (c_qs c))) n (with_conf s h)) /\ channel_message n (MsgSetReturn h) c = (OOk, set_slot (set_qs c (drop_tx_opt (s_ret s) (c_qs c))) n (with_ret s h)).
Check C13_blocked_forwarded : forall (reason dbg : str) (c : core) (z : ch0slot) (q : N), steady c -> c_ch0 c = Some z -> z_blocked z = Some q -> has_room q (c_qs c) -> exists z' : ch0slot, process c (FMethod 0 (MBlocked reason), dbg) = (OOk, set_ch0 (set_qs c (pushed q (IBlocked reason) (c_qs c))) (Some z')) /\ z_blocked z' = Some q.
Check C13_no_panic : forall (c : core) (f : dframe) (o : outcome) (c' : core), process c f = (o, c') -> WFs c -> (forall site : N, o <> OPanic site) /\ WFs c'.
Check C13_try_send_return_source_is_model : forall (enc_item : qitem -> val) (ret conf : option N) (it : qitem) (m : qs), gen_try_send_return ext_st_model (enc_slot enc_item ret conf m) (enc_item it) = (enc_slot enc_item (fst (listener_send ret it m)) conf (world_after ret it m), VC "()" []).
Check C13_try_send_confirm_source_is_model : forall (enc_item : qitem -> val) (ret conf : option N) (it : qitem) (m : qs), gen_try_send_confirm ext_st_model (enc_slot enc_item ret conf m) (enc_item it) = (enc_slot enc_item ret (fst (listener_send conf it m)) (world_after conf it m), VC "()" []).
Check C13_listener_send_world : forall (h : option N) (it : qitem) (m : qs), snd (listener_send h it m) = world_after h it m \/ (exists q' : N, h = Some q' /\ fst (listener_send h it m) = None /\ snd (listener_send h it m) = drop_tx q' (world_after h it m)).

Print Assumptions C13_confirm_forwarded.
Print Assumptions C13_confirm_discarded.
Print Assumptions C13_dropped_listener.
Print Assumptions C13_replaced.
Print Assumptions C13_blocked_forwarded.
Print Assumptions C13_no_panic.
Print Assumptions C13_try_send_return_source_is_model.
Print Assumptions C13_try_send_confirm_source_is_model.
Print Assumptions C13_listener_send_world.
Print Assumptions C13_example.
