(* C19 - an AMQP URL means the same connection parameters for every URL.
   This file only pins statements. *)
From Amq Require Import Lib.Base Gen.Consts Model.Url Proofs.Url Lib.RsVal Lib.RsStr Gen.SrcUrl Proofs.UrlSrc Gen.SrcDecode Proofs.DecodeSrc.

(* every byte string survives percent-encoding followed by the client's decoding (user, password, virtual host) *)
Theorem C19_percent_roundtrip : forall s : list N, Forall (fun c : N => c < 256) s -> percent_decode (percent_encode s) = s.
Proof. exact percent_roundtrip. Qed.

(* text without a percent sign is taken literally *)
Theorem C19_percent_plain : forall s : list N, ~ In 37 s -> percent_decode s = s.
Proof. exact percent_plain. Qed.

(* the error reported is that of the FIRST offending query pair (unparsable number, other auth mechanism, unknown parameter), whatever follows *)
Theorem C19_first_error : forall (good : list (str * str)) (bad : str * str) (rest : list (str * str)) (o : uopts) (e : uerr), Forall (fun kv : str * str => pair_error kv = None) good -> pair_error bad = Some e -> query_fold o (good ++ bad :: rest) = inr e.
Proof. exact query_first_error. Qed.

(* with every pair acceptable the query is accepted *)
Theorem C19_all_good : forall (q : list (str * str)) (o : uopts), Forall (fun kv : str * str => pair_error kv = None) q -> exists o' : uopts, query_fold o q = inl o'.
Proof. exact query_all_good. Qed.

(* a repeated numeric parameter takes the value of its LAST occurrence *)
Theorem C19_heartbeat_last : forall (q1 : list (str * str)) (v : str) (q2 : list (str * str)) (o o' : uopts), query_fold o (q1 ++ (k_heartbeat, v) :: q2) = inl o' -> ~ has_key k_heartbeat q2 -> parse_uint 65535 v = Some (v_heartbeat o').
Proof. exact query_heartbeat_last. Qed.

(* ... and keeps the default when it does not occur *)
Theorem C19_heartbeat_default : forall (q : list (str * str)) (o o' : uopts), query_fold o q = inl o' -> ~ has_key k_heartbeat q -> v_heartbeat o' = v_heartbeat o.
Proof. exact query_heartbeat_none. Qed.

(* EXTERNAL authentication whenever auth_mechanism=external occurs, regardless of credentials *)
Theorem C19_external : forall (q : list (str * str)) (o o' : uopts), query_fold o q = inl o' -> (exists v : str, In (k_auth, v) q) -> v_auth o' = UExternal.
Proof. exact query_external. Qed.

(* more than one path segment is rejected *)
Theorem C19_extra_segments : forall (u : surl) (v w : str) (more : list str), u_segments u = Some (v :: w :: more) -> decode u = inr UeExtraPath.
Proof. exact extra_segments. Qed.

(* no path or an empty one: virtual host / *)
Theorem C19_vhost_default : forall (u : surl) (o : uopts), u_segments u = None \/ u_segments u = Some [[]] -> decode u = inl o -> v_vhost o = s_slash.
Proof. exact vhost_default. Qed.

(* localhost when the host is absent or empty; 5672 / 5671 / the given port; any other scheme is rejected *)
Theorem C19_host_port : forall u : surl, (u_host u = None \/ u_host u = Some [] -> host_of u = s_localhost) /\ (u_scheme u = s_amqp -> scheme_port u = inl (false, match u_port u with | Some p => p | None => 5672 end)) /\ (u_scheme u = s_amqps -> scheme_port u = inl (true, match u_port u with | Some p => p | None => 5671 end)) /\ (u_scheme u <> s_amqp -> u_scheme u <> s_amqps -> scheme_port u = inr UeInvalidScheme).
Proof. exact host_port_defaults. Qed.

(* guest / guest when absent, either one defaulting to guest when only the other is given, percent-decoded *)
Theorem C19_userinfo : forall (u : surl) (o : uopts), u_segments u = None -> u_query u = [] -> decode u = inl o -> v_auth o = match u_user u with | [] => match u_pass u with | Some p => UPlain s_guest (percent_decode p) | None => UPlain s_guest s_guest end | n :: l => let usr := n :: l in match u_pass u with | Some p => UPlain (percent_decode usr) (percent_decode p) | None => UPlain (percent_decode usr) s_guest end end.
Proof. exact userinfo_defaults. Qed.

(* the secure-only open never plans a connection for an amqp:// URL ... *)
Theorem C19_secure_gate : forall u : surl, u_scheme u = s_amqp -> exists e : uerr, open_plan u false = PFail e.
Proof. exact secure_gate. Qed.

(* ... and says InsecureUrl when the URL itself is fine *)
Theorem C19_secure_gate_insecure : forall (u : surl) (o : uopts), u_scheme u = s_amqp -> decode u = inl o -> open_plan u false = PFail UeInsecure.
Proof. exact secure_gate_insecure. Qed.

(* THE MODEL IS THE SOURCE: amqp_url::populate_host_and_port of src/connection.rs as translated from the source text on every run (Gen/SrcUrl.v, tools/rs2sm.py; the &mut Url is the state, string literals are their bytes) is the model's host_of / scheme_port: an absent or empty host becomes localhost, amqp defaults the port to 5672 and amqps to 5671 (an explicit port is kept), any other scheme is InvalidUrlScheme - for every scheme, host and port. *)
Theorem C19_populate_source_is_model : forall (scheme : str) (host : option str) (port : option N), let u := mk scheme host port in gen_populate_host_and_port UrlSrc.ext_model ext_st_model (UrlSrc.enc_url scheme host port) = match scheme_port u with | inl (secure, p) => (UrlSrc.enc_url scheme (Some (host_of u)) (Some p), VC "Ok" [VC (if secure then "Scheme::Amqps" else "Scheme::Amqp") []]) | inr _ => (UrlSrc.enc_url scheme (Some (host_of u)) port, VC "Err" [VC "Error::InvalidUrlScheme" [UrlSrc.enc_url scheme (Some (host_of u)) port]]) end.
Proof. exact populate_source_is_model. Qed.

(* THE MODEL IS THE SOURCE: amqp_url::decode of src/connection.rs as translated from the source text on every run (Gen/SrcDecode.v, tools/rs2sm.py: the path-segment iterator is a local whose next() takes its first item, the loop over the query pairs is structurally recursive - one copy per path that reaches it, each proved to be the model's query_fold) is the model's decode for EVERY URL as the url crate has split it (with the first path segment it guarantees): virtual host (percent-decoded, an empty first segment ignored, a second segment an error), credentials (defaults guest / guest, percent-decoded), heartbeat / channel_max / connection_timeout (parsed as u16 / u16 / u64) and auth_mechanism=external, every other parameter an error - the same options or the same error. ext_model states what is assumed of the url crate's accessors, percent_decode, str::parse and ConnectionOptions' builder methods *)
Theorem C19_decode_source_is_model : forall u : surl, u_segments u <> Some [] -> gen_decode ext_model (enc_url u) = enc_result (enc_url u) (decode u).
Proof. exact decode_source_is_model. Qed.

(* non-vacuity: a URL with everything in it *)
Example C19_example :
  open_plan {| u_scheme := s_amqps; u_user := [117; 37; 52; 48]; u_pass := None; u_host := Some [104];
               u_port := None; u_segments := Some [[97; 37; 50; 70; 98]];
               u_query := [(k_heartbeat, [49; 48]); (k_heartbeat, [43; 50; 48])] |} false
  = PConnect true [104] 5671 {| v_vhost := [97; 47; 98]; v_auth := UPlain [117; 64] s_guest;
                                v_heartbeat := 20; v_channel_max := 0; v_timeout := None |}.
Proof. vm_compute. reflexivity. Qed.

Check C19_percent_roundtrip : forall s : list N, Forall (fun c : N => c < 256) s -> percent_decode (percent_encode s) = s.
Check C19_percent_plain : forall s : list N, ~ In 37 s -> percent_decode s = s.
Check C19_first_error : forall (good : list (str * str)) (bad : str * str) (rest : list (str * str)) (o : uopts) (e : uerr), Forall (fun kv : str * str => pair_error kv = None) good -> pair_error bad = Some e -> query_fold o (good ++ bad :: rest) = inr e.
Check C19_all_good : forall (q : list (str * str)) (o : uopts), Forall (fun kv : str * str => pair_error kv = None) q -> exists o' : uopts, query_fold o q = inl o'.
Check C19_heartbeat_last : forall (q1 : list (str * str)) (v : str) (q2 : list (str * str)) (o o' : uopts), query_fold o (q1 ++ (k_heartbeat, v) :: q2) = inl o' -> ~ has_key k_heartbeat q2 -> parse_uint 65535 v = Some (v_heartbeat o').
Check C19_heartbeat_default : forall (q : list (str * str)) (o o' : uopts), query_fold o q = inl o' -> ~ has_key k_heartbeat q -> v_heartbeat o' = v_heartbeat o.
Check C19_external : forall (q : list (str * str)) (o o' : uopts), query_fold o q = inl o' -> (exists v : str, In (k_auth, v) q) -> v_auth o' = UExternal.
Check C19_extra_segments : forall (u : surl) (v w : str) (more : list str), u_segments u = Some (v :: w :: more) -> decode u = inr UeExtraPath.
Check C19_vhost_default : forall (u : surl) (o : uopts), u_segments u = None \/ u_segments u = Some [[]] -> decode u = inl o -> v_vhost o = s_slash.
Check C19_host_port : forall u : surl, (u_host u = None \/ u_host u = Some [] -> host_of u = s_localhost) /\ (u_scheme u = s_amqp -> scheme_port u = inl (false, match u_port u with | Some p => p | None => 5672 end)) /\ (u_scheme u = s_amqps -> scheme_port u = inl (true, match u_port u with | Some p => p | None => 5671 end)) /\ (u_scheme u <> s_amqp -> u_scheme u <> s_amqps -> scheme_port u = inr UeInvalidScheme).
Check C19_userinfo : forall (u : surl) (o : uopts), u_segments u = None -> u_query u = [] -> decode u = inl o -> v_auth o = match u_user u with | [] => match u_pass u with | Some p => UPlain s_guest (percent_decode p) | None => UPlain s_guest s_guest end | n :: l => let usr := n :: l in match u_pass u with | Some p => UPlain (percent_decode usr) (percent_decode p) | None => UPlain (percent_decode usr) s_guest end end.
Check C19_secure_gate : forall u : surl, u_scheme u = s_amqp -> exists e : uerr, open_plan u false = PFail e.
Check C19_secure_gate_insecure : forall (u : surl) (o : uopts), u_scheme u = s_amqp -> decode u = inl o -> open_plan u false = PFail UeInsecure.
Check C19_populate_source_is_model : forall (scheme : str) (host : option str) (port : option N), let u := mk scheme host port in gen_populate_host_and_port UrlSrc.ext_model ext_st_model (UrlSrc.enc_url scheme host port) = match scheme_port u with | inl (secure, p) => (UrlSrc.enc_url scheme (Some (host_of u)) (Some p), VC "Ok" [VC (if secure then "Scheme::Amqps" else "Scheme::Amqp") []]) | inr _ => (UrlSrc.enc_url scheme (Some (host_of u)) port, VC "Err" [VC "Error::InvalidUrlScheme" [UrlSrc.enc_url scheme (Some (host_of u)) port]]) end.
Check C19_decode_source_is_model : forall u : surl, u_segments u <> Some [] -> gen_decode ext_model (enc_url u) = enc_result (enc_url u) (decode u).

Print Assumptions C19_percent_roundtrip.
Print Assumptions C19_percent_plain.
Print Assumptions C19_first_error.
Print Assumptions C19_all_good.
Print Assumptions C19_heartbeat_last.
Print Assumptions C19_heartbeat_default.
Print Assumptions C19_external.
Print Assumptions C19_extra_segments.
Print Assumptions C19_vhost_default.
Print Assumptions C19_host_port.
Print Assumptions C19_userinfo.
Print Assumptions C19_secure_gate.
Print Assumptions C19_secure_gate_insecure.
Print Assumptions C19_populate_source_is_model.
Print Assumptions C19_decode_source_is_model.
Print Assumptions C19_example.
