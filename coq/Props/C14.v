(* C14 — ConfirmSmoother emits every tag once, in order, with its true outcome.
   This file only pins statements: Theorem / exact / Check / Print Assumptions. *)
From Amq Require Import Lib.Base Model.Confirm Spec.Confirm Proofs.Confirm.

(* Exact half.  h is ANY history without two single confirmations of one tag
   (this includes every history "in which each tag is confirmed once"); since every
   prefix of such a history is one, the statement holds after every prefix:
   outputs so far = the maximal run e0, e0+1, ... of covered tags, each once, in
   order, non-multiple, each with the outcome of the confirmation that FIRST covered
   it - emitted as soon as everything up to it is covered, never before - and no
   entry at or below `expected` is left in the out-of-order map. *)
Theorem C14_exact : forall e0 h,
  singles_distinct h ->
  exists outs p, run_all (new_smoother e0) h = (outs, p) /\
    spec_ok e0 h outs /\
    expected p = e0 + N.of_nat (length outs) /\
    (forall t, t <= expected p -> alookup t (ooo p) = None).
Proof. exact smoother_exact. Qed.

(* Safety half, arbitrary histories. *)
Theorem C14_safety : forall e0 h,
  exists outs p, run_all (new_smoother e0) h = (outs, p) /\
    safe_ok e0 h outs /\ expected p = e0 + N.of_nat (length outs).
Proof. exact smoother_safe. Qed.

(* Early drop: after any valid history, taking only k items of the next iterator
   and dropping it yields the first k items of the full output, leaves exactly the
   state a full traversal leaves, and the Drop loop terminates. *)
Theorem C14_drop : forall e0 h r k,
  singles_distinct (h ++ [r]) ->
  let p := snd (run_all (new_smoother e0) h) in
  process_k p r k = (firstn k (fst (process p r)), snd (process p r), true).
Proof.
  intros e0 h r k Hsd p.
  apply singles_distinct_snoc in Hsd as [Hsd Hnd].
  destruct (run_all_exact e0 Hsd) as (outs & p0 & Hrun & Hinv).
  subst p. rewrite Hrun. simpl.
  destruct (process_k_drop k Hinv Hnd) as (os & p' & Hp & Hk).
  rewrite Hp. exact Hk.
Qed.

(* The unbounded arithmetic of the model never leaves u64 as long as every tag is
   below u64::MAX: `expected += 1` in the code cannot overflow. *)
Theorem C14_no_overflow : forall e0 h,
  singles_distinct h -> tags_below u64_max h -> e0 <= u64_max ->
  expected (snd (run_all (new_smoother e0) h)) <= u64_max.
Proof.
  intros e0 h Hsd Htb He0.
  destruct (smoother_exact e0 Hsd) as (outs & p & Hrun & Hs & He & _).
  rewrite Hrun. simpl. rewrite He. eapply spec_ok_bound; eauto.
Qed.

(* non-vacuity: a concrete history with a stored nack covered by a later multiple ack
   meets the hypotheses and yields A1 A2 N3 A4 A5 *)
Example C14_example :
  let h := [ {| r_tag := 3; r_multiple := false; r_ack := false |};
             {| r_tag := 5; r_multiple := true; r_ack := true |} ] in
  singles_distinct h /\ tags_below u64_max h /\
  fst (run_all (new_smoother 1) h) =
    [to_confirm true 1; to_confirm true 2; to_confirm false 3;
     to_confirm true 4; to_confirm true 5].
Proof.
  split; [|split].
  - unfold singles_distinct; simpl. repeat constructor; simpl; tauto.
  - intros r [<-|[<-|[]]]; reflexivity.
  - vm_compute. reflexivity.
Qed.

Check C14_exact : forall e0 h,
  singles_distinct h ->
  exists outs p, run_all (new_smoother e0) h = (outs, p) /\
    spec_ok e0 h outs /\
    expected p = e0 + N.of_nat (length outs) /\
    (forall t, t <= expected p -> alookup t (ooo p) = None).
Check C14_safety : forall e0 h,
  exists outs p, run_all (new_smoother e0) h = (outs, p) /\
    safe_ok e0 h outs /\ expected p = e0 + N.of_nat (length outs).
Check C14_drop : forall e0 h r k,
  singles_distinct (h ++ [r]) ->
  let p := snd (run_all (new_smoother e0) h) in
  process_k p r k = (firstn k (fst (process p r)), snd (process p r), true).
Check C14_no_overflow : forall e0 h,
  singles_distinct h -> tags_below u64_max h -> e0 <= u64_max ->
  expected (snd (run_all (new_smoother e0) h)) <= u64_max.

Print Assumptions C14_exact.
Print Assumptions C14_safety.
Print Assumptions C14_drop.
Print Assumptions C14_no_overflow.
Print Assumptions C14_example.
