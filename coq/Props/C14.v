(* C14 — ConfirmSmoother emits every tag once, in order, with its true outcome.
   This file only pins statements: Theorem / exact / Check / Print Assumptions. *)
From Amq Require Import Lib.RsVal Gen.SrcConfirm Proofs.ConfirmSrc.
From Amq Require Import Lib.Base Model.Confirm Spec.Confirm Proofs.Confirm.

(* Exact half.  h is ANY history without two single confirmations of one tag
   (this includes every history "in which each tag is confirmed once"); since every
   prefix of such a history is one, the statement holds after every prefix:
   outputs so far = the maximal run e0, e0+1, ... of covered tags, each once, in
   order, non-multiple, each with the outcome of the confirmation that FIRST covered
   it - emitted as soon as everything up to it is covered, never before - and no
   entry at or below `expected` is left in the out-of-order map. *)
Theorem C14_exact : forall e0 h,
  singles_distinct h ->
  exists outs p, run_all (new_smoother e0) h = (outs, p) /\
    spec_ok e0 h outs /\
    expected p = e0 + N.of_nat (length outs) /\
    (forall t, t <= expected p -> alookup t (ooo p) = None).
Proof. exact smoother_exact. Qed.

(* Safety half, arbitrary histories. *)
Theorem C14_safety : forall e0 h,
  exists outs p, run_all (new_smoother e0) h = (outs, p) /\
    safe_ok e0 h outs /\ expected p = e0 + N.of_nat (length outs).
Proof. exact smoother_safe. Qed.

(* Early drop: after any valid history, taking only k items of the next iterator
   and dropping it yields the first k items of the full output, leaves exactly the
   state a full traversal leaves, and the Drop loop terminates. *)
Theorem C14_drop : forall e0 h r k,
  singles_distinct (h ++ [r]) ->
  let p := snd (run_all (new_smoother e0) h) in
  process_k p r k = (firstn k (fst (process p r)), snd (process p r), true).
Proof.
  intros e0 h r k Hsd p.
  apply singles_distinct_snoc in Hsd as [Hsd Hnd].
  destruct (run_all_exact e0 Hsd) as (outs & p0 & Hrun & Hinv).
  subst p. rewrite Hrun. simpl.
  destruct (process_k_drop k Hinv Hnd) as (os & p' & Hp & Hk).
  rewrite Hp. exact Hk.
Qed.

(* The unbounded arithmetic of the model never leaves u64 as long as every tag is
   below u64::MAX: `expected += 1` in the code cannot overflow. *)
Theorem C14_no_overflow : forall e0 h,
  singles_distinct h -> tags_below u64_max h -> e0 <= u64_max ->
  expected (snd (run_all (new_smoother e0) h)) <= u64_max.
Proof.
  intros e0 h Hsd Htb He0.
  destruct (smoother_exact e0 Hsd) as (outs & p & Hrun & Hs & He & _).
  rewrite Hrun. simpl. rewrite He. eapply spec_ok_bound; eauto.
Qed.

(* non-vacuity: a concrete history with a stored nack covered by a later multiple ack
   meets the hypotheses and yields A1 A2 N3 A4 A5 *)
Example C14_example :
  let h := [ {| r_tag := 3; r_multiple := false; r_ack := false |};
             {| r_tag := 5; r_multiple := true; r_ack := true |} ] in
  singles_distinct h /\ tags_below u64_max h /\
  fst (run_all (new_smoother 1) h) =
    [to_confirm true 1; to_confirm true 2; to_confirm false 3;
     to_confirm true 4; to_confirm true 5].
Proof.
  split; [|split].
  - unfold singles_distinct; simpl. repeat constructor; simpl; tauto.
  - intros r [<-|[<-|[]]]; reflexivity.
  - vm_compute. reflexivity.
Qed.

(* THE MODEL IS THE SOURCE (src/confirm.rs as translated from the source text on every run: Gen/SrcConfirm.v,
   tools/rs2sm.py).  ConfirmSmoother::process / new_iter build the iterator the model starts from: payload,
   nothing pending, not done, the closure that makes an Ack or a Nack as the raw confirmation was. *)
Theorem C14_process_source_is_model : forall (p : smoother) (r : raw), gen_ConfirmSmoother_process (enc_smoother p) (enc_raw r) = (enc_smoother p, enc_self p (new_iter r)).
Proof. exact process_source_is_model. Qed.

(* Iter::next as translated is the model's `next` - the function C14_exact / C14_safety / C14_drop are about -
   for EVERY smoother state (expected tag, out-of-order map), iterator state and payload: what is yielded, the
   smoother afterwards, the iterator afterwards.  ext_st_model is HashMap::remove / insert on the out_of_order
   field, ext_model the closure to_confirm. *)
Theorem C14_next_source_is_model : forall (p : smoother) (it : iter), gen_Iter_next ext_model ext_st_model (enc_self p it) = (let '(o, p', it') := next p it in (enc_self p' it', enc_opt o)).
Proof. exact next_source_is_model. Qed.

(* impl Drop for Iter as translated (`while !self.done { let _ = self.next(); }`, a recursive function on fuel)
   is the model's drop_iter whenever that runs the iterator to its end. *)
Theorem C14_drop_source_is_model : forall (fuel : nat) (p : smoother) (it : iter), it_done (snd (drop_iter fuel p it)) = true -> gen_Iter_drop ext_model ext_st_model (S fuel) (enc_self p it) = (enc_self (fst (drop_iter fuel p it)) (snd (drop_iter fuel p it)), VC "()" []).
Proof. exact drop_source_is_model. Qed.

(* One raw confirmation consumed completely by the translated code (process, then next until None, then drop - as
   `for c in smoother.process(raw)` runs it), in any state the smoother can be in after a valid history: what comes out
   and the smoother afterwards are the model's. *)
Theorem C14_process_call_source_is_model : forall (e0 : N) (h : list raw) (r : raw) (outs : list out) (p : smoother), Inv e0 h outs p -> (r_multiple r = false -> forall r' : raw, In r' h -> r_multiple r' = false -> r_tag r' <> r_tag r) -> gprocess (gfuel (enc_smoother p) (enc_raw r)) (enc_smoother p) (enc_raw r) = (map enc_out (fst (process p r)), enc_smoother (snd (process p r))).
Proof. exact process_call_source_is_model. Qed.

(* C14 AS A THEOREM ABOUT THE TRANSLATED CODE: after EVERY valid history of raw confirmations the translated smoother
   (Gen/SrcConfirm.v) has emitted exactly what the model emits - hence, by C14_exact, the maximal run of covered tags,
   each once, in order, non-multiple, with the outcome of its first cover - and is in the model's state. *)
Theorem C14_run_all_source_is_model : forall (e0 : N) (h : list raw), singles_distinct h -> grun_all (enc_smoother (new_smoother e0)) h = (map enc_out (fst (run_all (new_smoother e0) h)), enc_smoother (snd (run_all (new_smoother e0) h))).
Proof. exact run_all_source_is_model. Qed.

Check C14_exact : forall e0 h,
  singles_distinct h ->
  exists outs p, run_all (new_smoother e0) h = (outs, p) /\
    spec_ok e0 h outs /\
    expected p = e0 + N.of_nat (length outs) /\
    (forall t, t <= expected p -> alookup t (ooo p) = None).
Check C14_safety : forall e0 h,
  exists outs p, run_all (new_smoother e0) h = (outs, p) /\
    safe_ok e0 h outs /\ expected p = e0 + N.of_nat (length outs).
Check C14_drop : forall e0 h r k,
  singles_distinct (h ++ [r]) ->
  let p := snd (run_all (new_smoother e0) h) in
  process_k p r k = (firstn k (fst (process p r)), snd (process p r), true).
Check C14_no_overflow : forall e0 h,
  singles_distinct h -> tags_below u64_max h -> e0 <= u64_max ->
  expected (snd (run_all (new_smoother e0) h)) <= u64_max.

Check C14_process_source_is_model : forall (p : smoother) (r : raw), gen_ConfirmSmoother_process (enc_smoother p) (enc_raw r) = (enc_smoother p, enc_self p (new_iter r)).
Check C14_next_source_is_model : forall (p : smoother) (it : iter), gen_Iter_next ext_model ext_st_model (enc_self p it) = (let '(o, p', it') := next p it in (enc_self p' it', enc_opt o)).
Check C14_drop_source_is_model : forall (fuel : nat) (p : smoother) (it : iter), it_done (snd (drop_iter fuel p it)) = true -> gen_Iter_drop ext_model ext_st_model (S fuel) (enc_self p it) = (enc_self (fst (drop_iter fuel p it)) (snd (drop_iter fuel p it)), VC "()" []).

Check C14_process_call_source_is_model : forall (e0 : N) (h : list raw) (r : raw) (outs : list out) (p : smoother), Inv e0 h outs p -> (r_multiple r = false -> forall r' : raw, In r' h -> r_multiple r' = false -> r_tag r' <> r_tag r) -> gprocess (gfuel (enc_smoother p) (enc_raw r)) (enc_smoother p) (enc_raw r) = (map enc_out (fst (process p r)), enc_smoother (snd (process p r))).
Check C14_run_all_source_is_model : forall (e0 : N) (h : list raw), singles_distinct h -> grun_all (enc_smoother (new_smoother e0)) h = (map enc_out (fst (run_all (new_smoother e0) h)), enc_smoother (snd (run_all (new_smoother e0) h))).

Print Assumptions C14_exact.
Print Assumptions C14_safety.
Print Assumptions C14_drop.
Print Assumptions C14_no_overflow.
Print Assumptions C14_example.
Print Assumptions C14_process_source_is_model.
Print Assumptions C14_next_source_is_model.
Print Assumptions C14_drop_source_is_model.
Print Assumptions C14_process_call_source_is_model.
Print Assumptions C14_run_all_source_is_model.
