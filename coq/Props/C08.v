(* C08 - connection close handshake.
   This file only pins statements. *)
From Amq Require Import Lib.Base Gen.Consts Model.Wire Model.Frames Model.OutBuf Model.Collector Model.Slots Model.Core Spec.Slots Spec.Content Proofs.Slots Proofs.OutBuf Proofs.Collector Proofs.CoreContent Proofs.CoreInv Proofs.CoreMore Check.Core Proofs.Examples Model.Close Proofs.Close Lib.RsResult Gen.SrcSeal Proofs.OutBufSrc Lib.RsVal Gen.SrcWrite Proofs.WriteSrc Gen.SrcClose Proofs.CloseSrc.

(* the client's Connection.Close is appended behind everything queued before and the buffer is sealed in the same step *)
Theorem C08_client_close : forall (buf : bytes) (c : core), ob_sealed (c_out c) = false -> channel_message 0 (MsgConnClose buf) c = (OOk, seal (push_out c buf)) /\ ob (c_out (seal (push_out c buf))) = (ob (c_out c) ++ buf)%list /\ ob_sealed (c_out (seal (push_out c buf))) = true.
Proof. exact client_close_seals. Qed.

(* once sealed, whatever a handle submits - data or a second close - is dropped: the state does not change at all *)
Theorem C08_sealed_drops : forall (n : N) (buf : bytes) (c : core), ob_sealed (c_out c) = true -> channel_message n (MsgSend buf) c = (OOk, c) /\ channel_message n (MsgConnClose buf) c = (OOk, c).
Proof. exact sealed_drops_sends. Qed.

(* appends go to the end of the buffer, and nowhere once it is sealed *)
Theorem C08_append_spec : forall (o : outbuf) (bs : bytes), ob (ob_append o bs) = (if ob_sealed o then ob o else (ob o ++ bs)%list) /\ ob_sealed (ob_append o bs) = ob_sealed o.
Proof. exact append_spec. Qed.

(* the write loop: bytes written followed by bytes kept = bytes buffered, seal flag untouched, for every transport behaviour *)
Theorem C08_write_conserves : forall (o : outbuf) (oracle : list wr) (w : bytes) (r : wres) (o' : outbuf) (rest : list wr), write_to_stream o oracle = (w, r, o', rest) -> ob_sealed o' = ob_sealed o /\ match r with | WOk => (w ++ ob o')%list = ob o | WIoErr => ob o' = ob o /\ (exists k : nat, w = firstn k (ob o)) | WStuck => True end.
Proof. exact write_conserves. Qed.

(* the server's Connection.Close, for every code and text, whatever the notifications lead to: CloseOk is queued behind everything queued before, the buffer is sealed, the phase records code and text, every slot is gone, the channel-0 sources are gone *)
Theorem C08_server_close : forall (code : N) (text dbg : str) (c : core) (o : outcome) (c' : core), steady c -> ob_sealed (c_out c) = false -> process c (FMethod 0 (MConnClose code text), dbg) = (o, c') -> c_phase c' = PServerClosing code text /\ ob (c_out c') = (ob (c_out c) ++ ser_conn_close_ok)%list /\ ob_sealed (c_out c') = true /\ c_slots c' = [] /\ c_ch0 c' = None.
Proof. exact server_close_effect. Qed.

(* after a server close (or a client exception) the loop ends exactly when the buffer has been flushed *)
Theorem C08_done : forall c : core, (exists (code : N) (text : str), c_phase c = PServerClosing code text) \/ c_phase c = PClientException -> ob_sealed (c_out c) = true -> (is_done c = DDone <-> ob (c_out c) = []) /\ (ob (c_out c) <> [] -> is_done c = DNotDone).
Proof. exact done_after_close. Qed.

(* the results reported *)
Theorem C08_results : forall c : core, (forall (code : N) (text : str), c_phase c = PServerClosing code text -> final_result c = OErr (EServerClosedConnection code text)) /\ (c_phase c = PClientException -> final_result c = OErr EClientException) /\ (c_phase c = PClientClosed -> final_result c = OOk /\ is_done c = DDone).
Proof. exact final_results. Qed.

(* once the server's CloseOk has put the thread into ClientClosed, the read event ends with Ok whatever follows in the same read - end of stream, an I/O error, garbage - so Connection::close returns Ok whether or not the server closes the socket right after *)
Theorem C08_close_ok_then_anything : forall (c : core) (fs : list dframe) (t : rterm) (o2 : outcome) (c2 : core), process_all c fs = (o2, c2) -> c_phase c2 = PClientClosed -> (forall site : N, o2 <> OPanic site) -> handle_event c (EvStream None (Some (fs, t))) = (OOk, c2, []).
Proof. exact close_ok_then_anything. Qed.

(* the caller's side of Connection::close (close_impl, Model/Close.v): whatever the close request on channel 0 itself returned (Ok, EventLoopDropped because the slot was dropped, the verdict left in the reply queue), an error the I/O thread ended with is what close() returns - the root cause, not a consequence of it *)
Theorem C08_close_reports_root_cause : forall (req : req_res) (e : N), fst (close_impl true req (IoErr e)) = CErr e.
Proof. exact close_reports_root_cause. Qed.

(* close() returns Ok exactly when the I/O thread ended cleanly (the close handshake completed) and the close request was answered *)
Theorem C08_close_ok_iff : forall (req : req_res) (io : io_end), fst (close_impl true req io) = COk <-> io = IoOk /\ req = ReqOk.
Proof. exact close_ok_iff. Qed.

(* THE SEAL RULE IS THE SOURCE'S: SealableOutputBuffer::append / push_method / push_heartbeat / seal (src/serialize.rs) are translated into coq/Gen/Src.v on every run by tools/rs2v.py; each of the three hands its argument to the inner buffer exactly when the buffer is not sealed, seal sets the flag - and the model's ob_append / ob_seal follow the same rule: 'nothing submitted after the close point is ever written' rests on this guard, and a change to any of the four functions changes Gen/Src.v and this obligation *)
Theorem C08_seal_source_is_model : forall (o : outbuf) (bs : bytes) (ch : N), gen_SealableOutputBuffer_append (b2n (ob_sealed o)) = RsOk "SealableOutputBuffer_append" [("self.buf.append#called", b2n (negb (ob_sealed o)))] /\ gen_SealableOutputBuffer_push_method (b2n (ob_sealed o)) ch = RsOk "SealableOutputBuffer_push_method" [("self.buf.push_method#called", b2n (negb (ob_sealed o)))] /\ gen_SealableOutputBuffer_push_heartbeat (b2n (ob_sealed o)) = RsOk "SealableOutputBuffer_push_heartbeat" [("self.buf.push_heartbeat#called", b2n (negb (ob_sealed o)))] /\ gen_SealableOutputBuffer_seal = RsOk "SealableOutputBuffer_seal" [("self.sealed:=", 1)] /\ ob (ob_append o bs) = (if negb (ob_sealed o) then (ob o ++ bs)%list else ob o) /\ ob_sealed (ob_append o bs) = ob_sealed o /\ ob_sealed (ob_seal o) = true /\ ob (ob_seal o) = ob o.
Proof. exact seal_source_is_model. Qed.

(* ... and the write loop that flushes the sealed buffer is, as translated from the source on every run (Gen/SrcWrite.v), the model's write_to_stream: what is written plus what stays buffered is what was buffered (seed C01h made drain_written refuse once sealed: the translated loop is unchanged there, the correspondence finds it) *)
Theorem C08_write_source_is_model : forall (stream : val) (o : outbuf) (oracle : list wr) (wire : bytes), snd (fst (fst (write_to_stream o oracle))) <> WStuck -> gen_Inner_write_to_stream ext_model WriteSrc.ext_st_model (S (Datatypes.length oracle)) (WriteSrc.enc_self (ob o) oracle wire) stream = (let '(ws, r, o', rest) := write_to_stream o oracle in (WriteSrc.enc_self (ob o') rest (wire ++ ws)%list, enc_wres r)).
Proof. exact write_source_is_model. Qed.

(* ... and the translated write loop conserves the stream: with a sealed buffer, bytes written + bytes buffered never changes *)
Theorem C08_write_source_conserves : forall (stream : val) (o : outbuf) (oracle : list wr) (wire : bytes), snd (fst (fst (write_to_stream o oracle))) <> WStuck -> exists (ws : list N) (buf' : bytes) (rest : list wr) (r : wres), gen_Inner_write_to_stream ext_model WriteSrc.ext_st_model (S (Datatypes.length oracle)) (WriteSrc.enc_self (ob o) oracle wire) stream = (WriteSrc.enc_self buf' rest (wire ++ ws)%list, enc_wres r) /\ match r with | WOk => ((wire ++ ws) ++ buf')%list = (wire ++ ob o)%list | WIoErr => buf' = ob o /\ (exists k : nat, ws = firstn k (ob o)) | WStuck => False end.
Proof. exact write_source_conserves. Qed.

(* ... and the translated Connection::close_impl is the model's: the request first, then the join, the thread's verdict first *)
Theorem C08_close_source_is_model : forall (have : bool) (req : req_res) (io : io_end), gen_Connection_close_impl (ext_st_model req io) (enc_self have false) = (enc_self false (snd (close_impl have req io)), enc_res (fst (close_impl have req io))).
Proof. exact close_source_is_model. Qed.

(* non-vacuity: a client close in a reachable state - the Close is queued and seals the buffer,
   the server's CloseOk completes it: ClientClosed, done, result Ok, every queue told *)
Example C08_example :
  let c1 := snd (channel_message 0 (MsgConnClose [1; 2; 3]) ex_two_channels) in
  let '(o, c2) := process c1 (FMethod 0 MConnCloseOk, []) in
  (ob_sealed (c_out c1), o, is_done c2, final_result c2) = (true, OOk, DDone, OOk) /\
  map fst (c_slots c2) = [].
Proof. vm_compute. repeat split. Qed.

Check C08_client_close : forall (buf : bytes) (c : core), ob_sealed (c_out c) = false -> channel_message 0 (MsgConnClose buf) c = (OOk, seal (push_out c buf)) /\ ob (c_out (seal (push_out c buf))) = (ob (c_out c) ++ buf)%list /\ ob_sealed (c_out (seal (push_out c buf))) = true.
Check C08_sealed_drops : forall (n : N) (buf : bytes) (c : core), ob_sealed (c_out c) = true -> channel_message n (MsgSend buf) c = (OOk, c) /\ channel_message n (MsgConnClose buf) c = (OOk, c).
Check C08_append_spec : forall (o : outbuf) (bs : bytes), ob (ob_append o bs) = (if ob_sealed o then ob o else (ob o ++ bs)%list) /\ ob_sealed (ob_append o bs) = ob_sealed o.
Check C08_write_conserves : forall (o : outbuf) (oracle : list wr) (w : bytes) (r : wres) (o' : outbuf) (rest : list wr), write_to_stream o oracle = (w, r, o', rest) -> ob_sealed o' = ob_sealed o /\ match r with | WOk => (w ++ ob o')%list = ob o | WIoErr => ob o' = ob o /\ (exists k : nat, w = firstn k (ob o)) | WStuck => True end.
Check C08_server_close : forall (code : N) (text dbg : str) (c : core) (o : outcome) (c' : core), steady c -> ob_sealed (c_out c) = false -> process c (FMethod 0 (MConnClose code text), dbg) = (o, c') -> c_phase c' = PServerClosing code text /\ ob (c_out c') = (ob (c_out c) ++ ser_conn_close_ok)%list /\ ob_sealed (c_out c') = true /\ c_slots c' = [] /\ c_ch0 c' = None.
Check C08_done : forall c : core, (exists (code : N) (text : str), c_phase c = PServerClosing code text) \/ c_phase c = PClientException -> ob_sealed (c_out c) = true -> (is_done c = DDone <-> ob (c_out c) = []) /\ (ob (c_out c) <> [] -> is_done c = DNotDone).
Check C08_results : forall c : core, (forall (code : N) (text : str), c_phase c = PServerClosing code text -> final_result c = OErr (EServerClosedConnection code text)) /\ (c_phase c = PClientException -> final_result c = OErr EClientException) /\ (c_phase c = PClientClosed -> final_result c = OOk /\ is_done c = DDone).
Check C08_close_ok_then_anything : forall (c : core) (fs : list dframe) (t : rterm) (o2 : outcome) (c2 : core), process_all c fs = (o2, c2) -> c_phase c2 = PClientClosed -> (forall site : N, o2 <> OPanic site) -> handle_event c (EvStream None (Some (fs, t))) = (OOk, c2, []).
Check C08_close_reports_root_cause : forall (req : req_res) (e : N), fst (close_impl true req (IoErr e)) = CErr e.
Check C08_close_ok_iff : forall (req : req_res) (io : io_end), fst (close_impl true req io) = COk <-> io = IoOk /\ req = ReqOk.
Check C08_seal_source_is_model : forall (o : outbuf) (bs : bytes) (ch : N), gen_SealableOutputBuffer_append (b2n (ob_sealed o)) = RsOk "SealableOutputBuffer_append" [("self.buf.append#called", b2n (negb (ob_sealed o)))] /\ gen_SealableOutputBuffer_push_method (b2n (ob_sealed o)) ch = RsOk "SealableOutputBuffer_push_method" [("self.buf.push_method#called", b2n (negb (ob_sealed o)))] /\ gen_SealableOutputBuffer_push_heartbeat (b2n (ob_sealed o)) = RsOk "SealableOutputBuffer_push_heartbeat" [("self.buf.push_heartbeat#called", b2n (negb (ob_sealed o)))] /\ gen_SealableOutputBuffer_seal = RsOk "SealableOutputBuffer_seal" [("self.sealed:=", 1)] /\ ob (ob_append o bs) = (if negb (ob_sealed o) then (ob o ++ bs)%list else ob o) /\ ob_sealed (ob_append o bs) = ob_sealed o /\ ob_sealed (ob_seal o) = true /\ ob (ob_seal o) = ob o.
Check C08_write_source_is_model : forall (stream : val) (o : outbuf) (oracle : list wr) (wire : bytes), snd (fst (fst (write_to_stream o oracle))) <> WStuck -> gen_Inner_write_to_stream ext_model WriteSrc.ext_st_model (S (Datatypes.length oracle)) (WriteSrc.enc_self (ob o) oracle wire) stream = (let '(ws, r, o', rest) := write_to_stream o oracle in (WriteSrc.enc_self (ob o') rest (wire ++ ws)%list, enc_wres r)).
Check C08_write_source_conserves : forall (stream : val) (o : outbuf) (oracle : list wr) (wire : bytes), snd (fst (fst (write_to_stream o oracle))) <> WStuck -> exists (ws : list N) (buf' : bytes) (rest : list wr) (r : wres), gen_Inner_write_to_stream ext_model WriteSrc.ext_st_model (S (Datatypes.length oracle)) (WriteSrc.enc_self (ob o) oracle wire) stream = (WriteSrc.enc_self buf' rest (wire ++ ws)%list, enc_wres r) /\ match r with | WOk => ((wire ++ ws) ++ buf')%list = (wire ++ ob o)%list | WIoErr => buf' = ob o /\ (exists k : nat, ws = firstn k (ob o)) | WStuck => False end.
Check C08_close_source_is_model : forall (have : bool) (req : req_res) (io : io_end), gen_Connection_close_impl (ext_st_model req io) (enc_self have false) = (enc_self false (snd (close_impl have req io)), enc_res (fst (close_impl have req io))).

Print Assumptions C08_client_close.
Print Assumptions C08_sealed_drops.
Print Assumptions C08_append_spec.
Print Assumptions C08_write_conserves.
Print Assumptions C08_server_close.
Print Assumptions C08_done.
Print Assumptions C08_results.
Print Assumptions C08_close_ok_then_anything.
Print Assumptions C08_close_reports_root_cause.
Print Assumptions C08_close_ok_iff.
Print Assumptions C08_seal_source_is_model.
Print Assumptions C08_write_source_is_model.
Print Assumptions C08_write_source_conserves.
Print Assumptions C08_close_source_is_model.
Print Assumptions C08_example.
