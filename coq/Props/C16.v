(* C16 - only a complete handshake yields a connection; failures name their cause.
   This file only pins statements. *)
From Amq Require Import Lib.RsVal Gen.SrcHandshake Proofs.HandshakeSrc Lib.Base Gen.Consts Model.Frames Model.Tune Model.Handshake Proofs.Handshake.

(* for EVERY server behaviour (any events, any frames, any cuts): if the attempt yields a connection then exactly StartOk (chosen mechanism, its response, locale, information), TuneOk (the negotiated values) and Open (virtual host) were sent, in this order and nothing else, and the heartbeat timers run with the announced interval *)
Theorem C16_connected_only_after_exchange : forall (o : hopts) (evs : list hevent) (tok : N * N * N) (sprops : N) (sent : list csend) (hb : option N), handshake o evs = (Connected tok sprops, sent, hb) -> sent = [start_ok_of o; tune_ok_of tok; SOpen (o_vhost o)] /\ hb = Some (snd tok).
Proof. exact connected_only_after_exchange. Qed.

(* in EVERY run, successful or not, what the client has queued is a prefix of StartOk, TuneOk, Open, CloseOk - each queued only in reaction to its trigger *)
Theorem C16_sent_prefix : forall (o : hopts) (evs : list hevent) (st : hstate) (sent : list csend) (hb : option N) (out : houtcome) (sent' : list csend) (hb' : option N), sent_inv o st sent hb -> hrun o st evs sent hb = (out, sent', hb') -> sent_shape o sent'.
Proof. exact sent_always_prefix. Qed.

(* mechanism not offered: UnsupportedAuthMechanism, nothing sent *)
Theorem C16_err_mechanism : forall (o : hopts) (mechs locs : str) (sp : N), server_supports mechs (o_mech o) = false -> hprocess o HsStart (HStart mechs locs sp) = hfail HsStart HeUnsupportedMech.
Proof. exact err_mechanism. Qed.

(* locale not offered: UnsupportedLocale, nothing sent *)
Theorem C16_err_locale : forall (o : hopts) (mechs locs : str) (sp : N), server_supports mechs (o_mech o) = true -> server_supports locs (o_locale o) = false -> hprocess o HsStart (HStart mechs locs sp) = hfail HsStart HeUnsupportedLocale.
Proof. exact err_locale. Qed.

(* a Secure challenge: SaslSecureNotSupported (not rewritten to InvalidCredentials) *)
Theorem C16_err_secure : forall (o : hopts) (sp : N) (evs : list hevent) (sent : list csend) (hb : option N), hrun o (HsSecure sp) (HRead [HSecure] HtBlock :: evs) sent hb = (Failed HeSaslSecure, sent, hb).
Proof. exact err_secure. Qed.

(* the socket dropped after StartOk without a reply: InvalidCredentials *)
Theorem C16_err_credentials : forall (o : hopts) (sp : N) (evs : list hevent) (sent : list csend) (hb : option N), hrun o (HsSecure sp) (HRead [] HtEof :: evs) sent hb = (Failed HeInvalidCredentials, sent, hb).
Proof. exact err_credentials. Qed.

(* silence after StartOk with a timeout configured: ConnectionTimeout (not InvalidCredentials) *)
Theorem C16_err_secure_timeout : forall (o : hopts) (sp : N) (evs : list hevent) (sent : list csend) (hb : option N), o_timeout o = true -> hrun o (HsSecure sp) (HSilence :: evs) sent hb = (Failed HeTimeout, sent, hb).
Proof. exact err_secure_timeout. Qed.

(* garbage after StartOk: MalformedFrame (not InvalidCredentials) *)
Theorem C16_err_secure_malformed : forall (o : hopts) (sp : N) (evs : list hevent) (sent : list csend) (hb : option N), hrun o (HsSecure sp) (HRead [] HtMalformed :: evs) sent hb = (Failed HeMalformed, sent, hb).
Proof. exact err_secure_malformed. Qed.

(* Close instead of OpenOk: CloseOk is sent, the buffer sealed, the error is ServerClosedConnection with the server's code and text *)
Theorem C16_err_server_close : forall (o : hopts) (tok : N * N * N) (sp code : N) (text : str) (evs : list hevent) (sent : list csend) (hb : option N), hrun o (HsOpen tok sp) (HRead [HClose code text] HtBlock :: evs) sent hb = (Failed (HeServerClosed code text), sent ++ [SCloseOk], hb) /\ r_seal (hprocess o (HsOpen tok sp) (HClose code text)) = true.
Proof. exact err_server_close. Qed.

(* negotiated frame_max below the minimum: FrameMaxTooSmall and NO TuneOk is sent (C15) *)
Theorem C16_err_frame_max : forall (o : hopts) (sp cm fm hb min req : N), make_tune_ok (o_cm o) (o_fm o) (o_hb o) cm fm hb = FrameMaxTooSmall min req -> hprocess o (HsTune sp) (HTune cm fm hb) = hfail (HsTune sp) HeFrameMaxTooSmall /\ hprocess o (HsSecure sp) (HTune cm fm hb) = hfail (HsTune sp) HeFrameMaxTooSmall.
Proof. exact err_frame_max. Qed.

(* an out-of-order frame, in every state: FrameUnexpected, nothing sent *)
Theorem C16_err_unexpected : forall (o : hopts) (st : hstate), r_err (hprocess o st HOther) = Some HeFrameUnexpected /\ r_sent (hprocess o st HOther) = [].
Proof. exact err_unexpected. Qed.

(* anything but a heartbeat after OpenOk / Close in the same read: FrameUnexpected *)
Theorem C16_err_after_done : forall (o : hopts) (st : hstate) (f : hframe), (exists (tok : N * N * N) (sp : N), st = HsDone tok sp) \/ (exists (c : N) (t : str), st = HsServerClosing c t) -> f <> HHeartbeat0 -> r_err (hprocess o st f) = Some HeFrameUnexpected.
Proof. exact err_after_done. Qed.

(* silence with a configured timeout, in every state: ConnectionTimeout *)
Theorem C16_err_timeout : forall (o : hopts) (st : hstate) (evs : list hevent) (sent : list csend) (hb : option N), o_timeout o = true -> hrun o st (HSilence :: evs) sent hb = (Failed HeTimeout, sent, hb).
Proof. exact err_timeout. Qed.

(* with a timeout configured the attempt never hangs, whatever the server does or does not do *)
Theorem C16_no_hang_with_timeout : forall (o : hopts) (evs : list hevent) (st : hstate) (sent : list csend) (hb : option N) (out : houtcome) (sent' : list csend) (hb' : option N), o_timeout o = true -> hrun o st evs sent hb = (out, sent', hb') -> out <> Hang.
Proof. exact no_hang_with_timeout. Qed.

(* without a timeout it hangs only if the server never does anything decisive: every read ends in would-block with the exchange incomplete *)
Theorem C16_hang_means_silence : forall (o : hopts) (evs : list hevent) (st : hstate) (sent : list csend) (hb : option N) (sent' : list csend) (hb' : option N), hrun o st evs sent hb = (Hang, sent', hb') -> Forall (fun ev : hevent => match ev with | HRead _ t => t = HtBlock | HSilence => True end) evs.
Proof. exact hang_means_silence. Qed.

(* the heartbeat timers are started with exactly the interval that the TuneOk sent in the same step announces (C15: 'then obeyed') *)
Theorem C16_heartbeat_as_announced : forall (o : hopts) (st : hstate) (f : hframe) (h : N), r_hb (hprocess o st f) = Some h -> exists cm fm : N, In (STuneOk cm fm h) (r_sent (hprocess o st f)).
Proof. exact heartbeat_started_as_announced. Qed.

(* THE MODEL IS THE SOURCE: HandshakeState::process of src/io_loop/handshake_state.rs as translated from the source text on every run (Gen/SrcHandshake.v, tools/rs2sm.py), applied to ANY handshake state and ANY frame, moves to the state, pushes the methods (in that order), seals the buffer, starts the heartbeat timers with the interval and returns the error that Model/Handshake.v's hprocess says - the function the handshake theorems are about. ext_model states what is assumed of the functions process calls and the translator does not cover: X::try_from(0, frame) accepts the method X on channel 0 and nothing else; make_start_ok / make_open as modelled (compared with the real ones by the handshake drivers); make_tune_ok is Model/Tune.v's (C15_source_is_model). Two units of fuel are enough (Secure re-dispatches to Tune once) *)
Theorem C16_process_source_is_model : forall (o : hopts) (eo : val) (st : hstate) (f : hframe) (log : list val) (fuel : nat), gen_HandshakeState_process (ext_model o eo) (S (S fuel)) (enc_state eo st) (VC "effects" log) (enc_frame f) = (enc_state eo (r_state (hprocess o st f)), VC "effects" (log ++ enc_effects o (hprocess o st f)), enc_result (hprocess o st f)).
Proof. exact process_source_is_model. Qed.

(* ... over ANY sequence of handshake frames from any state: the translated process, applied frame after frame until one fails (as the loop does with the frames of a read), ends in the model's state, has pushed the model's methods - and sealed, and started the heartbeats - in the model's order and returns the model's error; so C16_sent_prefix / C16_connected_only_after_exchange, stated of hprocess runs, hold of the translated code *)
Theorem C16_frames_source_is_model : forall (o : hopts) (eo : val) (fs : list hframe) (st : hstate) (log : list val), gframes o eo (enc_state eo st) (VC "effects" log) fs = (enc_state eo (run_state o st fs), VC "effects" (log ++ run_effects o st fs), run_result o st fs).
Proof. exact frames_source_is_model. Qed.

(* non-vacuity: the complete exchange with a RabbitMQ-like server *)
Example C16_example :
  let o := {| o_mech := [80; 76; 65; 73; 78]; o_response := [0; 103; 0; 103]; o_locale := [101; 110];
              o_vhost := [47]; o_info := None; o_cm := 0; o_fm := 0; o_hb := 60; o_timeout := false |} in
  handshake o [HRead [HStart [80; 76; 65; 73; 78; 32; 88] [101; 110] 7] HtBlock;
               HRead [HTune 2047 131072 30] HtBlock; HRead [HOpenOk] HtBlock]
  = (Connected (2047, 131072, 30) 7,
     [SStartOk [80; 76; 65; 73; 78] [0; 103; 0; 103] [101; 110] None; STuneOk 2047 131072 30; SOpen [47]],
     Some 30).
Proof. vm_compute. reflexivity. Qed.

Check C16_connected_only_after_exchange : forall (o : hopts) (evs : list hevent) (tok : N * N * N) (sprops : N) (sent : list csend) (hb : option N), handshake o evs = (Connected tok sprops, sent, hb) -> sent = [start_ok_of o; tune_ok_of tok; SOpen (o_vhost o)] /\ hb = Some (snd tok).
Check C16_sent_prefix : forall (o : hopts) (evs : list hevent) (st : hstate) (sent : list csend) (hb : option N) (out : houtcome) (sent' : list csend) (hb' : option N), sent_inv o st sent hb -> hrun o st evs sent hb = (out, sent', hb') -> sent_shape o sent'.
Check C16_err_mechanism : forall (o : hopts) (mechs locs : str) (sp : N), server_supports mechs (o_mech o) = false -> hprocess o HsStart (HStart mechs locs sp) = hfail HsStart HeUnsupportedMech.
Check C16_err_locale : forall (o : hopts) (mechs locs : str) (sp : N), server_supports mechs (o_mech o) = true -> server_supports locs (o_locale o) = false -> hprocess o HsStart (HStart mechs locs sp) = hfail HsStart HeUnsupportedLocale.
Check C16_err_secure : forall (o : hopts) (sp : N) (evs : list hevent) (sent : list csend) (hb : option N), hrun o (HsSecure sp) (HRead [HSecure] HtBlock :: evs) sent hb = (Failed HeSaslSecure, sent, hb).
Check C16_err_credentials : forall (o : hopts) (sp : N) (evs : list hevent) (sent : list csend) (hb : option N), hrun o (HsSecure sp) (HRead [] HtEof :: evs) sent hb = (Failed HeInvalidCredentials, sent, hb).
Check C16_err_secure_timeout : forall (o : hopts) (sp : N) (evs : list hevent) (sent : list csend) (hb : option N), o_timeout o = true -> hrun o (HsSecure sp) (HSilence :: evs) sent hb = (Failed HeTimeout, sent, hb).
Check C16_err_secure_malformed : forall (o : hopts) (sp : N) (evs : list hevent) (sent : list csend) (hb : option N), hrun o (HsSecure sp) (HRead [] HtMalformed :: evs) sent hb = (Failed HeMalformed, sent, hb).
Check C16_err_server_close : forall (o : hopts) (tok : N * N * N) (sp code : N) (text : str) (evs : list hevent) (sent : list csend) (hb : option N), hrun o (HsOpen tok sp) (HRead [HClose code text] HtBlock :: evs) sent hb = (Failed (HeServerClosed code text), sent ++ [SCloseOk], hb) /\ r_seal (hprocess o (HsOpen tok sp) (HClose code text)) = true.
Check C16_err_frame_max : forall (o : hopts) (sp cm fm hb min req : N), make_tune_ok (o_cm o) (o_fm o) (o_hb o) cm fm hb = FrameMaxTooSmall min req -> hprocess o (HsTune sp) (HTune cm fm hb) = hfail (HsTune sp) HeFrameMaxTooSmall /\ hprocess o (HsSecure sp) (HTune cm fm hb) = hfail (HsTune sp) HeFrameMaxTooSmall.
Check C16_err_unexpected : forall (o : hopts) (st : hstate), r_err (hprocess o st HOther) = Some HeFrameUnexpected /\ r_sent (hprocess o st HOther) = [].
Check C16_err_after_done : forall (o : hopts) (st : hstate) (f : hframe), (exists (tok : N * N * N) (sp : N), st = HsDone tok sp) \/ (exists (c : N) (t : str), st = HsServerClosing c t) -> f <> HHeartbeat0 -> r_err (hprocess o st f) = Some HeFrameUnexpected.
Check C16_err_timeout : forall (o : hopts) (st : hstate) (evs : list hevent) (sent : list csend) (hb : option N), o_timeout o = true -> hrun o st (HSilence :: evs) sent hb = (Failed HeTimeout, sent, hb).
Check C16_no_hang_with_timeout : forall (o : hopts) (evs : list hevent) (st : hstate) (sent : list csend) (hb : option N) (out : houtcome) (sent' : list csend) (hb' : option N), o_timeout o = true -> hrun o st evs sent hb = (out, sent', hb') -> out <> Hang.
Check C16_hang_means_silence : forall (o : hopts) (evs : list hevent) (st : hstate) (sent : list csend) (hb : option N) (sent' : list csend) (hb' : option N), hrun o st evs sent hb = (Hang, sent', hb') -> Forall (fun ev : hevent => match ev with | HRead _ t => t = HtBlock | HSilence => True end) evs.
Check C16_heartbeat_as_announced : forall (o : hopts) (st : hstate) (f : hframe) (h : N), r_hb (hprocess o st f) = Some h -> exists cm fm : N, In (STuneOk cm fm h) (r_sent (hprocess o st f)).
Check C16_process_source_is_model : forall (o : hopts) (eo : val) (st : hstate) (f : hframe) (log : list val) (fuel : nat), gen_HandshakeState_process (ext_model o eo) (S (S fuel)) (enc_state eo st) (VC "effects" log) (enc_frame f) = (enc_state eo (r_state (hprocess o st f)), VC "effects" (log ++ enc_effects o (hprocess o st f)), enc_result (hprocess o st f)).
Check C16_frames_source_is_model : forall (o : hopts) (eo : val) (fs : list hframe) (st : hstate) (log : list val), gframes o eo (enc_state eo st) (VC "effects" log) fs = (enc_state eo (run_state o st fs), VC "effects" (log ++ run_effects o st fs), run_result o st fs).

Print Assumptions C16_connected_only_after_exchange.
Print Assumptions C16_sent_prefix.
Print Assumptions C16_err_mechanism.
Print Assumptions C16_err_locale.
Print Assumptions C16_err_secure.
Print Assumptions C16_err_credentials.
Print Assumptions C16_err_secure_timeout.
Print Assumptions C16_err_secure_malformed.
Print Assumptions C16_err_server_close.
Print Assumptions C16_err_frame_max.
Print Assumptions C16_err_unexpected.
Print Assumptions C16_err_after_done.
Print Assumptions C16_err_timeout.
Print Assumptions C16_no_hang_with_timeout.
Print Assumptions C16_hang_means_silence.
Print Assumptions C16_heartbeat_as_announced.
Print Assumptions C16_process_source_is_model.
Print Assumptions C16_frames_source_is_model.
Print Assumptions C16_example.
