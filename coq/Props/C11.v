(* C11 - a consumer ends with exactly one terminal message and nothing after it.
   This file only pins statements. *)
From Amq Require Import Lib.Base Gen.Consts Model.Wire Model.Frames Model.OutBuf Model.Collector Model.Slots Model.Core Spec.Slots Spec.Content Proofs.Slots Proofs.OutBuf Proofs.Collector Proofs.CoreContent Proofs.CoreInv Proofs.CoreMore Model.CancelRace Proofs.CancelRace Check.Core Proofs.Examples Model.Consumer Proofs.Consumer Lib.RsVal Gen.SrcConsumer Proofs.ConsumerSrc.

(* CancelOk for tag: the caller gets the reply, the consumer's queue gets ClientCancelled appended (history = history ++ [ClientCancelled]), its sender is dropped in the same step, the tag leaves the table *)
Theorem C11_client_cancel : forall (n : N) (tag dbg : str) (c : core) (s : slot) (q : N), steady c -> n <> 0 -> alookup n (c_slots c) = Some s -> lookup_tag tag (s_consumers s) = Some q -> q <> s_reply s -> has_room (s_reply s) (c_qs c) -> receivable q (c_qs c) -> exists c' : core, process c (FMethod n (MCancelOk tag), dbg) = (OOk, c') /\ (exists s' : slot, alookup n (c_slots c') = Some s' /\ lookup_tag tag (s_consumers s') = None) /\ (exists qu qu' : queue, alookup q (c_qs c) = Some qu /\ alookup q (c_qs c') = Some qu' /\ q_hist qu' = (q_hist qu ++ [IClientCancelled])%list /\ q_tx qu' = false).
Proof. exact cancel_ok_effect. Qed.

(* server Cancel for tag: ServerCancelled appended, sender dropped, tag removed; CancelOk queued exactly when the server did not say nowait *)
Theorem C11_server_cancel : forall (n : N) (tag : str) (nowait : bool) (dbg : str) (c : core) (s : slot) (q : N), steady c -> n <> 0 -> alookup n (c_slots c) = Some s -> lookup_tag tag (s_consumers s) = Some q -> receivable q (c_qs c) -> exists c' : core, process c (FMethod n (MCancel tag nowait), dbg) = (OOk, c') /\ c_out c' = (if nowait then c_out c else ob_append (c_out c) (ser_cancel_ok n tag)) /\ (exists s' : slot, alookup n (c_slots c') = Some s' /\ lookup_tag tag (s_consumers s') = None) /\ (exists qu qu' : queue, alookup q (c_qs c) = Some qu /\ alookup q (c_qs c') = Some qu' /\ q_hist qu' = (q_hist qu ++ [IServerCancelled])%list /\ q_tx qu' = false).
Proof. exact server_cancel_effect. Qed.

(* once the tag is out of the table nothing can follow: a delivery for it is not delivered to anybody (UnknownConsumerTag) *)
Theorem C11_nothing_after : forall (n : N) (tag : str) (dtag : N) (red : bool) (exch rk : str) (props : N) (dbg : str) (c : core) (s : slot), steady c -> n <> 0 -> alookup n (c_slots c) = Some s -> s_coll s = CStart (CDeliver tag dtag red exch rk) -> lookup_tag tag (s_consumers s) = None -> fst (process c (FHeader n 0 props, dbg)) = OErr (EUnknownConsumerTag n tag).
Proof. exact unknown_tag_rejected. Qed.

(* while the tag is in the table, a delivery is appended to exactly that queue (C03) *)
Theorem C11_deliveries_in_order : forall (n : N) (c : core) (s : slot) (tag : str) (dtag : N) (red : bool) (exch rk : str) (props : N) (parts : list bytes) (q : N), steady c -> n <> 0 -> alookup n (c_slots c) = Some s -> s_coll s = CNone -> lookup_tag tag (s_consumers s) = Some q -> receivable q (c_qs c) -> valid_parts parts -> exists c' : core, process_all c (map (df n) (crender (CDeliver tag dtag red exch rk) props parts)) = (OOk, c') /\ upd n s (pushed q (IDelivery {| m_ch := n; m_dtag := dtag; m_redelivered := red; m_exch := exch; m_rk := rk; m_body := concat parts; m_props := props |}) (c_qs c)) c c'.
Proof. exact deliver_roundtrip. Qed.

(* no frame sequence panics the thread *)
Theorem C11_no_panic : forall (c : core) (f : dframe) (o : outcome) (c' : core), process c f = (o, c') -> WFs c -> (forall site : N, o <> OPanic site) /\ WFs c'.
Proof. exact process_WFs. Qed.

(* The one handler step that is not atomic with respect to a client thread: for a CancelOk (and likewise for the close arms) the I/O thread does two queue operations - the consumer's terminal message and the answer that releases the blocked caller - and the released caller (Consumer::drop) drops the consumer's receiver. With the notice first, under EVERY schedule of the two threads no send ever finds the receiver gone, and once the thread is done the consumer has its terminal message and the caller its answer *)
Theorem C11_notice_before_release : forall sched : list actor, let s := rrun (rinit order_now) sched in r_failed s = false /\ (r_todo s = [] -> r_notified s = true /\ r_reply_sent s = true).
Proof. exact notify_first_safe. Qed.

(* ... the caller is never released before the consumer has its terminal message *)
Theorem C11_released_after_notice : forall sched : list actor, let s := rrun (rinit order_now) sched in r_caller s <> Blocked -> r_notified s = true.
Proof. exact released_after_notice. Qed.

(* ... whereas the order the code had before the repair (answer first) has a schedule - I/O thread answers, caller wakes and drops the receiver, the notice finds it gone - that ends the I/O loop with EventLoopClientDropped: the witness replayed on the real code by the c11l2 driver (scheduling point 2) *)
Theorem C11_answer_first_refuted : exists sched : list actor, r_failed (rrun (rinit order_before) sched) = true.
Proof. exact reply_first_refuted. Qed.

(* the Consumer handle (Model/Consumer.v): over every non-empty sequence of cancel() calls and the final drop, exactly one Basic.Cancel is issued - by the first of them: cancelling twice sends nothing the second time, dropping a consumer cancels it, dropping a cancelled one sends nothing (c11l2 counts the Basic.Cancel frames the broker sees) *)
Theorem C11_cancel_issued_once : forall (o : cons_op) (ops : list cons_op), cons_run false (o :: ops) = 1.
Proof. exact cancel_issued_once. Qed.

(* THE MODEL IS THE SOURCE: Consumer::cancel of src/consumer.rs as translated from the source text on every run (Gen/SrcConsumer.v, tools/rs2sm.py; the `cancelled` flag is a Cell) is the model's cons_step - the consumer is marked cancelled BEFORE Basic.Cancel is issued, an already cancelled consumer issues nothing and returns Ok, otherwise exactly one Basic.Cancel is issued and its result returned *)
Theorem C11_cancel_source_is_model : forall (r : val) (b : bool) (k : N), gen_Consumer_cancel (ext_st_model r) (enc_self b k) = (enc_self (fst (cons_step b CnCancel)) (k + snd (cons_step b CnCancel)), if b then VC "Ok" [VC "()" []] else r).
Proof. exact cancel_source_is_model. Qed.

(* ... and impl Drop for Consumer is cancel() with the result ignored (seed C11g added a try_recv to cancel: outside the subset, the obligation breaks) *)
Theorem C11_drop_source_is_model : forall (r : val) (b : bool) (k : N), gen_Consumer_drop (ext_st_model r) (enc_self b k) = (enc_self (fst (cons_step b CnDrop)) (k + snd (cons_step b CnDrop)), VC "()" []).
Proof. exact drop_source_is_model. Qed.

(* non-vacuity of C11_cancel_ok_effect: the server confirms the cancel of consumer "t" on
   channel 1: the tag leaves the table, the consumer's queue ends with ClientCancelled and has
   no sender left, the caller has its CancelOk, consumer "u" on channel 2 is untouched *)
Example C11_example :
  let '(o, c) := process ex_two_channels (FMethod 1 (MCancelOk [116]), []) in
  (o, map (fun '(n, s) => (n, s_consumers s)) (c_slots c)) = (OOk, [(1, []); (2, [([117], 4298113024)])]) /\
  ex_queues c = [(2, [IReplyConsumeOk [116] 4297064448; IReplyMethod (MCancelOk [116])], true);
                 (4297064448, [IClientCancelled], false);
                 (3, [IReplyConsumeOk [117] 4298113024], true); (4298113024, [], true);
                 (1, [IAllocOk 1; IAllocOk 2], true); (0, [], true)].
Proof. vm_compute. repeat split. Qed.

Check C11_client_cancel : forall (n : N) (tag dbg : str) (c : core) (s : slot) (q : N), steady c -> n <> 0 -> alookup n (c_slots c) = Some s -> lookup_tag tag (s_consumers s) = Some q -> q <> s_reply s -> has_room (s_reply s) (c_qs c) -> receivable q (c_qs c) -> exists c' : core, process c (FMethod n (MCancelOk tag), dbg) = (OOk, c') /\ (exists s' : slot, alookup n (c_slots c') = Some s' /\ lookup_tag tag (s_consumers s') = None) /\ (exists qu qu' : queue, alookup q (c_qs c) = Some qu /\ alookup q (c_qs c') = Some qu' /\ q_hist qu' = (q_hist qu ++ [IClientCancelled])%list /\ q_tx qu' = false).
Check C11_server_cancel : forall (n : N) (tag : str) (nowait : bool) (dbg : str) (c : core) (s : slot) (q : N), steady c -> n <> 0 -> alookup n (c_slots c) = Some s -> lookup_tag tag (s_consumers s) = Some q -> receivable q (c_qs c) -> exists c' : core, process c (FMethod n (MCancel tag nowait), dbg) = (OOk, c') /\ c_out c' = (if nowait then c_out c else ob_append (c_out c) (ser_cancel_ok n tag)) /\ (exists s' : slot, alookup n (c_slots c') = Some s' /\ lookup_tag tag (s_consumers s') = None) /\ (exists qu qu' : queue, alookup q (c_qs c) = Some qu /\ alookup q (c_qs c') = Some qu' /\ q_hist qu' = (q_hist qu ++ [IServerCancelled])%list /\ q_tx qu' = false).
Check C11_nothing_after : forall (n : N) (tag : str) (dtag : N) (red : bool) (exch rk : str) (props : N) (dbg : str) (c : core) (s : slot), steady c -> n <> 0 -> alookup n (c_slots c) = Some s -> s_coll s = CStart (CDeliver tag dtag red exch rk) -> lookup_tag tag (s_consumers s) = None -> fst (process c (FHeader n 0 props, dbg)) = OErr (EUnknownConsumerTag n tag).
Check C11_deliveries_in_order : forall (n : N) (c : core) (s : slot) (tag : str) (dtag : N) (red : bool) (exch rk : str) (props : N) (parts : list bytes) (q : N), steady c -> n <> 0 -> alookup n (c_slots c) = Some s -> s_coll s = CNone -> lookup_tag tag (s_consumers s) = Some q -> receivable q (c_qs c) -> valid_parts parts -> exists c' : core, process_all c (map (df n) (crender (CDeliver tag dtag red exch rk) props parts)) = (OOk, c') /\ upd n s (pushed q (IDelivery {| m_ch := n; m_dtag := dtag; m_redelivered := red; m_exch := exch; m_rk := rk; m_body := concat parts; m_props := props |}) (c_qs c)) c c'.
Check C11_no_panic : forall (c : core) (f : dframe) (o : outcome) (c' : core), process c f = (o, c') -> WFs c -> (forall site : N, o <> OPanic site) /\ WFs c'.
Check C11_notice_before_release : forall sched : list actor, let s := rrun (rinit order_now) sched in r_failed s = false /\ (r_todo s = [] -> r_notified s = true /\ r_reply_sent s = true).
Check C11_released_after_notice : forall sched : list actor, let s := rrun (rinit order_now) sched in r_caller s <> Blocked -> r_notified s = true.
Check C11_answer_first_refuted : exists sched : list actor, r_failed (rrun (rinit order_before) sched) = true.
Check C11_cancel_issued_once : forall (o : cons_op) (ops : list cons_op), cons_run false (o :: ops) = 1.
Check C11_cancel_source_is_model : forall (r : val) (b : bool) (k : N), gen_Consumer_cancel (ext_st_model r) (enc_self b k) = (enc_self (fst (cons_step b CnCancel)) (k + snd (cons_step b CnCancel)), if b then VC "Ok" [VC "()" []] else r).
Check C11_drop_source_is_model : forall (r : val) (b : bool) (k : N), gen_Consumer_drop (ext_st_model r) (enc_self b k) = (enc_self (fst (cons_step b CnDrop)) (k + snd (cons_step b CnDrop)), VC "()" []).

Print Assumptions C11_client_cancel.
Print Assumptions C11_server_cancel.
Print Assumptions C11_nothing_after.
Print Assumptions C11_deliveries_in_order.
Print Assumptions C11_no_panic.
Print Assumptions C11_notice_before_release.
Print Assumptions C11_released_after_notice.
Print Assumptions C11_answer_first_refuted.
Print Assumptions C11_cancel_issued_once.
Print Assumptions C11_cancel_source_is_model.
Print Assumptions C11_drop_source_is_model.
Print Assumptions C11_example.
