(* C11 - a consumer ends with exactly one terminal message and nothing after it.
   This file only pins statements. *)
From Amq Require Import Lib.Base Gen.Consts Model.Wire Model.Frames Model.OutBuf Model.Collector Model.Slots Model.Core Spec.Slots Spec.Content Proofs.Slots Proofs.OutBuf Proofs.Collector Proofs.CoreContent Proofs.CoreInv Proofs.CoreMore.

(* CancelOk for tag: the caller gets the reply, the consumer's queue gets ClientCancelled appended (history = history ++ [ClientCancelled]), its sender is dropped in the same step, the tag leaves the table *)
Theorem C11_client_cancel : forall (n : N) (tag dbg : str) (c : core) (s : slot) (q : N), steady c -> n <> 0 -> alookup n (c_slots c) = Some s -> lookup_tag tag (s_consumers s) = Some q -> q <> s_reply s -> has_room (s_reply s) (c_qs c) -> receivable q (c_qs c) -> exists c' : core, process c (FMethod n (MCancelOk tag), dbg) = (OOk, c') /\ (exists s' : slot, alookup n (c_slots c') = Some s' /\ lookup_tag tag (s_consumers s') = None) /\ (exists qu qu' : queue, alookup q (c_qs c) = Some qu /\ alookup q (c_qs c') = Some qu' /\ q_hist qu' = q_hist qu ++ [IClientCancelled] /\ q_tx qu' = false).
Proof. exact cancel_ok_effect. Qed.

(* server Cancel for tag: ServerCancelled appended, sender dropped, tag removed; CancelOk queued exactly when the server did not say nowait *)
Theorem C11_server_cancel : forall (n : N) (tag : str) (nowait : bool) (dbg : str) (c : core) (s : slot) (q : N), steady c -> n <> 0 -> alookup n (c_slots c) = Some s -> lookup_tag tag (s_consumers s) = Some q -> receivable q (c_qs c) -> exists c' : core, process c (FMethod n (MCancel tag nowait), dbg) = (OOk, c') /\ c_out c' = (if nowait then c_out c else ob_append (c_out c) (ser_cancel_ok n tag)) /\ (exists s' : slot, alookup n (c_slots c') = Some s' /\ lookup_tag tag (s_consumers s') = None) /\ (exists qu qu' : queue, alookup q (c_qs c) = Some qu /\ alookup q (c_qs c') = Some qu' /\ q_hist qu' = q_hist qu ++ [IServerCancelled] /\ q_tx qu' = false).
Proof. exact server_cancel_effect. Qed.

(* once the tag is out of the table nothing can follow: a delivery for it is not delivered to anybody (UnknownConsumerTag) *)
Theorem C11_nothing_after : forall (n : N) (tag : str) (dtag : N) (red : bool) (exch rk : str) (props : N) (dbg : str) (c : core) (s : slot), steady c -> n <> 0 -> alookup n (c_slots c) = Some s -> s_coll s = CStart (CDeliver tag dtag red exch rk) -> lookup_tag tag (s_consumers s) = None -> fst (process c (FHeader n 0 props, dbg)) = OErr (EUnknownConsumerTag n tag).
Proof. exact unknown_tag_rejected. Qed.

(* while the tag is in the table, a delivery is appended to exactly that queue (C03) *)
Theorem C11_deliveries_in_order : forall (n : N) (c : core) (s : slot) (tag : str) (dtag : N) (red : bool) (exch rk : str) (props : N) (parts : list bytes) (q : N), steady c -> n <> 0 -> alookup n (c_slots c) = Some s -> s_coll s = CNone -> lookup_tag tag (s_consumers s) = Some q -> receivable q (c_qs c) -> valid_parts parts -> exists c' : core, process_all c (map (df n) (crender (CDeliver tag dtag red exch rk) props parts)) = (OOk, c') /\ upd n s (pushed q (IDelivery {| m_ch := n; m_dtag := dtag; m_redelivered := red; m_exch := exch; m_rk := rk; m_body := concat parts; m_props := props |}) (c_qs c)) c c'.
Proof. exact deliver_roundtrip. Qed.

(* no frame sequence panics the thread *)
Theorem C11_no_panic : forall (c : core) (f : dframe) (o : outcome) (c' : core), process c f = (o, c') -> WFs c -> (forall site : N, o <> OPanic site) /\ WFs c'.
Proof. exact process_WFs. Qed.

Check C11_client_cancel : forall (n : N) (tag dbg : str) (c : core) (s : slot) (q : N), steady c -> n <> 0 -> alookup n (c_slots c) = Some s -> lookup_tag tag (s_consumers s) = Some q -> q <> s_reply s -> has_room (s_reply s) (c_qs c) -> receivable q (c_qs c) -> exists c' : core, process c (FMethod n (MCancelOk tag), dbg) = (OOk, c') /\ (exists s' : slot, alookup n (c_slots c') = Some s' /\ lookup_tag tag (s_consumers s') = None) /\ (exists qu qu' : queue, alookup q (c_qs c) = Some qu /\ alookup q (c_qs c') = Some qu' /\ q_hist qu' = q_hist qu ++ [IClientCancelled] /\ q_tx qu' = false).
Check C11_server_cancel : forall (n : N) (tag : str) (nowait : bool) (dbg : str) (c : core) (s : slot) (q : N), steady c -> n <> 0 -> alookup n (c_slots c) = Some s -> lookup_tag tag (s_consumers s) = Some q -> receivable q (c_qs c) -> exists c' : core, process c (FMethod n (MCancel tag nowait), dbg) = (OOk, c') /\ c_out c' = (if nowait then c_out c else ob_append (c_out c) (ser_cancel_ok n tag)) /\ (exists s' : slot, alookup n (c_slots c') = Some s' /\ lookup_tag tag (s_consumers s') = None) /\ (exists qu qu' : queue, alookup q (c_qs c) = Some qu /\ alookup q (c_qs c') = Some qu' /\ q_hist qu' = q_hist qu ++ [IServerCancelled] /\ q_tx qu' = false).
Check C11_nothing_after : forall (n : N) (tag : str) (dtag : N) (red : bool) (exch rk : str) (props : N) (dbg : str) (c : core) (s : slot), steady c -> n <> 0 -> alookup n (c_slots c) = Some s -> s_coll s = CStart (CDeliver tag dtag red exch rk) -> lookup_tag tag (s_consumers s) = None -> fst (process c (FHeader n 0 props, dbg)) = OErr (EUnknownConsumerTag n tag).
Check C11_deliveries_in_order : forall (n : N) (c : core) (s : slot) (tag : str) (dtag : N) (red : bool) (exch rk : str) (props : N) (parts : list bytes) (q : N), steady c -> n <> 0 -> alookup n (c_slots c) = Some s -> s_coll s = CNone -> lookup_tag tag (s_consumers s) = Some q -> receivable q (c_qs c) -> valid_parts parts -> exists c' : core, process_all c (map (df n) (crender (CDeliver tag dtag red exch rk) props parts)) = (OOk, c') /\ upd n s (pushed q (IDelivery {| m_ch := n; m_dtag := dtag; m_redelivered := red; m_exch := exch; m_rk := rk; m_body := concat parts; m_props := props |}) (c_qs c)) c c'.
Check C11_no_panic : forall (c : core) (f : dframe) (o : outcome) (c' : core), process c f = (o, c') -> WFs c -> (forall site : N, o <> OPanic site) /\ WFs c'.

Print Assumptions C11_client_cancel.
Print Assumptions C11_server_cancel.
Print Assumptions C11_nothing_after.
Print Assumptions C11_deliveries_in_order.
Print Assumptions C11_no_panic.
