(* C17 - heartbeats: sent when idle, enforced on the server, off when 0.
   This file only pins statements. *)
From Amq Require Import Lib.Base Gen.Consts Model.Heartbeat Proofs.Heartbeat Model.Wire Model.Frames Model.OutBuf Model.Collector Model.Slots Model.Core Proofs.CoreMore Lib.RsResult Gen.SrcFire Proofs.HeartbeatSrc Lib.RsVal Lib.RsStr Gen.SrcTimers Proofs.TimersSrc Gen.SrcHbPass Proofs.HbPassSrc.

(* NOT EARLY: for every trace of reads and timer events, if the server is declared dead at time t then nothing was read during the last (2h - 5 ms) before t: the most recent read (or the start) is at least that old *)
Theorem C17_not_early : forall (evs : list rx_ev) (h : hb) (t : N) (h' : hb), rx_run h evs = (Some t, h') -> mono (h_last h) evs -> exists last : N, last + h_interval h <= t + fudge_ms /\ h_last h' = last /\ (last = h_last h \/ In (RxRead last) evs).
Proof. exact not_early. Qed.

(* PROMPT: a timer event handled once (interval - 5 ms) have passed since the last read declares the server dead; the timer is armed for last + interval (the C17_armed theorems) and fires within its latency of that, so this happens by last + 2h + delta *)
Theorem C17_prompt : forall (h : hb) (t : N), h_last h + h_interval h <= t + fudge_ms -> h_last h <= t -> fst (hb_fire t h) = true.
Proof. exact prompt. Qed.

(* the timer is armed for no later than last activity + interval: at the start *)
Theorem C17_armed_start : forall now i : N, armed_ok (hb_start now i).
Proof. exact armed_start. Qed.

(* ... after activity is recorded *)
Theorem C17_armed_record : forall (now : N) (h : hb), h_last h <= now -> armed_ok h -> armed_ok (hb_record now h).
Proof. exact armed_record. Qed.

(* ... and after a timer event that finds recent activity (then for exactly last + interval) *)
Theorem C17_armed_fire : forall (now : N) (h h' : hb), h_last h <= now -> hb_fire now h = (false, h') -> armed_ok h' /\ h_last h' = h_last h.
Proof. exact armed_fire_running. Qed.

(* LIVE SERVER: if every timer event finds a read no older than `gap` and interval > gap + 5 ms, the server is never declared dead - any inbound traffic counts *)
Theorem C17_live_server : forall (gap : N) (evs : list rx_ev) (h : hb), reads_fresh gap (h_last h) evs -> gap + fudge_ms < h_interval h -> fst (rx_run h evs) = None.
Proof. exact live_server. Qed.

(* with h >= 1 s negotiated, a server that sends anything at least every h seconds is never declared dead, for every trace *)
Theorem C17_live_server_secs : forall (secs now : N) (evs : list rx_ev) (rx tx : hb), 1 <= secs -> start_heartbeats now secs = Some (rx, tx) -> reads_fresh (1000 * secs) (h_last rx) evs -> fst (rx_run rx evs) = None.
Proof. exact live_server_secs. Qed.

(* IDLE SEND: the send timer expiring with nothing queued queues a heartbeat frame *)
Theorem C17_idle_send : forall (h : hb) (t : N) (evs : list tx_ev), h_last h + h_interval h <= t + fudge_ms -> h_last h <= t -> exists rest : list N, tx_run h (TxFire t true :: evs) = t :: rest.
Proof. exact idle_send. Qed.

(* ... none when data is already queued *)
Theorem C17_no_send_when_busy : forall (h : hb) (t : N), tx_run h [TxFire t false] = [].
Proof. exact no_send_when_busy. Qed.

(* ... and none when something was written less than (h - 5 ms) ago *)
Theorem C17_no_send_after_write : forall (h : hb) (t : N), h_last h <= t -> t - h_last h + fudge_ms < h_interval h -> tx_run h [TxFire t true] = [].
Proof. exact no_send_after_write. Qed.

(* h = 0: no timers at all - no heartbeat is ever sent, silence is never fatal *)
Theorem C17_zero : forall now : N, start_heartbeats now 0 = None.
Proof. exact zero_disables. Qed.

(* the intervals are 2h for receive and h for send (MAX_MISSED_SERVER_HEARTBEATS = 2, regenerated from the crate) *)
Theorem C17_intervals : forall (now secs : N) (rx tx : hb), start_heartbeats now secs = Some (rx, tx) -> h_interval rx = 2000 * secs /\ h_interval tx = 1000 * secs /\ c_max_missed_server_heartbeats = 2.
Proof. exact intervals. Qed.

(* the loop over the timer (process_heartbeat_timers): an expired rx entry is reported in the pass that finds it, whatever is due before it in that pass - stale rx firings, tx firings with or without output pending *)
Theorem C17_missed_not_masked : forall (pre rest : list (hbkind * bool)) (c : core), (forall (k : hbkind) (b : bool), In (k, b) pre -> (k, b) <> (HbRx, true)) -> fst (heartbeat_timers (pre ++ (HbRx, true) :: rest) c) = OErr EMissedHeartbeats.
Proof. exact missed_heartbeats_not_masked. Qed.

(* ... and a pass without an expired rx entry never fails *)
Theorem C17_pass_ok : forall (fired : list (hbkind * bool)) (c : core), (forall (k : hbkind) (b : bool), In (k, b) fired -> (k, b) <> (HbRx, true)) -> fst (heartbeat_timers fired c) = OOk.
Proof. exact heartbeat_pass_ok. Qed.

(* THE MODEL IS THE SOURCE: coq/Gen/Src.v is translated from src/heartbeats.rs (fn fire) on every run by tools/rs2v.py; the translated function - its verdict, Expired or still running, and the duration it re-arms the timer with - and the hand-written model hb_fire are equal for every interval, every time of the last activity and every time of firing, so the theorems of this file are theorems about the translated source; a change to the function (the 5 ms fudge, the comparison, the re-arm time) changes Gen/Src.v and this obligation is re-proved against it, or breaks *)
Theorem C17_fire_source_is_model : forall last interval deadline now : N, last <= now -> let h := {| h_last := last; h_interval := interval; h_deadline := deadline |} in gen_Heartbeat_fire interval (now - last) = RsOk "Heartbeat_fire" [("result", if fst (hb_fire now h) then 1 else 0); ("timer.set_timeout#0", h_deadline (snd (hb_fire now h)) - now)].
Proof. exact fire_source_is_model. Qed.

(* THE MODEL IS THE SOURCE: RxTxHeartbeat::new of src/io_loop/heartbeat_timers.rs as translated from the source text on every run (Gen/SrcTimers.v; MAX_MISSED_SERVER_HEARTBEATS is read from the source and must equal the constant of the compiled crate in Gen/Consts.v) starts the receive timer with 2 x the negotiated interval and the send timer with the interval itself - the two heartbeats the C17 theorems (dead after 2h of silence, a heartbeat every h) are about *)
Theorem C17_timers_source_is_model : forall (timer : val) (h : N), gen_RxTxHeartbeat_new ext_model timer (VN h) = VR [("rx", VC "Heartbeat" [VC "HeartbeatKind::Rx" []; VN (c_max_missed_server_heartbeats * h)]); ("tx", VC "Heartbeat" [VC "HeartbeatKind::Tx" []; VN h])].
Proof. exact timers_source_is_model. Qed.

(* HeartbeatTimers::{start, fire_rx, fire_tx} as translated from the source on every run (Gen/SrcTimers.v): after start(h) the timer is the same, a receive-timer event is decided by the heartbeat started with 2 x h and a send-timer event by the one started with h - never the other one; before start there is nothing to fire (the expect panics). The translation is about WHICH heartbeat decides; what fire computes and how it updates the heartbeat is C17_fire_source_is_model *)
Theorem C17_start_fire_source_is_model : forall (timer : val) (h : N), let s1 := fst (gen_HeartbeatTimers_start ext_model2 (timers0 timer) (VN h)) in v_field "timer" s1 = timer /\ snd (gen_HeartbeatTimers_fire_rx ext_model2 s1) = VC "fire" [VC "Heartbeat" [VC "HeartbeatKind::Rx" []; VN (c_max_missed_server_heartbeats * h)]; timer] /\ snd (gen_HeartbeatTimers_fire_tx ext_model2 s1) = VC "fire" [VC "Heartbeat" [VC "HeartbeatKind::Tx" []; VN h]; timer] /\ snd (gen_HeartbeatTimers_fire_rx ext_model2 (timers0 timer)) = VC "fire" [VStuck; timer].
Proof. exact start_fire_source_is_model. Qed.

(* THE MODEL IS THE SOURCE: Inner::process_heartbeat_timers of src/io_loop/mod.rs as translated from the source text on every run (Gen/SrcHbPass.v, tools/rs2sm.py: the `while let` over Timer::poll is a recursive function on fuel) is Model/Core.v's heartbeat_timers - the function C17_missed_not_masked / C17_pass_ok are about - for EVERY sequence of entries the timer yields (rx / tx, expired or stale, any order, any length) and every out-buffer, sealed or not: same result, same out-buffer, same entries left in the timer. ext_st_model is Timer::poll (the next due kind), HeartbeatTimers::fire_rx / fire_tx (the verdict for that entry: C17_start_fire_source_is_model, C17_fire_source_is_model) and SealableOutputBuffer::push_heartbeat (Model/OutBuf.v) *)
Theorem C17_pass_source_is_model : forall (fired : list (hbkind * bool)) (c : core), gen_Inner_process_heartbeat_timers ext_st_model (S (Datatypes.length fired)) (enc_self fired (c_out c)) = (enc_self (hb_rest fired) (c_out (snd (heartbeat_timers fired c))), enc_outcome (fst (heartbeat_timers fired c))).
Proof. exact pass_source_is_model. Qed.

(* C17 AS A THEOREM ABOUT THE TRANSLATED CODE: an expired receive entry ends the translated pass with MissedServerHeartbeats whatever the timer yields before it in that pass - stale entries, send entries with or without output pending *)
Theorem C17_pass_source_not_masked : forall (pre rest : list (hbkind * bool)) (c : core), (forall (k : hbkind) (b : bool), In (k, b) pre -> (k, b) <> (HbRx, true)) -> snd (gen_Inner_process_heartbeat_timers ext_st_model (S (Datatypes.length (pre ++ (HbRx, true) :: rest))) (enc_self (pre ++ (HbRx, true) :: rest) (c_out c))) = VC "Err" [VC "Error::MissedServerHeartbeats" []].
Proof. exact pass_source_not_masked. Qed.

(* non-vacuity: h = 1: a read at 900 ms, silence afterwards, timer events at 2000 and 2900 *)
Example C17_example :
  match start_heartbeats 0 1 with
  | Some (rx, _) => rx_run rx [RxRead 900; RxFire 2000; RxFire 2900] = (Some 2900, {| h_last := 900; h_interval := 2000; h_deadline := 4900 |})
  | None => False
  end.
Proof. vm_compute. reflexivity. Qed.

Check C17_not_early : forall (evs : list rx_ev) (h : hb) (t : N) (h' : hb), rx_run h evs = (Some t, h') -> mono (h_last h) evs -> exists last : N, last + h_interval h <= t + fudge_ms /\ h_last h' = last /\ (last = h_last h \/ In (RxRead last) evs).
Check C17_prompt : forall (h : hb) (t : N), h_last h + h_interval h <= t + fudge_ms -> h_last h <= t -> fst (hb_fire t h) = true.
Check C17_armed_start : forall now i : N, armed_ok (hb_start now i).
Check C17_armed_record : forall (now : N) (h : hb), h_last h <= now -> armed_ok h -> armed_ok (hb_record now h).
Check C17_armed_fire : forall (now : N) (h h' : hb), h_last h <= now -> hb_fire now h = (false, h') -> armed_ok h' /\ h_last h' = h_last h.
Check C17_live_server : forall (gap : N) (evs : list rx_ev) (h : hb), reads_fresh gap (h_last h) evs -> gap + fudge_ms < h_interval h -> fst (rx_run h evs) = None.
Check C17_live_server_secs : forall (secs now : N) (evs : list rx_ev) (rx tx : hb), 1 <= secs -> start_heartbeats now secs = Some (rx, tx) -> reads_fresh (1000 * secs) (h_last rx) evs -> fst (rx_run rx evs) = None.
Check C17_idle_send : forall (h : hb) (t : N) (evs : list tx_ev), h_last h + h_interval h <= t + fudge_ms -> h_last h <= t -> exists rest : list N, tx_run h (TxFire t true :: evs) = t :: rest.
Check C17_no_send_when_busy : forall (h : hb) (t : N), tx_run h [TxFire t false] = [].
Check C17_no_send_after_write : forall (h : hb) (t : N), h_last h <= t -> t - h_last h + fudge_ms < h_interval h -> tx_run h [TxFire t true] = [].
Check C17_zero : forall now : N, start_heartbeats now 0 = None.
Check C17_intervals : forall (now secs : N) (rx tx : hb), start_heartbeats now secs = Some (rx, tx) -> h_interval rx = 2000 * secs /\ h_interval tx = 1000 * secs /\ c_max_missed_server_heartbeats = 2.
Check C17_missed_not_masked : forall (pre rest : list (hbkind * bool)) (c : core), (forall (k : hbkind) (b : bool), In (k, b) pre -> (k, b) <> (HbRx, true)) -> fst (heartbeat_timers (pre ++ (HbRx, true) :: rest) c) = OErr EMissedHeartbeats.
Check C17_pass_ok : forall (fired : list (hbkind * bool)) (c : core), (forall (k : hbkind) (b : bool), In (k, b) fired -> (k, b) <> (HbRx, true)) -> fst (heartbeat_timers fired c) = OOk.
Check C17_fire_source_is_model : forall last interval deadline now : N, last <= now -> let h := {| h_last := last; h_interval := interval; h_deadline := deadline |} in gen_Heartbeat_fire interval (now - last) = RsOk "Heartbeat_fire" [("result", if fst (hb_fire now h) then 1 else 0); ("timer.set_timeout#0", h_deadline (snd (hb_fire now h)) - now)].
Check C17_timers_source_is_model : forall (timer : val) (h : N), gen_RxTxHeartbeat_new ext_model timer (VN h) = VR [("rx", VC "Heartbeat" [VC "HeartbeatKind::Rx" []; VN (c_max_missed_server_heartbeats * h)]); ("tx", VC "Heartbeat" [VC "HeartbeatKind::Tx" []; VN h])].
Check C17_start_fire_source_is_model : forall (timer : val) (h : N), let s1 := fst (gen_HeartbeatTimers_start ext_model2 (timers0 timer) (VN h)) in v_field "timer" s1 = timer /\ snd (gen_HeartbeatTimers_fire_rx ext_model2 s1) = VC "fire" [VC "Heartbeat" [VC "HeartbeatKind::Rx" []; VN (c_max_missed_server_heartbeats * h)]; timer] /\ snd (gen_HeartbeatTimers_fire_tx ext_model2 s1) = VC "fire" [VC "Heartbeat" [VC "HeartbeatKind::Tx" []; VN h]; timer] /\ snd (gen_HeartbeatTimers_fire_rx ext_model2 (timers0 timer)) = VC "fire" [VStuck; timer].
Check C17_pass_source_is_model : forall (fired : list (hbkind * bool)) (c : core), gen_Inner_process_heartbeat_timers ext_st_model (S (Datatypes.length fired)) (enc_self fired (c_out c)) = (enc_self (hb_rest fired) (c_out (snd (heartbeat_timers fired c))), enc_outcome (fst (heartbeat_timers fired c))).
Check C17_pass_source_not_masked : forall (pre rest : list (hbkind * bool)) (c : core), (forall (k : hbkind) (b : bool), In (k, b) pre -> (k, b) <> (HbRx, true)) -> snd (gen_Inner_process_heartbeat_timers ext_st_model (S (Datatypes.length (pre ++ (HbRx, true) :: rest))) (enc_self (pre ++ (HbRx, true) :: rest) (c_out c))) = VC "Err" [VC "Error::MissedServerHeartbeats" []].

Print Assumptions C17_not_early.
Print Assumptions C17_prompt.
Print Assumptions C17_armed_start.
Print Assumptions C17_armed_record.
Print Assumptions C17_armed_fire.
Print Assumptions C17_live_server.
Print Assumptions C17_live_server_secs.
Print Assumptions C17_idle_send.
Print Assumptions C17_no_send_when_busy.
Print Assumptions C17_no_send_after_write.
Print Assumptions C17_zero.
Print Assumptions C17_intervals.
Print Assumptions C17_missed_not_masked.
Print Assumptions C17_pass_ok.
Print Assumptions C17_fire_source_is_model.
Print Assumptions C17_timers_source_is_model.
Print Assumptions C17_start_fire_source_is_model.
Print Assumptions C17_pass_source_is_model.
Print Assumptions C17_pass_source_not_masked.
Print Assumptions C17_example.
