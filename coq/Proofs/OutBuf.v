(* The sealable out-buffer and the write loop (Model/OutBuf.v): no byte is lost,
   duplicated or reordered, whatever the transport does.  Stdlib only, no axioms. *)
From Amq Require Import Lib.Base Model.OutBuf.

Lemma skipn_add {A} (a b : nat) : forall l : list A, skipn a (skipn b l) = skipn (b + a) l.
Proof.
  induction b as [|b IH]; intro l; [reflexivity|].
  destruct l as [|x l]; [destruct a; reflexivity|]. cbn [skipn Nat.add]. apply IH.
Qed.

(* what one run of the write loop does to the bytes not yet written:
   they are exactly what went to the wire followed by what stays in the buffer *)
Lemma write_loop_conserves fuel : forall buf pos oracle w r b o',
  write_loop fuel buf pos oracle = (w, r, b, o') -> pos <= N.of_nat (length buf) ->
  match r with
  | WOk => w ++ b = skipn (N.to_nat pos) buf
  | WIoErr => b = buf /\ exists k, w = firstn k (skipn (N.to_nat pos) buf)
  | WStuck => True
  end.
Proof.
  induction fuel as [|fuel IH]; intros buf pos oracle w r b o' H Hpos; cbn [write_loop] in H.
  - inversion H; subst. exact I.
  - destruct (pos <? N.of_nat (length buf)) eqn:Elt.
    + destruct oracle as [|[n| |] oracle].
      * inversion H; subst. exact I.
      * set (n' := N.min n (N.of_nat (length buf) - pos)) in *.
        destruct (write_loop fuel buf (pos + n') oracle) as [[[ws r1] b1] o1] eqn:E.
        inversion H; subst.
        assert (Hp' : pos + n' <= N.of_nat (length buf)) by (unfold n'; lia).
        specialize (IH _ _ _ _ _ _ _ E Hp').
        assert (Hsplit : skipn (N.to_nat pos) buf =
                         firstn (N.to_nat n') (skipn (N.to_nat pos) buf) ++ skipn (N.to_nat (pos + n')) buf).
        { rewrite <- (firstn_skipn (N.to_nat n') (skipn (N.to_nat pos) buf)) at 1.
          f_equal. rewrite skipn_add. f_equal. lia. }
        destruct r.
        -- rewrite <- app_assoc, IH. symmetry. exact Hsplit.
        -- destruct IH as (Hb & k & Hk). split; [exact Hb|].
           exists (N.to_nat n' + k)%nat. rewrite Hk.
           rewrite Hsplit at 2. rewrite firstn_app.
           rewrite firstn_length. rewrite skipn_length.
           assert (Hlen : (N.to_nat n' <= length buf - N.to_nat pos)%nat) by (unfold n'; lia).
           rewrite Nat.min_l by exact Hlen.
           replace (N.to_nat n' + k - N.to_nat n')%nat with k by lia.
           rewrite firstn_all2 with (n := (N.to_nat n' + k)%nat) (l := firstn (N.to_nat n') (skipn (N.to_nat pos) buf)).
           ++ reflexivity.
           ++ rewrite firstn_length, skipn_length. lia.
        -- exact I.
      * inversion H; subst. reflexivity.
      * inversion H; subst. split; [reflexivity|]. exists 0%nat. reflexivity.
    + inversion H; subst. apply N.ltb_ge in Elt.
      rewrite skipn_all2 by lia. reflexivity.
Qed.

(* C01, the write path: for EVERY behaviour of the transport (any sizes of short writes,
   would-block at any offset), what was put on the wire followed by what remains buffered
   is exactly what was buffered before - and the seal flag is untouched *)
Theorem write_conserves o oracle w r o' rest :
  write_to_stream o oracle = (w, r, o', rest) ->
  ob_sealed o' = ob_sealed o /\
  match r with
  | WOk => w ++ ob o' = ob o
  | WIoErr => ob o' = ob o /\ exists k, w = firstn k (ob o)
  | WStuck => True
  end.
Proof.
  unfold write_to_stream. destruct (write_loop _ _ _ _) as [[[w1 r1] b1] o1] eqn:E.
  intro H; inversion H; subst. split; [reflexivity|].
  pose proof (write_loop_conserves E) as C. cbn [ob] in *.
  specialize (C ltac:(lia)). cbn [N.to_nat skipn] in C. exact C.
Qed.

(* appends: whole buffers, at the end; nothing once sealed *)
Theorem append_spec o bs :
  ob (ob_append o bs) = (if ob_sealed o then ob o else ob o ++ bs) /\
  ob_sealed (ob_append o bs) = ob_sealed o.
Proof. unfold ob_append. destruct (ob_sealed o) eqn:E; cbn; auto. Qed.

Theorem seal_spec o : ob (ob_seal o) = ob o /\ ob_sealed (ob_seal o) = true.
Proof. split; reflexivity. Qed.

(* ---- the whole life of the buffer: a trace of appends, seals and write episodes ---- *)

Inductive bop := BAppend (bs : bytes) | BSeal | BWrite (oracle : list wr).

(* state: bytes on the wire so far, the buffer, and the appends accepted so far *)
Definition bstep (st : bytes * outbuf * bytes) (o : bop) : bytes * outbuf * bytes :=
  let '(wire, b, acc) := st in
  match o with
  | BAppend bs => (wire, ob_append b bs, if ob_sealed b then acc else acc ++ bs)
  | BSeal => (wire, ob_seal b, acc)
  | BWrite oracle => let '(w, _, b', _) := write_to_stream b oracle in (wire ++ w, b', acc)
  end.

Definition no_write_failure (st : bytes * outbuf * bytes) (o : bop) : Prop :=
  match o with
  | BWrite oracle => let '(_, r, _, _) := write_to_stream (snd (fst st)) oracle in r = WOk
  | _ => True
  end.

(* C01 conservation, for every trace: wire ++ buffer = everything accepted, in order *)
Theorem trace_conserves ops : forall st,
  (let '(wire, b, acc) := st in wire ++ ob b = acc) ->
  (fix ok (st : bytes * outbuf * bytes) (ops : list bop) : Prop :=
     match ops with
     | [] => True
     | o :: ops' => no_write_failure st o /\ ok (bstep st o) ops'
     end) st ops ->
  let '(wire', b', acc') := fold_left bstep ops st in wire' ++ ob b' = acc'.
Proof.
  induction ops as [|o ops IH]; intros [[wire b] acc] Hinv Hok; cbn [fold_left].
  - exact Hinv.
  - destruct Hok as [Hnf Hrest]. apply IH; [|exact Hrest].
    destruct o as [bs| |oracle]; cbn [bstep].
    + unfold ob_append. destruct (ob_sealed b); cbn; [exact Hinv|].
      rewrite app_assoc, Hinv. reflexivity.
    + exact Hinv.
    + cbn [no_write_failure fst snd] in Hnf.
      destruct (write_to_stream b oracle) as [[[w r] b'] rest] eqn:E.
      destruct (write_conserves E) as (_ & C). subst r.
      rewrite <- app_assoc, C. exact Hinv.
Qed.
