(* The hand-written model of make_tune_ok IS what the source says: coq/Gen/Src.v is
   regenerated from src/connection_options.rs on every run by tools/rs2v.py (a translator for
   a small subset of Rust), and the two functions are equal on all inputs - so every theorem
   about Model.Tune.make_tune_ok (C15) is a theorem about the translated source.
   Stdlib only, no axioms. *)
From Coq Require Import String.
From Amq Require Import Lib.Base Lib.RsResult Gen.Consts Gen.SrcTune Model.Tune.
Open Scope string_scope.

Definition to_rs (r : tune_res) : rs_result :=
  match r with
  | TuneOk cm fm hb => RsOk "TuneOk" [("channel_max", cm); ("frame_max", fm); ("heartbeat", hb)]
  | FrameMaxTooSmall mn rq => RsErr "FrameMaxTooSmall" [("min", mn); ("requested", rq)]
  end.

Theorem source_is_model c_cm c_fm c_hb s_cm s_fm s_hb :
  gen_make_tune_ok c_cm c_fm c_hb s_cm s_fm s_hb = to_rs (make_tune_ok c_cm c_fm c_hb s_cm s_fm s_hb).
Proof.
  unfold gen_make_tune_ok, make_tune_ok, gen_make_tune_ok_promote_0_u16, gen_make_tune_ok_promote_0_u32,
    promote16, promote32, u16_max, u32_max. cbv zeta.
  destruct (N.ltb _ c_frame_min_size); reflexivity.
Qed.
