(* amqp_url::populate_host_and_port AS TRANSLATED FROM THE SOURCE on every run (Gen/SrcUrl.v, by
   tools/rs2sm.py from src/connection.rs) is the model's host_of / scheme_port (Model/Url.v) that
   C19's theorems about defaults are about: an absent or empty host becomes "localhost", the
   scheme decides the default port (5672 / 5671) and whether the URL is accepted at all.
   Stdlib only, no axioms. *)
From Coq Require Import String.
From Amq Require Import Lib.Base Lib.RsVal Lib.RsStr Gen.Consts Model.Url Gen.SrcUrl.
Open Scope string_scope.
Open Scope list_scope.
Open Scope N_scope.

Definition enc_bool (b : bool) : val := VC (if b then "true" else "false") [].
Definition enc_ostr (o : option str) : val := match o with Some s => VC "Some" [VBytes s] | None => VC "None" [] end.
Definition enc_onum (o : option N) : val := match o with Some n => VC "Some" [VN n] | None => VC "None" [] end.

(* the Url, as far as the function reads and writes it *)
Definition enc_url (scheme : str) (host : option str) (port : option N) : val :=
  VR [("scheme", VBytes scheme); ("host", enc_ostr host); ("port", enc_onum port)].

(* Url::{has_host, host_str, scheme, port} *)
Definition ext_model (name : string) (args : list val) : val :=
  match args with
  | [u] =>
      if (name =? "has_host")%string then
        match v_field "host" u with VC c _ => enc_bool (c =? "Some")%string | _ => VStuck end
      else if (name =? "host_str")%string then v_field "host" u
      else if (name =? "scheme")%string then v_field "scheme" u
      else if (name =? "port")%string then v_field "port" u
      else VStuck
  | _ => VStuck
  end.

(* Url::{set_host, set_port}, on a URL that can take them (not a cannot-be-a-base URL: the errors
   UrlParse / SpecifyUrlPort of those are outside the model) *)
Definition ext_st_model (name : string) (args : list val) (self : val) : val * val :=
  match args with
  | [v] =>
      if (name =? "self.set_host")%string then (v_set "host" v self, VC "Ok" [VC "()" []])
      else if (name =? "self.set_port")%string then (v_set "port" v self, VC "Ok" [VC "()" []])
      else (self, VStuck)
  | _ => (self, VStuck)
  end.

Definition mk (scheme : str) (host : option str) (port : option N) : surl :=
  {| u_scheme := scheme; u_user := []; u_pass := None; u_host := host; u_port := port; u_segments := None; u_query := [] |}.

(* THE MODEL IS THE SOURCE: for every scheme, host and port *)
Theorem populate_source_is_model scheme host port :
  let u := mk scheme host port in
  gen_populate_host_and_port ext_model ext_st_model (enc_url scheme host port)
  = match scheme_port u with
    | inl (secure, p) =>
        (enc_url scheme (Some (host_of u)) (Some p), VC "Ok" [VC (if secure then "Scheme::Amqps" else "Scheme::Amqp") []])
    | inr _ =>
        (enc_url scheme (Some (host_of u)) port,
         VC "Err" [VC "Error::InvalidUrlScheme" [enc_url scheme (Some (host_of u)) port]])
    end.
Proof.
  cbn zeta. unfold scheme_port, host_of, mk. cbn [u_scheme u_host u_port].
  unfold s_amqp, s_amqps, bytes_eqb.
  destruct host as [[|h0 h]|]; destruct port as [p|];
    unfold gen_populate_host_and_port; cbn -[list_eqb];
    destruct (list_eqb N.eqb scheme [97; 109; 113; 112]) eqn:E1;
    try (destruct (list_eqb N.eqb scheme [97; 109; 113; 112; 115]) eqn:E2); cbn -[list_eqb];
    rewrite ?E1, ?E2; try reflexivity.
Qed.
