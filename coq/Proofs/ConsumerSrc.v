(* Consumer::cancel and impl Drop for Consumer AS TRANSLATED FROM THE SOURCE on every run
   (Gen/SrcConsumer.v, by tools/rs2sm.py from src/consumer.rs) are the model's cons_step
   (Model/Consumer.v) C11_cancel_issued_once is about: the consumer is marked cancelled BEFORE
   Basic.Cancel is issued, a cancelled consumer issues nothing and returns Ok, Drop is cancel with
   the result ignored.  Stdlib only, no axioms. *)
From Coq Require Import String.
From Amq Require Import Lib.Base Lib.RsVal Model.Consumer Gen.SrcConsumer.
Open Scope string_scope.
Open Scope N_scope.

Definition enc_bool (b : bool) : val := VC (if b then "true" else "false") [].
(* the consumer: its flag; and, standing for its channel, how many Basic.Cancel were issued for it *)
Definition enc_self (cancelled : bool) (issued : N) : val :=
  VR [("cancelled", enc_bool cancelled); ("issued", VN issued)].

(* Channel::basic_cancel: issues one Basic.Cancel and returns whatever the round trip returns *)
Definition ext_st_model (r : val) (name : string) (args : list val) (self : val) : val * val :=
  match v_field "issued" self with
  | VN k => (v_set "issued" (VN (k + 1)) self, r)
  | _ => (self, VStuck)
  end.

Theorem cancel_source_is_model r b k :
  gen_Consumer_cancel (ext_st_model r) (enc_self b k)
  = (enc_self (fst (cons_step b CnCancel)) (k + snd (cons_step b CnCancel)),
     if b then VC "Ok" [VC "()" []] else r).
Proof. destruct b; cbn; [rewrite N.add_0_r|]; reflexivity. Qed.

Theorem drop_source_is_model r b k :
  gen_Consumer_drop (ext_st_model r) (enc_self b k)
  = (enc_self (fst (cons_step b CnDrop)) (k + snd (cons_step b CnDrop)), VC "()" []).
Proof. destruct b; cbn; [rewrite N.add_0_r|]; reflexivity. Qed.
