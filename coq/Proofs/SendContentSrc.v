(* ChannelHandle::send_content AS TRANSLATED FROM THE SOURCE on every run (Gen/SrcSend.v, by
   tools/rs2sm.py from src/io_loop/channel_handle.rs - the loop that cuts a body into frames) is
   the hand-written model `body_chunks` (Model/Publish.v) the C02 theorems are about: for every
   body and every limit >= 1 it hands the channel exactly the content header and then the chunks
   the model says, in order.  Stdlib only, no axioms. *)
From Coq Require Import String.
From Amq Require Import Lib.Base Lib.RsVal Gen.Consts Model.Publish Proofs.Publish Gen.SrcSend.
Open Scope string_scope.
Open Scope N_scope.

(* the handle of the channel (IoLoopHandle::send_content_header / send_content_body), as a log of
   what it was given; every send is accepted (a failing send ends send_content with that error:
   the `?` of the translation) *)
Definition ext_st_model (name : string) (args : list val) (self : val) : val * val :=
  match v_field "sent" self with
  | VC q l =>
      if (name =? "handle.send_content_header")%string then
        (v_set "sent" (VC q (l ++ [VC "header" args])) self, VC "Ok" [VC "()" []])
      else if (name =? "handle.send_content_body")%string then
        (v_set "sent" (VC q (l ++ [VC "body" args])) self, VC "Ok" [VC "()" []])
      else (self, VStuck)
  | _ => (self, VStuck)
  end.

Definition enc_self (fm : N) (log : list val) : val := VR [("frame_max", VN fm); ("sent", VC "frames" log)].
Definition body_item (chunk : bytes) : val := VC "body" [VBytes chunk].

Lemma loop_source_is_model fm cid props : 1 <= fm ->
  forall fuel body log, (length body < fuel)%nat ->
  gen_ChannelHandle_send_content_loop1 ext_st_model fuel (enc_self fm log) cid (VBytes body) props
  = (enc_self fm (log ++ map body_item (chunks fuel fm body)), VC "Ok" [VC "()" []]).
Proof.
  intro Hfm. induction fuel as [|fuel IH]; intros body log Hlen; [lia|].
  cbn [gen_ChannelHandle_send_content_loop1 chunks].
  change (v_ltb (v_field "frame_max" (enc_self fm log)) (v_len (VBytes body))) with (fm <? N.of_nat (length body)).
  destruct (fm <? N.of_nat (length body)) eqn:E.
  - apply N.ltb_lt in E.
    change (ext_st_model "handle.send_content_body" [v_take (v_field "frame_max" (enc_self fm log)) (VBytes body)] (enc_self fm log))
      with (enc_self fm (log ++ [body_item (firstn (N.to_nat fm) body)]), VC "Ok" [VC "()" []]).
    cbn iota beta.
    change (v_drop (v_field "frame_max" (enc_self fm (log ++ [body_item (firstn (N.to_nat fm) body)]))) (VBytes body))
      with (VBytes (skipn (N.to_nat fm) body)).
    rewrite IH; [|rewrite skipn_length; lia].
    cbn [map]. rewrite <- app_assoc. reflexivity.
  - destruct body as [|b body]; [cbn; rewrite app_nil_r; reflexivity|]. reflexivity.
Qed.

(* THE MODEL IS THE SOURCE *)
Theorem send_content_source_is_model fm cid props body log : 1 <= fm ->
  gen_ChannelHandle_send_content ext_st_model (S (length body)) (enc_self fm log) (VBytes body) cid props
  = (enc_self fm (log ++ VC "header" [cid; VN (N.of_nat (length body)); props] :: map body_item (body_chunks fm body)),
     VC "Ok" [VC "()" []]).
Proof.
  intro Hfm. unfold gen_ChannelHandle_send_content.
  change (ext_st_model "handle.send_content_header" [cid; v_len (VBytes body); props] (enc_self fm log))
    with (enc_self fm (log ++ [VC "header" [cid; VN (N.of_nat (length body)); props]]), VC "Ok" [VC "()" []]).
  cbn iota beta. rewrite (loop_source_is_model cid props Hfm); [|lia].
  unfold body_chunks. rewrite <- app_assoc. reflexivity.
Qed.

(* C02 AS A THEOREM ABOUT THE TRANSLATED CODE: with the limit Channel0Handle::new computes from a
   negotiated frame_max (0 = no limit, else at least FRAME_MIN_SIZE), the translated send_content
   hands over the header announcing the body's length and then body frames that are non-empty, fit
   frame_max including the 8 bytes of frame overhead, are all full except possibly the last, and
   concatenate to exactly the body - none at all for an empty body *)
Theorem send_content_source_frames frame_max cid props body log :
  frame_max = 0 \/ c_frame_min_size <= frame_max ->
  exists chunks,
    gen_ChannelHandle_send_content ext_st_model (S (length body)) (enc_self (payload_limit frame_max) log) (VBytes body) cid props
    = (enc_self (payload_limit frame_max)
         (log ++ VC "header" [cid; VN (N.of_nat (length body)); props] :: map body_item chunks),
       VC "Ok" [VC "()" []]) /\
    concat chunks = body /\
    Forall (fun c => 0 < N.of_nat (length c) <= payload_limit frame_max) chunks /\
    (c_frame_min_size <= frame_max ->
     Forall (fun c => N.of_nat (length c) + c_frame_overhead <= frame_max) chunks) /\
    (forall pre c, chunks = (pre ++ [c])%list ->
     Forall (fun x => N.of_nat (length x) = payload_limit frame_max) pre) /\
    (body = [] -> chunks = []).
Proof.
  intro Hfm. pose proof (payload_limit_pos Hfm) as Hpos.
  exists (body_chunks (payload_limit frame_max) body).
  split; [apply send_content_source_is_model; lia|].
  split; [apply body_chunks_concat; exact Hpos|].
  split; [apply body_chunks_sizes; exact Hpos|].
  split; [intro H; apply body_frame_size; exact H|].
  split; [intros pre c H; apply (body_chunks_full Hpos H)|].
  intros ->. apply body_chunks_empty.
Qed.

(* non-vacuity: 10 bytes with limit 4: header, then 4 + 4 + 2 *)
Example send_content_example :
  gen_ChannelHandle_send_content ext_st_model 11 (enc_self 4 []) (VBytes [1; 2; 3; 4; 5; 6; 7; 8; 9; 10]) (VN 60) (VO 3)
  = (enc_self 4 [VC "header" [VN 60; VN 10; VO 3]; body_item [1; 2; 3; 4]; body_item [5; 6; 7; 8]; body_item [9; 10]],
     VC "Ok" [VC "()" []]).
Proof. vm_compute. reflexivity. Qed.
