(* The content collector AS TRANSLATED FROM THE SOURCE on every run (Gen/SrcCollect.v, by
   tools/rs2sm.py from src/io_loop/content_collector.rs) is the hand-written model
   (Model/Collector.v) the C03 theorems are about: for every collector state, every method /
   header / body frame.  Stdlib only, no axioms. *)
From Coq Require Import String.
From Amq Require Import Lib.Base Lib.RsVal Model.Frames Model.Collector Gen.SrcCollect Spec.Content Proofs.Collector.
Open Scope string_scope.
Open Scope N_scope.

Section Tie.
  (* T::new (Delivery::new / Return::new / Get's): any function that, for a Deliver, builds a pair
     (consumer tag, delivery) - the only thing the collector looks at *)
  Variable t_new : list val -> val.
  (* the method a content starts with, as a value the collector only passes on *)
  Variable payload : ckind -> val.
  Hypothesis deliver_is_pair : forall ch tag dtag red exch rk buf props,
    exists t d, t_new [ch; payload (CDeliver tag dtag red exch rk); buf; props] = VC "tuple" [t; d].
  (* the fields of AMQPContentHeader the collector does not read *)
  Variables class_id weight : val.

  Definition kind_tag (k : ckind) : string :=
    match k with CDeliver _ _ _ _ _ => "Kind::Delivery" | CReturn _ _ _ _ => "Kind::Return" | CGet _ _ _ _ _ => "Kind::Get" end.
  Definition result_tag (k : ckind) : string :=
    match k with CDeliver _ _ _ _ _ => "CollectorResult::Delivery" | CReturn _ _ _ _ => "CollectorResult::Return"
            | CGet _ _ _ _ _ => "CollectorResult::Get" end.

  Definition enc_header (size props : N) : val :=
    VR [("class_id", class_id); ("weight", weight); ("body_size", VN size); ("properties", VO props)].

  (* Option<Kind> *)
  Definition enc_state (st : cstate) : val :=
    match st with
    | CNone => VC "None" []
    | CStart k => VC "Some" [VC (kind_tag k) [VC "State::Start" [payload k]]]
    | CBody k size props acc => VC "Some" [VC (kind_tag k) [VC "State::Body" [payload k; enc_header size props; VBytes acc]]]
    end.

  Definition enc_self (ch : N) (st : cstate) : val := VR [("channel_id", VN ch); ("kind", enc_state st)].

  Definition frame_unexpected : val := VC "Err" [VC "Error::FrameUnexpected" []].

  (* what a call leaves behind and returns, for each outcome of the model: on an error the
     collector has forgotten what it held (kind was taken) *)
  Definition enc_res (ch : N) (r : cres) : val * val :=
    match r with
    | CErr => (enc_self ch CNone, frame_unexpected)
    | CMore st => (enc_self ch st, VC "Ok" [VC "None" []])
    | CDone k props body =>
        (enc_self ch CNone,
         VC "Ok" [VC "Some" [VC (result_tag k) [t_new [VN ch; payload k; VBytes body; VO props]]]])
    end.

  (* collect_deliver / collect_return / collect_get return Ok(()) where the model says CMore *)
  Definition enc_res_unit (ch : N) (r : cres) : val * val :=
    match r with
    | CMore st => (enc_self ch st, VC "Ok" [VC "()" []])
    | _ => (enc_self ch CNone, frame_unexpected)
    end.

  Theorem method_source_is_model ch st tag dtag red exch rk code text count :
    gen_ContentCollector_collect_deliver (enc_self ch st) (payload (CDeliver tag dtag red exch rk))
      = enc_res_unit ch (collect_method (CDeliver tag dtag red exch rk) st) /\
    gen_ContentCollector_collect_return (enc_self ch st) (payload (CReturn code text exch rk))
      = enc_res_unit ch (collect_method (CReturn code text exch rk) st) /\
    gen_ContentCollector_collect_get (enc_self ch st) (payload (CGet dtag red exch rk count))
      = enc_res_unit ch (collect_method (CGet dtag red exch rk count) st).
  Proof. destruct st as [|k|k size props acc]; try destruct k; repeat split; reflexivity. Qed.

  Theorem header_source_is_model ch st size props :
    gen_ContentCollector_collect_header t_new (enc_self ch st) (enc_header size props)
      = enc_res ch (collect_header size props st).
  Proof.
    destruct st as [|k|k size0 props0 acc]; [reflexivity| |destruct k; reflexivity].
    unfold collect_header. destruct (N.eqb_spec size 0) as [E|E].
    - subst size. destruct k as [tag dtag red exch rk| |]; try reflexivity.
      destruct (deliver_is_pair (VN ch) tag dtag red exch rk (VBytes []) (VO props)) as (t & d & H).
      cbn. rewrite N.eqb_refl. cbn. rewrite H. reflexivity.
    - assert (E' : (size =? 0) = false) by (apply N.eqb_neq; exact E).
      destruct k; cbn; rewrite E'; reflexivity.
  Qed.

  Theorem body_source_is_model ch st body :
    gen_ContentCollector_collect_body t_new (enc_self ch st) (VBytes body)
      = enc_res ch (collect_body body st).
  Proof.
    destruct st as [|k|k size props acc]; [reflexivity|destruct k; reflexivity|].
    unfold collect_body.
    destruct k as [tag dtag red exch rk|code text exch rk|dtag red exch rk count];
      cbn; destruct (N.of_nat (length (acc ++ body)) ?= size) eqn:E; cbn; try reflexivity.
    destruct (deliver_is_pair (VN ch) tag dtag red exch rk (VBytes (acc ++ body)) (VO props)) as (t & d & H).
    rewrite H. reflexivity.
  Qed.

  (* ---- every sequence of frames ---- *)
  Definition gstep (self : val) (e : cev) : val * val :=
    match e with
    | EvM k => match k with
               | CDeliver _ _ _ _ _ => gen_ContentCollector_collect_deliver self (payload k)
               | CReturn _ _ _ _ => gen_ContentCollector_collect_return self (payload k)
               | CGet _ _ _ _ _ => gen_ContentCollector_collect_get self (payload k)
               end
    | EvH size props => gen_ContentCollector_collect_header t_new self (enc_header size props)
    | EvB b => gen_ContentCollector_collect_body t_new self (VBytes b)
    end.

  (* Err(_) | Ok(None) / Ok(()) | Ok(Some(x)) *)
  Definition classify (r : val) : option (option val) :=
    match r with
    | VC c [a] =>
        if (c =? "Ok")%string then
          match a with
          | VC c2 [x] => if (c2 =? "Some")%string then Some (Some x) else Some None
          | _ => Some None
          end
        else None
    | _ => None
    end.

  (* what the I/O thread does with a channel's frames: results in order; stops at the first error *)
  Fixpoint grun (self : val) (evs : list cev) : list val * option val :=
    match evs with
    | [] => ([], Some self)
    | e :: evs' =>
        let '(self', r) := gstep self e in
        match classify r with
        | None => ([], None)
        | Some None => grun self' evs'
        | Some (Some x) => let '(out, fin) := grun self' evs' in (x :: out, fin)
        end
    end.

  Definition enc_out (ch : N) (m : ckind * N * bytes) : val :=
    let '(k, props, body) := m in VC (result_tag k) [t_new [VN ch; payload k; VBytes body; VO props]].

  Lemma gstep_is_cstep ch st e :
    gstep (enc_self ch st) e =
    match e with EvM _ => enc_res_unit ch (cstep st e) | _ => enc_res ch (cstep st e) end.
  Proof.
    destruct e as [k|size props|b]; cbn [gstep cstep].
    - destruct k as [tag dtag red exch rk|code text exch rk|dtag red exch rk count].
      + exact (proj1 (method_source_is_model ch st tag dtag red exch rk 0 [] 0)).
      + exact (proj1 (proj2 (method_source_is_model ch st [] 0 false exch rk code text 0))).
      + exact (proj2 (proj2 (method_source_is_model ch st [] dtag red exch rk 0 [] count))).
    - apply header_source_is_model.
    - apply body_source_is_model.
  Qed.

  (* running the translated functions over ANY sequence of frames from an encoded state is running
     the model: the same messages completed, in the same order, the same final state, the same
     point of failure *)
  Theorem run_source_is_model ch : forall evs st,
    grun (enc_self ch st) evs =
    (map (enc_out ch) (fst (crun st evs)), option_map (enc_self ch) (snd (crun st evs))).
  Proof.
    induction evs as [|e evs IH]; intro st; [reflexivity|].
    cbn [grun crun]. rewrite gstep_is_cstep.
    destruct e as [k|size props|b]; destruct (cstep st _) as [|st'|k' props' body'] eqn:E;
      cbn [enc_res enc_res_unit]; try reflexivity.
    - cbn. rewrite IH. reflexivity.
    - exfalso. destruct st; cbn in E; discriminate.
    - cbn. rewrite IH. reflexivity.
    - destruct k'; cbn; rewrite IH; destruct (crun CNone evs); reflexivity.
    - cbn. rewrite IH. reflexivity.
    - destruct k'; cbn; rewrite IH; destruct (crun CNone evs); reflexivity.
  Qed.

  (* C03 for the code as translated: any number of messages one after the other, each rendered as
     method + header + body frames with ANY valid partition of its body: the translated collector
     hands on exactly those messages - kind, properties, the whole body -, each once, in order, and
     is idle again *)
  Theorem source_sequence ch (msgs : list msg3) :
    Forall (fun '(_, _, parts) => valid_parts parts) msgs ->
    grun (enc_self ch CNone) (flat_map (fun '(k, props, parts) => crender k props parts) msgs)
    = (map (fun '(k, props, parts) => enc_out ch (k, props, concat parts)) msgs, Some (enc_self ch CNone)).
  Proof.
    intro Hv. rewrite run_source_is_model, (collector_sequence Hv). cbn [fst snd option_map].
    rewrite map_map. f_equal. apply map_ext. intros [[k props] parts]. reflexivity.
  Qed.
End Tie.

(* the hypothesis about T::new is satisfiable: Delivery::new builds (tag, delivery), the others a
   single value *)
Example tie_hypothesis_example :
  let payload := fun k => match k with
                          | CDeliver tag _ _ _ _ => VC "Deliver" [VBytes tag]
                          | CReturn _ _ _ _ => VC "Return" []
                          | CGet _ _ _ _ _ => VC "GetOk" []
                          end in
  let t_new := fun args => match args with
                           | [ch; VC "Deliver" [tag]; buf; props] => VC "tuple" [tag; VC "Delivery" [ch; buf; props]]
                           | _ => VC "Finish" args
                           end in
  (forall (ch : val) tag dtag red exch rk (buf props : val),
     exists t d : val, t_new [ch; payload (CDeliver tag dtag red exch rk); buf; props] = VC "tuple" [t; d]) /\
  grun t_new payload (VN 60) (VN 0) (enc_self payload (VN 60) (VN 0) 3 CNone)
       (crender (CDeliver [116] 9 false [] [114]) 5 [[1; 2]; []; [3]] ++ [EvB [7]])
  = ([VC "CollectorResult::Delivery" [VC "tuple" [VBytes [116]; VC "Delivery" [VN 3; VBytes [1; 2; 3]; VO 5]]]], None).
Proof. split; [intros; eexists; eexists; reflexivity|vm_compute; reflexivity]. Qed.
