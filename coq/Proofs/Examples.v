(* Concrete reachable states used by the non-vacuity Examples of the Props files: built by
   running the model from its initial state, exactly as the L1 drivers drive the real code. *)
From Amq Require Export Check.Core.

Definition ex_step (w : world) (o : cop) : world := snd (step w o).
Definition ex_build (ops : list cop) : core :=
  w_core (fold_left ex_step ops {| w_core := init_core 10 16; w_handles := []; w_torn := false |}).

(* channels 1 and 2 open, one consumer on each ("t" on 1, "u" on 2), their ConsumeOk taken *)
Definition ex_two_channels : core :=
  ex_build [OClAllocReq None; OEvent EvAlloc; OClRecv 1; OClAllocReq None; OEvent EvAlloc; OClRecv 1;
            OFrame (FMethod 1 (MConsumeOk [116]), []); OClRecv 2;
            OFrame (FMethod 2 (MConsumeOk [117]), []); OClRecv 3].

(* every queue: id, everything it ever accepted, is a sender still alive *)
Definition ex_queues (c : core) : list (N * list qitem * bool) :=
  map (fun '(q, qu) => (q, q_hist qu, q_tx qu)) (c_qs c).
Definition ex_senders (c : core) : list (N * bool) := map (fun '(q, qu) => (q, q_tx qu)) (c_qs c).
