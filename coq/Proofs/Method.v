(* What a server reads back from a method payload the client wrote is what the client meant:
   decode (encode m) = m for every method of the client side and every field value its width
   can carry, with nothing left over; so two different methods never have the same bytes.
   Stdlib only, no axioms. *)
From Amq Require Import Lib.Base Model.Method.

Lemma pow256_pos w : 0 < 256 ^ N.of_nat w.
Proof. apply N.neq_0_lt_0. apply N.pow_nonzero. discriminate. Qed.

Lemma pow256_succ w : 256 ^ N.of_nat (S w) = 256 ^ N.of_nat w * 256.
Proof. rewrite Nat2N.inj_succ, N.pow_succ_r'. lia. Qed.

(* the w low base-256 digits of any n *)
Lemma unbe_be w : forall n acc r,
  unbe w acc (be w n ++ r) = Some (acc * 256 ^ N.of_nat w + n mod 256 ^ N.of_nat w, r).
Proof.
  induction w as [|w IH]; intros n acc r.
  - cbn [unbe be app]. rewrite N.pow_0_r, N.mod_1_r. f_equal. f_equal. lia.
  - cbn [be app unbe]. rewrite IH. f_equal. f_equal.
    rewrite pow256_succ.
    rewrite (N.mod_mul_r n (256 ^ N.of_nat w) 256); [|pose proof (pow256_pos w); lia|discriminate].
    lia.
Qed.

Lemma unbe_be_small w n acc r :
  n < 256 ^ N.of_nat w -> unbe w acc (be w n ++ r) = Some (acc * 256 ^ N.of_nat w + n, r).
Proof. intro H. rewrite unbe_be, (N.mod_small _ _ H). reflexivity. Qed.

Lemma be_length w n : length (be w n) = w.
Proof. induction w as [|w IH]; cbn [be length]; [reflexivity|]. rewrite IH. reflexivity. Qed.

Lemma bits_val_bound bs : bits_val bs < 2 ^ N.of_nat (length bs).
Proof.
  induction bs as [|b bs IH]; cbn [bits_val length]; [rewrite N.pow_0_r; lia|].
  rewrite Nat2N.inj_succ, N.pow_succ_r'. destruct b; lia.
Qed.

Lemma bits_of_val bs : bits_of (length bs) (bits_val bs) = bs.
Proof.
  induction bs as [|b bs IH]; cbn [bits_val length bits_of]; [reflexivity|].
  f_equal.
  - rewrite N.odd_add_mul_2. destruct b; reflexivity.
  - rewrite N.div2_div. replace ((if b then 1 else 0) + 2 * bits_val bs) with (bits_val bs * 2 + (if b then 1 else 0)) by lia.
    rewrite N.div_add_l by discriminate. destruct b; cbn; rewrite ?N.add_0_r; exact IH.
Qed.

Lemma take_app s r : take (len s) (s ++ r) = Some (s, r).
Proof.
  unfold take, len. rewrite app_length.
  destruct (N.leb_spec (N.of_nat (length s)) (N.of_nat (length s + length r))) as [_|H]; [|lia].
  rewrite Nat2N.id, firstn_app_exact, skipn_app_exact. reflexivity.
Qed.

Theorem dec_enc_field f r :
  wf_field f -> dec_field (type_of f) (enc_field f ++ r) = Some (f, r).
Proof.
  destruct f as [w n|s|s|raw|bs]; cbn [wf_field type_of enc_field dec_field]; intro H.
  - rewrite (unbe_be_small _ _ H). rewrite N.mul_0_l, N.add_0_l. reflexivity.
  - cbn [app]. rewrite take_app. reflexivity.
  - rewrite <- app_assoc. rewrite (@unbe_be_small 4 (len s) 0 (s ++ r)) by exact H.
    rewrite N.mul_0_l, N.add_0_l. rewrite take_app. reflexivity.
  - rewrite <- app_assoc. rewrite (@unbe_be_small 4 (len raw) 0 (raw ++ r)) by exact H.
    rewrite N.mul_0_l, N.add_0_l. rewrite take_app. reflexivity.
  - cbn [app]. pose proof (bits_val_bound bs) as Hb.
    destruct (N.ltb_spec (bits_val bs) (2 ^ N.of_nat (length bs))) as [_|Hc]; [|lia].
    rewrite bits_of_val. reflexivity.
Qed.

Theorem dec_enc_fields fs : forall r,
  Forall wf_field fs -> dec_fields (map type_of fs) (enc_fields fs ++ r) = Some (fs, r).
Proof.
  induction fs as [|f fs IH]; intros r H; [reflexivity|].
  inversion H as [|? ? Hf Hfs]; subst. unfold enc_fields. cbn [map concat dec_fields].
  rewrite <- app_assoc. rewrite (dec_enc_field _ Hf). fold (enc_fields fs). rewrite (IH r Hfs). reflexivity.
Qed.

(* THE ROUND TRIP: for every method in the table, every field list of the method's shape whose
   values fit their widths *)
Theorem dec_enc_method cls meth fs :
  cls < 65536 -> meth < 65536 -> schema cls meth = Some (map type_of fs) -> Forall wf_field fs ->
  dec_method (enc_method cls meth fs) = Some (cls, meth, fs).
Proof.
  intros Hc Hm Hs Hw. unfold dec_method, enc_method.
  rewrite (@unbe_be_small 2 cls 0 _) by exact Hc. rewrite N.mul_0_l, N.add_0_l.
  rewrite (@unbe_be_small 2 meth 0 _) by exact Hm. rewrite N.mul_0_l, N.add_0_l.
  rewrite Hs. rewrite <- (app_nil_r (enc_fields fs)). rewrite (dec_enc_fields [] Hw). reflexivity.
Qed.

(* hence the bytes determine the method: no two different well-formed methods of the table are
   written the same way *)
Theorem enc_method_injective c1 m1 f1 c2 m2 f2 :
  c1 < 65536 -> m1 < 65536 -> schema c1 m1 = Some (map type_of f1) -> Forall wf_field f1 ->
  c2 < 65536 -> m2 < 65536 -> schema c2 m2 = Some (map type_of f2) -> Forall wf_field f2 ->
  enc_method c1 m1 f1 = enc_method c2 m2 f2 -> (c1, m1, f1) = (c2, m2, f2).
Proof.
  intros A1 A2 A3 A4 B1 B2 B3 B4 E.
  pose proof (dec_enc_method A1 A2 A3 A4) as D1. pose proof (dec_enc_method B1 B2 B3 B4) as D2.
  rewrite E in D1. rewrite D1 in D2. inversion D2. reflexivity.
Qed.

Example method_example :
  (* queue.declare "q" durable, no table entries, on the wire and back *)
  let fs := [FNum 2 0; FShortStr [113]; FBits [false; true; false; false; false]; FTable []] in
  enc_method 50 10 fs = [0; 50; 0; 10; 0; 0; 1; 113; 2; 0; 0; 0; 0] /\
  dec_method (enc_method 50 10 fs) = Some (50, 10, fs).
Proof. vm_compute. split; reflexivity. Qed.
