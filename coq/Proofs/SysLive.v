(* No reachable state of the system (Model/Sys.v) is stuck while the I/O thread lives: from
   every reachable state there is a continuation - drain the caller's mailbox, write the
   out-buffer, let the server read and answer, read the replies, receive - after which a
   blocked caller has returned.  Stdlib only, no axioms. *)
From Amq Require Import Lib.Base Model.Sys Proofs.Sys.

Section Live.
  Variable answer : N -> N -> N.
  Variables bound qcap : N.
  Variable progs : N -> list call.
  Hypothesis Hq : 2 <= qcap.

  Notation step := (ystep answer bound qcap).
  Notation run := (yrun answer bound qcap).
  Notation YI := (YInv answer progs).

  Lemma run_app a b s : run s (a ++ b) = run (run s a) b.
  Proof. unfold yrun. apply fold_left_app. Qed.

  Definition live (s : sys) : Prop := y_dead s = false /\ y_fail s = false.

  (* the stages behind the reply queue, for caller n *)
  Record staged (s : sys) (n : N) (mail outbuf outwire pend inwire : bool) : Prop := {
    st_mail : mail = true -> yc_mail (y_ch s n) = [];
    st_outbuf : outbuf = true -> y_outbuf s = [];
    st_outwire : outwire = true -> y_outwire s = [];
    st_pend : pend = true -> yc_pend (y_ch s n) = [];
    st_inwire : inwire = true -> y_inwire s = [] }.

  Ltac live_unfold Hl := destruct Hl as [Hd Hf]; unfold ystep; rewrite Hf, Hd.

  (* the server has not closed channel n *)
  Definition opened (s : sys) (n : N) : Prop := yc_srv_closed (y_ch s n) = false.

  Lemma opened_slot s n : YI s -> opened s n -> yc_slot_gone (y_ch s n) = false.
  Proof. intros [_ Hi] Ho. destruct (Hi n) as (_ & HO & _). destruct (HO Ho) as (_ & _ & _ & _ & _ & _ & _ & H). exact H. Qed.

  (* 1. the whole mailbox of n goes to the out-buffer *)
  Lemma phase_drain s n : live s -> YI s -> opened s n ->
    let s' := step s (ADrain n (length (yc_mail (y_ch s n)))) in
    live s' /\ YI s' /\ staged s' n true false false false false /\ yc_wait (y_ch s' n) = yc_wait (y_ch s n) /\ opened s' n.
  Proof.
    intros Hl Hi Ho. cbn zeta. pose proof (opened_slot Hi Ho) as Hg.
    split; [|split; [apply YInv_step; assumption|split; [|split]]].
    - live_unfold Hl. rewrite Hg. split; reflexivity.
    - live_unfold Hl. rewrite Hg. constructor; try discriminate. intros _. cbn [orb y_ch]. rewrite yupd_same. cbn [ch_set_mail yc_mail].
      apply skipn_all.
    - live_unfold Hl. rewrite Hg. cbn [orb y_ch]. rewrite yupd_same. reflexivity.
    - unfold opened. live_unfold Hl. rewrite Hg. cbn [orb y_ch]. rewrite yupd_same. exact Ho.
  Qed.

  (* 2. the whole out-buffer goes to the wire *)
  Lemma phase_write s n : live s -> YI s -> staged s n true false false false false -> opened s n ->
    let s' := step s (AWrite (length (y_outbuf s))) in
    live s' /\ YI s' /\ staged s' n true true false false false /\ yc_wait (y_ch s' n) = yc_wait (y_ch s n) /\ opened s' n.
  Proof.
    intros Hl Hi Hs Ho. cbn zeta. split; [|split; [apply YInv_step; assumption|split; [|split]]]; cycle 3.
    { unfold opened. live_unfold Hl. exact Ho. }
    - live_unfold Hl. split; reflexivity.
    - live_unfold Hl. constructor; try discriminate; intros _; cbn [y_ch y_outbuf].
      + apply (st_mail Hs eq_refl).
      + apply skipn_all.
    - live_unfold Hl. reflexivity.
  Qed.

  (* 3. the server reads everything that is on the wire *)
  Lemma phase_srvread n : forall k s, live s -> YI s -> staged s n true true false false false -> opened s n ->
    length (y_outwire s) = k ->
    let s' := run s (repeat ASrvRead k) in
    live s' /\ YI s' /\ staged s' n true true true false false /\ yc_wait (y_ch s' n) = yc_wait (y_ch s n) /\ opened s' n.
  Proof.
    induction k as [|k IH]; intros s Hl Hi Hs Ho Hk.
    - cbn [repeat]. change (run s []) with s. split; [exact Hl|]. split; [exact Hi|]. split; [|split; [reflexivity|exact Ho]].
      constructor; try discriminate; intros _;
        [apply (st_mail Hs eq_refl)|apply (st_outbuf Hs eq_refl)|apply length_zero_iff_nil; exact Hk].
    - cbn [repeat]. change (ASrvRead :: repeat ASrvRead k) with ([ASrvRead] ++ repeat ASrvRead k).
      rewrite run_app. change (run s [ASrvRead]) with (step s ASrvRead).
      destruct (y_outwire s) as [|[m x] rest] eqn:Hw; [discriminate|].
      set (s1 := step s ASrvRead).
      assert (L1 : live s1).
      { unfold s1. destruct Hl as [Hd Hf]. unfold ystep. rewrite Hf, Hw. split; [exact Hd|reflexivity]. }
      assert (I1 : YI s1) by (apply YInv_step; assumption).
      assert (E1 : y_outwire s1 = rest /\ y_outbuf s1 = y_outbuf s /\ yc_mail (y_ch s1 n) = yc_mail (y_ch s n)
                   /\ yc_wait (y_ch s1 n) = yc_wait (y_ch s n) /\ yc_srv_closed (y_ch s1 n) = yc_srv_closed (y_ch s n)).
      { unfold s1. destruct Hl as [Hd Hf]. unfold ystep. rewrite Hf, Hw. cbn [y_outwire y_outbuf y_ch].
        split; [reflexivity|]. split; [reflexivity|].
        destruct (is_sync x && negb (yc_srv_closed (y_ch s m))); [|repeat split].
        unfold yupd. destruct (n =? m) eqn:E; [apply N.eqb_eq in E; subst m|]; repeat split. }
      destruct E1 as (E1 & E2 & E3 & E4 & E5).
      assert (S1 : staged s1 n true true false false false).
      { constructor; try discriminate; intros _; [rewrite E3; apply (st_mail Hs eq_refl)|rewrite E2; apply (st_outbuf Hs eq_refl)]. }
      assert (O1 : opened s1 n) by (unfold opened; rewrite E5; exact Ho).
      assert (K1 : length (y_outwire s1) = k) by (rewrite E1; cbn in Hk; lia).
      destruct (IH s1 L1 I1 S1 O1 K1) as (A & B & C & D & F). fold s1.
      split; [exact A|]. split; [exact B|]. split; [exact C|]. split; [rewrite D; exact E4|exact F].
  Qed.

  (* 4. the server answers everything it owes channel n *)
  Lemma phase_answer n : forall k s, live s -> YI s -> staged s n true true true false false -> opened s n ->
    length (yc_pend (y_ch s n)) = k ->
    let s' := run s (repeat (ASrvAnswer n) k) in
    live s' /\ YI s' /\ staged s' n true true true true false /\ yc_wait (y_ch s' n) = yc_wait (y_ch s n) /\ opened s' n.
  Proof.
    induction k as [|k IH]; intros s Hl Hi Hs Ho Hk.
    - cbn [repeat]. change (run s []) with s. split; [exact Hl|]. split; [exact Hi|]. split; [|split; [reflexivity|exact Ho]].
      constructor; try discriminate; intros _;
        [apply (st_mail Hs eq_refl)|apply (st_outbuf Hs eq_refl)|apply (st_outwire Hs eq_refl)|apply length_zero_iff_nil; exact Hk].
    - cbn [repeat]. change (ASrvAnswer n :: repeat (ASrvAnswer n) k) with ([ASrvAnswer n] ++ repeat (ASrvAnswer n) k).
      rewrite run_app. change (run s [ASrvAnswer n]) with (step s (ASrvAnswer n)).
      destruct (yc_pend (y_ch s n)) as [|r rest] eqn:Hp; [discriminate|].
      set (s1 := step s (ASrvAnswer n)).
      assert (L1 : live s1).
      { unfold s1. destruct Hl as [Hd Hf]. unfold ystep. rewrite Hf, Hp. split; [exact Hd|reflexivity]. }
      assert (I1 : YI s1) by (apply YInv_step; assumption).
      assert (E1 : yc_pend (y_ch s1 n) = rest /\ y_outwire s1 = y_outwire s /\ y_outbuf s1 = y_outbuf s /\
                   yc_mail (y_ch s1 n) = yc_mail (y_ch s n) /\ yc_wait (y_ch s1 n) = yc_wait (y_ch s n) /\
                   yc_srv_closed (y_ch s1 n) = yc_srv_closed (y_ch s n)).
      { unfold s1. destruct Hl as [Hd Hf]. unfold ystep. rewrite Hf, Hp. cbn [y_outwire y_outbuf y_ch].
        rewrite yupd_same. repeat split. }
      destruct E1 as (E1 & E2 & E3 & E4 & E5 & E6).
      assert (S1 : staged s1 n true true true false false).
      { constructor; try discriminate; intros _;
          [rewrite E4; apply (st_mail Hs eq_refl)|rewrite E3; apply (st_outbuf Hs eq_refl)|rewrite E2; apply (st_outwire Hs eq_refl)]. }
      assert (O1 : opened s1 n) by (unfold opened; rewrite E6; exact Ho).
      assert (K1 : length (yc_pend (y_ch s1 n)) = k) by (rewrite E1; cbn in Hk; lia).
      destruct (IH s1 L1 I1 S1 O1 K1) as (A & B & C & D & F). fold s1.
      split; [exact A|]. split; [exact B|]. split; [exact C|]. split; [rewrite D; exact E5|exact F].
  Qed.

  (* one read by the I/O thread in a live state satisfying the invariant: it neither fails nor
     touches anything but the reply queue (and, for a Close, the mailbox and the slot) of the
     channel the frame is for *)
  Lemma read_one s m it rest : live s -> YI s -> y_inwire s = (m, it) :: rest ->
    let s1 := step s ARead in
    live s1 /\ YI s1 /\ y_inwire s1 = rest /\ y_outbuf s1 = y_outbuf s /\ y_outwire s1 = y_outwire s /\
    forall n, yc_wait (y_ch s1 n) = yc_wait (y_ch s n) /\ yc_pend (y_ch s1 n) = yc_pend (y_ch s n) /\
              yc_srv_closed (y_ch s1 n) = yc_srv_closed (y_ch s n) /\
              (yc_mail (y_ch s1 n) = yc_mail (y_ch s n) \/ yc_mail (y_ch s1 n) = []) /\
              (yc_slot_gone (y_ch s n) = true -> yc_slot_gone (y_ch s1 n) = true) /\
              (n = m -> it = WClose -> yc_slot_gone (y_ch s1 n) = true).
  Proof.
    intros Hl Hi Hw. cbn zeta.
    pose proof (YInv_step bound Hq ARead Hi) as I1.
    pose proof (proj1 I1) as F1.
    destruct Hl as [Hd Hf].
    unfold ystep in I1, F1 |- *. rewrite Hf, Hd, Hw in I1, F1 |- *.
    destruct (yc_slot_gone (y_ch s m)) eqn:Hg; [cbn in F1; discriminate|].
    destruct (N.of_nat (length (yc_replyq (y_ch s m))) <? qcap) eqn:Hroom; [|cbn in F1; discriminate].
    destruct it as [v|].
    - split; [split; reflexivity|]. split; [exact I1|]. cbn [y_inwire y_outbuf y_outwire y_ch].
      split; [reflexivity|]. split; [reflexivity|]. split; [reflexivity|].
      intro n. unfold yupd. destruct (n =? m) eqn:E; [apply N.eqb_eq in E; subst m|].
      + cbn. split; [reflexivity|]. split; [reflexivity|]. split; [reflexivity|]. split; [left; reflexivity|].
        split; [auto|]. intros _ X; discriminate.
      + apply N.eqb_neq in E. split; [reflexivity|]. split; [reflexivity|]. split; [reflexivity|]. split; [left; reflexivity|].
        split; [auto|]. intro; contradiction.
    - split; [split; reflexivity|]. split; [exact I1|]. cbn [y_inwire y_outbuf y_outwire y_ch].
      split; [reflexivity|]. split; [reflexivity|]. split; [reflexivity|].
      intro n. unfold yupd. destruct (n =? m) eqn:E; [apply N.eqb_eq in E; subst m|].
      + cbn. split; [reflexivity|]. split; [reflexivity|]. split; [reflexivity|]. split; [right; reflexivity|].
        split; auto.
      + apply N.eqb_neq in E. split; [reflexivity|]. split; [reflexivity|]. split; [reflexivity|]. split; [left; reflexivity|].
        split; [auto|]. intro; contradiction.
  Qed.

  (* 5. the I/O thread reads everything that is on the inbound wire: by the invariant every
     reply - and every Close - finds room in its queue *)
  Lemma read_all : forall k s, live s -> YI s -> length (y_inwire s) = k ->
    let s' := run s (repeat ARead k) in
    live s' /\ YI s' /\ y_inwire s' = [] /\ y_outbuf s' = y_outbuf s /\ y_outwire s' = y_outwire s /\
    forall n, yc_wait (y_ch s' n) = yc_wait (y_ch s n) /\ yc_pend (y_ch s' n) = yc_pend (y_ch s n) /\
              yc_srv_closed (y_ch s' n) = yc_srv_closed (y_ch s n) /\
              (yc_mail (y_ch s' n) = yc_mail (y_ch s n) \/ yc_mail (y_ch s' n) = []) /\
              (yc_slot_gone (y_ch s n) = true -> yc_slot_gone (y_ch s' n) = true) /\
              (In (n, WClose) (y_inwire s) -> yc_slot_gone (y_ch s' n) = true).
  Proof.
    induction k as [|k IH]; intros s Hl Hi Hk.
    - cbn [repeat]. change (run s []) with s. apply length_zero_iff_nil in Hk.
      split; [exact Hl|]. split; [exact Hi|]. split; [exact Hk|]. split; [reflexivity|]. split; [reflexivity|].
      intro n. repeat split; auto. rewrite Hk. intros [].
    - cbn [repeat]. change (ARead :: repeat ARead k) with ([ARead] ++ repeat ARead k).
      rewrite run_app. change (run s [ARead]) with (step s ARead).
      destruct (y_inwire s) as [|[m it] rest] eqn:Hw; [discriminate|].
      destruct (read_one Hl Hi Hw) as (L1 & I1 & W1 & B1 & O1 & C1).
      set (s1 := step s ARead) in *.
      assert (K1 : length (y_inwire s1) = k) by (rewrite W1; cbn in Hk; lia).
      destruct (IH s1 L1 I1 K1) as (A & B & C & D & E & F).
      split; [exact A|]. split; [exact B|]. split; [exact C|]. split; [congruence|]. split; [congruence|].
      intro n. destruct (F n) as (F1 & F2 & F3 & F4 & F5 & F6). destruct (C1 n) as (G1 & G2 & G3 & G4 & G5 & G6).
      split; [congruence|]. split; [congruence|]. split; [congruence|]. split; [|split].
      + destruct F4 as [F4|F4]; [|right; exact F4]. destruct G4 as [G4|G4]; [left|right]; congruence.
      + intro X. apply F5, G5, X.
      + intros [X|X].
        * inversion X; subst. apply F5. apply G6; reflexivity.
        * apply F6. rewrite W1. exact X.
  Qed.

  Lemma phase_read n s : live s -> YI s -> staged s n true true true true false -> opened s n ->
    let s' := run s (repeat ARead (length (y_inwire s))) in
    live s' /\ YI s' /\ staged s' n true true true true true /\ yc_wait (y_ch s' n) = yc_wait (y_ch s n) /\ opened s' n.
  Proof.
    intros Hl Hi Hs Ho. destruct (read_all Hl Hi eq_refl) as (A & B & C & D & E & F). cbn zeta.
    destruct (F n) as (F1 & F2 & F3 & F4 & _).
    split; [exact A|]. split; [exact B|]. split; [|split; [exact F1|unfold opened; rewrite F3; exact Ho]].
    constructor; intros _.
    - destruct F4 as [F4|F4]; [rewrite F4; apply (st_mail Hs eq_refl)|exact F4].
    - rewrite D. apply (st_outbuf Hs eq_refl).
    - rewrite E. apply (st_outwire Hs eq_refl).
    - rewrite F2. apply (st_pend Hs eq_refl).
    - exact C.
  Qed.

  (* 6. with every stage behind it empty, a blocked caller's one item is in its reply queue *)
  Lemma staged_all_reply s n : YI s -> staged s n true true true true true -> opened s n ->
    yc_wait (y_ch s n) = true -> yc_failed (y_ch s n) = false -> yc_replyq (y_ch s n) <> [].
  Proof.
    intros [_ Hi] Hs Ho Hw Hfl. destruct (Hi n) as (_ & HO & _). destruct (HO Ho) as (_ & _ & H3 & _).
    specialize (H3 Hfl). rewrite Hw in H3. unfold inflight in H3.
    rewrite (st_mail Hs eq_refl), (st_outbuf Hs eq_refl), (st_outwire Hs eq_refl), (st_pend Hs eq_refl),
            (st_inwire Hs eq_refl) in H3.
    cbn in H3. intro E. rewrite E in H3. discriminate.
  Qed.

  Lemma open_not_failed s n : YI s -> live s -> opened s n -> yc_failed (y_ch s n) = false.
  Proof.
    intros [_ Hi] [Hd _] Ho. destruct (yc_failed (y_ch s n)) eqn:E; [|reflexivity].
    destruct (Hi n) as (_ & HO & _). destruct (HO Ho) as (_ & _ & _ & H4 & _). destruct (H4 E). congruence.
  Qed.

  (* THE CONTINUATION, for a channel the server has not closed *)
  Theorem sys_can_complete s n :
    YI s -> live s -> opened s n -> yc_wait (y_ch s n) = true ->
    exists cont, ~ In ADie cont /\ yc_wait (y_ch (run s cont) n) = false /\ live (run s cont).
  Proof.
    intros Hi Hl Ho Hw.
    set (a1 := ADrain n (length (yc_mail (y_ch s n)))).
    destruct (phase_drain Hl Hi Ho) as (L1 & I1 & S1 & W1 & O1). fold a1 in L1, I1, S1, W1, O1. set (s1 := step s a1) in *.
    destruct (phase_write L1 I1 S1 O1) as (L2 & I2 & S2 & W2 & O2). set (a2 := AWrite (length (y_outbuf s1))) in *. set (s2 := step s1 a2) in *.
    destruct (phase_srvread L2 I2 S2 O2 eq_refl) as (L3 & I3 & S3 & W3 & O3). set (c3 := repeat ASrvRead (length (y_outwire s2))) in *. set (s3 := run s2 c3) in *.
    destruct (phase_answer L3 I3 S3 O3 eq_refl) as (L4 & I4 & S4 & W4 & O4). set (c4 := repeat (ASrvAnswer n) (length (yc_pend (y_ch s3 n)))) in *. set (s4 := run s3 c4) in *.
    destruct (phase_read L4 I4 S4 O4) as (L5 & I5 & S5 & W5 & O5). set (c5 := repeat ARead (length (y_inwire s4))) in *. set (s5 := run s4 c5) in *.
    assert (Hw5 : yc_wait (y_ch s5 n) = true) by (rewrite W5, W4, W3, W2, W1; exact Hw).
    pose proof (open_not_failed I5 L5 O5) as Hfl5.
    pose proof (staged_all_reply I5 S5 O5 Hw5 Hfl5) as Hr.
    exists ([a1; a2] ++ c3 ++ c4 ++ c5 ++ [ARecv n]). split; [|split].
    - intro Hin. apply in_app_or in Hin. destruct Hin as [Hin|Hin].
      + destruct Hin as [E|[E|[]]]; discriminate.
      + apply in_app_or in Hin. destruct Hin as [Hin|Hin]; [apply repeat_spec in Hin; discriminate|].
        apply in_app_or in Hin. destruct Hin as [Hin|Hin]; [apply repeat_spec in Hin; discriminate|].
        apply in_app_or in Hin. destruct Hin as [Hin|Hin]; [apply repeat_spec in Hin; discriminate|].
        destruct Hin as [E|[]]; discriminate.
    - rewrite !run_app. change (run s [a1; a2]) with s2. fold s3. fold s4. fold s5.
      cbn [yrun fold_left]. destruct L5 as [Hd Hf]. unfold ystep. rewrite Hf, Hw5.
      destruct (yc_replyq (y_ch s5 n)) as [|[v|] r]; [contradiction| |]; cbn [with_ch y_ch]; rewrite yupd_same; reflexivity.
    - rewrite !run_app. change (run s [a1; a2]) with s2. fold s3. fold s4. fold s5.
      cbn [yrun fold_left]. pose proof L5 as [Hd Hf]. unfold ystep. rewrite Hf, Hw5.
      destruct (yc_replyq (y_ch s5 n)) as [|[v|] r]; [contradiction| |]; split; assumption.
  Qed.

  (* the server's Close is never lost: a channel the server has closed has its Close on the wire
     to the client until the I/O thread has processed it *)
  Definition CInv (s : sys) : Prop :=
    forall n, yc_srv_closed (y_ch s n) = true -> yc_slot_gone (y_ch s n) = true \/ In (n, WClose) (y_inwire s).

  Lemma CInv_init : CInv (init_sys progs).
  Proof. intros n H. discriminate. Qed.

  Lemma CInv_step s a : YI s -> CInv s -> CInv (step s a).
  Proof.
    intros Hi Hc. pose proof (YInv_step bound Hq a Hi) as [F1 _]. revert F1.
    unfold ystep. destruct (y_fail s) eqn:Hf; [intros _; exact Hc|].
    destruct a as [n|n|n k|k| |n|n| |].
    - intros _. destruct (yc_wait (y_ch s n) || yc_failed (y_ch s n)); [exact Hc|].
      destruct (yc_prog (y_ch s n)); [exact Hc|].
      destruct (y_dead s || yc_slot_gone (y_ch s n)); [|destruct (_ <? bound); [|exact Hc]];
        intros m; cbn [with_ch y_ch y_inwire]; unfold yupd; (destruct (m =? n) eqn:E; [apply N.eqb_eq in E; subst m; cbn; apply Hc|apply Hc]).
    - intros _. destruct (yc_wait (y_ch s n)); [|exact Hc].
      destruct (yc_replyq (y_ch s n)) as [|[v|] r]; [destruct (y_dead s || yc_slot_gone (y_ch s n)); [|exact Hc]| |];
        intros m; cbn [with_ch y_ch y_inwire]; unfold yupd; (destruct (m =? n) eqn:E; [apply N.eqb_eq in E; subst m; cbn; apply Hc|apply Hc]).
    - intros _. destruct (y_dead s || yc_slot_gone (y_ch s n)); [exact Hc|].
      intros m; cbn [y_ch y_inwire]; unfold yupd; (destruct (m =? n) eqn:E; [apply N.eqb_eq in E; subst m; cbn; apply Hc|apply Hc]).
    - intros _. destruct (y_dead s); exact Hc.
    - intros _. destruct (y_outwire s) as [|[n x] rest]; [exact Hc|].
      intros m; cbn [y_ch y_inwire]. destruct (is_sync x && negb (yc_srv_closed (y_ch s n))); [|apply Hc].
      unfold yupd; (destruct (m =? n) eqn:E; [apply N.eqb_eq in E; subst m; cbn; apply Hc|apply Hc]).
    - intros _. destruct (yc_pend (y_ch s n)); [exact Hc|].
      intros m; cbn [y_ch y_inwire]. intro X.
      assert (Y : yc_srv_closed (y_ch s m) = true).
      { revert X. unfold yupd. destruct (m =? n) eqn:E; [apply N.eqb_eq in E; subst m|]; cbn; auto. }
      destruct (Hc m Y) as [Z|Z]; [left|right; apply in_or_app; left; exact Z].
      unfold yupd. destruct (m =? n) eqn:E; [apply N.eqb_eq in E; subst m|]; cbn; auto.
    - intros _. destruct (yc_srv_closed (y_ch s n)) eqn:Ecl; [exact Hc|].
      intros m; cbn [y_ch y_inwire]. unfold yupd. destruct (m =? n) eqn:E; [apply N.eqb_eq in E; subst m|].
      + intros _. right. apply in_or_app. right. left. reflexivity.
      + intro X. destruct (Hc m X) as [Z|Z]; [left; exact Z|right; apply in_or_app; left; exact Z].
    - destruct (y_dead s); [intros _; exact Hc|].
      destruct (y_inwire s) as [|[n it] rest] eqn:Hw; [intros _; exact Hc|].
      destruct (yc_slot_gone (y_ch s n)) eqn:Hg; [cbn; discriminate|].
      destruct (_ <? qcap); [|cbn; discriminate].
      destruct it as [v|]; intros _ m; cbn [y_ch y_inwire]; unfold yupd;
        (destruct (m =? n) eqn:E; [apply N.eqb_eq in E; subst m|apply N.eqb_neq in E]); cbn.
      + intro X. destruct (Hc n X) as [Z|Z]; [left; exact Z|]. rewrite Hw in Z. destruct Z as [Z|Z]; [discriminate|right; exact Z].
      + intro X. destruct (Hc m X) as [Z|Z]; [left; exact Z|]. rewrite Hw in Z. destruct Z as [Z|Z]; [inversion Z; congruence|right; exact Z].
      + intros _. left. reflexivity.
      + intro X. destruct (Hc m X) as [Z|Z]; [left; exact Z|]. rewrite Hw in Z. destruct Z as [Z|Z]; [inversion Z; congruence|right; exact Z].
    - intros _. exact Hc.
  Qed.

  Lemma YC_run sched : forall s, YI s -> CInv s -> YI (run s sched) /\ CInv (run s sched).
  Proof.
    induction sched as [|a sched IH]; intros s Hi Hc; [split; assumption|].
    cbn [yrun fold_left]. apply IH; [apply YInv_step; assumption|apply CInv_step; assumption].
  Qed.

  (* THE CONTINUATION, for a channel the server has closed (C09): the I/O thread reads what is
     on the wire - the Close among it - and the blocked caller's recv returns *)
  Theorem sys_closed_completes s n :
    YI s -> CInv s -> live s -> yc_srv_closed (y_ch s n) = true -> yc_wait (y_ch s n) = true ->
    let cont := repeat ARead (length (y_inwire s)) ++ [ARecv n] in
    yc_wait (y_ch (run s cont) n) = false /\ live (run s cont).
  Proof.
    intros Hi Hc Hl Hcl Hw. cbn zeta. rewrite run_app.
    destruct (read_all Hl Hi eq_refl) as (A & B & C & D & E & F).
    set (s1 := run s (repeat ARead (length (y_inwire s)))) in *.
    destruct (F n) as (F1 & _ & _ & _ & F5 & F6).
    assert (Hg : yc_slot_gone (y_ch s1 n) = true) by (destruct (Hc n Hcl) as [Z|Z]; auto).
    cbn [yrun fold_left]. destruct A as [Hd Hf]. unfold ystep. rewrite Hf, F1, Hw, Hg, Hd. cbn [orb].
    destruct (yc_replyq (y_ch s1 n)) as [|[v|] r]; cbn [with_ch y_ch y_dead y_fail]; rewrite yupd_same;
      (split; [reflexivity|split; assumption]).
  Qed.

  (* ... from every REACHABLE state: a blocked caller can always be served while the I/O
     thread lives, whether the server has closed its channel or not - the system never
     deadlocks *)
  Theorem sys_never_stuck sched n :
    let s := run (init_sys progs) sched in
    y_dead s = false -> yc_wait (y_ch s n) = true ->
    exists cont, ~ In ADie cont /\ yc_wait (y_ch (run s cont) n) = false.
  Proof.
    cbn zeta. intros Hd Hw.
    destruct (YC_run sched (YInv_init answer progs Hq) CInv_init) as [Hi Hc].
    set (s := run (init_sys progs) sched) in *.
    destruct (yc_srv_closed (y_ch s n)) eqn:Ecl.
    - destruct (@sys_closed_completes s n Hi Hc (conj Hd (proj1 Hi)) Ecl Hw) as [A _].
      eexists. split; [|exact A].
      intro Hin. apply in_app_or in Hin. destruct Hin as [Hin|[E|[]]]; [apply repeat_spec in Hin|]; discriminate.
    - destruct (@sys_can_complete _ n Hi (conj Hd (proj1 Hi)) Ecl Hw) as (cont & A & B & _).
      exists cont. split; assumption.
  Qed.
End Live.
