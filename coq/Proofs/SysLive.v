(* No reachable state of the system (Model/Sys.v) is stuck while the I/O thread lives: from
   every reachable state there is a continuation - drain the caller's mailbox, write the
   out-buffer, let the server read and answer, read the replies, receive - after which a
   blocked caller has returned.  Stdlib only, no axioms. *)
From Amq Require Import Lib.Base Model.Sys Proofs.Sys.

Section Live.
  Variable answer : N -> N -> N.
  Variables bound qcap : N.
  Variable progs : N -> list call.
  Hypothesis Hq : 1 <= qcap.

  Notation step := (ystep answer bound qcap).
  Notation run := (yrun answer bound qcap).
  Notation YI := (YInv answer progs).

  Lemma run_app a b s : run s (a ++ b) = run (run s a) b.
  Proof. unfold yrun. apply fold_left_app. Qed.

  Definition live (s : sys) : Prop := y_dead s = false /\ y_fail s = false.

  (* the stages behind the reply queue, for caller n *)
  Record staged (s : sys) (n : N) (mail outbuf outwire pend inwire : bool) : Prop := {
    st_mail : mail = true -> yc_mail (y_ch s n) = [];
    st_outbuf : outbuf = true -> y_outbuf s = [];
    st_outwire : outwire = true -> y_outwire s = [];
    st_pend : pend = true -> yc_pend (y_ch s n) = [];
    st_inwire : inwire = true -> y_inwire s = [] }.

  Ltac live_unfold Hl := destruct Hl as [Hd Hf]; unfold ystep; rewrite Hf, Hd.

  (* 1. the whole mailbox of n goes to the out-buffer *)
  Lemma phase_drain s n : live s -> YI s ->
    let s' := step s (ADrain n (length (yc_mail (y_ch s n)))) in
    live s' /\ YI s' /\ staged s' n true false false false false /\ yc_wait (y_ch s' n) = yc_wait (y_ch s n).
  Proof.
    intros Hl Hi. cbn zeta. split; [|split; [apply YInv_step; assumption|split]].
    - live_unfold Hl. split; reflexivity.
    - live_unfold Hl. constructor; try discriminate. intros _. cbn [y_ch]. rewrite yupd_same. cbn [yc_mail].
      apply skipn_all.
    - live_unfold Hl. cbn [y_ch]. rewrite yupd_same. reflexivity.
  Qed.

  (* 2. the whole out-buffer goes to the wire *)
  Lemma phase_write s n : live s -> YI s -> staged s n true false false false false ->
    let s' := step s (AWrite (length (y_outbuf s))) in
    live s' /\ YI s' /\ staged s' n true true false false false /\ yc_wait (y_ch s' n) = yc_wait (y_ch s n).
  Proof.
    intros Hl Hi Hs. cbn zeta. split; [|split; [apply YInv_step; assumption|split]].
    - live_unfold Hl. split; reflexivity.
    - live_unfold Hl. constructor; try discriminate; intros _; cbn [y_ch y_outbuf].
      + apply (st_mail Hs eq_refl).
      + apply skipn_all.
    - live_unfold Hl. reflexivity.
  Qed.

  (* 3. the server reads everything that is on the wire *)
  Lemma phase_srvread n : forall k s, live s -> YI s -> staged s n true true false false false ->
    length (y_outwire s) = k ->
    let s' := run s (repeat ASrvRead k) in
    live s' /\ YI s' /\ staged s' n true true true false false /\ yc_wait (y_ch s' n) = yc_wait (y_ch s n).
  Proof.
    induction k as [|k IH]; intros s Hl Hi Hs Hk.
    - cbn [repeat]. change (run s []) with s. split; [exact Hl|]. split; [exact Hi|]. split; [|reflexivity].
      constructor; try discriminate; intros _;
        [apply (st_mail Hs eq_refl)|apply (st_outbuf Hs eq_refl)|apply length_zero_iff_nil; exact Hk].
    - cbn [repeat]. change (ASrvRead :: repeat ASrvRead k) with ([ASrvRead] ++ repeat ASrvRead k).
      rewrite run_app. change (run s [ASrvRead]) with (step s ASrvRead).
      destruct (y_outwire s) as [|[m x] rest] eqn:Ho; [discriminate|].
      set (s1 := step s ASrvRead).
      assert (L1 : live s1).
      { unfold s1. destruct Hl as [Hd Hf]. unfold ystep. rewrite Hf, Ho. split; [exact Hd|reflexivity]. }
      assert (I1 : YI s1) by (apply YInv_step; assumption).
      assert (E1 : y_outwire s1 = rest /\ y_outbuf s1 = y_outbuf s /\ yc_mail (y_ch s1 n) = yc_mail (y_ch s n)
                   /\ yc_wait (y_ch s1 n) = yc_wait (y_ch s n)).
      { unfold s1. destruct Hl as [Hd Hf]. unfold ystep. rewrite Hf, Ho. cbn [y_outwire y_outbuf y_ch].
        split; [reflexivity|]. split; [reflexivity|].
        destruct (is_sync x); [|split; reflexivity].
        unfold yupd. destruct (n =? m) eqn:E; [apply N.eqb_eq in E; subst m|]; split; reflexivity. }
      destruct E1 as (E1 & E2 & E3 & E4).
      assert (S1 : staged s1 n true true false false false).
      { constructor; try discriminate; intros _; [rewrite E3; apply (st_mail Hs eq_refl)|rewrite E2; apply (st_outbuf Hs eq_refl)]. }
      assert (K1 : length (y_outwire s1) = k) by (rewrite E1; cbn in Hk; lia).
      destruct (IH s1 L1 I1 S1 K1) as (A & B & C & D). fold s1.
      split; [exact A|]. split; [exact B|]. split; [exact C|]. rewrite D. exact E4.
  Qed.

  (* 4. the server answers everything it owes channel n *)
  Lemma phase_answer n : forall k s, live s -> YI s -> staged s n true true true false false ->
    length (yc_pend (y_ch s n)) = k ->
    let s' := run s (repeat (ASrvAnswer n) k) in
    live s' /\ YI s' /\ staged s' n true true true true false /\ yc_wait (y_ch s' n) = yc_wait (y_ch s n).
  Proof.
    induction k as [|k IH]; intros s Hl Hi Hs Hk.
    - cbn [repeat]. change (run s []) with s. split; [exact Hl|]. split; [exact Hi|]. split; [|reflexivity].
      constructor; try discriminate; intros _;
        [apply (st_mail Hs eq_refl)|apply (st_outbuf Hs eq_refl)|apply (st_outwire Hs eq_refl)|apply length_zero_iff_nil; exact Hk].
    - cbn [repeat]. change (ASrvAnswer n :: repeat (ASrvAnswer n) k) with ([ASrvAnswer n] ++ repeat (ASrvAnswer n) k).
      rewrite run_app. change (run s [ASrvAnswer n]) with (step s (ASrvAnswer n)).
      destruct (yc_pend (y_ch s n)) as [|r rest] eqn:Hp; [discriminate|].
      set (s1 := step s (ASrvAnswer n)).
      assert (L1 : live s1).
      { unfold s1. destruct Hl as [Hd Hf]. unfold ystep. rewrite Hf, Hp. split; [exact Hd|reflexivity]. }
      assert (I1 : YI s1) by (apply YInv_step; assumption).
      assert (E1 : yc_pend (y_ch s1 n) = rest /\ y_outwire s1 = y_outwire s /\ y_outbuf s1 = y_outbuf s /\
                   yc_mail (y_ch s1 n) = yc_mail (y_ch s n) /\ yc_wait (y_ch s1 n) = yc_wait (y_ch s n)).
      { unfold s1. destruct Hl as [Hd Hf]. unfold ystep. rewrite Hf, Hp. cbn [y_outwire y_outbuf y_ch].
        rewrite yupd_same. repeat split. }
      destruct E1 as (E1 & E2 & E3 & E4 & E5).
      assert (S1 : staged s1 n true true true false false).
      { constructor; try discriminate; intros _;
          [rewrite E4; apply (st_mail Hs eq_refl)|rewrite E3; apply (st_outbuf Hs eq_refl)|rewrite E2; apply (st_outwire Hs eq_refl)]. }
      assert (K1 : length (yc_pend (y_ch s1 n)) = k) by (rewrite E1; cbn in Hk; lia).
      destruct (IH s1 L1 I1 S1 K1) as (A & B & C & D). fold s1.
      split; [exact A|]. split; [exact B|]. split; [exact C|]. rewrite D. exact E5.
  Qed.

  (* 5. the I/O thread reads everything that is on the inbound wire: by the invariant every
     reply finds room in its queue *)
  Lemma phase_read n : forall k s, live s -> YI s -> staged s n true true true true false ->
    length (y_inwire s) = k ->
    let s' := run s (repeat ARead k) in
    live s' /\ YI s' /\ staged s' n true true true true true /\ yc_wait (y_ch s' n) = yc_wait (y_ch s n).
  Proof.
    induction k as [|k IH]; intros s Hl Hi Hs Hk.
    - cbn [repeat]. change (run s []) with s. split; [exact Hl|]. split; [exact Hi|]. split; [|reflexivity].
      constructor; try discriminate; intros _;
        [apply (st_mail Hs eq_refl)|apply (st_outbuf Hs eq_refl)|apply (st_outwire Hs eq_refl)|apply (st_pend Hs eq_refl)
        |apply length_zero_iff_nil; exact Hk].
    - cbn [repeat]. change (ARead :: repeat ARead k) with ([ARead] ++ repeat ARead k).
      rewrite run_app. change (run s [ARead]) with (step s ARead).
      destruct (y_inwire s) as [|[m v] rest] eqn:Hw; [discriminate|].
      pose proof (YInv_step bound Hq ARead Hi) as I1.
      pose proof (proj1 I1) as F1.
      destruct Hl as [Hd Hf].
      unfold ystep in I1, F1 |- *. rewrite Hf, Hd, Hw in I1, F1 |- *.
      destruct (N.of_nat (length (yc_replyq (y_ch s m))) <? qcap) eqn:Hroom; [|cbn in F1; discriminate].
      match goal with |- context [run ?x _] => set (s1 := x) in * end.
      assert (E4 : yc_mail (y_ch s1 n) = yc_mail (y_ch s n) /\ yc_pend (y_ch s1 n) = yc_pend (y_ch s n) /\
                   yc_wait (y_ch s1 n) = yc_wait (y_ch s n)).
      { unfold s1. cbn [y_ch]. unfold yupd. destruct (n =? m) eqn:E; [apply N.eqb_eq in E; subst m|]; repeat split. }
      destruct E4 as (E4 & E5 & E6).
      assert (L1 : live s1) by (split; reflexivity).
      assert (S1 : staged s1 n true true true true false).
      { constructor; try discriminate; intros _;
          [rewrite E4; apply (st_mail Hs eq_refl)|apply (st_outbuf Hs eq_refl)
          |apply (st_outwire Hs eq_refl)|rewrite E5; apply (st_pend Hs eq_refl)]. }
      assert (K1 : length (y_inwire s1) = k) by (unfold s1; cbn [y_inwire]; cbn in Hk; lia).
      destruct (IH s1 L1 I1 S1 K1) as (A & B & C & D).
      split; [exact A|]. split; [exact B|]. split; [exact C|]. rewrite D. exact E6.
  Qed.

  (* 6. with every stage behind it empty, a blocked caller's one item is in its reply queue *)
  Lemma staged_all_reply s n : YI s -> staged s n true true true true true ->
    yc_wait (y_ch s n) = true -> yc_failed (y_ch s n) = false -> yc_replyq (y_ch s n) <> [].
  Proof.
    intros [_ Hi] Hs Hw Hfl. destruct (Hi n) as (_ & H2 & _). specialize (H2 Hfl). rewrite Hw in H2.
    unfold inflight in H2.
    rewrite (st_mail Hs eq_refl), (st_outbuf Hs eq_refl), (st_outwire Hs eq_refl), (st_pend Hs eq_refl),
            (st_inwire Hs eq_refl) in H2.
    cbn in H2. rewrite app_nil_r in H2. intro E. rewrite E in H2. discriminate.
  Qed.

  (* THE CONTINUATION *)
  Theorem sys_can_complete s n :
    YI s -> live s -> yc_wait (y_ch s n) = true ->
    exists cont, ~ In ADie cont /\ yc_wait (y_ch (run s cont) n) = false /\ live (run s cont).
  Proof.
    intros Hi Hl Hw.
    assert (Hfl0 : yc_failed (y_ch s n) = false).
    { destruct (yc_failed (y_ch s n)) eqn:E; [|reflexivity].
      destruct Hi as [_ Hi]. destruct (Hi n) as (_ & _ & _ & H4 & _). destruct (H4 E) as [Hd _].
      destruct Hl as [Hd' _]. congruence. }
    set (a1 := ADrain n (length (yc_mail (y_ch s n)))).
    destruct (phase_drain n Hl Hi) as (L1 & I1 & S1 & W1). fold a1 in L1, I1, S1, W1. set (s1 := step s a1) in *.
    destruct (phase_write L1 I1 S1) as (L2 & I2 & S2 & W2). set (a2 := AWrite (length (y_outbuf s1))) in *. set (s2 := step s1 a2) in *.
    destruct (phase_srvread L2 I2 S2 eq_refl) as (L3 & I3 & S3 & W3). set (c3 := repeat ASrvRead (length (y_outwire s2))) in *. set (s3 := run s2 c3) in *.
    destruct (phase_answer L3 I3 S3 eq_refl) as (L4 & I4 & S4 & W4). set (c4 := repeat (ASrvAnswer n) (length (yc_pend (y_ch s3 n)))) in *. set (s4 := run s3 c4) in *.
    destruct (phase_read L4 I4 S4 eq_refl) as (L5 & I5 & S5 & W5). set (c5 := repeat ARead (length (y_inwire s4))) in *. set (s5 := run s4 c5) in *.
    assert (Hw5 : yc_wait (y_ch s5 n) = true) by (rewrite W5, W4, W3, W2, W1; exact Hw).
    assert (Hfl5 : yc_failed (y_ch s5 n) = false).
    { destruct (yc_failed (y_ch s5 n)) eqn:E; [|reflexivity].
      destruct I5 as [_ I5]. destruct (I5 n) as (_ & _ & _ & H4 & _). destruct (H4 E) as [Hd _].
      destruct L5 as [Hd' _]. congruence. }
    pose proof (staged_all_reply I5 S5 Hw5 Hfl5) as Hr.
    exists ([a1; a2] ++ c3 ++ c4 ++ c5 ++ [ARecv n]). split; [|split].
    - intro Hin. apply in_app_or in Hin. destruct Hin as [Hin|Hin].
      + destruct Hin as [E|[E|[]]]; discriminate.
      + apply in_app_or in Hin. destruct Hin as [Hin|Hin]; [apply repeat_spec in Hin; discriminate|].
        apply in_app_or in Hin. destruct Hin as [Hin|Hin]; [apply repeat_spec in Hin; discriminate|].
        apply in_app_or in Hin. destruct Hin as [Hin|Hin]; [apply repeat_spec in Hin; discriminate|].
        destruct Hin as [E|[]]; discriminate.
    - rewrite !run_app. change (run s [a1; a2]) with s2. fold s3. fold s4. fold s5.
      cbn [yrun fold_left]. destruct L5 as [Hd Hf]. unfold ystep. rewrite Hf, Hw5.
      destruct (yc_replyq (y_ch s5 n)); [contradiction|]. cbn [with_ch y_ch]. rewrite yupd_same. reflexivity.
    - rewrite !run_app. change (run s [a1; a2]) with s2. fold s3. fold s4. fold s5.
      cbn [yrun fold_left]. pose proof L5 as [Hd Hf]. unfold ystep. rewrite Hf, Hw5.
      destruct (yc_replyq (y_ch s5 n)); [contradiction|]. split; [exact Hd|exact Hf].
  Qed.

  (* ... from every REACHABLE state: a blocked caller can always be served while the I/O
     thread lives - the system never deadlocks *)
  Theorem sys_never_stuck sched n :
    let s := run (init_sys progs) sched in
    y_dead s = false -> yc_wait (y_ch s n) = true ->
    exists cont, ~ In ADie cont /\ yc_wait (y_ch (run s cont) n) = false.
  Proof.
    cbn zeta. intros Hd Hw.
    pose proof (YInv_run bound Hq sched (YInv_init answer progs)) as Hi.
    destruct (@sys_can_complete _ n Hi (conj Hd (proj1 Hi)) Hw) as (cont & A & B & _).
    exists cont. split; assumption.
  Qed.
End Live.
