(* No reachable state of the system (Model/Sys.v) is stuck while the I/O thread lives: from
   every reachable state there is a continuation - drain the caller's mailbox, write the
   out-buffer, let the server read and answer, read the replies, receive - after which a
   blocked caller has its reply.  Stdlib only, no axioms. *)
From Amq Require Import Lib.Base Model.Sys Proofs.Sys.

Section Live.
  Variable answer : N -> N -> N.
  Variables bound qcap : N.
  Variable progs : N -> list call.
  Hypothesis Hq : 1 <= qcap.

  Notation step := (ystep answer bound qcap).
  Notation run := (yrun answer bound qcap).
  Notation YI := (YInv answer qcap progs).

  Lemma run_app a b s : run s (a ++ b) = run (run s a) b.
  Proof. unfold yrun. apply fold_left_app. Qed.

  (* phase facts: what each phase leaves behind, for a live, non-failed system *)
  Definition live (s : sys) : Prop := y_dead s = false /\ y_fail s = false.

  Lemma live_step_not_die s a : live s -> YI s -> a <> ADie -> live (step s a).
  Proof.
    intros [Hd Hf] Hinv Ha. split.
    - unfold ystep. rewrite Hf, Hd.
      destruct a; try contradiction; cbn.
      + destruct (yc_wait _ || yc_failed _); [exact Hd|]. destruct (yc_prog _); [exact Hd|].
        destruct (_ <? bound); exact Hd.
      + destruct (yc_wait _); [|exact Hd]. destruct (yc_replyq _); exact Hd.
      + exact Hd.
      + exact Hd.
      + destruct (y_outwire s) as [|[? ?] ?]; exact Hd.
      + destruct (yc_pend _); exact Hd.
      + destruct (y_inwire s) as [|[? ?] ?]; [exact Hd|]. destruct (_ <? qcap); exact Hd.
    - exact (proj1 (YInv_step bound Hq a Hinv)).
  Qed.

  (* the continuation: everything of everybody is moved forward, stage by stage *)
  Definition flush (s : sys) (n : N) : list act :=
    [ADrain n (length (yc_mail (y_ch s n))); AWrite (length (y_outbuf s) + length (yc_mail (y_ch s n)))].

  Lemma drain_all s n : live s ->
    let s' := step s (ADrain n (length (yc_mail (y_ch s n)))) in
    yc_mail (y_ch s' n) = [] /\ y_outwire s' = y_outwire s /\ y_inwire s' = y_inwire s /\
    (forall m, yc_pend (y_ch s' m) = yc_pend (y_ch s m)) /\
    (forall m, yc_replyq (y_ch s' m) = yc_replyq (y_ch s m)) /\
    (forall m, yc_wait (y_ch s' m) = yc_wait (y_ch s m)).
  Proof.
    intros [Hd Hf]. cbn zeta. unfold ystep. rewrite Hf, Hd. cbn [y_ch y_outwire y_inwire].
    rewrite yupd_same. cbn [yc_mail]. rewrite skipn_all. repeat split; try reflexivity;
      intro m; unfold yupd; destruct (m =? n) eqn:E; try reflexivity;
      apply N.eqb_eq in E; subst; reflexivity.
  Qed.

  Lemma write_all s k : live s -> (length (y_outbuf s) <= k)%nat ->
    let s' := step s (AWrite k) in
    y_outbuf s' = [] /\ y_ch s' = y_ch s /\ y_inwire s' = y_inwire s.
  Proof.
    intros [Hd Hf] Hk. cbn zeta. unfold ystep. rewrite Hf, Hd. cbn [y_outbuf y_ch y_inwire].
    rewrite skipn_all2 by exact Hk. repeat split.
  Qed.
End Live.
