(* The seal rule of the out-buffer IS what the source says (SealableOutputBuffer in
   src/serialize.rs, translated into coq/Gen/Src.v on every run): append, push_method and
   push_heartbeat hand their argument on to the inner buffer exactly when the buffer is not
   sealed, and seal sets the flag - as Model.OutBuf.ob_append / ob_seal do.
   Stdlib only, no axioms. *)
From Coq Require Import String.
From Amq Require Import Lib.Base Lib.RsResult Gen.Consts Gen.SrcSeal Model.OutBuf.
Open Scope string_scope.

Definition b2n (b : bool) : N := if b then 1 else 0.

Theorem seal_source_is_model (o : outbuf) (bs : bytes) (ch : N) :
  (* the source: each of the three delegates iff not sealed; seal sets the flag *)
  gen_SealableOutputBuffer_append (b2n (ob_sealed o)) =
    RsOk "SealableOutputBuffer_append" [("self.buf.append#called", b2n (negb (ob_sealed o)))] /\
  gen_SealableOutputBuffer_push_method (b2n (ob_sealed o)) ch =
    RsOk "SealableOutputBuffer_push_method" [("self.buf.push_method#called", b2n (negb (ob_sealed o)))] /\
  gen_SealableOutputBuffer_push_heartbeat (b2n (ob_sealed o)) =
    RsOk "SealableOutputBuffer_push_heartbeat" [("self.buf.push_heartbeat#called", b2n (negb (ob_sealed o)))] /\
  gen_SealableOutputBuffer_seal = RsOk "SealableOutputBuffer_seal" [("self.sealed:=", 1)] /\
  (* the model: the same rule *)
  ob (ob_append o bs) = (if negb (ob_sealed o) then (ob o ++ bs)%list else ob o) /\
  ob_sealed (ob_append o bs) = ob_sealed o /\
  ob_sealed (ob_seal o) = true /\ ob (ob_seal o) = ob o.
Proof.
  unfold gen_SealableOutputBuffer_append, gen_SealableOutputBuffer_push_method,
    gen_SealableOutputBuffer_push_heartbeat, gen_SealableOutputBuffer_seal, ob_append, ob_seal, b2n.
  destruct o as [b sealed]. destruct sealed; cbn; repeat split.
Qed.
