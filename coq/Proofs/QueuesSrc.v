(* connection_state.rs's sending helpers AS TRANSLATED FROM THE SOURCE on every run
   (Gen/SrcQueues.v, by tools/rs2sm.py): `send` (every reply, verdict and consumer message goes
   through it) and `try_send_return` / `try_send_confirm` (the listeners of C13) are the model's
   `send` / `try_send` and `listener_send` (Model/Core.v): for every state of the queue - present or
   not, receiver alive or gone, room or full - and every item.  Stdlib only, no axioms. *)
From Coq Require Import String.
From Amq Require Import Lib.Base Lib.RsVal Model.Frames Model.OutBuf Model.Collector Model.Slots Model.Core Gen.SrcQueues.
Open Scope string_scope.
Open Scope list_scope.
Open Scope N_scope.

Section Tie.
  (* an item, as a value the helpers only pass on *)
  Variable enc_item : qitem -> val.

  Definition enc_bool (b : bool) : val := VC (if b then "true" else "false") [].
  Definition enc_cap (c : option N) : val := match c with Some n => VC "Some" [VN n] | None => VC "None" [] end.

  (* a crossbeam channel: what is queued (and the ghost history), its bound, whether the receiver
     is alive.  Whether a SENDER is alive is not part of the value: it follows from who still holds
     one (clearing a handler drops it - the model's drop_tx) *)
  Definition enc_queue (qu : queue) : val :=
    VC "queue" [VC "items" (map enc_item (q_items qu)); VC "hist" (map enc_item (q_hist qu)); enc_cap (q_cap qu); enc_bool (q_rx qu)].
  Definition enc_kq (kq : N * queue) : val := VC "kq" [VN (fst kq); enc_queue (snd kq)].
  Definition enc_qs (m : qs) : list val := map enc_kq m.

  Fixpoint vq_lookup (k : N) (l : list val) : option val :=
    match l with
    | VC _ [VN k'; qu] :: l' => if k =? k' then Some qu else vq_lookup k l'
    | _ => None
    end.
  Fixpoint vq_remove (k : N) (l : list val) : list val :=
    match l with
    | VC c [VN k'; qu] :: l' => if k =? k' then vq_remove k l' else VC c [VN k'; qu] :: vq_remove k l'
    | _ => []
    end.

  Lemma vq_lookup_enc k m : vq_lookup k (enc_qs m) = option_map enc_queue (alookup k m).
  Proof. unfold enc_qs. induction m as [|[k' qu] m IH]; [reflexivity|]. cbn. destruct (k =? k'); [reflexivity|exact IH]. Qed.
  Lemma vq_remove_enc k m : vq_remove k (enc_qs m) = enc_qs (aremove k m).
  Proof. unfold enc_qs. induction m as [|[k' qu] m IH]; [reflexivity|]. cbn. destruct (k =? k'); [exact IH|]. cbn. rewrite IH. reflexivity. Qed.

  (* Sender::try_send on the queue with key k of the world l *)
  Definition v_try_send (k : N) (item : val) (l : list val) : list val * val :=
    match vq_lookup k l with
    | Some (VC qc [VC ic its; VC hc hs; cap; VC rx []]) =>
        if (rx =? "true")%string then
          let full := match cap with VC _ [VN c] => c <=? N.of_nat (length its) | _ => false end in
          if full then (l, VC "Err" [VC "TrySendError::Full" [item]])
          else (VC "kq" [VN k; VC qc [VC ic (its ++ [item]); VC hc (hs ++ [item]); cap; VC rx []]] :: vq_remove k l,
                VC "Ok" [VC "()" []])
        else (l, VC "Err" [VC "TrySendError::Disconnected" [item]])
    | _ => (l, VC "Err" [VC "TrySendError::Disconnected" [item]])
    end.

  Definition enc_sres (r : sres) (item : val) : val :=
    match r with
    | SOk => VC "Ok" [VC "()" []]
    | SFull => VC "Err" [VC "TrySendError::Full" [item]]
    | SDisc => VC "Err" [VC "TrySendError::Disconnected" [item]]
    end.

  Lemma v_try_send_enc k it m :
    v_try_send k (enc_item it) (enc_qs m) = (enc_qs (snd (try_send k it m)), enc_sres (fst (try_send k it m)) (enc_item it)).
  Proof.
    unfold v_try_send, try_send. rewrite vq_lookup_enc.
    destruct (alookup k m) as [qu|] eqn:E; [|reflexivity]. cbn [option_map enc_queue].
    destruct (q_rx qu); cbn [negb enc_bool]; [|reflexivity].
    cbn [String.eqb Ascii.eqb Bool.eqb].
    destruct (q_cap qu) as [c|]; cbn [enc_cap].
    - rewrite map_length. destruct (c <=? N.of_nat (length (q_items qu))); [reflexivity|].
      cbn [fst snd]. rewrite vq_remove_enc. unfold ainsert, enc_qs, enc_kq, enc_queue. cbn. rewrite !map_app. reflexivity.
    - cbn [fst snd]. rewrite vq_remove_enc. unfold ainsert, enc_qs, enc_kq, enc_queue. cbn. rewrite !map_app. reflexivity.
  Qed.

  Lemma try_send_fail_same q it m r m' : try_send q it m = (r, m') -> r <> SOk -> m' = m.
  Proof.
    unfold try_send. destruct (alookup q m) as [qu|]; [|intros H _; inversion H; reflexivity].
    destruct (negb (q_rx qu)); [intros H _; inversion H; reflexivity|].
    destruct (match q_cap qu with Some c => c <=? N.of_nat (length (q_items qu)) | None => false end);
      intros H Hr; inversion H; subst; [reflexivity|contradiction].
  Qed.

  (* ---- send(tx, item): the sender stands for the queue it feeds ---- *)
  Definition enc_tx (q : N) (m : qs) : val := VR [("queue", VN q); ("world", VC "queues" (enc_qs m))].
  Definition enc_slot (ret conf : option N) (m : qs) : val :=
    VR [("return_handler", enc_cap ret); ("pub_confirm_handler", enc_cap conf); ("world", VC "queues" (enc_qs m))].

  Definition ext_st_model (name : string) (args : list val) (self : val) : val * val :=
    match v_field "world" self with
    | VC w l =>
        if (name =? "self.try_send")%string then
          match v_field "queue" self, args with
          | VN q, [item] => let '(l', r) := v_try_send q item l in (v_set "world" (VC w l') self, r)
          | _, _ => (self, VStuck)
          end
        else if (name =? "tx.try_send")%string then
          match args with
          | [VN q; item] => let '(l', r) := v_try_send q item l in (v_set "world" (VC w l') self, r)
          | _ => (self, VStuck)
          end
        else (self, VStuck)
    | _ => (self, VStuck)
    end.

  Definition enc_outcome (o : outcome) : val :=
    match o with
    | OOk => VC "Ok" [VC "()" []]
    | OErr EFrameUnexpected => VC "Err" [VC "Error::FrameUnexpected" []]
    | OErr EClientDropped => VC "Err" [VC "Error::EventLoopClientDropped" []]
    | _ => VStuck
    end.

  (* THE MODEL IS THE SOURCE: send *)
  Theorem send_source_is_model q it c :
    gen_send ext_st_model (enc_tx q (c_qs c)) (enc_item it)
    = (enc_tx q (c_qs (snd (send q it c))), enc_outcome (fst (send q it c))).
  Proof.
    unfold gen_send, send.
    change (ext_st_model "self.try_send" [enc_item it] (enc_tx q (c_qs c)))
      with (let '(l', r) := v_try_send q (enc_item it) (enc_qs (c_qs c)) in (v_set "world" (VC "queues" l') (enc_tx q (c_qs c)), r)).
    rewrite v_try_send_enc.
    destruct (try_send q it (c_qs c)) as [[| |] m'] eqn:E; [reflexivity| |];
      rewrite (try_send_fail_same E) by discriminate; reflexivity.
  Qed.

  (* ---- the listeners: try_send_return / try_send_confirm ---- *)
  (* the world after a listener send, the dropped sender aside: the model marks the queue of a
     cleared handler as having lost its sender (drop_tx) - in the code that is the effect of
     dropping the Sender value, which the encoding does not carry *)
  Definition world_after (h : option N) (it : qitem) (m : qs) : qs :=
    match h with
    | Some q' => match try_send q' it m with (SOk, m') => m' | (_, _) => m end
    | None => m
    end.

  Lemma listener_send_world h it m :
    snd (listener_send h it m) = world_after h it m \/
    exists q', h = Some q' /\ fst (listener_send h it m) = None /\ snd (listener_send h it m) = drop_tx q' (world_after h it m).
  Proof.
    unfold listener_send, world_after. destruct h as [q'|]; [|left; reflexivity].
    destruct (try_send q' it m) as [[| |] m']; [left; reflexivity| |]; right; exists q'; repeat split.
  Qed.

  Theorem try_send_return_source_is_model ret conf it m :
    gen_try_send_return ext_st_model (enc_slot ret conf m) (enc_item it)
    = (enc_slot (fst (listener_send ret it m)) conf (world_after ret it m), VC "()" []).
  Proof.
    unfold gen_try_send_return, listener_send, world_after. destruct ret as [q'|]; [|reflexivity].
    cbn [enc_slot enc_cap v_field lookup_field String.eqb Ascii.eqb Bool.eqb].
    change (ext_st_model "tx.try_send" [VN q'; enc_item it] (enc_slot (Some q') conf m))
      with (let '(l', r) := v_try_send q' (enc_item it) (enc_qs m) in (v_set "world" (VC "queues" l') (enc_slot (Some q') conf m), r)).
    rewrite v_try_send_enc.
    destruct (try_send q' it m) as [[| |] m'] eqn:E; [reflexivity| |];
      rewrite (try_send_fail_same E) by discriminate; reflexivity.
  Qed.

  Theorem try_send_confirm_source_is_model ret conf it m :
    gen_try_send_confirm ext_st_model (enc_slot ret conf m) (enc_item it)
    = (enc_slot ret (fst (listener_send conf it m)) (world_after conf it m), VC "()" []).
  Proof.
    unfold gen_try_send_confirm, listener_send, world_after. destruct conf as [q'|]; [|reflexivity].
    cbn [enc_slot enc_cap v_field lookup_field String.eqb Ascii.eqb Bool.eqb].
    change (ext_st_model "tx.try_send" [VN q'; enc_item it] (enc_slot ret (Some q') m))
      with (let '(l', r) := v_try_send q' (enc_item it) (enc_qs m) in (v_set "world" (VC "queues" l') (enc_slot ret (Some q') m), r)).
    rewrite v_try_send_enc.
    destruct (try_send q' it m) as [[| |] m'] eqn:E; [reflexivity| |];
      rewrite (try_send_fail_same E) by discriminate; reflexivity.
  Qed.
End Tie.
