(* Connection::close reports the root cause: whatever the close request itself returned, an
   error the I/O thread ended with is what close() returns.  Stdlib only, no axioms. *)
From Amq Require Import Lib.Base Model.Close.

Theorem close_reports_root_cause req e :
  fst (close_impl true req (IoErr e)) = CErr e.
Proof. reflexivity. Qed.

Theorem close_reports_panic req : fst (close_impl true req IoPanic) = CIoThreadPanic.
Proof. reflexivity. Qed.

Theorem close_ok_iff req io :
  fst (close_impl true req io) = COk <-> io = IoOk /\ req = ReqOk.
Proof.
  destruct io, req; cbn; split; intro H; try discriminate; try (destruct H; discriminate); auto.
Qed.

(* Drop after close(): nothing is sent again, nothing is reported *)
Theorem close_twice req io : close_impl false req io = (COk, false).
Proof. reflexivity. Qed.
