(* The tail of run_io_loop (Model/Loop.v): unsent data always keeps the socket's writable
   interest; the throttle is a hysteresis between the two water marks.
   Stdlib only, no axioms. *)
From Amq Require Import Lib.Base Model.Loop.

(* invariant between batches: as long as nothing has been written yet there is data queued
   (the protocol header is queued before the loop starts), and unsent data means the socket
   is registered for writable *)
Definition loop_inv (l : loop) (outlen : N) : Prop :=
  (l_have_written l = false -> outlen <> 0) /\
  (outlen <> 0 -> l_interest l = IReadWrite).

Theorem loop_inv_init outlen : outlen <> 0 -> loop_inv loop_init outlen.
Proof. intro H. split; intros; [exact H|reflexivity]. Qed.

(* C01 write interest: whatever the batch did to the buffer (outlen' arbitrary), after the
   tail unsent data is registered for writable - no byte can be left behind unwritten with
   nobody to wake the thread up *)
Theorem write_interest l outlen outlen' high low :
  loop_inv l outlen ->
  let '(l', _) := loop_tail l (negb (outlen =? 0)) outlen' high low in
  loop_inv l' outlen'.
Proof.
  intros [H1 H2]. unfold loop_tail.
  destruct (N.eqb_spec outlen' 0) as [E0|E0]; cbn [negb andb].
  - (* nothing left to write *)
    destruct (N.eqb_spec outlen 0) as [E|E]; cbn [negb].
    + split; cbn; intros; [|contradiction].
      destruct (l_have_written l) eqn:Hw; [discriminate|]. exfalso. apply (H1 eq_refl). exact E.
    + split; cbn; intros; [discriminate|contradiction].
  - destruct (l_have_written l) eqn:Hw; cbn [andb].
    + split; cbn; intros; [discriminate|reflexivity].
    + assert (E : (outlen =? 0) = false) by (apply N.eqb_neq; apply H1; reflexivity).
      rewrite E. cbn [negb]. split; cbn; intros; [discriminate|reflexivity].
Qed.

(* the first batch always marks the socket as written to *)
Theorem first_batch_marks l outlen outlen' high low :
  loop_inv l outlen -> l_have_written l = false ->
  l_have_written (fst (loop_tail l (negb (outlen =? 0)) outlen' high low)) = true.
Proof.
  intros [H1 _] Hw. unfold loop_tail. rewrite Hw.
  assert (E : (outlen =? 0) = false) by (apply N.eqb_neq; apply H1; exact Hw).
  rewrite E. rewrite andb_false_r. reflexivity.
Qed.

(* ---------- C18: the throttle ---------- *)

(* above the high-water mark the channels stop being polled; they are polled again only at
   or below the low-water mark; in between nothing changes *)
Theorem throttle_spec listening outlen high low :
  low <= high ->
  match throttle_of listening outlen high low with
  | TDeregister => listening = true /\ high < outlen
  | TReregister => listening = false /\ outlen <= low
  | TNone => (listening = true -> outlen <= high) /\ (listening = false -> low < outlen)
  end.
Proof.
  intro Hlh. unfold throttle_of. destruct listening; cbn [andb negb].
  - destruct (N.ltb_spec high outlen); [split; [reflexivity|assumption]|].
    split; intro; [assumption|discriminate].
  - destruct (N.leb_spec outlen low); [split; [reflexivity|assumption]|].
    split; intro; [discriminate|assumption].
Qed.

(* while throttled (listening = false) the flag stays false until the buffer is at or below
   the low-water mark, and then it becomes true: every throttled connection resumes as soon
   as the transport has drained that far *)
Theorem resumes_at_low l had outlen high low :
  l_listening l = false -> outlen <= low ->
  l_listening (fst (loop_tail l had outlen high low)) = true.
Proof.
  intros Hl Hle. unfold loop_tail, throttle_of. rewrite Hl. cbn [andb negb].
  destruct (N.leb_spec outlen low); [|lia].
  destruct (negb (outlen =? 0) && l_have_written l); [reflexivity|]. destruct had; reflexivity.
Qed.

Theorem stays_throttled l had outlen high low :
  l_listening l = false -> low < outlen ->
  l_listening (fst (loop_tail l had outlen high low)) = false.
Proof.
  intros Hl Hlt. unfold loop_tail, throttle_of. rewrite Hl. cbn [andb negb].
  destruct (N.leb_spec outlen low); [lia|].
  destruct (negb (outlen =? 0) && l_have_written l); [reflexivity|]. destruct had; reflexivity.
Qed.

Theorem throttles_above_high l had outlen high low :
  l_listening l = true -> high < outlen ->
  l_listening (fst (loop_tail l had outlen high low)) = false.
Proof.
  intros Hl Hlt. unfold loop_tail, throttle_of. rewrite Hl. cbn [andb negb].
  destruct (N.ltb_spec high outlen); [|lia].
  destruct (negb (outlen =? 0) && l_have_written l); [reflexivity|]. destruct had; reflexivity.
Qed.
