(* The frame envelope (Model/Wire.v): a concatenation of encoded frames splits back into
   exactly those frames.  Stdlib only, no axioms. *)
From Amq Require Import Lib.Base Model.Wire Spec.FrameBuf Proofs.FrameBuf.

Lemma of_be32_be32 n : n < 4294967296 ->
  of_be32 (n / 16777216 mod 256) (n / 65536 mod 256) (n / 256 mod 256) (n mod 256) = n.
Proof. intro H. unfold of_be32. lia. Qed.

Lemma enc_frame_length ty ch p : length (enc_frame ty ch p) = (length p + 8)%nat.
Proof. unfold enc_frame, be16, be32. cbn [length app]. rewrite app_length. cbn. lia. Qed.

Lemma parse_size_enc ty ch p X :
  N.of_nat (length p) < 4294967296 ->
  parse_size (enc_frame ty ch p ++ X) = Some (N.of_nat (length p) + 8).
Proof.
  intro H. unfold enc_frame, be16, be32. cbn [app parse_size].
  rewrite (of_be32_be32 H). reflexivity.
Qed.

(* the greedy splitter applied to whole frames followed by anything *)
Lemma split_all_enc ty ch p X :
  N.of_nat (length p) < 4294967296 ->
  split_all (enc_frame ty ch p ++ X) = let '(G, r) := split_all X in (enc_frame ty ch p :: G, r).
Proof.
  intro H.
  pose proof (@split_all_first (enc_frame ty ch p) X (N.of_nat (length p) + 8)) as S.
  assert (Hp : parse_size (enc_frame ty ch p) = Some (N.of_nat (length p) + 8)).
  { rewrite <- (app_nil_r (enc_frame ty ch p)). apply parse_size_enc. exact H. }
  assert (Hl : N.of_nat (length p) + 8 <= N.of_nat (length (enc_frame ty ch p)))
    by (rewrite enc_frame_length; lia).
  specialize (S Hp Hl).
  assert (Hn : N.to_nat (N.of_nat (length p) + 8) = length (enc_frame ty ch p))
    by (rewrite enc_frame_length; lia).
  rewrite Hn in S. rewrite skipn_all in S. cbn [app] in S. rewrite firstn_all in S. exact S.
Qed.

Definition wf_frame (f : N * N * bytes) : Prop := let '(_, _, p) := f in N.of_nat (length p) < 4294967296.
Definition enc3 (f : N * N * bytes) : bytes := let '(ty, ch, p) := f in enc_frame ty ch p.

(* C01 / C06: a stream made of whole frames is split back into exactly those frames, with
   nothing left over - so a stream that is a concatenation of frames interleaves them only
   at frame boundaries, and every prefix of it is whole frames plus one partial frame *)
Theorem split_all_frames fs :
  Forall wf_frame fs -> split_all (concat (map enc3 fs)) = (map enc3 fs, []).
Proof.
  induction fs as [|[[ty ch] p] fs IH]; intro H; [reflexivity|].
  inversion H as [|? ? Hf Hr]; subst. cbn [map concat enc3].
  rewrite (split_all_enc ty ch _ Hf). rewrite (IH Hr). reflexivity.
Qed.
