(* The wake-up of every event source reaches the handler of that source: no channel id in
   1..=65535 collides with the socket, the heartbeat timer, the allocation queue or the
   set-blocked queue, and none falls into the unreachable! arm.  The four constants come from
   the compiled crate (Gen/Consts.v), so this is re-proved against what the code says now.
   Stdlib only, no axioms. *)
From Amq Require Import Lib.Base Gen.Consts Model.Tokens.

Theorem dispatch_own_source s : source_ok s -> dispatch_token (token_of s) = kind_of s.
Proof.
  destruct s; cbn [source_ok token_of kind_of]; intro H; try (vm_compute; reflexivity).
  unfold dispatch_token.
  assert (Hs : n =? c_token_stream = false) by (apply N.eqb_neq; unfold c_token_stream; lia).
  assert (Hh : n =? c_token_heartbeat = false) by (apply N.eqb_neq; unfold c_token_heartbeat; lia).
  assert (Hb : n =? c_token_set_blocked = false) by (apply N.eqb_neq; unfold c_token_set_blocked; lia).
  assert (Ha : n =? c_token_alloc = false) by (apply N.eqb_neq; unfold c_token_alloc; lia).
  rewrite Hs, Hh, Hb, Ha.
  assert (H0 : n =? 0 = false) by (apply N.eqb_neq; lia). rewrite H0.
  assert (Hle : n <=? 65535 = true) by (apply N.leb_le; lia). rewrite Hle. reflexivity.
Qed.

(* two different sources never share a token *)
Theorem tokens_injective s1 s2 :
  source_ok s1 -> source_ok s2 -> token_of s1 = token_of s2 -> s1 = s2.
Proof.
  intros H1 H2 E.
  pose proof (dispatch_own_source H1) as D1. pose proof (dispatch_own_source H2) as D2.
  rewrite E in D1. rewrite D1 in D2.
  destruct s1, s2; cbn [kind_of] in D2; try discriminate; try reflexivity.
  inversion D2; reflexivity.
Qed.

(* nothing the loop registers can reach the unreachable! arm *)
Theorem dispatch_never_unreachable s : source_ok s -> dispatch_token (token_of s) <> TkUnreachable.
Proof. intro H. rewrite (dispatch_own_source H). destruct s; discriminate. Qed.
