(* Iter::next of the confirm smoother AS TRANSLATED FROM THE SOURCE on every run (Gen/SrcConfirm.v,
   by tools/rs2sm.py from src/confirm.rs) is the hand-written model `next` (Model/Confirm.v) the
   C14 theorems are about: for every smoother state, every iterator state and every payload -
   what is yielded, the smoother afterwards (expected tag, out-of-order map), the iterator
   afterwards.  Stdlib only, no axioms. *)
From Coq Require Import String.
From Amq Require Import Lib.Base Lib.RsVal Model.Confirm Spec.Confirm Proofs.Confirm Gen.SrcConfirm.
Open Scope string_scope.
Open Scope list_scope.
Open Scope N_scope.

Definition enc_bool (b : bool) : val := VC (if b then "true" else "false") [].
Definition enc_out (o : out) : val := VC "Confirm" [VN (o_tag o); enc_bool (o_multiple o); enc_bool (o_ack o)].
Definition enc_opt (o : option out) : val :=
  match o with Some x => VC "Some" [enc_out x] | None => VC "None" [] end.
Definition enc_kv (kv : N * out) : val := VC "kv" [VN (fst kv); enc_out (snd kv)].
Definition enc_map (m : alist out) : val := VC "map" (map enc_kv m).

(* HashMap<u64, Confirm> as the translated code uses it: remove (returns the entry), insert *)
Fixpoint vlookup (k : N) (l : list val) : val :=
  match l with
  | VC _ [VN k'; v] :: l' => if k =? k' then VC "Some" [v] else vlookup k l'
  | _ => VC "None" []
  end.
Fixpoint vremove (k : N) (l : list val) : list val :=
  match l with
  | (VC c [VN k'; v]) :: l' => if k =? k' then vremove k l' else VC c [VN k'; v] :: vremove k l'
  | _ => []
  end.

Lemma vlookup_enc k m : vlookup k (map enc_kv m) = enc_opt (alookup k m).
Proof. induction m as [|[k' v] m IH]; [reflexivity|]. cbn. destruct (k =? k'); [reflexivity|exact IH]. Qed.
Lemma vremove_enc k m : vremove k (map enc_kv m) = map enc_kv (aremove k m).
Proof. induction m as [|[k' v] m IH]; [reflexivity|]. cbn. destruct (k =? k'); [exact IH|]. cbn. rewrite IH. reflexivity. Qed.

Definition set_map (self : val) (l : list val) : val :=
  v_set "parent" (v_set "out_of_order" (VC "map" l) (v_field "parent" self)) self.

Definition ext_st_model (name : string) (args : list val) (self : val) : val * val :=
  match v_field "out_of_order" (v_field "parent" self), args with
  | VC _ l, [VN k] =>
      if (name =? "out_of_order.remove")%string then (set_map self (vremove k l), vlookup k l) else (self, VStuck)
  | VC _ l, [VN k; v] =>
      if (name =? "out_of_order.insert")%string then (set_map self (VC "kv" [VN k; v] :: vremove k l), vlookup k l)
      else (self, VStuck)
  | _, _ => (self, VStuck)
  end.

(* (self.to_confirm)(tag): Confirm::Ack or Confirm::Nack, as the raw confirmation was, of
   ConfirmPayload { delivery_tag: tag, multiple: false } *)
Definition enc_closure (ack : bool) : val := VC "closure" [VC (if ack then "Confirm::Ack" else "Confirm::Nack") []].
Definition is_ack (v : val) : bool :=
  match v with VC _ [VC c []] => (c =? "Confirm::Ack")%string | _ => false end.

Definition ext_model (name : string) (args : list val) : val :=
  match args with
  | [self; VN tag] => enc_out (to_confirm (is_ack (v_field "to_confirm" self)) tag)
  | _ => VStuck
  end.

Definition enc_smoother (p : smoother) : val :=
  VR [("expected", VN (expected p)); ("out_of_order", enc_map (ooo p))].
Definition enc_payload (r : raw) : val :=
  VR [("delivery_tag", VN (r_tag r)); ("multiple", enc_bool (r_multiple r))].
(* Confirm::Ack(payload) / Confirm::Nack(payload) *)
Definition enc_raw (r : raw) : val :=
  VC (if r_ack r then "Confirm::Ack" else "Confirm::Nack") [enc_payload r].

(* Iter { parent, payload, next, to_confirm, done }: the iterator holds the smoother (&mut) *)
Definition enc_self (p : smoother) (it : iter) : val :=
  VR [("parent", enc_smoother p);
      ("payload", enc_payload (it_payload it));
      ("next", enc_opt (it_next it));
      ("to_confirm", enc_closure (r_ack (it_payload it)));
      ("done", enc_bool (it_done it))].

(* ConfirmSmoother::process / new_iter: the iterator the model starts from *)
Theorem process_source_is_model p r :
  gen_ConfirmSmoother_process (enc_smoother p) (enc_raw r) = (enc_smoother p, enc_self p (new_iter r)).
Proof. destruct r as [tag mult []]; reflexivity. Qed.

(* THE MODEL IS THE SOURCE *)
Theorem next_source_is_model p it :
  gen_Iter_next ext_model ext_st_model (enc_self p it)
  = let '(o, p', it') := next p it in (enc_self p' it', enc_opt o).
Proof.
  destruct p as [e m]. destruct it as [[tag mult ack] nx dn].
  unfold next. cbn [it_done it_payload r_tag r_multiple r_ack expected ooo it_next].
  destruct dn; [reflexivity|].
  unfold gen_Iter_next.
  change (v_is_true (v_field "done" (enc_self {| expected := e; ooo := m |} {| it_payload := {| r_tag := tag; r_multiple := mult; r_ack := ack |}; it_next := nx; it_done := false |}))) with false.
  cbn iota.
  change (v_eqb _ _) with (tag =? e) at 1.
  destruct (tag =? e) eqn:E1.
  - cbn -[N.add vlookup vremove]. rewrite !vlookup_enc, !vremove_enc.
    destruct (alookup tag m) as [o|] eqn:L; cbn -[N.add vlookup vremove];
      rewrite ?vlookup_enc, ?vremove_enc; destruct ack; reflexivity.
  - change (v_ltb _ _) with (e <? tag) at 1.
    destruct (e <? tag) eqn:E2.
    + destruct mult.
      * cbn -[N.add vlookup vremove]. rewrite !vlookup_enc, !vremove_enc.
        destruct (alookup e m) as [o|] eqn:L; cbn -[N.add]; destruct ack; reflexivity.
      * cbn -[N.add vlookup vremove]. rewrite ?vremove_enc. destruct ack; reflexivity.
    + destruct nx as [o|]; cbn -[N.add vlookup vremove]; rewrite ?vlookup_enc, ?vremove_enc; destruct ack; reflexivity.
Qed.

(* impl Drop for Iter - `while !self.done { let _ = self.next(); }` - as translated: whenever the
   model's drop_iter runs the iterator to its end on `fuel` rounds, the translated loop does the
   same on one more unit (its exit test), and leaves the smoother and the iterator as the model says *)
Theorem drop_source_is_model : forall fuel p it,
  it_done (snd (drop_iter fuel p it)) = true ->
  gen_Iter_drop ext_model ext_st_model (S fuel) (enc_self p it)
  = (enc_self (fst (drop_iter fuel p it)) (snd (drop_iter fuel p it)), VC "()" []).
Proof.
  unfold gen_Iter_drop.
  induction fuel as [|fuel IH]; intros p it Hd.
  - cbn [drop_iter fst snd] in *. cbn [gen_Iter_drop_loop1].
    replace (v_is_true (v_field "done" (enc_self p it))) with (it_done it) by (destruct p, it as [[? ? ?] ? []]; reflexivity).
    rewrite Hd. reflexivity.
  - cbn [drop_iter] in *. cbn [gen_Iter_drop_loop1].
    replace (v_is_true (v_field "done" (enc_self p it))) with (it_done it) by (destruct p, it as [[? ? ?] ? []]; reflexivity).
    destruct (it_done it) eqn:Edone; [reflexivity|]. cbn [negb].
    rewrite next_source_is_model.
    destruct (next p it) as [[o p'] it'] eqn:En.
    apply IH. exact Hd.
Qed.

(* ---- a whole call of process as its user runs it: `for c in smoother.process(raw) { .. }` -
   the iterator pulled until it yields None, then dropped ---- *)
Fixpoint gpull (fuel : nat) (self : val) : list val * val :=
  match fuel with
  | O => ([], self)
  | S f =>
      let '(self', o) := gen_Iter_next ext_model ext_st_model self in
      match o with
      | VC c [x] => if (c =? "Some")%string then let '(os, s'') := gpull f self' in (x :: os, s'') else ([], self')
      | _ => ([], self')
      end
  end.

Lemma gpull_is_pull_all : forall fuel p it,
  gpull fuel (enc_self p it) = let '(os, p', it') := pull_all fuel p it in (map enc_out os, enc_self p' it').
Proof.
  induction fuel as [|fuel IH]; intros p it; [reflexivity|].
  cbn [gpull pull_all]. rewrite next_source_is_model.
  destruct (next p it) as [[[o|] p1] it1]; [|reflexivity].
  cbn [enc_opt]. cbn [String.eqb Ascii.eqb Bool.eqb]. rewrite IH.
  destruct (pull_all fuel p1 it1) as [[os p'] it']. reflexivity.
Qed.

Definition gprocess (fuel : nat) (sm rawv : val) : list val * val :=
  let '(_, it0) := gen_ConfirmSmoother_process sm rawv in
  let '(os, it1) := gpull fuel it0 in
  let '(it2, _) := gen_Iter_drop ext_model ext_st_model (S fuel) it1 in
  (os, v_field "parent" it2).

(* the number of rounds that is enough, read off the values themselves *)
Definition gfuel (sm rawv : val) : nat :=
  match v_field "expected" sm, v_field "out_of_order" sm, rawv with
  | VN e, VC _ l, VC _ [pl] =>
      match v_field "delivery_tag" pl with VN t => (N.to_nat (t - e) + length l + 3)%nat | _ => O end
  | _, _, _ => O
  end.

Lemma gfuel_enc p r : gfuel (enc_smoother p) (enc_raw r) = fuel_for p r.
Proof. unfold gfuel, fuel_for. cbn. rewrite map_length. reflexivity. Qed.

(* one raw confirmation consumed completely by the translated code, in any state the smoother can
   be in after a valid history: what comes out and the smoother afterwards are the model's *)
Theorem process_call_source_is_model e0 h r outs p :
  Inv e0 h outs p ->
  (r_multiple r = false -> forall r', In r' h -> r_multiple r' = false -> r_tag r' <> r_tag r) ->
  gprocess (gfuel (enc_smoother p) (enc_raw r)) (enc_smoother p) (enc_raw r)
  = (map enc_out (fst (process p r)), enc_smoother (snd (process p r))).
Proof.
  intros Hinv Hnd. rewrite gfuel_enc.
  pose proof (Inv_to_Mid Hinv Hnd) as M.
  destruct (pull_all_inv M (fuel_for_enough p r)) as (os & p' & it' & Hpa & Hd & _).
  unfold gprocess, process. rewrite process_source_is_model, gpull_is_pull_all, Hpa.
  rewrite drop_source_is_model; rewrite drop_iter_done by exact Hd; [|exact Hd].
  cbn [fst snd]. destruct p'. reflexivity.
Qed.

(* whole histories through the translated code *)
Definition grun_all (sm : val) (h : list raw) : list val * val :=
  fold_left (fun '(acc, sm) r =>
               let '(os, sm') := gprocess (gfuel sm (enc_raw r)) sm (enc_raw r) in (acc ++ os, sm'))
            h ([], sm).

(* C14 AS A THEOREM ABOUT THE TRANSLATED CODE: after EVERY valid history of raw confirmations
   (each consumed completely), the translated smoother has emitted exactly what the model emits -
   hence, by C14_exact, the maximal run of covered tags, each once, in order, non-multiple, with
   the outcome of its first cover - and is in the model's state *)
Theorem run_all_source_is_model e0 h :
  singles_distinct h ->
  grun_all (enc_smoother (new_smoother e0)) h
  = (map enc_out (fst (run_all (new_smoother e0) h)), enc_smoother (snd (run_all (new_smoother e0) h))).
Proof.
  induction h as [|r h IH] using rev_ind; intro Hsd; [reflexivity|].
  apply singles_distinct_snoc in Hsd as [Hsd Hnd].
  destruct (run_all_exact e0 Hsd) as (outs & p & Hrun & Hinv).
  specialize (IH Hsd). rewrite Hrun in IH. cbn [fst snd] in IH.
  unfold grun_all in *. rewrite fold_left_app, IH. cbn [fold_left].
  rewrite (process_call_source_is_model Hinv Hnd).
  rewrite run_all_snoc, Hrun. destruct (process p r) as [os p2]. cbn [fst snd].
  rewrite map_app. reflexivity.
Qed.
