(* An invariant of the I/O thread's steady-state machine (Model/Core.process) under which
   no frame, of any kind, in any state, makes it panic or block: used by C07 and C20.
   Stdlib only, no axioms. *)
From Amq Require Import Lib.Base Gen.Consts Model.Wire Model.Frames Model.OutBuf
     Model.Collector Model.Slots Model.Core.

(* ---------- queue 0 is channel 0's reply queue, and nobody else's ---------- *)

Definition q0free_slot (s : slot) : Prop :=
  s_reply s <> 0 /\ (forall t q, In (t, q) (s_consumers s) -> q <> 0) /\
  s_ret s <> Some 0 /\ s_conf s <> Some 0.

Definition q0_room (m : qs) : Prop :=
  exists qu, alookup 0 m = Some qu /\ q_items qu = [] /\ q_cap qu = Some c_reply_queue_bound.

Record WF (c : core) : Prop := {
  wf_ch0 : c_phase c = PSteady ->
           exists z, c_ch0 c = Some z /\ z_reply z = 0 /\ z_blocked z <> Some 0 /\ q0_room (c_qs c);
  wf_slots : forall n s, alookup n (c_slots c) = Some s -> q0free_slot s;
  wf_sealed : (exists code text, c_phase c = PServerClosing code text) \/ c_phase c = PClientException ->
              ob_sealed (c_out c) = true }.

(* what every helper keeps: phase, channel-0 slot, out-buffer, and queue 0 *)
Record keep (c c' : core) : Prop := {
  k_phase : c_phase c' = c_phase c;
  k_ch0 : c_ch0 c' = c_ch0 c;
  k_out : ob_sealed (c_out c) = true -> ob_sealed (c_out c') = true;
  k_q0 : alookup 0 (c_qs c') = alookup 0 (c_qs c) }.

Lemma mk_keep c c' :
  c_phase c' = c_phase c -> c_ch0 c' = c_ch0 c -> c_out c' = c_out c ->
  alookup 0 (c_qs c') = alookup 0 (c_qs c) -> keep c c'.
Proof. intros a b d e. constructor; try assumption. rewrite d. auto. Qed.

Lemma keep_refl c : keep c c. Proof. apply mk_keep; reflexivity. Qed.
Lemma keep_trans a b c : keep a b -> keep b c -> keep a c.
Proof. intros [a1 a2 a3 a4] [b1 b2 b3 b4]; constructor; try congruence; auto. Qed.

Lemma try_send_q0 q it m r m' : try_send q it m = (r, m') -> q <> 0 -> alookup 0 m' = alookup 0 m.
Proof.
  unfold try_send. destruct (alookup q m) as [qu|]; [|intro H; inversion H; reflexivity].
  destruct (negb (q_rx qu)); [intro H; inversion H; reflexivity|].
  destruct (match q_cap qu with Some c => _ | None => false end);
    intro H; inversion H; subst; [reflexivity|].
  intro Hq. apply alookup_insert_neq. congruence.
Qed.

Lemma drop_tx_q0 q m : q <> 0 -> alookup 0 (drop_tx q m) = alookup 0 m.
Proof.
  intro Hq. unfold drop_tx. destruct (alookup q m); [|reflexivity].
  apply alookup_insert_neq. congruence.
Qed.

Lemma drop_tx_opt_q0 q m : q <> Some 0 -> alookup 0 (drop_tx_opt q m) = alookup 0 m.
Proof. destruct q as [q|]; [|reflexivity]. intro H. apply drop_tx_q0. congruence. Qed.

Lemma send_keep q it c o c' : send q it c = (o, c') -> q <> 0 -> keep c c'.
Proof.
  unfold send. destruct (try_send q it (c_qs c)) as [r m] eqn:E. intros H Hq.
  pose proof (try_send_q0 E Hq) as H0.
  destruct r; inversion H; subst; apply mk_keep; try reflexivity; exact H0.
Qed.

Lemma send_slots q it c o c' : send q it c = (o, c') -> c_slots c' = c_slots c.
Proof.
  unfold send. destruct (try_send q it (c_qs c)) as [[| |] m]; intro H; inversion H; reflexivity.
Qed.

Lemma send_no_panic q it c o c' : send q it c = (o, c') -> forall site, o <> OPanic site.
Proof.
  unfold send. destruct (try_send q it (c_qs c)) as [[| |] m]; intro H; inversion H; discriminate.
Qed.

Lemma send_all_keep cons it : forall c o c',
  send_all cons it c = (o, c') -> (forall t q, In (t, q) cons -> q <> 0) ->
  keep c c' /\ c_slots c' = c_slots c /\ forall site, o <> OPanic site.
Proof.
  induction cons as [|[t q] cons IH]; intros c o c' H Hq; cbn [send_all] in H.
  - inversion H; subst. split; [apply keep_refl | split; [reflexivity | discriminate]].
  - destruct (send q it c) as [o1 c1] eqn:E.
    assert (Hq0 : q <> 0) by (eapply Hq; left; reflexivity).
    pose proof (send_keep E Hq0) as K1. pose proof (send_slots E) as S1.
    pose proof (send_no_panic E) as N1.
    destruct o1.
    + destruct (IH c1 o c' H) as (K2 & S2 & N2); [intros; eapply Hq; right; eassumption|].
      split; [eapply keep_trans; eassumption | split; [congruence | exact N2]].
    + inversion H; subst. split; [|split]; assumption.
    + inversion H; subst. split; [|split]; assumption.
Qed.

Lemma fold_drop_cons_q0 (cons : list (str * N)) : forall m,
  (forall t q, In (t, q) cons -> q <> 0) ->
  alookup 0 (fold_left (fun m '(_, q) => drop_tx q m) cons m) = alookup 0 m.
Proof.
  induction cons as [|[t q] cons IH]; intros m Hq; cbn [fold_left]; [reflexivity|].
  rewrite IH by (intros; eapply Hq; right; eassumption).
  apply drop_tx_q0. eapply Hq; left; reflexivity.
Qed.

Definition mail_q0free (l : list msg) : Prop := forall x, In x l -> msg_q x <> Some 0.

Lemma fold_drop_mail_q0 l : forall m,
  mail_q0free l ->
  alookup 0 (fold_left (fun m x => drop_tx_opt (msg_q x) m) l m) = alookup 0 m.
Proof.
  induction l as [|x l IH]; intros m Hq; cbn [fold_left]; [reflexivity|].
  rewrite IH by (intros y Hy; apply Hq; right; exact Hy).
  apply drop_tx_opt_q0. apply Hq. left; reflexivity.
Qed.

(* slots whose mailbox holds no listener registration naming queue 0 *)
Definition slot_ok (s : slot) : Prop := q0free_slot s /\ mail_q0free (s_mail s).

Lemma drop_slot_qs_q0 s m : slot_ok s -> alookup 0 (drop_slot_qs s m) = alookup 0 m.
Proof.
  intros [(Hr & Hc & Hret & Hconf) Hm]. unfold drop_slot_qs.
  rewrite fold_drop_mail_q0 by exact Hm.
  rewrite drop_tx_opt_q0 by exact Hconf. rewrite drop_tx_opt_q0 by exact Hret.
  rewrite fold_drop_cons_q0 by exact Hc. apply drop_tx_q0. exact Hr.
Qed.

Lemma notify_slot_keep s rep cons c o c' :
  notify_slot s rep cons c = (o, c') -> slot_ok s ->
  keep c c' /\ c_slots c' = c_slots c /\ forall site, o <> OPanic site.
Proof.
  intros H Hok. pose proof Hok as [(Hr & Hc & _) _]. unfold notify_slot in H.
  destruct (send (s_reply s) rep c) as [o1 c1] eqn:E1.
  pose proof (send_keep E1 Hr) as K1. pose proof (send_slots E1) as S1.
  pose proof (send_no_panic E1) as N1.
  assert (Hdrop : forall cx, keep cx (set_qs cx (drop_slot_qs s (c_qs cx)))).
  { intro cx. apply mk_keep; try reflexivity. cbn. apply drop_slot_qs_q0. exact Hok. }
  destruct o1.
  - destruct (send_all (s_consumers s) cons c1) as [o2 c2] eqn:E2.
    destruct (send_all_keep E2 Hc) as (K2 & S2 & N2).
    assert (K : keep c (set_qs c2 (drop_slot_qs s (c_qs c2)))).
    { eapply keep_trans; [exact K1|]. eapply keep_trans; [exact K2|]. apply Hdrop. }
    destruct o2; inversion H; subst; (split; [exact K | split; [cbn; congruence | first [discriminate | exact N2]]]).
  - inversion H; subst. split; [eapply keep_trans; [exact K1 | apply Hdrop] | split; [cbn; exact S1 | exact N1]].
  - inversion H; subst. split; [eapply keep_trans; [exact K1 | apply Hdrop] | split; [cbn; exact S1 | exact N1]].
Qed.

Lemma fold_drop_slots_q0 (ss : list (N * slot)) : forall m,
  (forall n s, In (n, s) ss -> slot_ok s) ->
  alookup 0 (fold_left (fun m '(_, s') => drop_slot_qs s' m) ss m) = alookup 0 m.
Proof.
  induction ss as [|[n s] ss IH]; intros m H; cbn [fold_left]; [reflexivity|].
  rewrite IH by (intros; eapply H; right; eassumption).
  apply drop_slot_qs_q0. eapply H; left; reflexivity.
Qed.

Lemma notify_all_keep ss rep cons : forall c o c',
  notify_all ss rep cons c = (o, c') -> (forall n s, In (n, s) ss -> slot_ok s) ->
  keep c c' /\ c_slots c' = c_slots c /\ forall site, o <> OPanic site.
Proof.
  induction ss as [|[n s] ss IH]; intros c o c' H Hok; cbn [notify_all] in H.
  - inversion H; subst. split; [apply keep_refl | split; [reflexivity | discriminate]].
  - destruct (notify_slot s rep cons c) as [o1 c1] eqn:E.
    assert (Hs : slot_ok s) by (eapply Hok; left; reflexivity).
    destruct (notify_slot_keep E Hs) as (K1 & S1 & N1).
    assert (Hrest : forall n s, In (n, s) ss -> slot_ok s) by (intros; eapply Hok; right; eassumption).
    destruct o1.
    + destruct (IH c1 o c' H Hrest) as (K2 & S2 & N2).
      split; [eapply keep_trans; eassumption | split; [congruence | exact N2]].
    + inversion H; subst. split; [|split; [cbn; exact S1|exact N1]].
      eapply keep_trans; [exact K1|]. apply mk_keep; try reflexivity. cbn.
      apply fold_drop_slots_q0. exact Hrest.
    + inversion H; subst. split; [|split; [cbn; exact S1|exact N1]].
      eapply keep_trans; [exact K1|]. apply mk_keep; try reflexivity. cbn.
      apply fold_drop_slots_q0. exact Hrest.
Qed.

(* ---------- sorting the slot table keeps its elements ---------- *)

Lemma insert_by_id_In x y l : In y (insert_by_id x l) <-> y = x \/ In y l.
Proof.
  induction l as [|z l IH]; cbn [insert_by_id]; [simpl; intuition|].
  destruct (fst x <=? fst z); simpl; [intuition|]. rewrite IH. intuition.
Qed.
Lemma sort_slots_In y l : In y (sort_slots l) <-> In y l.
Proof.
  unfold sort_slots. induction l as [|z l IH]; cbn [fold_right]; [reflexivity|].
  rewrite insert_by_id_In, IH. simpl. intuition.
Qed.

(* every entry of the table is reachable by lookup or shadowed; we ask slot_ok of all *)
Definition all_slots_ok (c : core) : Prop := forall n s, In (n, s) (c_slots c) -> slot_ok s.

Lemma all_slots_lookup c n s : all_slots_ok c -> alookup n (c_slots c) = Some s -> slot_ok s.
Proof.
  intros H Hl. unfold all_slots_ok in H. revert Hl H. generalize (c_slots c) as l. clear.
  induction l as [|[k v] l IH]; intros Hl H; cbn [alookup] in Hl; [discriminate|].
  destruct (n =? k) eqn:E.
  - inversion Hl; subst. eapply H. left; reflexivity.
  - apply IH; [exact Hl | intros; eapply H; right; eassumption].
Qed.

Lemma aremove_In {V} k (m : alist V) x : In x (aremove k m) -> In x m.
Proof.
  induction m as [|[k' v] m IH]; cbn [aremove]; [auto|].
  destruct (k =? k'); simpl; intuition.
Qed.

Lemma all_slots_set c n s : all_slots_ok c -> slot_ok s -> all_slots_ok (set_slot c n s).
Proof.
  intros H Hs k v Hin. unfold set_slot, set_slots, ainsert in Hin. cbn in Hin.
  destruct Hin as [E|Hin]; [inversion E; subst; exact Hs|].
  eapply H. eapply aremove_In. exact Hin.
Qed.

Lemma all_slots_remove c n : all_slots_ok c -> all_slots_ok (remove_slot n c).
Proof.
  intros H k v Hin. unfold remove_slot, set_slots in Hin. cbn in Hin.
  eapply H. eapply aremove_In. exact Hin.
Qed.

(* ---------- the strengthened invariant used for sequences ---------- *)

Record WFs (c : core) : Prop := {
  w_ch0 : c_phase c = PSteady ->
          exists z, c_ch0 c = Some z /\ z_reply z = 0 /\ z_blocked z <> Some 0 /\
                    (forall q, In q (z_setb z) -> q <> 0) /\ q0_room (c_qs c);
  w_slots : all_slots_ok c;
  w_sealed : (exists code text, c_phase c = PServerClosing code text) \/ c_phase c = PClientException ->
             ob_sealed (c_out c) = true }.

Lemma keep_WFs c c' :
  WFs c -> keep c c' -> all_slots_ok c' -> WFs c'.
Proof.
  intros [W1 W2 W3] [K1 K2 K3 K4] Hs. constructor.
  - rewrite K1. intro Hp. destruct (W1 Hp) as (z & Hz & Hr & Hb & Hsb & (qu & Hq & Hi & Hc)).
    exists z. rewrite K2. repeat split; try assumption. exists qu. rewrite K4. auto.
  - exact Hs.
  - rewrite K1. intro Hp. apply K3. apply W3. exact Hp.
Qed.

(* slot updates that keep slot_ok *)
Lemma slot_ok_with_coll s st : slot_ok s -> slot_ok (with_coll s st).
Proof. destruct s; intro H; exact H. Qed.
Lemma slot_ok_with_ret s h : slot_ok s -> h <> Some 0 -> slot_ok (with_ret s h).
Proof. destruct s; intros [(a & b & c0 & d) e] Hh; repeat split; assumption. Qed.
Lemma slot_ok_with_conf s h : slot_ok s -> h <> Some 0 -> slot_ok (with_conf s h).
Proof. destruct s; intros [(a & b & c0 & d) e] Hh; repeat split; assumption. Qed.

Lemma remove_tag_In tag l t q : In (t, q) (remove_tag tag l) -> In (t, q) l.
Proof.
  induction l as [|[t' q'] l IH]; cbn [remove_tag]; [auto|].
  destruct (bytes_eqb tag t'); simpl; intuition.
Qed.
Lemma slot_ok_remove_tag s tag : slot_ok s -> slot_ok (with_consumers s (remove_tag tag (s_consumers s))).
Proof.
  destruct s; intros [(a & b & c0 & d) e]; repeat split; try assumption.
  cbn in *. intros t q Hin. eapply b. eapply remove_tag_In. exact Hin.
Qed.
Lemma cons_qid_nz r k : cons_qid r k <> 0.
Proof. unfold cons_qid. lia. Qed.
Lemma slot_ok_new_consumer s tag : slot_ok s -> slot_ok (with_new_consumer s tag (cons_qid (s_reply s) (s_ncons s))).
Proof.
  destruct s; intros [(a & b & c0 & d) e]; repeat split; try assumption.
  cbn in *. intros t q [E|Hin]; [inversion E; apply cons_qid_nz | eapply b; exact Hin].
Qed.

Lemma lookup_tag_In tag l q : lookup_tag tag l = Some q -> exists t, In (t, q) l.
Proof.
  induction l as [|[t' q'] l IH]; cbn [lookup_tag]; [discriminate|].
  destruct (bytes_eqb tag t').
  - intro H; inversion H; subst. exists t'. left; reflexivity.
  - intro H. destruct (IH H) as (t & Hin). exists t. right; exact Hin.
Qed.

Lemma listener_send_q0 h it m h' m' :
  listener_send h it m = (h', m') -> h <> Some 0 ->
  alookup 0 m' = alookup 0 m /\ h' <> Some 0.
Proof.
  unfold listener_send. destruct h as [q|]; [|intro H; inversion H; subst; split; [reflexivity|discriminate]].
  intros H Hq. assert (Hq0 : q <> 0) by congruence.
  destruct (try_send q it m) as [r m1] eqn:E. pose proof (try_send_q0 E Hq0) as H0.
  destruct r; inversion H; subst; (split; [|first [exact Hq | discriminate]]).
  - exact H0.
  - apply drop_tx_q0; exact Hq0.
  - apply drop_tx_q0; exact Hq0.
Qed.

(* ---------- client_exception ---------- *)

Lemma ob_append_sealed o bs : ob_sealed o = true -> ob_sealed (ob_append o bs) = true.
Proof. unfold ob_append. intro H; rewrite H; exact H. Qed.

Lemma client_exception_WFs code text c o c' :
  client_exception code text c = (o, c') -> WFs c -> o = OOk /\ WFs c'.
Proof.
  unfold client_exception. intros H W. inversion H; subst. split; [reflexivity|].
  constructor.
  - cbn. discriminate.
  - destruct W as [_ W2 _]. unfold all_slots_ok in *. unfold drop_ch0, seal, push_out.
    cbn. destruct (c_ch0 _); cbn; exact W2.
  - intros _. unfold drop_ch0, seal, push_out. cbn. destruct (c_ch0 _); reflexivity.
Qed.

(* ---------- the main step ---------- *)

Ltac done_keep W K Hs := split; [discriminate || (intros; discriminate) || idtac | intros _; eapply keep_WFs; [exact W | exact K | exact Hs]].

Lemma collect_WFs n s r c o c' :
  collect n s r c = (o, c') -> WFs c -> alookup n (c_slots c) = Some s ->
  (forall site, o <> OPanic site) /\ (o = OOk -> WFs c').
Proof.
  intros H W Hl. pose proof (all_slots_lookup (w_slots W) Hl) as Hok.
  unfold collect in H. destruct r as [|st|k props body].
  - inversion H; subst. split; [discriminate|discriminate].
  - inversion H; subst. split; [discriminate|]. intros _.
    eapply keep_WFs; [exact W | apply mk_keep; try reflexivity |].
    apply all_slots_set; [exact (w_slots W) | apply slot_ok_with_coll; exact Hok].
  - set (s' := with_coll s CNone) in *.
    assert (Hok' : slot_ok s') by (apply slot_ok_with_coll; exact Hok).
    assert (Hall : all_slots_ok (set_slot c n s')) by (apply all_slots_set; [exact (w_slots W)|exact Hok']).
    assert (K0 : keep c (set_slot c n s')) by (apply mk_keep; try reflexivity).
    unfold dispatch in H. destruct k.
    + destruct (lookup_tag tag (s_consumers s')) as [q|] eqn:Et.
      * destruct (lookup_tag_In Et) as (t & Hin).
        assert (Hq : q <> 0) by (destruct Hok' as [(_ & Hc & _) _]; eapply Hc; exact Hin).
        split; [eapply send_no_panic; exact H|]. intros _.
        eapply keep_WFs; [exact W | eapply keep_trans; [exact K0 | eapply send_keep; [exact H|exact Hq]] |].
        unfold all_slots_ok. rewrite (send_slots H). exact Hall.
      * inversion H; subst. split; discriminate.
    + destruct (listener_send (s_ret s') _ (c_qs (set_slot c n s'))) as [h qm] eqn:El.
      inversion H; subst. split; [discriminate|]. intros _.
      assert (Hr : s_ret s' <> Some 0) by (destruct Hok' as [(_ & _ & Hr & _) _]; exact Hr).
      destruct (listener_send_q0 El Hr) as (H0 & Hh).
      eapply keep_WFs; [exact W | apply mk_keep; try reflexivity; cbn; exact H0 |].
      apply all_slots_set; [|apply slot_ok_with_ret; assumption].
      intros k v Hin. eapply Hall. exact Hin.
    + assert (Hq : s_reply s' <> 0) by (destruct Hok' as [(Hr & _) _]; exact Hr).
      split; [eapply send_no_panic; exact H|]. intros _.
      eapply keep_WFs; [exact W | eapply keep_trans; [exact K0 | eapply send_keep; [exact H|exact Hq]] |].
      unfold all_slots_ok. rewrite (send_slots H). exact Hall.
Qed.

(* ---------- methods on a non-zero channel ---------- *)

Lemma push_out_keep c bs : keep c (push_out c bs).
Proof.
  constructor; try reflexivity. unfold push_out; cbn. apply ob_append_sealed.
Qed.

Lemma push_out_slots c bs : c_slots (push_out c bs) = c_slots c. Proof. reflexivity. Qed.

Lemma all_slots_eq c c' : c_slots c' = c_slots c -> all_slots_ok c -> all_slots_ok c'.
Proof. unfold all_slots_ok. intros E H. rewrite E. exact H. Qed.

Lemma process_method_WFs n m dbg c o c' :
  process_method n m dbg c = (o, c') -> WFs c ->
  (forall site, o <> OPanic site) /\ (o = OOk -> WFs c').
Proof.
  intros H W. unfold process_method in H.
  assert (Hexc : forall code text o c', client_exception code text c = (o, c') ->
                 (forall site, o <> OPanic site) /\ (o = OOk -> WFs c')).
  { intros code text o0 c0 He. destruct (client_exception_WFs He W) as [-> W']. split; [discriminate|auto]. }
  destruct m; try (eapply Hexc; exact H).
  - (* channel close *)
    destruct (alookup n (c_slots c)) as [sl|] eqn:Hl; [|inversion H; subst; split; discriminate].
    pose proof (all_slots_lookup (w_slots W) Hl) as Hok.
    destruct (notify_slot sl _ _ (remove_slot n c)) as [o1 c1] eqn:E.
    destruct (notify_slot_keep E Hok) as (K & S & Np).
    assert (W1 : WFs c1).
    { eapply keep_WFs; [exact W | eapply keep_trans; [|exact K]; apply mk_keep; try reflexivity |].
      eapply all_slots_eq; [exact S|]. apply all_slots_remove. exact (w_slots W). }
    destruct o1; inversion H; subst; (split; [first [discriminate | exact Np]|]); intro Hx; try discriminate.
    eapply keep_WFs; [exact W1 | apply push_out_keep | exact (w_slots W1)].
  - (* channel close-ok *)
    destruct (alookup n (c_slots c)) as [sl|] eqn:Hl; [|inversion H; subst; split; [discriminate|auto]].
    pose proof (all_slots_lookup (w_slots W) Hl) as Hok.
    destruct (notify_slot_keep H Hok) as (K & S & Np).
    split; [exact Np|]. intros _.
    eapply keep_WFs; [exact W | eapply keep_trans; [|exact K]; apply mk_keep; try reflexivity |].
    eapply all_slots_eq; [exact S|]. apply all_slots_remove. exact (w_slots W).
  - (* consume-ok *)
    destruct (alookup n (c_slots c)) as [sl|] eqn:Hl; [|inversion H; subst; split; discriminate].
    pose proof (all_slots_lookup (w_slots W) Hl) as Hok.
    destruct (lookup_tag tag (s_consumers sl)); [inversion H; subst; split; discriminate|].
    split; [eapply send_no_panic; exact H|]. intros _.
    assert (Hr : s_reply sl <> 0) by (destruct Hok as [(Hr & _) _]; exact Hr).
    eapply keep_WFs; [exact W | eapply keep_trans; [|eapply send_keep; [exact H|exact Hr]] |].
    + apply mk_keep; try reflexivity. cbn.
      apply alookup_insert_neq. intro E. symmetry in E. exact (cons_qid_nz E).
    + eapply all_slots_eq; [eapply send_slots; exact H|].
      apply all_slots_set; [|apply slot_ok_new_consumer; exact Hok].
      intros k v Hin. eapply (w_slots W). exact Hin.
  - (* cancel *)
    destruct (alookup n (c_slots c)) as [sl|] eqn:Hl; [|inversion H; subst; split; discriminate].
    pose proof (all_slots_lookup (w_slots W) Hl) as Hok.
    destruct (lookup_tag tag (s_consumers sl)) as [q|] eqn:Et.
    + destruct (lookup_tag_In Et) as (t & Hin).
      assert (Hq : q <> 0) by (destruct Hok as [(_ & Hc & _) _]; eapply Hc; exact Hin).
      destruct (send q IServerCancelled _) as [o1 c1] eqn:E.
      pose proof (send_keep E Hq) as K1. pose proof (send_slots E) as S1. pose proof (send_no_panic E) as N1.
      assert (W2 : WFs (set_qs c1 (drop_tx q (c_qs c1)))).
      { eapply keep_WFs; [exact W | |].
        - eapply keep_trans; [|eapply keep_trans; [exact K1|]].
          + apply mk_keep; try reflexivity.
          + apply mk_keep; try reflexivity. cbn. apply drop_tx_q0; exact Hq.
        - eapply all_slots_eq; [cbn; exact S1|].
          apply all_slots_set; [exact (w_slots W)|apply slot_ok_remove_tag; exact Hok]. }
      destruct o1; [destruct nowait|..]; inversion H; subst;
        (split; [first [discriminate | exact N1]|]); intro Hx; try discriminate.
      * exact W2.
      * eapply keep_WFs; [exact W2 | apply push_out_keep | exact (w_slots W2)].
    + destruct nowait; inversion H; subst; (split; [discriminate|]); intros _; [exact W|].
      eapply keep_WFs; [exact W | apply push_out_keep | exact (w_slots W)].
  - (* cancel-ok *)
    destruct (alookup n (c_slots c)) as [sl|] eqn:Hl; [|inversion H; subst; split; discriminate].
    pose proof (all_slots_lookup (w_slots W) Hl) as Hok.
    assert (Hr : s_reply sl <> 0) by (destruct Hok as [(Hr & _) _]; exact Hr).
    destruct (send (s_reply sl) _ _) as [o1 c1] eqn:E.
    pose proof (send_keep E Hr) as K1. pose proof (send_slots E) as S1. pose proof (send_no_panic E) as N1.
    assert (W1 : WFs c1).
    { eapply keep_WFs; [exact W | eapply keep_trans; [|exact K1]; apply mk_keep; try reflexivity |].
      eapply all_slots_eq; [exact S1|].
      apply all_slots_set; [exact (w_slots W)|apply slot_ok_remove_tag; exact Hok]. }
    destruct o1.
    + destruct (lookup_tag tag (s_consumers sl)) as [q|] eqn:Et.
      * destruct (lookup_tag_In Et) as (t & Hin).
        assert (Hq : q <> 0) by (destruct Hok as [(_ & Hc & _) _]; eapply Hc; exact Hin).
        destruct (send q IClientCancelled c1) as [o2 c2] eqn:E2.
        inversion H; subst. split; [eapply send_no_panic; exact E2|]. intros _.
        eapply keep_WFs; [exact W1 | eapply keep_trans; [eapply send_keep; [exact E2|exact Hq]|] |].
        -- apply mk_keep; try reflexivity. cbn. apply drop_tx_q0; exact Hq.
        -- eapply all_slots_eq; [cbn; eapply send_slots; exact E2|]. exact (w_slots W1).
      * inversion H; subst. split; [discriminate|]. intros _. exact W1.
    + inversion H; subst. split; discriminate.
    + inversion H; subst. split; [exact N1|discriminate].
  - destruct (alookup n (c_slots c)) as [sl|] eqn:Hl; [|inversion H; subst; split; discriminate].
    eapply collect_WFs; eassumption.
  - destruct (alookup n (c_slots c)) as [sl|] eqn:Hl; [|inversion H; subst; split; discriminate].
    eapply collect_WFs; eassumption.
  - destruct (alookup n (c_slots c)) as [sl|] eqn:Hl; [|inversion H; subst; split; discriminate].
    eapply collect_WFs; eassumption.
  - (* get-empty *)
    destruct (alookup n (c_slots c)) as [sl|] eqn:Hl; [|inversion H; subst; split; discriminate].
    pose proof (all_slots_lookup (w_slots W) Hl) as Hok.
    assert (Hr : s_reply sl <> 0) by (destruct Hok as [(Hr & _) _]; exact Hr).
    split; [eapply send_no_panic; exact H|]. intros _.
    eapply keep_WFs; [exact W | eapply send_keep; [exact H|exact Hr] |].
    eapply all_slots_eq; [eapply send_slots; exact H|exact (w_slots W)].
  - (* ack *)
    destruct (alookup n (c_slots c)) as [sl|] eqn:Hl; [|inversion H; subst; split; discriminate].
    pose proof (all_slots_lookup (w_slots W) Hl) as Hok.
    destruct (listener_send (s_conf sl) _ (c_qs c)) as [h qm] eqn:El.
    assert (Hc : s_conf sl <> Some 0) by (destruct Hok as [(_ & _ & _ & Hc) _]; exact Hc).
    destruct (listener_send_q0 El Hc) as (H0 & Hh).
    inversion H; subst. split; [discriminate|]. intros _.
    eapply keep_WFs; [exact W | apply mk_keep; try reflexivity; cbn; exact H0 |].
    apply all_slots_set; [exact (w_slots W)|apply slot_ok_with_conf; assumption].
  - (* nack *)
    destruct (alookup n (c_slots c)) as [sl|] eqn:Hl; [|inversion H; subst; split; discriminate].
    pose proof (all_slots_lookup (w_slots W) Hl) as Hok.
    destruct (listener_send (s_conf sl) _ (c_qs c)) as [h qm] eqn:El.
    assert (Hc : s_conf sl <> Some 0) by (destruct Hok as [(_ & _ & _ & Hc) _]; exact Hc).
    destruct (listener_send_q0 El Hc) as (H0 & Hh).
    inversion H; subst. split; [discriminate|]. intros _.
    eapply keep_WFs; [exact W | apply mk_keep; try reflexivity; cbn; exact H0 |].
    apply all_slots_set; [exact (w_slots W)|apply slot_ok_with_conf; assumption].
  - (* generic replies *)
    destruct (alookup n (c_slots c)) as [sl|] eqn:Hl; [|inversion H; subst; split; discriminate].
    pose proof (all_slots_lookup (w_slots W) Hl) as Hok.
    assert (Hr : s_reply sl <> 0) by (destruct Hok as [(Hr & _) _]; exact Hr).
    split; [eapply send_no_panic; exact H|]. intros _.
    eapply keep_WFs; [exact W | eapply send_keep; [exact H|exact Hr] |].
    eapply all_slots_eq; [eapply send_slots; exact H|exact (w_slots W)].
Qed.

(* ---------- every frame ---------- *)

Lemma drop_ch0_slots c : c_slots (drop_ch0 c) = c_slots c.
Proof. unfold drop_ch0. destruct (c_ch0 c); reflexivity. Qed.
Lemma drop_ch0_out c : c_out (drop_ch0 c) = c_out c.
Proof. unfold drop_ch0. destruct (c_ch0 c); reflexivity. Qed.

Lemma sort_slots_ok c : all_slots_ok c -> forall n s, In (n, s) (sort_slots (c_slots c)) -> slot_ok s.
Proof. intros H n s Hin. eapply H. apply (proj1 (sort_slots_In _ _)). exact Hin. Qed.

(* after a connection-level close every slot is gone *)
Lemma drain_slots_WFs rep cons c o c' ph :
  drain_slots rep cons c = (o, c') -> all_slots_ok c ->
  c_phase c = ph -> ph <> PSteady ->
  (ob_sealed (c_out c) = true \/ ph = PClientClosed) ->
  (forall site, o <> OPanic site) /\ WFs c'.
Proof.
  intros H Hok Hph Hns Hseal. unfold drain_slots in H.
  set (c1 := set_slots c (snd (drain (c_ids c))) []) in *.
  destruct (notify_all_keep H (sort_slots_ok Hok)) as (K & S & Np).
  split; [exact Np|]. constructor.
  - rewrite (k_phase K). cbn. rewrite Hph. intro E. contradiction.
  - unfold all_slots_ok. rewrite S. cbn. intros n s [].
  - rewrite (k_phase K). cbn. rewrite Hph. intro Hp. apply (k_out K). cbn.
    destruct Hseal as [Hs|Hc]; [exact Hs|]. exfalso. rewrite Hc in Hp.
    destruct Hp as [(code & text & E)|E]; discriminate E.
Qed.

Theorem process_WFs c f o c' :
  process c f = (o, c') -> WFs c ->
  (forall site, o <> OPanic site) /\ (o = OOk -> WFs c').
Proof.
  intros H W. unfold process in H. destruct f as [f dbg].
  destruct (c_phase c) eqn:Hph;
    try (inversion H; subst; split; [discriminate | first [discriminate | intros _; exact W]]).
  assert (Hexc : forall code text o c', client_exception code text c = (o, c') ->
                 (forall site, o <> OPanic site) /\ (o = OOk -> WFs c')).
  { intros code text o0 c0 He. destruct (client_exception_WFs He W) as [-> W']. split; [discriminate|auto]. }
  destruct (w_ch0 W Hph) as (z & Hz & Hzr & Hzb & Hsb & (qu & Hq0 & Hq0i & Hq0c)).
  destruct f as [ch m|ch size props|ch body|ch|].
  - destruct ch as [|p].
    + (* channel 0 methods *)
      destruct m; try (eapply Hexc; exact H).
      * (* server closes the connection *)
        match type of H with drain_slots ?r ?k ?cc = _ =>
          destruct (@drain_slots_WFs r k cc o c' (PServerClosing code text) H) as (Np & W') end.
        -- unfold all_slots_ok. cbn. rewrite drop_ch0_slots. cbn. exact (w_slots W).
        -- reflexivity.
        -- discriminate.
        -- left. cbn. rewrite drop_ch0_out. reflexivity.
        -- split; [exact Np | intros _; exact W'].
      * (* server confirms our close *)
        rewrite Hz in H. rewrite Hzr in H.
        unfold try_send in H. rewrite Hq0 in H.
        destruct (negb (q_rx qu)); [inversion H; subst; split; discriminate|].
        rewrite Hq0c, Hq0i in H. cbn [length N.of_nat] in H.
        assert (Hb : (c_reply_queue_bound <=? 0) = false) by reflexivity.
        rewrite Hb in H.
        match type of H with drain_slots ?r ?k ?cc = _ =>
          destruct (@drain_slots_WFs r k cc o c' PClientClosed H) as (Np & W') end.
        -- unfold all_slots_ok. cbn. rewrite drop_ch0_slots. cbn. exact (w_slots W).
        -- reflexivity.
        -- discriminate.
        -- right. reflexivity.
        -- split; [exact Np | intros _; exact W'].
      * (* blocked *)
        rewrite Hz in H.
        destruct (listener_send (z_blocked z) _ (c_qs c)) as [h m'] eqn:El.
        destruct (listener_send_q0 El Hzb) as (H0 & Hh).
        inversion H; subst. split; [discriminate|]. intros _. constructor.
        -- intros _. eexists. split; [reflexivity|]. cbn. repeat split; try assumption.
           exists qu. rewrite H0. auto.
        -- exact (w_slots W).
        -- cbn. rewrite Hph. intros [(a & b & E)|E]; discriminate.
      * (* unblocked *)
        rewrite Hz in H.
        destruct (listener_send (z_blocked z) _ (c_qs c)) as [h m'] eqn:El.
        destruct (listener_send_q0 El Hzb) as (H0 & Hh).
        inversion H; subst. split; [discriminate|]. intros _. constructor.
        -- intros _. eexists. split; [reflexivity|]. cbn. repeat split; try assumption.
           exists qu. rewrite H0. auto.
        -- exact (w_slots W).
        -- cbn. rewrite Hph. intros [(a & b & E)|E]; discriminate.
    + eapply process_method_WFs; eassumption.
  - destruct ch as [|p]; [eapply Hexc; exact H|].
    destruct (alookup _ (c_slots c)) as [sl|] eqn:Hl; [|inversion H; subst; split; discriminate].
    eapply collect_WFs; eassumption.
  - destruct ch as [|p]; [eapply Hexc; exact H|].
    destruct (alookup _ (c_slots c)) as [sl|] eqn:Hl; [|inversion H; subst; split; discriminate].
    eapply collect_WFs; eassumption.
  - destruct ch; inversion H; subst; split; try discriminate. intros _; exact W.
  - inversion H; subst; split; discriminate.
Qed.

(* C07: no finite sequence of frames, of any kind, panics or blocks the I/O thread *)
Theorem process_all_WFs fs : forall c o c',
  process_all c fs = (o, c') -> WFs c ->
  (forall site, o <> OPanic site) /\ (o = OOk -> WFs c').
Proof.
  induction fs as [|f fs IH]; intros c o c' H W; cbn [process_all] in H.
  - inversion H; subst. split; [discriminate | intros _; exact W].
  - destruct (process c f) as [o1 c1] eqn:E. destruct (process_WFs E W) as (Np & Hw).
    destruct o1; [eapply IH; [exact H | apply Hw; reflexivity] | ..];
      inversion H; subst; (split; [exact Np | discriminate]).
Qed.

(* the state right after the handshake satisfies the invariant *)
Lemma WFs_init mx bound : WFs (init_core mx bound).
Proof.
  constructor.
  - intros _. eexists. split; [reflexivity|]. cbn. repeat split; try discriminate.
    + intros q [].
    + eexists. split; [reflexivity|]. split; reflexivity.
  - intros n s [].
  - cbn. intros [(a & b & E)|E]; discriminate.
Qed.

(* ---------- the client-exception path (C07) ---------- *)

Theorem client_exception_effect code text c :
  ob_sealed (c_out c) = false ->
  exists c', client_exception code text c = (OOk, c') /\
    c_phase c' = PClientException /\ ob_sealed (c_out c') = true /\
    ob (c_out c') = ob (c_out c) ++ ser_conn_close code (trunc255 text) /\
    c_ch0 c' = None.
Proof.
  intro Hs. unfold client_exception. eexists. split; [reflexivity|].
  unfold drop_ch0, seal, push_out, set_out, set_phase, set_ch0, set_qs. cbn.
  destruct (c_ch0 c) eqn:E; cbn; unfold ob_append; rewrite Hs; cbn; repeat split; reflexivity.
Qed.

Theorem exception_ignores_frames c f :
  c_phase c = PClientException -> process c f = (OOk, c).
Proof. intro H. unfold process. destruct f. rewrite H. reflexivity. Qed.

(* which frames raise which hard error *)
Theorem exception_codes c dbg :
  c_phase c = PSteady ->
  (forall n, n <> 0 -> process c (FMethod n MUnimpl, dbg)
     = client_exception hard_not_implemented (txt_unimpl_a ++ dec n ++ txt_method ++ dbg) c) /\
  (forall n, n <> 0 -> process c (FMethod n MIllegal, dbg)
     = client_exception hard_not_allowed (txt_illegal_a ++ dec n ++ txt_method ++ dbg) c) /\
  (process c (FMethod 0 MConnOther, dbg) = client_exception hard_not_implemented (txt_ch0_method ++ dbg) c) /\
  (forall size props, process c (FHeader 0 size props, dbg) = client_exception hard_not_allowed (txt_ch0_frame ++ dbg) c) /\
  (forall body, process c (FBody 0 body, dbg) = client_exception hard_not_allowed (txt_ch0_frame ++ dbg) c).
Proof.
  intro H. unfold process. rewrite H. repeat split; intros; try reflexivity;
    (destruct n; [contradiction|reflexivity]).
Qed.
