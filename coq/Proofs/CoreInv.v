(* An invariant of the I/O thread's steady-state machine (Model/Core.process) under which
   no frame, of any kind, in any state, makes it panic or block: used by C07 and C20.
   Stdlib only, no axioms. *)
From Amq Require Import Lib.Base Gen.Consts Model.Wire Model.Frames Model.OutBuf
     Model.Collector Model.Slots Model.Core Spec.Slots Proofs.Slots.

(* ---------- queues 0 and 1 belong to channel 0 (its reply queue and the allocation-reply
   queue), and to nobody else: every other queue anything refers to has an id >= 2 ---------- *)

Definition free_opt (o : option N) : Prop := match o with Some q => 2 <= q | None => True end.

Definition q0free_slot (s : slot) : Prop :=
  2 <= s_reply s /\ (forall t q, In (t, q) (s_consumers s) -> 2 <= q) /\
  free_opt (s_ret s) /\ free_opt (s_conf s).

Definition q0_room (m : qs) : Prop :=
  exists qu, alookup 0 m = Some qu /\ q_items qu = [] /\ q_cap qu = Some c_reply_queue_bound.

(* the queue map agrees on the two low queues *)
Definition low_same (m' m : qs) : Prop := forall k, k < 2 -> alookup k m' = alookup k m.

Lemma low_same_refl m : low_same m m. Proof. intros k _. reflexivity. Qed.
Lemma low_same_trans a b c : low_same a b -> low_same b c -> low_same a c.
Proof. intros H1 H2 k Hk. rewrite H1, H2; auto. Qed.
From Coq Require Import RelationClasses.
#[global] Instance low_same_Reflexive : Reflexive low_same := low_same_refl.

(* what every helper keeps: phase, channel-0 slot, id table, sealedness, and queues 0 / 1 *)
Record keep (c c' : core) : Prop := {
  k_phase : c_phase c' = c_phase c;
  k_ch0 : c_ch0 c' = c_ch0 c;
  k_ids : c_ids c' = c_ids c;
  k_nextq : c_nextq c' = c_nextq c;
  k_out : ob_sealed (c_out c) = true -> ob_sealed (c_out c') = true;
  k_q0 : low_same (c_qs c') (c_qs c) }.

Lemma mk_keep c c' :
  c_phase c' = c_phase c -> c_ch0 c' = c_ch0 c -> c_ids c' = c_ids c -> c_nextq c' = c_nextq c ->
  c_out c' = c_out c -> low_same (c_qs c') (c_qs c) -> keep c c'.
Proof. intros a b i n d e. constructor; try assumption. rewrite d. auto. Qed.

Lemma keep_refl c : keep c c. Proof. apply mk_keep; reflexivity. Qed.
Lemma keep_trans a b c : keep a b -> keep b c -> keep a c.
Proof.
  intros [a1 a2 a3 an a4 a5] [b1 b2 b3 bn b4 b5]; constructor; try congruence; auto.
  eapply low_same_trans; eassumption.
Qed.

Lemma try_send_q0 q it m r m' : try_send q it m = (r, m') -> 2 <= q -> low_same m' m.
Proof.
  unfold try_send. destruct (alookup q m) as [qu|]; [|intro H; inversion H; intros; apply low_same_refl].
  destruct (negb (q_rx qu)); [intro H; inversion H; intros; apply low_same_refl|].
  destruct (match q_cap qu with Some c => _ | None => false end);
    intro H; inversion H; subst; intro Hq; [apply low_same_refl|].
  intros k Hk. apply alookup_insert_neq. lia.
Qed.

Lemma drop_tx_q0 q m : 2 <= q -> low_same (drop_tx q m) m.
Proof.
  intros Hq k Hk. unfold drop_tx. destruct (alookup q m); [|reflexivity].
  apply alookup_insert_neq. lia.
Qed.

Lemma drop_tx_opt_q0 q m : free_opt q -> low_same (drop_tx_opt q m) m.
Proof. destruct q as [q|]; [|intros; apply low_same_refl]. intro H. apply drop_tx_q0. exact H. Qed.

Lemma send_keep q it c o c' : send q it c = (o, c') -> 2 <= q -> keep c c'.
Proof.
  unfold send. destruct (try_send q it (c_qs c)) as [r m] eqn:E. intros H Hq.
  pose proof (try_send_q0 E Hq) as H0.
  destruct r; inversion H; subst; apply mk_keep; try reflexivity; first [exact H0 | apply low_same_refl].
Qed.

Lemma send_slots q it c o c' : send q it c = (o, c') -> c_slots c' = c_slots c.
Proof.
  unfold send. destruct (try_send q it (c_qs c)) as [[| |] m]; intro H; inversion H; reflexivity.
Qed.

Lemma send_no_panic q it c o c' : send q it c = (o, c') -> forall site, o <> OPanic site.
Proof.
  unfold send. destruct (try_send q it (c_qs c)) as [[| |] m]; intro H; inversion H; discriminate.
Qed.

Lemma send_all_keep cons it : forall c o c',
  send_all cons it c = (o, c') -> (forall t q, In (t, q) cons -> 2 <= q) ->
  keep c c' /\ c_slots c' = c_slots c /\ forall site, o <> OPanic site.
Proof.
  induction cons as [|[t q] cons IH]; intros c o c' H Hq; cbn [send_all] in H.
  - inversion H; subst. split; [apply keep_refl | split; [reflexivity | discriminate]].
  - destruct (send q it c) as [o1 c1] eqn:E.
    assert (Hq0 : 2 <= q) by (eapply Hq; left; reflexivity).
    pose proof (send_keep E Hq0) as K1. pose proof (send_slots E) as S1.
    pose proof (send_no_panic E) as N1.
    destruct o1.
    + destruct (IH c1 o c' H) as (K2 & S2 & N2); [intros; eapply Hq; right; eassumption|].
      split; [eapply keep_trans; eassumption | split; [congruence | exact N2]].
    + inversion H; subst. split; [|split]; assumption.
    + inversion H; subst. split; [|split]; assumption.
Qed.

Lemma fold_drop_cons_q0 (cons : list (str * N)) : forall m,
  (forall t q, In (t, q) cons -> 2 <= q) ->
  low_same (fold_left (fun m '(_, q) => drop_tx q m) cons m) m.
Proof.
  induction cons as [|[t q] cons IH]; intros m Hq; cbn [fold_left]; [apply low_same_refl|].
  eapply low_same_trans; [apply IH; intros; eapply Hq; right; eassumption|].
  apply drop_tx_q0. eapply Hq; left; reflexivity.
Qed.

Definition mail_q0free (l : list msg) : Prop := forall x, In x l -> free_opt (msg_q x).

Lemma fold_drop_mail_q0 l : forall m,
  mail_q0free l ->
  low_same (fold_left (fun m x => drop_tx_opt (msg_q x) m) l m) m.
Proof.
  induction l as [|x l IH]; intros m Hq; cbn [fold_left]; [apply low_same_refl|].
  eapply low_same_trans; [apply IH; intros y Hy; apply Hq; right; exact Hy|].
  apply drop_tx_opt_q0. apply Hq. left; reflexivity.
Qed.

(* slots whose mailbox holds no listener registration naming queue 0 *)
Definition slot_ok (s : slot) : Prop := q0free_slot s /\ mail_q0free (s_mail s).

Lemma drop_slot_qs_q0 s m : slot_ok s -> low_same (drop_slot_qs s m) m.
Proof.
  intros [(Hr & Hc & Hret & Hconf) Hm]. unfold drop_slot_qs.
  eapply low_same_trans; [apply fold_drop_mail_q0; exact Hm|].
  eapply low_same_trans; [apply drop_tx_opt_q0; exact Hconf|].
  eapply low_same_trans; [apply drop_tx_opt_q0; exact Hret|].
  eapply low_same_trans; [apply fold_drop_cons_q0; exact Hc|]. apply drop_tx_q0. exact Hr.
Qed.

Lemma notify_slot_gen_keep b s rep cons c o c' :
  notify_slot_gen b s rep cons c = (o, c') -> slot_ok s ->
  keep c c' /\ c_slots c' = c_slots c /\ forall site, o <> OPanic site.
Proof.
  intros H Hok. pose proof Hok as [(Hr & Hc & _) _]. unfold notify_slot_gen in H.
  assert (Hdrop : forall cx, keep cx (set_qs cx (drop_slot_qs s (c_qs cx)))).
  { intro cx. apply mk_keep; try reflexivity. cbn. apply drop_slot_qs_q0. exact Hok. }
  destruct b.
  - destruct (send_all (s_consumers s) cons c) as [o1 c1] eqn:E1.
    destruct (send_all_keep E1 Hc) as (K1 & S1 & N1).
    destruct o1.
    + destruct (send (s_reply s) rep c1) as [o2 c2] eqn:E2.
      pose proof (send_keep E2 Hr) as K2. pose proof (send_slots E2) as S2.
      pose proof (send_no_panic E2) as N2.
      inversion H; subst o c'. cbn [fst snd].
      split; [eapply keep_trans; [exact K1|]; eapply keep_trans; [exact K2|]; apply Hdrop|].
      split; [cbn; congruence|exact N2].
    + inversion H; subst o c'. cbn [fst snd].
      split; [eapply keep_trans; [exact K1 | apply Hdrop] | split; [cbn; exact S1 | exact N1]].
    + inversion H; subst o c'. cbn [fst snd].
      split; [eapply keep_trans; [exact K1 | apply Hdrop] | split; [cbn; exact S1 | exact N1]].
  - destruct (send (s_reply s) rep c) as [o1 c1] eqn:E1.
    pose proof (send_keep E1 Hr) as K1. pose proof (send_slots E1) as S1.
    pose proof (send_no_panic E1) as N1.
    destruct o1.
    + destruct (send_all (s_consumers s) cons c1) as [o2 c2] eqn:E2.
      destruct (send_all_keep E2 Hc) as (K2 & S2 & N2).
      inversion H; subst o c'. cbn [fst snd].
      split; [eapply keep_trans; [exact K1|]; eapply keep_trans; [exact K2|]; apply Hdrop|].
      split; [cbn; congruence|exact N2].
    + inversion H; subst o c'. cbn [fst snd].
      split; [eapply keep_trans; [exact K1 | apply Hdrop] | split; [cbn; exact S1 | exact N1]].
    + inversion H; subst o c'. cbn [fst snd].
      split; [eapply keep_trans; [exact K1 | apply Hdrop] | split; [cbn; exact S1 | exact N1]].
Qed.
Definition notify_slot_keep s rep cons c o c' := @notify_slot_gen_keep true s rep cons c o c'.
Definition notify_slot_cf_keep s rep cons c o c' := @notify_slot_gen_keep false s rep cons c o c'.

Lemma fold_drop_slots_q0 (ss : list (N * slot)) : forall m,
  (forall n s, In (n, s) ss -> slot_ok s) ->
  low_same (fold_left (fun m '(_, s') => drop_slot_qs s' m) ss m) m.
Proof.
  induction ss as [|[n s] ss IH]; intros m H; cbn [fold_left]; [apply low_same_refl|].
  eapply low_same_trans; [apply IH; intros; eapply H; right; eassumption|].
  apply drop_slot_qs_q0. eapply H; left; reflexivity.
Qed.

Lemma notify_all_keep ss rep cons : forall c o c',
  notify_all ss rep cons c = (o, c') -> (forall n s, In (n, s) ss -> slot_ok s) ->
  keep c c' /\ c_slots c' = c_slots c /\ forall site, o <> OPanic site.
Proof.
  induction ss as [|[n s] ss IH]; intros c o c' H Hok; cbn [notify_all] in H.
  - inversion H; subst. split; [apply keep_refl | split; [reflexivity | discriminate]].
  - destruct (notify_slot s rep cons c) as [o1 c1] eqn:E.
    assert (Hs : slot_ok s) by (eapply Hok; left; reflexivity).
    destruct (notify_slot_keep E Hs) as (K1 & S1 & N1).
    assert (Hrest : forall n s, In (n, s) ss -> slot_ok s) by (intros; eapply Hok; right; eassumption).
    destruct o1.
    + destruct (IH c1 o c' H Hrest) as (K2 & S2 & N2).
      split; [eapply keep_trans; eassumption | split; [congruence | exact N2]].
    + inversion H; subst. split; [|split; [cbn; exact S1|exact N1]].
      eapply keep_trans; [exact K1|]. apply mk_keep; try reflexivity. cbn.
      apply fold_drop_slots_q0. exact Hrest.
    + inversion H; subst. split; [|split; [cbn; exact S1|exact N1]].
      eapply keep_trans; [exact K1|]. apply mk_keep; try reflexivity. cbn.
      apply fold_drop_slots_q0. exact Hrest.
Qed.

(* ---------- sorting the slot table keeps its elements ---------- *)

Lemma insert_by_id_In x y l : In y (insert_by_id x l) <-> y = x \/ In y l.
Proof.
  induction l as [|z l IH]; cbn [insert_by_id]; [simpl; intuition|].
  destruct (fst x <=? fst z); simpl; [intuition|]. rewrite IH. intuition.
Qed.
Lemma sort_slots_In y l : In y (sort_slots l) <-> In y l.
Proof.
  unfold sort_slots. induction l as [|z l IH]; cbn [fold_right]; [reflexivity|].
  rewrite insert_by_id_In, IH. simpl. intuition.
Qed.

(* every entry of the table is reachable by lookup or shadowed; we ask slot_ok of all *)
Definition all_slots_ok (c : core) : Prop := forall n s, In (n, s) (c_slots c) -> slot_ok s.

Lemma all_slots_lookup c n s : all_slots_ok c -> alookup n (c_slots c) = Some s -> slot_ok s.
Proof.
  intros H Hl. unfold all_slots_ok in H. revert Hl H. generalize (c_slots c) as l. clear.
  induction l as [|[k v] l IH]; intros Hl H; cbn [alookup] in Hl; [discriminate|].
  destruct (n =? k) eqn:E.
  - inversion Hl; subst. eapply H. left; reflexivity.
  - apply IH; [exact Hl | intros; eapply H; right; eassumption].
Qed.

Lemma aremove_In {V} k (m : alist V) x : In x (aremove k m) -> In x m.
Proof.
  induction m as [|[k' v] m IH]; cbn [aremove]; [auto|].
  destruct (k =? k'); simpl; intuition.
Qed.

Lemma all_slots_set c n s : all_slots_ok c -> slot_ok s -> all_slots_ok (set_slot c n s).
Proof.
  intros H Hs k v Hin. unfold set_slot, set_slots, ainsert in Hin. cbn in Hin.
  destruct Hin as [E|Hin]; [inversion E; subst; exact Hs|].
  eapply H. eapply aremove_In. exact Hin.
Qed.

Lemma all_slots_remove c n : all_slots_ok c -> all_slots_ok (remove_slot n c).
Proof.
  intros H k v Hin. unfold remove_slot, set_slots in Hin. cbn in Hin.
  eapply H. eapply aremove_In. exact Hin.
Qed.

(* ---------- the strengthened invariant used for sequences ---------- *)

(* channel 0's own mailbox carries only Send / ConnectionClose (the Connection handle has no
   listener registrations to send there) *)
Definition plain_msg (m : msg) : Prop :=
  match m with MsgSend _ | MsgConnClose _ => True | _ => False end.

(* at most one allocation request is outstanding, and while it is the reply queue (id 1,
   capacity 1) is empty: IoLoopHandle0::allocate_channel sends one request and waits for
   its reply, and Connection::open_channel takes &mut self *)
Definition alloc_ok (c : core) (z : ch0slot) : Prop :=
  (length (z_alloc_req z) <= 1)%nat /\
  (z_alloc_req z <> [] ->
   exists qu, alookup 1 (c_qs c) = Some qu /\ q_items qu = [] /\ q_cap qu = Some 1).

Record WFs (c : core) : Prop := {
  w_ch0 : c_phase c = PSteady ->
          exists z, c_ch0 c = Some z /\ z_reply z = 0 /\ z_alloc_rep z = 1 /\ free_opt (z_blocked z) /\
                    (forall q, In q (z_setb z) -> 2 <= q) /\ q0_room (c_qs c) /\
                    Forall plain_msg (z_mail z) /\ alloc_ok c z;
  w_slots : all_slots_ok c;
  w_sealed : (exists code text, c_phase c = PServerClosing code text) \/ c_phase c = PClientException ->
             ob_sealed (c_out c) = true;
  w_ids : Inv (c_ids c);
  w_nextq : 2 <= c_nextq c;
  w_ch0_none : c_phase c <> PSteady -> c_ch0 c = None }.

Lemma keep_WFs c c' :
  WFs c -> keep c c' -> all_slots_ok c' -> WFs c'.
Proof.
  intros [W1 W2 W3 W4 W5 W6] [K1 K2 Ki Hn K3 K4] Hs. constructor.
  - rewrite K1. intro Hp.
    destruct (W1 Hp) as (z & Hz & Hr & Ha & Hb & Hsb & (qu & Hq & Hi & Hc) & Hm & (Hal1 & Hal2)).
    exists z. rewrite K2. repeat split; try assumption.
    + exists qu. rewrite (K4 0) by lia. auto.
    + intro Hne. destruct (Hal2 Hne) as (q1 & Hq1 & Hq1i & Hq1c). exists q1. rewrite (K4 1) by lia. auto.
  - exact Hs.
  - rewrite K1. intro Hp. apply K3. apply W3. exact Hp.
  - rewrite Ki. exact W4.
  - rewrite Hn. exact W5.
  - rewrite K1, K2. exact W6.
Qed.

(* slot updates that keep slot_ok *)
Lemma slot_ok_with_coll s st : slot_ok s -> slot_ok (with_coll s st).
Proof. destruct s; intro H; exact H. Qed.
Lemma slot_ok_with_ret s h : slot_ok s -> free_opt h -> slot_ok (with_ret s h).
Proof. destruct s; intros [(a & b & c0 & d) e] Hh; repeat split; assumption. Qed.
Lemma slot_ok_with_conf s h : slot_ok s -> free_opt h -> slot_ok (with_conf s h).
Proof. destruct s; intros [(a & b & c0 & d) e] Hh; repeat split; assumption. Qed.

Lemma remove_tag_In tag l t q : In (t, q) (remove_tag tag l) -> In (t, q) l.
Proof.
  induction l as [|[t' q'] l IH]; cbn [remove_tag]; [auto|].
  destruct (bytes_eqb tag t'); simpl; intuition.
Qed.
Lemma slot_ok_remove_tag s tag : slot_ok s -> slot_ok (with_consumers s (remove_tag tag (s_consumers s))).
Proof.
  destruct s; intros [(a & b & c0 & d) e]; repeat split; try assumption.
  cbn in *. intros t q Hin. eapply b. eapply remove_tag_In. exact Hin.
Qed.
Lemma cons_qid_nz r k : 2 <= cons_qid r k.
Proof. unfold cons_qid. lia. Qed.
Lemma slot_ok_new_consumer s tag : slot_ok s -> slot_ok (with_new_consumer s tag (cons_qid (s_reply s) (s_ncons s))).
Proof.
  destruct s; intros [(a & b & c0 & d) e]; repeat split; try assumption.
  cbn in *. intros t q [E|Hin]; [inversion E; apply cons_qid_nz | eapply b; exact Hin].
Qed.

Lemma lookup_tag_In tag l q : lookup_tag tag l = Some q -> exists t, In (t, q) l.
Proof.
  induction l as [|[t' q'] l IH]; cbn [lookup_tag]; [discriminate|].
  destruct (bytes_eqb tag t').
  - intro H; inversion H; subst. exists t'. left; reflexivity.
  - intro H. destruct (IH H) as (t & Hin). exists t. right; exact Hin.
Qed.

Lemma listener_send_q0 h it m h' m' :
  listener_send h it m = (h', m') -> free_opt h ->
  low_same m' m /\ free_opt h'.
Proof.
  unfold listener_send. destruct h as [q|]; [|intro H; inversion H; subst; split; [reflexivity|exact I]].
  intros H Hq. assert (Hq0 : 2 <= q) by exact Hq.
  destruct (try_send q it m) as [r m1] eqn:E. pose proof (try_send_q0 E Hq0) as H0.
  destruct r; inversion H; subst; (split; [|first [exact Hq | exact I]]).
  - exact H0.
  - apply drop_tx_q0; exact Hq0.
  - apply drop_tx_q0; exact Hq0.
Qed.

(* ---------- client_exception ---------- *)

Lemma ob_append_sealed o bs : ob_sealed o = true -> ob_sealed (ob_append o bs) = true.
Proof. unfold ob_append. intro H; rewrite H; exact H. Qed.

Lemma drop_ch0_none c : c_ch0 (drop_ch0 c) = None.
Proof. unfold drop_ch0. destruct (c_ch0 c) eqn:E; [reflexivity | exact E]. Qed.

Lemma client_exception_WFs code text c o c' :
  client_exception code text c = (o, c') -> WFs c -> o = OOk /\ WFs c'.
Proof.
  unfold client_exception. intros H W. inversion H; subst. split; [reflexivity|].
  constructor.
  - cbn. discriminate.
  - destruct W as [_ W2 _ _ _ _]. unfold all_slots_ok in *. unfold drop_ch0, seal, push_out.
    cbn. destruct (c_ch0 _); cbn; exact W2.
  - intros _. unfold drop_ch0, seal, push_out. cbn. destruct (c_ch0 _); reflexivity.
  - unfold drop_ch0, seal, push_out. cbn. destruct (c_ch0 _); cbn; exact (w_ids W).
  - unfold drop_ch0, seal, push_out. cbn. destruct (c_ch0 _); cbn; exact (w_nextq W).
  - intros _. cbn. apply drop_ch0_none.
Qed.

(* ---------- the main step ---------- *)

Ltac done_keep W K Hs := split; [discriminate || (intros; discriminate) || idtac | intros _; eapply keep_WFs; [exact W | exact K | exact Hs]].

Lemma collect_WFs n s r c o c' :
  collect n s r c = (o, c') -> WFs c -> alookup n (c_slots c) = Some s ->
  (forall site, o <> OPanic site) /\ WFs c'.
Proof.
  intros H W Hl. pose proof (all_slots_lookup (w_slots W) Hl) as Hok.
  unfold collect in H. destruct r as [|st|k props body].
  - inversion H; subst. split; [discriminate|].
    eapply keep_WFs; [exact W | apply mk_keep; try reflexivity |].
    apply all_slots_set; [exact (w_slots W) | apply slot_ok_with_coll; exact Hok].
  - inversion H; subst. split; [discriminate|].
    eapply keep_WFs; [exact W | apply mk_keep; try reflexivity |].
    apply all_slots_set; [exact (w_slots W) | apply slot_ok_with_coll; exact Hok].
  - set (s' := with_coll s CNone) in *.
    assert (Hok' : slot_ok s') by (apply slot_ok_with_coll; exact Hok).
    assert (Hall : all_slots_ok (set_slot c n s')) by (apply all_slots_set; [exact (w_slots W)|exact Hok']).
    assert (K0 : keep c (set_slot c n s')) by (apply mk_keep; try reflexivity).
    unfold dispatch in H. destruct k.
    + destruct (lookup_tag tag (s_consumers s')) as [q|] eqn:Et.
      * destruct (lookup_tag_In Et) as (t & Hin).
        assert (Hq : 2 <= q) by (destruct Hok' as [(_ & Hc & _) _]; eapply Hc; exact Hin).
        split; [eapply send_no_panic; exact H|].
        eapply keep_WFs; [exact W | eapply keep_trans; [exact K0 | eapply send_keep; [exact H|exact Hq]] |].
        unfold all_slots_ok. rewrite (send_slots H). exact Hall.
      * inversion H; subst. split; [discriminate|].
        eapply keep_WFs; [exact W | exact K0 | exact Hall].
    + destruct (listener_send (s_ret s') _ (c_qs (set_slot c n s'))) as [h qm] eqn:El.
      inversion H; subst. split; [discriminate|].
      assert (Hr : free_opt (s_ret s')) by (destruct Hok' as [(_ & _ & Hr & _) _]; exact Hr).
      destruct (listener_send_q0 El Hr) as (H0 & Hh).
      eapply keep_WFs; [exact W | apply mk_keep; try reflexivity; cbn; exact H0 |].
      apply all_slots_set; [|apply slot_ok_with_ret; assumption].
      intros k v Hin. eapply Hall. exact Hin.
    + assert (Hq : 2 <= s_reply s') by (destruct Hok' as [(Hr & _) _]; exact Hr).
      split; [eapply send_no_panic; exact H|].
      eapply keep_WFs; [exact W | eapply keep_trans; [exact K0 | eapply send_keep; [exact H|exact Hq]] |].
      unfold all_slots_ok. rewrite (send_slots H). exact Hall.
Qed.

(* ---------- methods on a non-zero channel ---------- *)

Lemma Inv_remove n ids : Inv ids -> Inv (snd (remove n ids)).
Proof.
  intro H. pose proof (@step_refines ids (Close n) H eq_refl) as R. cbn [step] in R.
  destruct (remove n ids) as [r s']. destruct R as (_ & Hi & _). exact Hi.
Qed.

Lemma Inv_drain ids : Inv ids -> Inv (snd (drain ids)).
Proof.
  intro H. pose proof (@step_refines ids Drain H eq_refl) as R. cbn [step] in R.
  destruct (drain ids) as [r s']. destruct R as (_ & Hi & _). exact Hi.
Qed.

Lemma WFs_remove_slot n c : WFs c -> WFs (remove_slot n c).
Proof.
  intros [W1 W2 W3 W4 W5 W6]. constructor.
  - exact W1.
  - apply all_slots_remove. exact W2.
  - exact W3.
  - cbn. apply Inv_remove. exact W4.
  - exact W5.
  - exact W6.
Qed.


Lemma push_out_keep c bs : keep c (push_out c bs).
Proof.
  constructor; try reflexivity. unfold push_out; cbn. apply ob_append_sealed.
Qed.

Lemma push_out_slots c bs : c_slots (push_out c bs) = c_slots c. Proof. reflexivity. Qed.

Lemma all_slots_eq c c' : c_slots c' = c_slots c -> all_slots_ok c -> all_slots_ok c'.
Proof. unfold all_slots_ok. intros E H. rewrite E. exact H. Qed.

Lemma process_method_WFs n m dbg c o c' :
  process_method n m dbg c = (o, c') -> WFs c ->
  (forall site, o <> OPanic site) /\ WFs c'.
Proof.
  intros H W. unfold process_method in H.
  assert (Hexc : forall code text o c', client_exception code text c = (o, c') ->
                 (forall site, o <> OPanic site) /\ WFs c').
  { intros code text o0 c0 He. destruct (client_exception_WFs He W) as [-> W']. split; [discriminate|exact W']. }
  destruct m; try (eapply Hexc; exact H).
  - (* channel close *)
    destruct (alookup n (c_slots c)) as [sl|] eqn:Hl; [|inversion H; subst; split; [discriminate|exact W]].
    pose proof (all_slots_lookup (w_slots W) Hl) as Hok.
    destruct (notify_slot sl _ _ (remove_slot n c)) as [o1 c1] eqn:E.
    destruct (notify_slot_keep E Hok) as (K & S & Np).
    assert (W1 : WFs c1).
    { eapply keep_WFs; [apply WFs_remove_slot; exact W | exact K |].
      eapply all_slots_eq; [exact S|]. apply all_slots_remove. exact (w_slots W). }
    destruct o1; inversion H; subst; (split; [first [discriminate | exact Np]|]); try exact W1.
    eapply keep_WFs; [exact W1 | apply push_out_keep | exact (w_slots W1)].
  - (* channel close-ok *)
    destruct (alookup n (c_slots c)) as [sl|] eqn:Hl; [|inversion H; subst; split; [discriminate|exact W]].
    pose proof (all_slots_lookup (w_slots W) Hl) as Hok.
    destruct (notify_slot_cf_keep H Hok) as (K & S & Np).
    split; [exact Np|].
    eapply keep_WFs; [apply WFs_remove_slot; exact W | exact K |].
    eapply all_slots_eq; [exact S|]. apply all_slots_remove. exact (w_slots W).
  - (* consume-ok *)
    destruct (alookup n (c_slots c)) as [sl|] eqn:Hl; [|inversion H; subst; split; [discriminate|exact W]].
    pose proof (all_slots_lookup (w_slots W) Hl) as Hok.
    destruct (lookup_tag tag (s_consumers sl)); [inversion H; subst; split; [discriminate|exact W]|].
    split; [eapply send_no_panic; exact H|].
    assert (Hr : 2 <= s_reply sl) by (destruct Hok as [(Hr & _) _]; exact Hr).
    eapply keep_WFs; [exact W | eapply keep_trans; [|eapply send_keep; [exact H|exact Hr]] |].
    + apply mk_keep; try reflexivity. cbn. intros k Hk.
      apply alookup_insert_neq. pose proof (@cons_qid_nz (s_reply sl) (s_ncons sl)). lia.
    + eapply all_slots_eq; [eapply send_slots; exact H|].
      apply all_slots_set; [|apply slot_ok_new_consumer; exact Hok].
      intros k v Hin. eapply (w_slots W). exact Hin.
  - (* cancel *)
    destruct (alookup n (c_slots c)) as [sl|] eqn:Hl; [|inversion H; subst; split; [discriminate|exact W]].
    pose proof (all_slots_lookup (w_slots W) Hl) as Hok.
    destruct (lookup_tag tag (s_consumers sl)) as [q|] eqn:Et.
    + destruct (lookup_tag_In Et) as (t & Hin).
      assert (Hq : 2 <= q) by (destruct Hok as [(_ & Hc & _) _]; eapply Hc; exact Hin).
      destruct (send q IServerCancelled _) as [o1 c1] eqn:E.
      pose proof (send_keep E Hq) as K1. pose proof (send_slots E) as S1. pose proof (send_no_panic E) as N1.
      assert (W2 : WFs (set_qs c1 (drop_tx q (c_qs c1)))).
      { eapply keep_WFs; [exact W | |].
        - eapply keep_trans; [|eapply keep_trans; [exact K1|]].
          + apply mk_keep; try reflexivity.
          + apply mk_keep; try reflexivity. cbn. apply drop_tx_q0; exact Hq.
        - eapply all_slots_eq; [cbn; exact S1|].
          apply all_slots_set; [exact (w_slots W)|apply slot_ok_remove_tag; exact Hok]. }
      destruct o1; [destruct nowait|..]; inversion H; subst;
        (split; [first [discriminate | exact N1]|]); try exact W2.
      eapply keep_WFs; [exact W2 | apply push_out_keep | exact (w_slots W2)].
    + destruct nowait; inversion H; subst; (split; [discriminate|]); [exact W|].
      eapply keep_WFs; [exact W | apply push_out_keep | exact (w_slots W)].
  - (* cancel-ok *)
    destruct (alookup n (c_slots c)) as [sl|] eqn:Hl; [|inversion H; subst; split; [discriminate|exact W]].
    pose proof (all_slots_lookup (w_slots W) Hl) as Hok.
    assert (Hr : 2 <= s_reply sl) by (destruct Hok as [(Hr & _) _]; exact Hr).
    remember (set_slot c n (with_consumers sl (remove_tag tag (s_consumers sl)))) as c0 eqn:Ec0.
    assert (W0 : WFs c0).
    { subst c0. eapply keep_WFs; [exact W | apply mk_keep; try reflexivity |].
      apply all_slots_set; [exact (w_slots W)|apply slot_ok_remove_tag; exact Hok]. }
    destruct (lookup_tag tag (s_consumers sl)) as [q|] eqn:Et.
    + destruct (lookup_tag_In Et) as (t & Hin).
      assert (Hq : 2 <= q) by (destruct Hok as [(_ & Hc & _) _]; eapply Hc; exact Hin).
      destruct (send q IClientCancelled c0) as [o1 c1] eqn:E1.
      assert (W1 : WFs (set_qs c1 (drop_tx q (c_qs c1)))).
      { eapply keep_WFs; [exact W0 | eapply keep_trans; [eapply send_keep; [exact E1|exact Hq]|] |].
        - apply mk_keep; try reflexivity. cbn. apply drop_tx_q0; exact Hq.
        - eapply all_slots_eq; [cbn; eapply send_slots; exact E1|]. exact (w_slots W0). }
      destruct o1.
      * destruct (send (s_reply sl) _ _) as [o2 c2] eqn:E2. inversion H; subst o c'.
        split; [eapply send_no_panic; exact E2|].
        eapply keep_WFs; [exact W1 | eapply send_keep; [exact E2|exact Hr] |].
        eapply all_slots_eq; [eapply send_slots; exact E2|]. exact (w_slots W1).
      * inversion H; subst o c'. split; [discriminate|exact W1].
      * inversion H; subst o c'. split; [eapply send_no_panic; exact E1|exact W1].
    + destruct (send (s_reply sl) _ _) as [o2 c2] eqn:E2. inversion H; subst o c'.
      split; [eapply send_no_panic; exact E2|].
      eapply keep_WFs; [exact W0 | eapply send_keep; [exact E2|exact Hr] |].
      eapply all_slots_eq; [eapply send_slots; exact E2|]. exact (w_slots W0).
  - destruct (alookup n (c_slots c)) as [sl|] eqn:Hl; [|inversion H; subst; split; [discriminate|exact W]].
    eapply collect_WFs; eassumption.
  - destruct (alookup n (c_slots c)) as [sl|] eqn:Hl; [|inversion H; subst; split; [discriminate|exact W]].
    eapply collect_WFs; eassumption.
  - destruct (alookup n (c_slots c)) as [sl|] eqn:Hl; [|inversion H; subst; split; [discriminate|exact W]].
    eapply collect_WFs; eassumption.
  - (* get-empty *)
    destruct (alookup n (c_slots c)) as [sl|] eqn:Hl; [|inversion H; subst; split; [discriminate|exact W]].
    pose proof (all_slots_lookup (w_slots W) Hl) as Hok.
    assert (Hr : 2 <= s_reply sl) by (destruct Hok as [(Hr & _) _]; exact Hr).
    split; [eapply send_no_panic; exact H|].
    eapply keep_WFs; [exact W | eapply send_keep; [exact H|exact Hr] |].
    eapply all_slots_eq; [eapply send_slots; exact H|exact (w_slots W)].
  - (* ack *)
    destruct (alookup n (c_slots c)) as [sl|] eqn:Hl; [|inversion H; subst; split; [discriminate|exact W]].
    pose proof (all_slots_lookup (w_slots W) Hl) as Hok.
    destruct (listener_send (s_conf sl) _ (c_qs c)) as [h qm] eqn:El.
    assert (Hc : free_opt (s_conf sl)) by (destruct Hok as [(_ & _ & _ & Hc) _]; exact Hc).
    destruct (listener_send_q0 El Hc) as (H0 & Hh).
    inversion H; subst. split; [discriminate|].
    eapply keep_WFs; [exact W | apply mk_keep; try reflexivity; cbn; exact H0 |].
    apply all_slots_set; [exact (w_slots W)|apply slot_ok_with_conf; assumption].
  - (* nack *)
    destruct (alookup n (c_slots c)) as [sl|] eqn:Hl; [|inversion H; subst; split; [discriminate|exact W]].
    pose proof (all_slots_lookup (w_slots W) Hl) as Hok.
    destruct (listener_send (s_conf sl) _ (c_qs c)) as [h qm] eqn:El.
    assert (Hc : free_opt (s_conf sl)) by (destruct Hok as [(_ & _ & _ & Hc) _]; exact Hc).
    destruct (listener_send_q0 El Hc) as (H0 & Hh).
    inversion H; subst. split; [discriminate|].
    eapply keep_WFs; [exact W | apply mk_keep; try reflexivity; cbn; exact H0 |].
    apply all_slots_set; [exact (w_slots W)|apply slot_ok_with_conf; assumption].
  - (* generic replies *)
    destruct (alookup n (c_slots c)) as [sl|] eqn:Hl; [|inversion H; subst; split; [discriminate|exact W]].
    pose proof (all_slots_lookup (w_slots W) Hl) as Hok.
    assert (Hr : 2 <= s_reply sl) by (destruct Hok as [(Hr & _) _]; exact Hr).
    split; [eapply send_no_panic; exact H|].
    eapply keep_WFs; [exact W | eapply send_keep; [exact H|exact Hr] |].
    eapply all_slots_eq; [eapply send_slots; exact H|exact (w_slots W)].
Qed.

(* ---------- every frame ---------- *)

Lemma drop_ch0_slots c : c_slots (drop_ch0 c) = c_slots c.
Proof. unfold drop_ch0. destruct (c_ch0 c); reflexivity. Qed.
Lemma drop_ch0_out c : c_out (drop_ch0 c) = c_out c.
Proof. unfold drop_ch0. destruct (c_ch0 c); reflexivity. Qed.
Lemma drop_ch0_ids c : c_ids (drop_ch0 c) = c_ids c.
Proof. unfold drop_ch0. destruct (c_ch0 c); reflexivity. Qed.
Lemma drop_ch0_nextq c : c_nextq (drop_ch0 c) = c_nextq c.
Proof. unfold drop_ch0. destruct (c_ch0 c); reflexivity. Qed.

Lemma sort_slots_ok c : all_slots_ok c -> forall n s, In (n, s) (sort_slots (c_slots c)) -> slot_ok s.
Proof. intros H n s Hin. eapply H. apply (proj1 (sort_slots_In _ _)). exact Hin. Qed.

(* after a connection-level close every slot is gone *)
Lemma drain_slots_WFs rep cons c o c' ph :
  drain_slots rep cons c = (o, c') -> all_slots_ok c -> Inv (c_ids c) -> 2 <= c_nextq c ->
  c_ch0 c = None -> c_phase c = ph -> ph <> PSteady ->
  (ob_sealed (c_out c) = true \/ ph = PClientClosed) ->
  (forall site, o <> OPanic site) /\ WFs c'.
Proof.
  intros H Hok Hinv Hnq Hnone Hph Hns Hseal. unfold drain_slots in H.
  set (c1 := set_slots c (snd (drain (c_ids c))) []) in *.
  destruct (notify_all_keep H (sort_slots_ok Hok)) as (K & S & Np).
  split; [exact Np|]. constructor.
  - rewrite (k_phase K). cbn. rewrite Hph. intro E. contradiction.
  - unfold all_slots_ok. rewrite S. cbn. intros n s [].
  - rewrite (k_phase K). cbn. rewrite Hph. intro Hp. apply (k_out K). cbn.
    destruct Hseal as [Hs|Hc]; [exact Hs|]. exfalso. rewrite Hc in Hp.
    destruct Hp as [(code & text & E)|E]; discriminate E.
  - rewrite (k_ids K). cbn. apply Inv_drain. exact Hinv.
  - rewrite (k_nextq K). cbn. exact Hnq.
  - intros _. rewrite (k_ch0 K). cbn. exact Hnone.
Qed.

Theorem process_WFs c f o c' :
  process c f = (o, c') -> WFs c ->
  (forall site, o <> OPanic site) /\ WFs c'.
Proof.
  intros H W. unfold process in H. destruct f as [f dbg].
  destruct (c_phase c) eqn:Hph;
    try (inversion H; subst; split; [discriminate | exact W]).
  assert (Hexc : forall code text o c', client_exception code text c = (o, c') ->
                 (forall site, o <> OPanic site) /\ WFs c').
  { intros code text o0 c0 He. destruct (client_exception_WFs He W) as [-> W']. split; [discriminate|exact W']. }
  destruct (w_ch0 W Hph) as (z & Hz & Hzr & Hza & Hzb & Hsb & (qu & Hq0 & Hq0i & Hq0c) & Hzm & Hzal).
  destruct f as [ch m|ch size props|ch body|ch|].
  - destruct ch as [|p].
    + (* channel 0 methods *)
      destruct m; try (eapply Hexc; exact H).
      * (* server closes the connection *)
        match type of H with drain_slots ?r ?k ?cc = _ =>
          destruct (@drain_slots_WFs r k cc o c' (PServerClosing code text) H) as (Np & W') end.
        -- unfold all_slots_ok. cbn. rewrite drop_ch0_slots. cbn. exact (w_slots W).
        -- cbn. rewrite drop_ch0_ids. exact (w_ids W).
        -- cbn. rewrite drop_ch0_nextq. exact (w_nextq W).
        -- cbn. apply drop_ch0_none.
        -- reflexivity.
        -- discriminate.
        -- left. cbn. rewrite drop_ch0_out. reflexivity.
        -- split; [exact Np | exact W'].
      * (* server confirms our close *)
        rewrite Hz in H. rewrite Hzr in H.
        unfold try_send in H. rewrite Hq0 in H.
        destruct (negb (q_rx qu)); [inversion H; subst; split; [discriminate|exact W]|].
        rewrite Hq0c, Hq0i in H. cbn [length N.of_nat] in H.
        assert (Hb : (c_reply_queue_bound <=? 0) = false) by reflexivity.
        rewrite Hb in H.
        match type of H with drain_slots ?r ?k ?cc = _ =>
          destruct (@drain_slots_WFs r k cc o c' PClientClosed H) as (Np & W') end.
        -- unfold all_slots_ok. cbn. rewrite drop_ch0_slots. cbn. exact (w_slots W).
        -- cbn. rewrite drop_ch0_ids. exact (w_ids W).
        -- cbn. rewrite drop_ch0_nextq. exact (w_nextq W).
        -- cbn. apply drop_ch0_none.
        -- reflexivity.
        -- discriminate.
        -- right. reflexivity.
        -- split; [exact Np | exact W'].
      * (* blocked *)
        rewrite Hz in H.
        destruct (listener_send (z_blocked z) _ (c_qs c)) as [h m'] eqn:El.
        destruct (listener_send_q0 El Hzb) as (H0 & Hh).
        inversion H; subst. split; [discriminate|]. constructor.
        -- intros _. eexists. split; [reflexivity|]. cbn.
           refine (conj Hzr (conj Hza (conj Hh (conj Hsb (conj _ (conj Hzm _)))))).
           ++ exists qu. rewrite (H0 0) by lia. auto.
           ++ destruct Hzal as [Ha1 Ha2]. split; [exact Ha1|]. cbn. intro Hne.
              destruct (Ha2 Hne) as (q1 & Hq1 & Hq1r). exists q1. rewrite (H0 1) by lia. auto.
        -- exact (w_slots W).
        -- cbn. rewrite Hph. intros [(a & b & E)|E]; discriminate.
        -- exact (w_ids W).
        -- exact (w_nextq W).
        -- cbn. intro Hx. rewrite Hph in Hx. contradiction.
      * (* unblocked *)
        rewrite Hz in H.
        destruct (listener_send (z_blocked z) _ (c_qs c)) as [h m'] eqn:El.
        destruct (listener_send_q0 El Hzb) as (H0 & Hh).
        inversion H; subst. split; [discriminate|]. constructor.
        -- intros _. eexists. split; [reflexivity|]. cbn.
           refine (conj Hzr (conj Hza (conj Hh (conj Hsb (conj _ (conj Hzm _)))))).
           ++ exists qu. rewrite (H0 0) by lia. auto.
           ++ destruct Hzal as [Ha1 Ha2]. split; [exact Ha1|]. cbn. intro Hne.
              destruct (Ha2 Hne) as (q1 & Hq1 & Hq1r). exists q1. rewrite (H0 1) by lia. auto.
        -- exact (w_slots W).
        -- cbn. rewrite Hph. intros [(a & b & E)|E]; discriminate.
        -- exact (w_ids W).
        -- exact (w_nextq W).
        -- cbn. intro Hx. rewrite Hph in Hx. contradiction.
    + eapply process_method_WFs; eassumption.
  - destruct ch as [|p]; [eapply Hexc; exact H|].
    destruct (alookup _ (c_slots c)) as [sl|] eqn:Hl; [|inversion H; subst; split; [discriminate|exact W]].
    eapply collect_WFs; eassumption.
  - destruct ch as [|p]; [eapply Hexc; exact H|].
    destruct (alookup _ (c_slots c)) as [sl|] eqn:Hl; [|inversion H; subst; split; [discriminate|exact W]].
    eapply collect_WFs; eassumption.
  - destruct ch; inversion H; subst; split; try discriminate; exact W.
  - inversion H; subst; split; [discriminate|exact W].
Qed.

(* C07: no finite sequence of frames, of any kind, panics or blocks the I/O thread *)
Theorem process_all_WFs fs : forall c o c',
  process_all c fs = (o, c') -> WFs c ->
  (forall site, o <> OPanic site) /\ WFs c'.
Proof.
  induction fs as [|f fs IH]; intros c o c' H W; cbn [process_all] in H.
  - inversion H; subst. split; [discriminate | exact W].
  - destruct (process c f) as [o1 c1] eqn:E. destruct (process_WFs E W) as (Np & Hw).
    destruct o1; [eapply IH; [exact H | exact Hw] | ..];
      inversion H; subst; (split; [exact Np | exact Hw]).
Qed.

(* the state right after the handshake satisfies the invariant *)
Lemma WFs_init mx bound : mx <= 65535 -> WFs (init_core mx bound).
Proof.
  intro Hmx. constructor.
  - intros _. eexists. split; [reflexivity|]. cbn.
    refine (conj eq_refl (conj eq_refl (conj I (conj _ (conj _ (conj _ _)))))).
    + intros q [].
    + eexists. split; [reflexivity|]. split; reflexivity.
    + constructor.
    + split; [cbn; lia|]. cbn. intro Hne. exfalso. apply Hne. reflexivity.
  - intros n s [].
  - cbn. intros [(a & b & E)|E]; discriminate.
  - cbn. apply Inv_new. exact Hmx.
  - cbn. lia.
  - cbn. intro Hx. contradiction.
Qed.

(* ---------- the client-exception path (C07) ---------- *)

Theorem client_exception_effect code text c :
  ob_sealed (c_out c) = false ->
  exists c', client_exception code text c = (OOk, c') /\
    c_phase c' = PClientException /\ ob_sealed (c_out c') = true /\
    ob (c_out c') = ob (c_out c) ++ ser_conn_close code (trunc255 text) /\
    c_ch0 c' = None.
Proof.
  intro Hs. unfold client_exception. eexists. split; [reflexivity|].
  unfold drop_ch0, seal, push_out, set_out, set_phase, set_ch0, set_qs. cbn.
  destruct (c_ch0 c) eqn:E; cbn; unfold ob_append; rewrite Hs; cbn; repeat split; reflexivity.
Qed.

(* the reply text of that Close fits a short string, is a prefix of the full text and is cut
   at a UTF-8 character boundary (so String::truncate cannot panic and the frame is well formed) *)
Definition is_boundary (s : str) (e : nat) : Prop :=
  e = O \/ match nth_error s e with Some b => is_cont b = false | None => True end.

Lemma boundary_back_le fuel s e : (boundary_back fuel s e <= e)%nat.
Proof.
  revert e. induction fuel as [|f IH]; intro e; cbn [boundary_back]; [lia|].
  destruct (nth_error s e) as [b|]; [|lia]. destruct (is_cont b); [|lia].
  specialize (IH (e - 1)%nat). lia.
Qed.

Lemma boundary_back_boundary fuel s e : (e <= fuel)%nat -> is_boundary s (boundary_back fuel s e).
Proof.
  revert e. induction fuel as [|f IH]; intros e He; cbn [boundary_back].
  - left. lia.
  - destruct (nth_error s e) as [b|] eqn:E.
    + destruct (is_cont b) eqn:C; [apply IH; lia|]. right. rewrite E. exact C.
    + right. rewrite E. exact I.
Qed.

Theorem trunc255_spec text :
  (length (trunc255 text) <= 255)%nat /\
  (exists rest, text = trunc255 text ++ rest) /\
  ((length text <= 255)%nat -> trunc255 text = text) /\
  is_boundary text (length (trunc255 text)).
Proof.
  unfold trunc255. destruct (Nat.leb_spec (length text) 255) as [H|H].
  - split; [exact H|]. split; [exists []; rewrite app_nil_r; reflexivity|]. split; [reflexivity|].
    right. rewrite (proj2 (nth_error_None text (length text))); [exact I|lia].
  - pose proof (boundary_back_le 255 text 255) as Hle.
    split; [rewrite firstn_length; lia|].
    split; [exists (skipn (boundary_back 255 text 255) text); symmetry; apply firstn_skipn|].
    split; [lia|].
    rewrite firstn_length, Nat.min_l by lia. apply boundary_back_boundary. lia.
Qed.

Theorem exception_ignores_frames c f :
  c_phase c = PClientException -> process c f = (OOk, c).
Proof. intro H. unfold process. destruct f. rewrite H. reflexivity. Qed.

(* which frames raise which hard error *)
Theorem exception_codes c dbg :
  c_phase c = PSteady ->
  (forall n, n <> 0 -> process c (FMethod n MUnimpl, dbg)
     = client_exception hard_not_implemented (txt_unimpl_a ++ dec n ++ txt_method ++ dbg) c) /\
  (forall n, n <> 0 -> process c (FMethod n MIllegal, dbg)
     = client_exception hard_not_allowed (txt_illegal_a ++ dec n ++ txt_method ++ dbg) c) /\
  (process c (FMethod 0 MConnOther, dbg) = client_exception hard_not_implemented (txt_ch0_method ++ dbg) c) /\
  (forall size props, process c (FHeader 0 size props, dbg) = client_exception hard_not_allowed (txt_ch0_frame ++ dbg) c) /\
  (forall body, process c (FBody 0 body, dbg) = client_exception hard_not_allowed (txt_ch0_frame ++ dbg) c).
Proof.
  intro H. unfold process. rewrite H. repeat split; intros; try reflexivity;
    (destruct n; [contradiction|reflexivity]).
Qed.

(* ====================== events (C20) ====================== *)

Lemma seal_push_keep c bs : keep c (seal (push_out c bs)).
Proof. constructor; try reflexivity. Qed.

Lemma slot_ok_with_mail s l : slot_ok s -> (forall x, In x l -> In x (s_mail s)) -> slot_ok (with_mail s l).
Proof.
  destruct s; intros [Hq Hm] Hsub; split; [exact Hq|]. cbn in *.
  intros x Hx. apply Hm. apply Hsub. exact Hx.
Qed.

(* a mailbox message of a non-zero channel whose slot exists *)
Lemma channel_message_WFs n m c o c' s :
  channel_message n m c = (o, c') -> WFs c -> n <> 0 ->
  alookup n (c_slots c) = Some s -> free_opt (msg_q m) ->
  (forall site, o <> OPanic site) /\ WFs c'.
Proof.
  intros H W Hn Hl Hfree. pose proof (all_slots_lookup (w_slots W) Hl) as Hok.
  assert (Hn0 : (n =? 0) = false) by (apply N.eqb_neq; exact Hn).
  destruct m as [buf|buf|h|h]; cbn [channel_message] in H.
  - inversion H; subst. split; [discriminate|].
    eapply keep_WFs; [exact W | apply push_out_keep | exact (w_slots W)].
  - inversion H; subst. split; [discriminate|].
    eapply keep_WFs; [exact W | apply seal_push_keep | exact (w_slots W)].
  - rewrite Hn0, Hl in H. inversion H; subst. split; [discriminate|].
    assert (Hr : free_opt (s_ret s)) by (destruct Hok as [(_ & _ & Hr & _) _]; exact Hr).
    eapply keep_WFs; [exact W | apply mk_keep; try reflexivity; cbn; apply drop_tx_opt_q0; exact Hr |].
    apply all_slots_set; [exact (w_slots W)|]. apply slot_ok_with_ret; [exact Hok|].
    destruct h; exact Hfree.
  - rewrite Hn0, Hl in H. inversion H; subst. split; [discriminate|].
    assert (Hr : free_opt (s_conf s)) by (destruct Hok as [(_ & _ & _ & Hr) _]; exact Hr).
    eapply keep_WFs; [exact W | apply mk_keep; try reflexivity; cbn; apply drop_tx_opt_q0; exact Hr |].
    apply all_slots_set; [exact (w_slots W)|]. apply slot_ok_with_conf; [exact Hok|].
    destruct h; exact Hfree.
Qed.

(* the re-poll flag is not part of the invariant *)
Lemma WFs_set_need c b : WFs c -> WFs (set_need c b).
Proof. intro W. eapply keep_WFs; [exact W | apply mk_keep; reflexivity | exact (w_slots W)]. Qed.

Lemma chan_readable_WFs fuel n : forall c o c',
  chan_readable fuel n c = (o, c') -> WFs c -> n <> 0 ->
  (forall site, o <> OPanic site) /\ WFs c'.
Proof.
  induction fuel as [|fuel IH]; intros c o c' H W Hn; cbn [chan_readable] in H.
  - inversion H; subst. split; [discriminate|exact W].
  - destruct (c_high c <? out_len c).
    { inversion H; subst. split; [discriminate|]. apply WFs_set_need. exact W. }
    destruct (alookup n (c_slots c)) as [s|] eqn:Hl; [|inversion H; subst; split; [discriminate|exact W]].
    pose proof (all_slots_lookup (w_slots W) Hl) as Hok.
    destruct (s_mail s) as [|m rest] eqn:Hm.
    + destruct (s_mail_tx s); inversion H; subst; split; try discriminate; auto.
    + set (c1 := set_slot c n (with_mail s rest)) in *.
      assert (W1 : WFs c1).
      { eapply keep_WFs; [exact W | apply mk_keep; reflexivity |].
        apply all_slots_set; [exact (w_slots W)|]. apply slot_ok_with_mail; [exact Hok|].
        intros x Hx. rewrite Hm. right; exact Hx. }
      assert (Hl1 : alookup n (c_slots c1) = Some (with_mail s rest))
        by (unfold c1, set_slot, set_slots; cbn; apply alookup_insert_eq).
      assert (Hf : free_opt (msg_q m)).
      { destruct Hok as [_ Hmail]. apply Hmail. rewrite Hm. left; reflexivity. }
      destruct (channel_message n m c1) as [o1 c2] eqn:E.
      destruct (channel_message_WFs E W1 Hn Hl1 Hf) as (Np & Hw).
      destruct o1; [eapply IH; [exact H | exact Hw | exact Hn] | ..];
        inversion H; subst; (split; [exact Np | exact Hw]).
Qed.

Lemma WFs_set_ch0 c z z' :
  WFs c -> c_phase c = PSteady -> c_ch0 c = Some z ->
  z_reply z' = z_reply z -> z_alloc_rep z' = z_alloc_rep z -> free_opt (z_blocked z') ->
  (forall q, In q (z_setb z') -> 2 <= q) -> Forall plain_msg (z_mail z') ->
  z_alloc_req z' = z_alloc_req z ->
  WFs (set_ch0 c (Some z')).
Proof.
  intros W Hph Hz Hr Ha Hb Hs Hm Hq.
  destruct (w_ch0 W Hph) as (z0 & Hz0 & Hzr & Hza & Hzb & Hsb & Hroom & Hzm & Hzal).
  rewrite Hz in Hz0. inversion Hz0; subst z0. constructor.
  - intros _. exists z'. split; [reflexivity|]. cbn.
    refine (conj _ (conj _ (conj Hb (conj Hs (conj Hroom (conj Hm _)))))); try congruence.
    unfold alloc_ok in *. rewrite Hq. exact Hzal.
  - exact (w_slots W).
  - exact (w_sealed W).
  - exact (w_ids W).
  - exact (w_nextq W).
  - cbn. intro Hx. rewrite Hph in Hx. contradiction.
Qed.


Lemma steady_of_ch0 c z : WFs c -> c_ch0 c = Some z -> c_phase c = PSteady.
Proof.
  intros W Hz. destruct (c_phase c) eqn:Hph; [reflexivity|..];
    (assert (Hn : c_ch0 c = None) by (apply (w_ch0_none W); rewrite Hph; discriminate);
     rewrite Hn in Hz; discriminate).
Qed.

Lemma ch0_readable_WFs fuel : forall c o c',
  ch0_readable fuel c = (o, c') -> WFs c ->
  (forall site, o <> OPanic site) /\ WFs c'.
Proof.
  induction fuel as [|fuel IH]; intros c o c' H W; cbn [ch0_readable] in H.
  - inversion H; subst. split; [discriminate|exact W].
  - destruct (c_ch0 c) as [z|] eqn:Hz; [|inversion H; subst; split; [discriminate|exact W]].
    pose proof (steady_of_ch0 W Hz) as Hph.
    destruct (w_ch0 W Hph) as (z0 & Hz0 & Hzr & Hza & Hzb & Hsb & Hroom & Hzm & Hzal).
    rewrite Hz in Hz0. inversion Hz0; subst z0.
    destruct (z_mail z) as [|m rest] eqn:Hm.
    + destruct (z_mail_tx z); inversion H; subst; split; try discriminate; auto.
    + assert (Hpl : plain_msg m /\ Forall plain_msg rest) by (inversion Hzm; auto).
      destruct Hpl as [Hpm Hprest].
      assert (W1 : WFs (set_ch0 c (Some (z_with_mail z rest)))).
      { eapply WFs_set_ch0; try eassumption; try reflexivity. }
      destruct m as [buf|buf|h|h]; try contradiction; cbn [channel_message] in H.
      * eapply IH; [exact H|]. eapply keep_WFs; [exact W1 | apply push_out_keep | exact (w_slots W1)].
      * eapply IH; [exact H|]. eapply keep_WFs; [exact W1 | apply seal_push_keep | exact (w_slots W1)].
Qed.

Lemma set_blocked_WFs fuel : forall c o c',
  set_blocked fuel c = (o, c') -> WFs c ->
  (forall site, o <> OPanic site) /\ WFs c'.
Proof.
  induction fuel as [|fuel IH]; intros c o c' H W; cbn [set_blocked] in H.
  - inversion H; subst. split; [discriminate|exact W].
  - destruct (c_ch0 c) as [z|] eqn:Hz; [|inversion H; subst; split; [discriminate|exact W]].
    pose proof (steady_of_ch0 W Hz) as Hph.
    destruct (w_ch0 W Hph) as (z0 & Hz0 & Hzr & Hza & Hzb & Hsb & Hroom & Hzm & Hzal).
    rewrite Hz in Hz0. inversion Hz0; subst z0.
    destruct (z_setb z) as [|q rest] eqn:Hs.
    + destruct (z_setb_tx z); inversion H; subst; split; try discriminate; auto.
    + eapply IH; [exact H|].
      assert (W0 : WFs (set_qs c (drop_tx_opt (z_blocked z) (c_qs c)))).
      { eapply keep_WFs; [exact W | apply mk_keep; try reflexivity; cbn; apply drop_tx_opt_q0; exact Hzb
                          | exact (w_slots W)]. }
      eapply (@WFs_set_ch0 _ z); try reflexivity; try assumption.
      * cbn. apply Hsb. try rewrite Hs. left; reflexivity.
      * cbn. intros q' Hq'. apply Hsb. try rewrite Hs. right; exact Hq'.
Qed.

Lemma heartbeat_timers_WFs fired : forall c o c',
  heartbeat_timers fired c = (o, c') -> WFs c ->
  (forall site, o <> OPanic site) /\ WFs c'.
Proof.
  induction fired as [|[k b] fired IH]; intros c o c' H W; cbn [heartbeat_timers] in H.
  - inversion H; subst. split; [discriminate|exact W].
  - destruct k, b.
    + inversion H; subst. split; [discriminate|exact W].
    + eapply IH; eassumption.
    + eapply IH; [exact H|]. destruct (ob (c_out c)); [|exact W].
      eapply keep_WFs; [exact W | apply push_out_keep | exact (w_slots W)].
    + eapply IH; eassumption.
Qed.

(* is_connection_done never fails its assertion *)
Lemma is_done_no_assert c : WFs c -> is_done c <> DAssertFailed.
Proof.
  intro W. unfold is_done. destruct (c_phase c) eqn:Hph; try discriminate.
  - rewrite (w_sealed W) by (left; eauto). destruct (ob (c_out c)); discriminate.
  - rewrite (w_sealed W) by (right; exact Hph). destruct (ob (c_out c)); discriminate.
Qed.

(* ---------- channel allocation ---------- *)

Lemma WFs_update c c' :
  WFs c -> c_phase c' = c_phase c -> c_ch0 c' = c_ch0 c -> c_out c' = c_out c ->
  (forall z, c_ch0 c = Some z -> z_alloc_req z = []) ->
  alookup 0 (c_qs c') = alookup 0 (c_qs c) ->
  all_slots_ok c' -> Inv (c_ids c') -> 2 <= c_nextq c' -> WFs c'.
Proof.
  intros W Hp Hz Ho Hreq H0 Hs Hi Hn. constructor.
  - rewrite Hp. intro Hph.
    destruct (w_ch0 W Hph) as (z & Hz0 & Hzr & Hza & Hzb & Hsb & (qu & Hq & Hqi & Hqc) & Hzm & Hzal).
    exists z. rewrite Hz. refine (conj Hz0 (conj Hzr (conj Hza (conj Hzb (conj Hsb (conj _ (conj Hzm _))))))).
    + exists qu. rewrite H0. auto.
    + unfold alloc_ok. rewrite (Hreq z Hz0). split; [cbn; lia|]. intro Hx. contradiction.
  - exact Hs.
  - rewrite Hp, Ho. exact (w_sealed W).
  - exact Hi.
  - exact Hn.
  - rewrite Hp, Hz. exact (w_ch0_none W).
Qed.

Lemma slot_ok_new q : 2 <= q -> slot_ok (new_slot q).
Proof.
  intro Hq. split; [|intros x []]. unfold q0free_slot, new_slot; cbn.
  repeat split; try exact I; try exact Hq. intros t q' [].
Qed.

Lemma Inv_insert ids req : Inv ids ->
  let '(r, ids') := match req with
                    | Some id => insert_some true id ids
                    | None => insert_none true ids
                    end in
  r <> RPanic /\ Inv ids'.
Proof.
  intro H. destruct req as [id|].
  - pose proof (@step_refines ids (OpenSome id) H eq_refl) as R. cbn [step] in R.
    destruct (insert_some true id ids) as [r s']. destruct R as (Ha & Hi & _).
    split; [|exact Hi]. destruct (allowed_no_panic Ha) as (Hp & _). exact Hp.
  - pose proof (@step_refines ids OpenNone H eq_refl) as R. cbn [step] in R.
    destruct (insert_none true ids) as [r s']. destruct R as (Ha & Hi & _).
    split; [|exact Hi]. destruct (allowed_no_panic Ha) as (Hp & _). exact Hp.
Qed.

Lemma try_send_1 it m qu :
  alookup 1 m = Some qu -> q_items qu = [] -> q_cap qu = Some 1 ->
  exists r m', try_send 1 it m = (r, m') /\ r <> SFull /\ alookup 0 m' = alookup 0 m.
Proof.
  intros Hl Hi Hc. unfold try_send. rewrite Hl.
  destruct (negb (q_rx qu)); [eexists _, _; split; [reflexivity|split; [discriminate|reflexivity]]|].
  rewrite Hc, Hi. cbn [length N.of_nat].
  assert (Hb : (1 <=? 0) = false) by reflexivity. rewrite Hb.
  eexists _, _. split; [reflexivity|]. split; [discriminate|].
  apply alookup_insert_neq. discriminate.
Qed.

Lemma allocate_WFs fuel : forall c o c',
  allocate fuel c = (o, c') -> WFs c ->
  (forall site, o <> OPanic site) /\ WFs c'.
Proof.
  induction fuel as [|fuel IH]; intros c o c' H W; cbn [allocate] in H.
  - inversion H; subst. split; [discriminate|exact W].
  - destruct (c_ch0 c) as [z|] eqn:Hz; [|inversion H; subst; split; [discriminate|exact W]].
    pose proof (steady_of_ch0 W Hz) as Hph.
    destruct (w_ch0 W Hph) as (z0 & Hz0 & Hzr & Hza & Hzb & Hsb & Hroom & Hzm & (Hal1 & Hal2)).
    rewrite Hz in Hz0. inversion Hz0; subst z0.
    destruct (z_alloc_req z) as [|req rest] eqn:Hreq.
    + destruct (z_alloc_tx z); inversion H; subst; split; try discriminate; auto.
    + assert (Hrest : rest = []) by (destruct rest; [reflexivity|cbn in Hal1; lia]). subst rest.
      destruct Hal2 as (q1 & Hq1 & Hq1i & Hq1c); [discriminate|].
      set (c0 := set_ch0 c (Some (z_with_alloc z []))) in *.
      (* the state after taking the request: as c, with no request pending *)
      assert (W0 : WFs c0).
      { constructor.
        - intros _. eexists. split; [reflexivity|]. cbn.
          refine (conj Hzr (conj Hza (conj Hzb (conj Hsb (conj Hroom (conj Hzm _)))))).
          split; [cbn; lia|]. cbn. intro Hx. contradiction.
        - exact (w_slots W).
        - exact (w_sealed W).
        - exact (w_ids W).
        - exact (w_nextq W).
        - cbn. intro Hx. rewrite Hph in Hx. contradiction. }
      assert (Hreq0 : forall z', c_ch0 c0 = Some z' -> z_alloc_req z' = [])
        by (intros z' Hz'; cbn in Hz'; inversion Hz'; reflexivity).
      pose proof (Inv_insert req (w_ids W)) as Hins.
      change (c_ids c0) with (c_ids c) in H.
      destruct (match req with Some id => insert_some true id (c_ids c) | None => insert_none true (c_ids c) end)
        as [r ids'] eqn:Eins.
      destruct Hins as (Hnp & Hinv').
      rewrite Hza in H.
      destruct r; try contradiction.
      1: { (* a channel id was granted *)
        remember (c_nextq c0) as q eqn:Eq.
        assert (Hq : 2 <= q) by (subst q; exact (w_nextq W)).
        cbv zeta in H.
        match type of H with context [try_send 1 _ (c_qs ?x)] => set (c2 := x) in * end.
        assert (Hq1' : alookup 1 (c_qs c2) = Some q1).
        { cbn. rewrite alookup_insert_neq by lia. exact Hq1. }
        destruct (try_send_1 (IAllocOk id) Hq1' Hq1i Hq1c) as (r & m' & Hts & Hnf & Hm0).
        rewrite Hts in H.
        assert (Hslots2 : all_slots_ok c2).
        { intros k v Hin. cbn in Hin. unfold ainsert in Hin. destruct Hin as [E|Hin].
          - inversion E; subst. apply slot_ok_new. exact Hq.
          - eapply (w_slots W). eapply aremove_In. exact Hin. }
        assert (H02 : alookup 0 (c_qs c2) = alookup 0 (c_qs c0)).
        { cbn. apply alookup_insert_neq. lia. }
        destruct r; try contradiction.
        -- eapply IH; [exact H|].
           eapply (@WFs_update c0); try reflexivity; try assumption.
           ++ cbn. rewrite Hm0. exact H02.
           ++ cbn. lia.
        -- eapply IH; [exact H|].
           eapply (@WFs_update c0); try reflexivity; try assumption.
           ++ etransitivity; [exact (@drop_tx_q0 q (c_qs c2) Hq 0 ltac:(lia)) | exact H02].
           ++ intros k v Hin. cbn in Hin. eapply Hslots2. eapply aremove_In. exact Hin.
           ++ cbn. apply Inv_remove. exact Hinv'.
           ++ cbn. lia.
      }
      (* refused, for whatever reason: only the reply is sent *)
      all: cbv zeta in H;
        match type of H with context [try_send 1 ?it (c_qs ?x)] =>
          set (c2 := x) in *;
          assert (Hq1' : alookup 1 (c_qs c2) = Some q1) by exact Hq1;
          destruct (@try_send_1 it (c_qs c2) q1 Hq1' Hq1i Hq1c) as (r & m' & Hts & Hnf & Hm0)
        end;
        rewrite Hts in H;
        destruct r; try contradiction; (eapply IH; [exact H|]);
        eapply (@WFs_update c0); try reflexivity; try assumption; try exact (w_slots W); try exact (w_nextq W);
        try exact Hinv'; try exact Hm0.
Qed.


(* ---------- one event, one batch ---------- *)

(* the only model-side artefact: the write oracle of a STREAM event must say what the
   transport does until it blocks, fails or everything is written *)
Definition ev_ok (c : core) (e : event) : Prop :=
  match e with
  | EvStream (Some oracle) _ =>
      let '(_, wr, _, _) := write_to_stream (c_out c) oracle in wr <> WStuck
  | _ => True
  end.

Theorem handle_event_WFs c e o c' wire :
  handle_event c e = (o, c', wire) -> WFs c -> ev_ok c e ->
  (forall site, o <> OPanic site) /\ WFs c'.
Proof.
  intros H W Hev. destruct e as [w r|fired| | |n]; cbn [handle_event] in H.
  - (* STREAM *)
    assert (Hw : exists o1 c1 wire1,
               match w with
               | None => (OOk, c, [])
               | Some oracle =>
                   let '(bs, wr, ob', _) := write_to_stream (c_out c) oracle in
                   (match wr with WOk => OOk | WIoErr => OErr EIoWrite | WStuck => OPanic 0 end,
                    set_out c ob', bs)
               end = (o1, c1, wire1) /\ (forall site, o1 <> OPanic site) /\ WFs c1).
    { destruct w as [oracle|].
      - cbn [ev_ok] in Hev. unfold write_to_stream in *.
        destruct (write_loop (S (length oracle)) (ob (c_out c)) 0 oracle) as [[[bs wr] b] o'] eqn:Ew.
        eexists _, _, _. split; [reflexivity|]. split.
        + destruct wr; try discriminate. contradiction.
        + eapply keep_WFs; [exact W | | exact (w_slots W)].
          constructor; try reflexivity. cbn. auto.
      - eexists _, _, _. split; [reflexivity|]. split; [discriminate | exact W]. }
    destruct Hw as (o1 & c1 & wire1 & Ew & Np1 & W1). rewrite Ew in H.
    destruct o1.
    + destruct r as [[fs t]|]; [|inversion H; subst; split; [discriminate|exact W1]].
      destruct (process_all c1 fs) as [o2 c2] eqn:Ep.
      destruct (process_all_WFs Ep W1) as (Np2 & Hw2).
      inversion H; subst. split; [|exact Hw2].
      intros site. destruct o2.
      * destruct t; cbn; destruct (is_client_closed c'); discriminate.
      * destruct (is_client_closed c'); discriminate.
      * exfalso. eapply Np2. reflexivity.
    + inversion H; subst. split; [discriminate|exact W1].
    + inversion H; subst. split; [exact Np1|exact W1].
  - destruct (heartbeat_timers fired c) as [o1 c1] eqn:E. inversion H; subst.
    eapply heartbeat_timers_WFs; eassumption.
  - destruct (set_blocked (mail_fuel c) c) as [o1 c1] eqn:E. inversion H; subst.
    eapply set_blocked_WFs; eassumption.
  - destruct (allocate (mail_fuel c) c) as [o1 c1] eqn:E. inversion H; subst.
    eapply allocate_WFs; eassumption.
  - destruct (n =? 0) eqn:En.
    + destruct (ch0_readable (mail_fuel c) c) as [o1 c1] eqn:E. inversion H; subst.
      eapply ch0_readable_WFs; eassumption.
    + destruct (chan_readable (mail_fuel c) n c) as [o1 c1] eqn:E. inversion H; subst.
      eapply chan_readable_WFs; [eassumption|eassumption|]. apply N.eqb_neq. exact En.
Qed.

(* every event of the batch is well-formed in the state it is handled in *)
Fixpoint batch_ok (c : core) (evs : list event) : Prop :=
  match evs with
  | [] => True
  | e :: evs' => ev_ok c e /\ let '(_, c1, _) := handle_event c e in batch_ok c1 evs'
  end.

(* C20: no batch of events - any events, any number, any order - panics the I/O thread,
   and the invariant holds again afterwards (so the assertion in is_connection_done holds,
   and the next batch starts from a good state) *)
Theorem run_batch_WFs evs : forall c o c' wire,
  run_batch c evs = (o, c', wire) -> WFs c -> batch_ok c evs ->
  (forall site, o <> OPanic site) /\ WFs c' /\ is_done c' <> DAssertFailed.
Proof.
  induction evs as [|e evs IH]; intros c o c' wire H W Hb; cbn [run_batch] in H.
  - inversion H; subst. split; [discriminate|]. split; [exact W|apply is_done_no_assert; exact W].
  - destruct Hb as [He Hrest].
    destruct (handle_event c e) as [[o1 c1] w1] eqn:E.
    destruct (handle_event_WFs E W He) as (Np & W1).
    destruct o1.
    + destruct (run_batch c1 evs) as [[o2 c2] w2] eqn:E2. inversion H; subst.
      eapply IH; eassumption.
    + inversion H; subst. split; [exact Np|]. split; [exact W1|apply is_done_no_assert; exact W1].
    + inversion H; subst. split; [exact Np|]. split; [exact W1|apply is_done_no_assert; exact W1].
Qed.

(* handling a batch IS handling its events one after another: a batch splits anywhere *)
Theorem run_batch_app evs1 : forall evs2 c,
  run_batch c (evs1 ++ evs2) =
  let '(o1, c1, w1) := run_batch c evs1 in
  match o1 with
  | OOk => let '(o2, c2, w2) := run_batch c1 evs2 in (o2, c2, w1 ++ w2)
  | _ => (o1, c1, w1)
  end.
Proof.
  induction evs1 as [|e evs1 IH]; intros evs2 c; cbn [app run_batch].
  - destruct (run_batch c evs2) as [[o2 c2] w2]. reflexivity.
  - destruct (handle_event c e) as [[o c1] w]. destruct o; try reflexivity.
    rewrite IH. destruct (run_batch c1 evs1) as [[o1 c1'] w1].
    destruct o1; try reflexivity.
    destruct (run_batch c1' evs2) as [[o2 c2] w2]. rewrite app_assoc. reflexivity.
Qed.

(* stale wake-ups: once the connection-level close (or a client exception) has been
   processed, the channel-0 sources are gone; a wake-up for them that was already pending
   in the same batch is ignored, and so is one for a channel whose slot was removed *)
Theorem stale_wakeups c :
  c_ch0 c = None ->
  handle_event c EvAlloc = (OOk, c, []) /\
  handle_event c EvSetBlocked = (OOk, c, []) /\
  handle_event c (EvChan 0) = (OOk, c, []) /\
  (* ... nothing is received; only, if the buffer is above the high-water mark, a re-poll of
     the channels is owed (the check comes first in handle_channel_readable) *)
  (forall n, n <> 0 -> alookup n (c_slots c) = None ->
     handle_event c (EvChan n) = (OOk, (if c_high c <? out_len c then set_need c true else c), [])).
Proof.
  intro Hz. cbn [handle_event]. unfold mail_fuel. rewrite Hz.
  repeat split; cbn [allocate set_blocked ch0_readable]; try (rewrite Hz; reflexivity).
  intros n Hn Hl. destruct (n =? 0) eqn:E; [apply N.eqb_eq in E; contradiction|].
  cbn [chan_readable]. rewrite Hl. destruct (c_high c <? out_len c); reflexivity.
Qed.
