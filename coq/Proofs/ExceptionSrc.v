(* ConnectionState::client_exception AS TRANSLATED FROM THE SOURCE on every run
   (Gen/SrcException.v, by tools/rs2sm.py from src/io_loop/connection_state.rs) does what the
   model's client_exception (Model/Core.v) does - C07's anchor: the reply text cut to at most 255
   bytes at a character boundary, exactly one Connection.Close with that text and class / method
   id 0 queued, the buffer sealed, the state ClientException.  Stdlib only, no axioms. *)
From Coq Require Import String.
From Amq Require Import Lib.Base Lib.RsVal Model.Frames Model.OutBuf Model.Collector Model.Slots Model.Core Gen.SrcException.
Open Scope string_scope.
Open Scope list_scope.
Open Scope N_scope.

Definition enc_bool (b : bool) : val := VC (if b then "true" else "false") [].

(* str::is_char_boundary (index 0 and the length are boundaries; elsewhere: not a UTF-8
   continuation byte 10xxxxxx), AMQPHardError::get_id *)
Definition ext_model (name : string) (args : list val) : val :=
  if (name =? "is_char_boundary")%string then
    match args with
    | [VBytes s; VN e] => enc_bool (match nth_error s (N.to_nat e) with Some b => negb (is_cont b) | None => true end)
    | _ => VStuck
    end
  else match args with [c] => c | _ => VStuck end.

(* the loop finds a boundary before the fuel runs out *)
Fixpoint stops (fuel : nat) (s : str) (e : nat) : bool :=
  match fuel with
  | O => false
  | S f => match nth_error s e with
           | Some b => if is_cont b then stops f s (e - 1) else true
           | None => true
           end
  end.

Definition finish (code : val) (text : str) (log : list val) : val * val * val :=
  (VC "ConnectionState::ClientException" [],
   VC "effects" (log ++ [VC "push_method" [VN 0; VC "AmqpConnection::Close"
                                                  [VR [("reply_code", code); ("reply_text", VBytes text); ("class_id", VN 0); ("method_id", VN 0)]]];
                         VC "seal_writes" []]),
   VC "Ok" [VC "()" []]).

Lemma loop_source_is_model self code s log : forall fuel e,
  stops fuel s e = true ->
  gen_ConnectionState_client_exception_loop1 ext_model fuel self (VN (N.of_nat e)) (VC "effects" log) code (VBytes s)
  = finish code (firstn (boundary_back fuel s e) s) log.
Proof.
  induction fuel as [|fuel IH]; intros e Hs; [discriminate|].
  cbn [stops boundary_back] in *. cbn [gen_ConnectionState_client_exception_loop1].
  change (ext_model "is_char_boundary" [VBytes s; VN (N.of_nat e)])
    with (enc_bool (match nth_error s (N.to_nat (N.of_nat e)) with Some b => negb (is_cont b) | None => true end)).
  rewrite Nat2N.id.
  destruct (nth_error s e) as [b|] eqn:En.
  - destruct (is_cont b) eqn:Ec.
    + cbn [negb enc_bool v_is_true String.eqb Ascii.eqb Bool.eqb].
      change (v_sub (VN (N.of_nat e)) (VN 1)) with (VN (N.of_nat e - 1)).
      replace (N.of_nat e - 1) with (N.of_nat (e - 1)) by lia.
      apply IH. exact Hs.
    + cbn [negb enc_bool v_is_true String.eqb Ascii.eqb Bool.eqb].
      change (v_take (VN (N.of_nat e)) (VBytes s)) with (VBytes (firstn (N.to_nat (N.of_nat e)) s)).
      rewrite Nat2N.id. unfold finish. cbn. rewrite <- app_assoc. reflexivity.
  - cbn [negb enc_bool v_is_true String.eqb Ascii.eqb Bool.eqb].
    change (v_take (VN (N.of_nat e)) (VBytes s)) with (VBytes (firstn (N.to_nat (N.of_nat e)) s)).
    rewrite Nat2N.id. unfold finish. cbn. rewrite <- app_assoc. reflexivity.
Qed.

Lemma boundary_back_more s : forall f e, (e <= f)%nat -> boundary_back (S f) s e = boundary_back f s e.
Proof.
  induction f as [|f IH]; intros e He.
  - assert (e = O) by lia. subst e. cbn [boundary_back]. destruct (nth_error s 0) as [b|]; [destruct (is_cont b)|]; reflexivity.
  - cbn [boundary_back]. destruct (nth_error s e) as [b|]; [|reflexivity].
    destruct (is_cont b); [|reflexivity]. apply IH. lia.
Qed.

Lemma stops_from_first s b : nth_error s 0 = Some b -> is_cont b = false ->
  forall f e, (e <= f)%nat -> stops (S f) s e = true.
Proof.
  intros H0 Hb. induction f as [|f IH]; intros e He.
  - assert (e = O) by lia. subst e. cbn [stops]. rewrite H0, Hb. reflexivity.
  - cbn [stops]. destruct (nth_error s e) as [b'|]; [|reflexivity].
    destruct (is_cont b'); [|reflexivity]. apply IH. lia.
Qed.

(* THE MODEL IS THE SOURCE: for every reply code and every text whose first byte is not a UTF-8
   continuation byte (any Rust String) *)
Theorem client_exception_source_is_model self code s log :
  (forall b, nth_error s 0 = Some b -> is_cont b = false) ->
  gen_ConnectionState_client_exception ext_model 257 self (VC "effects" log) code (VBytes s)
  = finish code (trunc255 s) log.
Proof.
  intro H0. unfold gen_ConnectionState_client_exception, trunc255.
  change (v_ltb (VN 255) (v_len (VBytes s))) with (255 <? N.of_nat (length s)).
  destruct (255 <? N.of_nat (length s)) eqn:E.
  - apply N.ltb_lt in E.
    destruct (Nat.leb_spec (length s) 255) as [Hle|Hgt]; [lia|].
    destruct s as [|b0 s']; [cbn in Hgt; lia|].
    pose proof (H0 b0 eq_refl) as Hb.
    change (VN 255) with (VN (N.of_nat 255)).
    rewrite loop_source_is_model by (apply (@stops_from_first (b0 :: s') b0 eq_refl Hb); lia).
    rewrite (@boundary_back_more (b0 :: s') 256 255) by lia.
    rewrite (@boundary_back_more (b0 :: s') 255 255) by lia. reflexivity.
  - apply N.ltb_ge in E.
    destruct (Nat.leb_spec (length s) 255) as [Hle|Hgt]; [|lia].
    unfold finish. cbn. rewrite <- app_assoc. reflexivity.
Qed.
