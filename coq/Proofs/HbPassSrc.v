(* Inner::process_heartbeat_timers AS TRANSLATED FROM THE SOURCE on every run (Gen/SrcHbPass.v, by
   tools/rs2sm.py from src/io_loop/mod.rs - the `while let` over the timer wheel is a recursive
   function on fuel) is the hand-written model `heartbeat_timers` (Model/Core.v) that
   C17_missed_not_masked / C17_pass_ok and the C05 theorems about MissedServerHeartbeats are about:
   for EVERY sequence of entries the timer yields (rx / tx, expired or stale, in any order and of any
   length) and every out-buffer.  Stdlib only, no axioms. *)
From Coq Require Import String.
From Amq Require Import Lib.Base Lib.RsVal Lib.RsStr Model.Frames Model.OutBuf Model.Core Gen.SrcHbPass.
Open Scope string_scope.
Open Scope list_scope.
Open Scope N_scope.

Definition enc_ev (e : hbkind * bool) : val :=
  VC "ev" [VC (match fst e with HbRx => "HeartbeatKind::Rx" | HbTx => "HeartbeatKind::Tx" end) [];
           VC (if snd e then "HeartbeatState::Expired" else "HeartbeatState::StillRunning") []].

(* the I/O thread's state as far as the pass touches it: what the timer will yield (each entry with
   the verdict Heartbeat::fire will give for it) and the out-buffer *)
Definition enc_self (fired : list (hbkind * bool)) (o : outbuf) : val :=
  VR [("timer", VC "timer" (map enc_ev fired)); ("outbuf", VBytes (ob o));
      ("sealed", VC (if ob_sealed o then "true" else "false") [])].

(* Timer::poll yields the kind of the next due entry (the entry stays until it is fired, which is
   what HeartbeatTimers::fire_rx / fire_tx do with it: C17_start_fire_source_is_model,
   C17_fire_source_is_model); SealableOutputBuffer::push_heartbeat appends the heartbeat frame
   unless the buffer is sealed (Model/OutBuf.v, C08) *)
Definition mk_self (evs : list val) (out : bytes) (sl : string) : val :=
  VR [("timer", VC "timer" evs); ("outbuf", VBytes out); ("sealed", VC sl [])].

Definition ext_st_model (name : string) (args : list val) (self : val) : val * val :=
  match v_field "timer" self, v_field "outbuf" self, v_field "sealed" self with
  | VC _ evs, VBytes out, VC sl [] =>
      if String.eqb name "timer.poll" then
        match evs with
        | VC _ [k; _] :: _ => (self, VC "Some" [k])
        | _ => (self, VC "None" [])
        end
      else if String.eqb name "heartbeats.fire_rx" || String.eqb name "heartbeats.fire_tx" then
        match evs with
        | VC _ [_; st] :: rest => (mk_self rest out sl, st)
        | _ => (self, VStuck)
        end
      else if String.eqb name "outbuf.push_heartbeat" then
        (mk_self evs (if String.eqb sl "true" then out else out ++ ser_heartbeat) sl, VC "()" [])
      else (self, VStuck)
  | _, _, _ => (self, VStuck)
  end.

(* the entries left in the timer after the pass *)
Fixpoint hb_rest (fired : list (hbkind * bool)) : list (hbkind * bool) :=
  match fired with
  | [] => []
  | (HbRx, true) :: rest => rest
  | _ :: rest => hb_rest rest
  end.

Definition enc_outcome (o : outcome) : val :=
  match o with
  | OOk => VC "Ok" [VC "()" []]
  | OErr EMissedHeartbeats => VC "Err" [VC "Error::MissedServerHeartbeats" []]
  | _ => VStuck
  end.

Lemma push_sealed o :
  (if String.eqb (if ob_sealed o then "true" else "false") "true" then ob o else ob o ++ ser_heartbeat)
  = ob (ob_append o ser_heartbeat).
Proof. unfold ob_append. destruct (ob_sealed o); reflexivity. Qed.

Lemma push_sealed_flag o : ob_sealed (ob_append o ser_heartbeat) = ob_sealed o.
Proof. unfold ob_append. destruct (ob_sealed o) eqn:E; [exact E|reflexivity]. Qed.

Theorem pass_source_is_model fired : forall c,
  gen_Inner_process_heartbeat_timers ext_st_model (S (length fired)) (enc_self fired (c_out c))
  = (enc_self (hb_rest fired) (c_out (snd (heartbeat_timers fired c))),
     enc_outcome (fst (heartbeat_timers fired c))).
Proof.
  unfold gen_Inner_process_heartbeat_timers.
  induction fired as [|[k b] fired IH]; intros c.
  - reflexivity.
  - change (length ((k, b) :: fired)) with (S (length fired)).
    destruct k, b.
    + reflexivity.
    + cbn [heartbeat_timers hb_rest]. rewrite <- IH. reflexivity.
    + cbn [heartbeat_timers hb_rest]. rewrite <- IH.
      destruct (ob (c_out c)) eqn:Eo.
      * change (c_out (push_out c ser_heartbeat)) with (ob_append (c_out c) ser_heartbeat).
        destruct (c_out c) as [o sl]. cbn [ob] in Eo. subst o. destruct sl; reflexivity.
      * destruct (c_out c) as [o sl]. cbn [ob] in Eo. subst o. destruct sl; reflexivity.
    + cbn [heartbeat_timers hb_rest]. rewrite <- IH. reflexivity.
Qed.

(* C17 AS A THEOREM ABOUT THE TRANSLATED CODE: an expired receive entry ends the translated pass with
   MissedServerHeartbeats whatever the timer yields before it - stale entries, send entries with or
   without output pending - and a pass without one returns Ok. *)
Theorem pass_source_not_masked pre rest c :
  (forall k b, In (k, b) pre -> (k, b) <> (HbRx, true)) ->
  snd (gen_Inner_process_heartbeat_timers ext_st_model (S (length (pre ++ (HbRx, true) :: rest)))
         (enc_self (pre ++ (HbRx, true) :: rest) (c_out c)))
  = VC "Err" [VC "Error::MissedServerHeartbeats" []].
Proof.
  intros H. rewrite pass_source_is_model. cbn [snd].
  assert (E : forall c0, fst (heartbeat_timers (pre ++ (HbRx, true) :: rest) c0) = OErr EMissedHeartbeats).
  { induction pre as [|[k b] pre IH]; intros c0; [reflexivity|].
    assert (Hr : forall k' b', In (k', b') pre -> (k', b') <> (HbRx, true)) by (intros; apply H; right; assumption).
    destruct k, b; cbn [app heartbeat_timers]; try (apply IH; exact Hr).
    exfalso. apply (H HbRx true); [left; reflexivity|reflexivity]. }
  rewrite E. reflexivity.
Qed.

Example pass_source_example :
  snd (gen_Inner_process_heartbeat_timers ext_st_model 4
         (enc_self [(HbTx, true); (HbRx, false); (HbRx, true)] {| ob := []; ob_sealed := false |}))
  = VC "Err" [VC "Error::MissedServerHeartbeats" []]
  /\ v_field "outbuf" (fst (gen_Inner_process_heartbeat_timers ext_st_model 4
         (enc_self [(HbTx, true); (HbRx, false); (HbRx, true)] {| ob := []; ob_sealed := false |})))
  = VBytes ser_heartbeat.
Proof. split; vm_compute; reflexivity. Qed.
