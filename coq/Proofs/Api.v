(* C12: the table the code implements against the table the documentation gives.
   Stdlib only, no axioms. *)
From Amq Require Import Lib.Base Model.ApiTable Spec.Api.

(* every operation emits exactly one method, the one its arguments describe - or nothing
   at all where it must not send *)
Theorem emit_describes o :
  (sends_nothing o -> emit o = None \/ emit o = Some []) /\
  (~ sends_nothing o -> exists m, emit o = Some [wire m] /\ Describes o m).
Proof.
  split.
  - destruct o; cbn; try contradiction.
    + destruct same_channel; [contradiction|]. intros _. left. reflexivity.
    + destruct already_cancelled; [|contradiction]. intros _. right. reflexivity.
  - intro Hn. destruct o; cbn in *;
      try (eexists; split; cycle 1; [solve [constructor; try discriminate] | reflexivity]; fail);
      repeat match goal with
             | x : dmode |- _ => destruct x
             | x : bside |- _ => destruct x
             | x : settle |- _ => destruct x
             end;
      try (destruct unbind);
      try (destruct same_channel; [|exfalso; apply Hn; exact I]);
      try (destruct already_cancelled; [exfalso; apply Hn; exact I|]);
      (eexists; split; cycle 1; [solve [constructor; try discriminate] | reflexivity]).
Qed.

(* nowait is set exactly in the nowait variants *)
Definition nowait_of (m : amqp) : option bool :=
  match m with
  | ConfirmSelect n | QueuePurge _ n | ExchangeDelete _ _ n | BasicCancel _ n => Some n
  | QueueDeclare _ _ _ _ _ n _ | QueueBind _ _ _ n _ | QueueDelete _ _ _ n => Some n
  | BasicConsume _ _ _ _ _ n _ => Some n
  | ExchangeDeclare _ _ _ _ _ _ n _ | ExchangeBind _ _ _ n _ | ExchangeUnbind _ _ _ n _ => Some n
  | _ => None
  end.

Definition op_nowait (o : api_op) : bool :=
  match o with
  | AConfirmSelect n | AQueueBind _ n _ _ _ _ | AQueuePurge _ n _ | AQueueDelete _ n _ _ _
  | AExchangeBind _ n _ _ _ _ _ | AExchangeDelete _ n _ _ => n
  | AQueueDeclare m _ _ _ _ _ | AExchangeDeclare m _ _ _ _ _ _ => is_nowait m
  | _ => false
  end.

Theorem nowait_iff o m b : Describes o m -> nowait_of m = Some b -> b = op_nowait o.
Proof. intros H; destruct H; cbn; intro E; inversion E; try reflexivity; destruct m; congruence. Qed.

(* passive exactly in the passive variants *)
Theorem passive_iff o m :
  Describes o m ->
  match m with
  | QueueDeclare _ p _ _ _ _ _ => p = match o with AQueueDeclare DPassive _ _ _ _ _ => true | _ => false end
  | ExchangeDeclare _ _ p _ _ _ _ _ => p = match o with AExchangeDeclare DPassive _ _ _ _ _ _ => true | _ => false end
  | _ => True
  end.
Proof. intros H; destruct H; cbn; try exact I; try reflexivity; destruct m; try reflexivity; contradiction. Qed.

(* source and destination are never swapped: whichever way the bind is phrased, messages
   flow from the exchange named as source to the one named as destination *)
Theorem bind_direction s n u self other r t m :
  Describes (AExchangeBind s n u self other r t) m ->
  let '(dst, src) := match s with BToDestination => (other, self) | _ => (self, other) end in
  m = (if u then ExchangeUnbind dst src r n t else ExchangeBind dst src r n t).
Proof. intro H. inversion H; subst; reflexivity. Qed.

(* a delivery settled through a channel other than the one it arrived on: nothing is sent *)
Theorem wrong_channel_sends_nothing how h t r : emit (ASettle how h t r false) = None.
Proof. reflexivity. Qed.

(* the functional form of the documentation table is the relation *)
Theorem documented_iff o m : documented o = Some m <-> Describes o m.
Proof.
  split.
  - destruct o; cbn;
      repeat match goal with
             | x : dmode |- _ => destruct x
             | x : bside |- _ => destruct x
             | x : settle |- _ => destruct x
             end;
      try (destruct unbind); try (destruct same_channel); try (destruct already_cancelled);
      cbn; intro E; inversion E; subst; constructor; discriminate.
  - intro H. destruct H; cbn; try reflexivity; destruct m; try reflexivity; contradiction.
Qed.

Theorem documented_none o : documented o = None <-> sends_nothing o.
Proof.
  destruct o; cbn; try (split; [discriminate|contradiction]);
    repeat match goal with
           | x : dmode |- _ => destruct x
           | x : bside |- _ => destruct x
           | x : settle |- _ => destruct x
           end;
    try (destruct unbind); try (destruct same_channel); try (destruct already_cancelled);
    cbn; split; intro H; try discriminate; try contradiction; try reflexivity; exact I.
Qed.
