(* Cancelling twice sends nothing the second time; dropping a consumer cancels it: over every
   sequence of cancel() calls ended (or not) by the drop, exactly one Basic.Cancel is issued -
   by the first of them.  Stdlib only, no axioms. *)
From Amq Require Import Lib.Base Model.Consumer.

Lemma cons_run_cancelled ops : cons_run true ops = 0.
Proof. induction ops as [|o ops IH]; cbn; [reflexivity|]. rewrite IH. reflexivity. Qed.

Theorem cancel_issued_once o ops : cons_run false (o :: ops) = 1.
Proof. cbn. rewrite cons_run_cancelled. reflexivity. Qed.

Theorem drop_cancels : cons_run false [CnDrop] = 1.
Proof. reflexivity. Qed.

Theorem cancel_then_anything_is_silent ops : cons_run false (CnCancel :: ops) = cons_run false [CnCancel].
Proof. cbn. rewrite cons_run_cancelled. reflexivity. Qed.
