(* The caller's side of C04: a call returns the head of its own reply queue and takes
   nothing else; successive calls get successive replies.  Stdlib only, no axioms. *)
From Amq Require Import Lib.Base Model.Handle.

(* a call that returns consumes at most the head of the reply queue and never reorders it *)
Theorem call_takes_head c s r s' :
  hstep c s = Some (r, s') ->
  h_replies s' = h_replies s \/ exists it, h_replies s = it :: h_replies s'.
Proof.
  unfold hstep. destruct (h_mail_rx s).
  - destruct c; try (destruct (h_replies s) as [|it rest] eqn:E;
      [destruct (h_reply_tx s); [discriminate|]; intro H; inversion H; subst; cbn; left; reflexivity
      |intro H; inversion H; subst; cbn; right; exists it; reflexivity]).
    intro H; inversion H; subst; cbn. left; reflexivity.
  - destruct (h_replies s) as [|it rest] eqn:E.
    + destruct (h_reply_tx s); [discriminate|]. intro H; inversion H; subst. left. exact E.
    + destruct it; intro H; inversion H; subst; cbn; right; eexists; reflexivity.
Qed.

(* the reply to that very call: when the request went out and the reply at the head of the
   queue is of the type the call expects, the call returns exactly it *)
Theorem call_returns_head want rest s :
  h_mail_rx s = true -> h_replies s = HMethod want :: rest ->
  hstep (CCall want) s = Some (ROk want, with_replies s rest (h_mail s + 1)).
Proof. intros Hm Hr. unfold hstep. rewrite Hm, Hr. cbn. rewrite N.eqb_refl. reflexivity. Qed.

(* the i-th of n successive calls gets the i-th of n queued replies *)
Theorem calls_in_order wants : forall s rest,
  h_mail_rx s = true -> h_replies s = map HMethod wants ++ rest ->
  fst (hrun (map CCall wants) s) = map ROk wants /\
  h_replies (snd (hrun (map CCall wants) s)) = rest /\
  h_mail (snd (hrun (map CCall wants) s)) = h_mail s + N.of_nat (length wants).
Proof.
  induction wants as [|w wants IH]; intros s rest Hm Hr; cbn [map hrun].
  - cbn. repeat split; [exact Hr|lia].
  - cbn [map app] in Hr. rewrite (@call_returns_head w (map HMethod wants ++ rest) s Hm Hr).
    specialize (IH (with_replies s (map HMethod wants ++ rest) (h_mail s + 1)) rest Hm eq_refl).
    destruct (hrun (map CCall wants) _) as [rs s''] eqn:E. cbn [fst snd] in *.
    destruct IH as (H1 & H2 & H3). repeat split; [rewrite H1; reflexivity|exact H2|].
    rewrite H3. cbn [with_replies h_mail length]. lia.
Qed.

(* a verdict of the I/O thread (channel closed by the server, connection closed, ...) that is
   at the head of the reply queue is what the call reports - whether or not its request could
   still be handed over *)
Theorem verdict_reported c e rest s :
  c <> CNowait \/ h_mail_rx s = false ->
  h_replies s = HErr e :: rest ->
  exists s', hstep c s = Some (RErrItem e, s') /\ h_replies s' = rest.
Proof.
  intros Hc Hr. unfold hstep. rewrite Hr. destruct (h_mail_rx s) eqn:Hm.
  - destruct c; try (eexists; split; [reflexivity|reflexivity]).
    destruct Hc as [Hc|Hc]; [contradiction|discriminate].
  - eexists; split; reflexivity.
Qed.

(* once the I/O thread is gone and nothing is queued, every call returns EventLoopDropped:
   nobody blocks on a dead connection *)
Theorem dead_thread_never_blocks c s :
  h_reply_tx s = false -> h_mail_rx s = false -> h_replies s = [] ->
  hstep c s = Some (RDropped, s).
Proof. intros H1 H2 H3. unfold hstep. rewrite H2, H3, H1. reflexivity. Qed.

(* a call blocks only while the I/O thread is alive and has not answered yet *)
Theorem blocks_only_waiting c s :
  hstep c s = None -> h_reply_tx s = true /\ h_replies s = [].
Proof.
  unfold hstep. destruct (h_mail_rx s).
  - destruct c; try discriminate;
      (destruct (h_replies s); [destruct (h_reply_tx s); [auto|discriminate]|discriminate]).
  - destruct (h_replies s) as [|[| | |] r]; try discriminate.
    destruct (h_reply_tx s); [auto|discriminate].
Qed.
