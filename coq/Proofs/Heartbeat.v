(* Heartbeats (Model/Heartbeat.v): not early, prompt, a live server is never declared
   dead, an idle client sends, 0 disables.  Stdlib only, no axioms. *)
From Amq Require Import Lib.Base Gen.Consts Model.Heartbeat.

(* well-formed trace: times do not go backwards and are not before the last activity *)
Fixpoint mono (t0 : N) (evs : list rx_ev) : Prop :=
  match evs with
  | [] => True
  | e :: evs' => t0 <= ev_time e /\ mono (ev_time e) evs'
  end.

(* NOT EARLY: if the receive timer declares the server dead at time t, nothing was read
   during the last (interval - 5 ms) before t *)
Theorem not_early : forall evs h t h',
  rx_run h evs = (Some t, h') -> mono (h_last h) evs ->
  exists last, last + h_interval h <= t + fudge_ms /\ h_last h' = last /\
    (* last is the time of the most recent read (or the start) *)
    (last = h_last h \/ In (RxRead last) evs).
Proof.
  induction evs as [|e evs IH]; intros h t h' H Hm; cbn [rx_run] in H; [discriminate|].
  destruct e as [r|f]; cbn [mono ev_time] in Hm; destruct Hm as [Hle Hm].
  - destruct (IH _ _ _ H Hm) as (last & H1 & H2 & H3). exists last. cbn in *.
    split; [exact H1|]. split; [exact H2|].
    destruct H3 as [->|Hin]; [right; left; reflexivity | right; right; exact Hin].
  - unfold hb_fire in H.
    destruct (N.leb_spec (h_interval h) (f - h_last h + fudge_ms)) as [Hexp|Hrun]; cbn in H.
    + inversion H; subst. exists (h_last h). cbn. split; [lia|]. split; [reflexivity|left; reflexivity].
    + (* still running: last activity and interval are unchanged *)
      assert (Hm' : mono (h_last h) evs).
      { destruct evs as [|e2 evs2]; [exact I|]. cbn in *. destruct Hm as [Ha Hb]. split; [lia|exact Hb]. }
      destruct (IH _ _ _ H Hm') as (last & H1 & H2 & H3). exists last. cbn in *.
      split; [exact H1|]. split; [exact H2|].
      destruct H3 as [->|Hin]; [left; reflexivity | right; right; exact Hin].
Qed.

(* the timer is always armed for no later than last activity + interval *)
Definition armed_ok (h : hb) : Prop := h_deadline h <= h_last h + h_interval h.

Lemma armed_start now i : armed_ok (hb_start now i).
Proof. unfold armed_ok, hb_start; cbn. lia. Qed.

Lemma armed_record now h : h_last h <= now -> armed_ok h -> armed_ok (hb_record now h).
Proof. unfold armed_ok, hb_record; cbn. lia. Qed.

Lemma armed_fire_running now h h' :
  h_last h <= now -> hb_fire now h = (false, h') -> armed_ok h' /\ h_last h' = h_last h.
Proof.
  unfold hb_fire, armed_ok. intros Hle H.
  destruct (N.leb_spec (h_interval h) (now - h_last h + fudge_ms)); inversion H; subst; cbn.
  unfold fudge_ms in *. split; [lia|reflexivity].
Qed.

(* PROMPT: with the timer armed correctly, a timer event handled at t >= last + interval
   (the timer fires within delta of its deadline, so by last + interval + delta at the
   latest) with nothing read since declares the server dead *)
Theorem prompt h t :
  h_last h + h_interval h <= t + fudge_ms -> h_last h <= t -> fst (hb_fire t h) = true.
Proof.
  intros H Hle. unfold hb_fire.
  destruct (N.leb_spec (h_interval h) (t - h_last h + fudge_ms)); [reflexivity|]. lia.
Qed.

(* LIVE SERVER: if every timer event finds a read no older than `gap`, and the interval
   exceeds gap + 5 ms, the server is never declared dead *)
Fixpoint reads_fresh (gap : N) (last : N) (evs : list rx_ev) : Prop :=
  match evs with
  | [] => True
  | RxRead t :: evs' => last <= t /\ reads_fresh gap t evs'
  | RxFire t :: evs' => last <= t /\ t <= last + gap /\ reads_fresh gap last evs'
  end.

Theorem live_server gap : forall evs h,
  reads_fresh gap (h_last h) evs -> gap + fudge_ms < h_interval h ->
  fst (rx_run h evs) = None.
Proof.
  induction evs as [|e evs IH]; intros h Hf Hi; cbn [rx_run]; [reflexivity|].
  destruct e as [r|f]; cbn [reads_fresh] in Hf.
  - destruct Hf as [Hle Hf]. apply IH; [exact Hf|exact Hi].
  - destruct Hf as (Hle & Hgap & Hf). unfold hb_fire.
    destruct (N.leb_spec (h_interval h) (f - h_last h + fudge_ms)) as [Hexp|Hrun]; [lia|].
    apply IH; [exact Hf|exact Hi].
Qed.

(* with heartbeat h >= 1 s negotiated, a server sending anything at least every h seconds
   (1000 h ms) is never declared dead: the receive interval is 2 h *)
Theorem live_server_secs secs now evs rx tx :
  1 <= secs -> start_heartbeats now secs = Some (rx, tx) ->
  reads_fresh (1000 * secs) (h_last rx) evs -> fst (rx_run rx evs) = None.
Proof.
  intros Hs H Hf. unfold start_heartbeats in H.
  destruct (N.eqb_spec secs 0); [lia|]. inversion H; subst.
  eapply live_server; [exact Hf|]. cbn. unfold c_rx_interval_ms_per_s, fudge_ms. lia.
Qed.

(* IDLE SEND: the send timer expiring with nothing queued queues exactly one heartbeat *)
Theorem idle_send h t evs :
  h_last h + h_interval h <= t + fudge_ms -> h_last h <= t ->
  exists rest, tx_run h (TxFire t true :: evs) = t :: rest.
Proof.
  intros H Hle. cbn [tx_run]. unfold hb_fire.
  destruct (N.leb_spec (h_interval h) (t - h_last h + fudge_ms)); [|lia]. cbn. eauto.
Qed.

(* ... and none when data is already queued, or when something was written recently *)
Theorem no_send_when_busy h t : tx_run h [TxFire t false] = [].
Proof. cbn [tx_run]. destruct (hb_fire t h) as [e h']. rewrite andb_false_r. reflexivity. Qed.

Theorem no_send_after_write h t :
  h_last h <= t -> t - h_last h + fudge_ms < h_interval h -> tx_run h [TxFire t true] = [].
Proof.
  intros Hle H. cbn [tx_run]. unfold hb_fire.
  destruct (N.leb_spec (h_interval h) (t - h_last h + fudge_ms)); [lia|]. reflexivity.
Qed.

(* ZERO: no timers at all *)
Theorem zero_disables now : start_heartbeats now 0 = None.
Proof. reflexivity. Qed.

(* the intervals: 2 h for receive, h for send (from the regenerated constants) *)
Theorem intervals now secs rx tx :
  start_heartbeats now secs = Some (rx, tx) ->
  h_interval rx = 2000 * secs /\ h_interval tx = 1000 * secs /\ c_max_missed_server_heartbeats = 2.
Proof.
  unfold start_heartbeats. destruct (secs =? 0); [discriminate|]. intro H; inversion H; subst. cbn.
  repeat split.
Qed.
