(* Inner::write_to_stream AS TRANSLATED FROM THE SOURCE on every run (Gen/SrcWrite.v, by
   tools/rs2sm.py from src/io_loop/mod.rs - the loop that writes the out-buffer to the socket) is
   the hand-written model `write_loop` (Model/OutBuf.v) that C01's and C08's theorems about what
   reaches the wire are about: for every buffer and every behaviour of the transport (any
   sequence of partial writes, would-blocks and errors).  Stdlib only, no axioms. *)
From Coq Require Import String.
From Amq Require Import Lib.Base Lib.RsVal Model.OutBuf Proofs.OutBuf Gen.SrcWrite.
Open Scope string_scope.
Open Scope list_scope.
Open Scope N_scope.

Definition enc_wr (x : wr) : val :=
  match x with Wrote n => VC "Wrote" [VN n] | WBlock => VC "WBlock" [] | WErr => VC "WErr" [] end.

(* the I/O thread's state as far as the loop touches it: the out-buffer; plus the transport: what
   its next write calls will do (the oracle) and what has reached the wire *)
Definition enc_self (buf : bytes) (oracle : list wr) (wire : bytes) : val :=
  VR [("outbuf", VBytes buf); ("script", VC "script" (map enc_wr oracle)); ("wire", VBytes wire)].

Definition io_err (kind : string) : val := VC "io::Error" [VC kind []].

(* Write::write on the transport (its contract: Ok(n) with n <= the slice offered),
   OutputBuffer::{drain_written, clear}, HeartbeatTimers::record_tx_activity (not part of what the
   loop's model observes) *)
Definition ext_st_model (name : string) (args : list val) (self : val) : val * val :=
  if (name =? "stream.write")%string then
    match args, v_field "script" self, v_field "wire" self with
    | [_; VBytes data], VC sc (VC c a :: rest), VBytes wire =>
        let self' := v_set "script" (VC sc rest) self in
        match a with
        | [VN n] =>
            let n' := N.min n (N.of_nat (length data)) in
            (v_set "wire" (VBytes (wire ++ firstn (N.to_nat n') data)) self', VC "Ok" [VN n'])
        | _ => if (c =? "WBlock")%string then (self', VC "Err" [io_err "io::ErrorKind::WouldBlock"])
               else (self', VC "Err" [io_err "io::ErrorKind::Other"])
        end
    | _, _, _ => (self, VStuck)
    end
  else if (name =? "outbuf.drain_written")%string then
    match args with [n] => (v_set "outbuf" (v_drop n (v_field "outbuf" self)) self, VC "()" []) | _ => (self, VStuck) end
  else if (name =? "outbuf.clear")%string then (v_set "outbuf" (VBytes []) self, VC "()" [])
  else if (name =? "heartbeats.record_tx_activity")%string then (self, VC "()" [])
  else (self, VStuck).

(* io::Error::kind *)
Definition ext_model (name : string) (args : list val) : val :=
  match args with [VC _ [k]] => k | _ => VStuck end.

Definition enc_wres (r : wres) : val :=
  match r with
  | WOk => VC "Ok" [VC "()" []]
  | WIoErr => VC "Err" [VC "Error::IoErrorWritingSocket" [io_err "io::ErrorKind::Other"]]
  | WStuck => VStuck
  end.

Lemma loop_source_is_model stream : forall fuel buf pos oracle wire,
  pos <= N.of_nat (length buf) ->
  snd (fst (fst (write_loop fuel buf pos oracle))) <> WStuck ->
  gen_Inner_write_to_stream_loop1 ext_model ext_st_model fuel (enc_self buf oracle wire) (VN (N.of_nat (length buf))) (VN pos) stream
  = let '(ws, r, b', o') := write_loop fuel buf pos oracle in
    (enc_self b' o' (wire ++ ws), enc_wres r).
Proof.
  induction fuel as [|fuel IH]; intros buf pos oracle wire Hpos Hs; [exfalso; apply Hs; reflexivity|].
  cbn [write_loop] in *. cbn [gen_Inner_write_to_stream_loop1].
  change (v_ltb (VN pos) (VN (N.of_nat (length buf)))) with (pos <? N.of_nat (length buf)).
  destruct (pos <? N.of_nat (length buf)) eqn:E.
  - apply N.ltb_lt in E.
    destruct oracle as [|[n| |] o']; [exfalso; apply Hs; reflexivity| | |].
    + (* a partial write *)
      assert (Hlen : N.of_nat (length (skipn (N.to_nat pos) buf)) = N.of_nat (length buf) - pos) by (rewrite skipn_length; lia).
      cbn -[N.min N.of_nat N.to_nat write_loop firstn skipn length].
      rewrite Hlen.
      set (n' := N.min n (N.of_nat (length buf) - pos)) in *.
      specialize (IH buf (pos + n') o' (wire ++ firstn (N.to_nat n') (skipn (N.to_nat pos) buf))).
      destruct (write_loop fuel buf (pos + n') o') as [[[ws r] b'] o''] eqn:Ew.
      cbn [fst snd] in *. unfold enc_self in *. rewrite IH; [rewrite <- app_assoc; reflexivity|unfold n'; lia|exact Hs].
    + (* would block: drain_written(pos) *)
      cbn -[N.of_nat N.to_nat skipn]. rewrite app_nil_r. reflexivity.
    + (* any other error *)
      cbn -[N.of_nat N.to_nat]. rewrite app_nil_r. reflexivity.
  - cbn. rewrite app_nil_r. reflexivity.
Qed.

(* THE MODEL IS THE SOURCE: for every out-buffer content and every behaviour of the transport for
   which the model's oracle is long enough: the same bytes reach the wire, the same bytes stay
   buffered, the same result *)
Theorem write_source_is_model stream o oracle wire :
  snd (fst (fst (write_to_stream o oracle))) <> WStuck ->
  gen_Inner_write_to_stream ext_model ext_st_model (S (length oracle)) (enc_self (ob o) oracle wire) stream
  = let '(ws, r, o', rest) := write_to_stream o oracle in
    (enc_self (ob o') rest (wire ++ ws), enc_wres r).
Proof.
  unfold write_to_stream, gen_Inner_write_to_stream. intro Hs.
  change (v_len (v_field "outbuf" (enc_self (ob o) oracle wire))) with (VN (N.of_nat (length (ob o)))).
  pose proof (@loop_source_is_model stream (S (length oracle)) (ob o) 0 oracle wire) as H.
  destruct (write_loop (S (length oracle)) (ob o) 0 oracle) as [[[ws r] b'] o''] eqn:Ew.
  cbn [fst snd] in *. apply H; [lia|exact Hs].
Qed.

(* C01 / C08 AS A THEOREM ABOUT THE TRANSLATED CODE: whatever the transport does, a pass of the
   translated write loop that returns Ok leaves (what has reached the wire) ++ (what is still
   buffered) unchanged - nothing is lost, duplicated or reordered; on an I/O error the buffer is
   untouched and what was written is a prefix of it *)
Theorem write_source_conserves stream o oracle wire :
  snd (fst (fst (write_to_stream o oracle))) <> WStuck ->
  exists ws buf' rest r,
    gen_Inner_write_to_stream ext_model ext_st_model (S (length oracle)) (enc_self (ob o) oracle wire) stream
    = (enc_self buf' rest (wire ++ ws), enc_wres r) /\
    match r with
    | WOk => (wire ++ ws) ++ buf' = wire ++ ob o
    | WIoErr => buf' = ob o /\ exists k, ws = firstn k (ob o)
    | WStuck => False
    end.
Proof.
  intro Hs. pose proof (@write_source_is_model stream o oracle wire Hs) as H.
  destruct (write_to_stream o oracle) as [[[ws r] o'] rest] eqn:Ew.
  pose proof (write_conserves Ew) as [_ Hc].
  exists ws, (ob o'), rest, r. split; [exact H|].
  destruct r; [rewrite <- app_assoc, Hc; reflexivity|exact Hc|apply Hs; reflexivity].
Qed.

(* non-vacuity: 5 bytes; the transport takes 2, blocks; later takes the rest *)
Example write_source_example :
  let '(s1, r1) := gen_Inner_write_to_stream ext_model ext_st_model 4 (enc_self [1; 2; 3; 4; 5] [Wrote 2; WBlock; Wrote 9] []) (VC "stream" []) in
  let '(s2, r2) := gen_Inner_write_to_stream ext_model ext_st_model 4 s1 (VC "stream" []) in
  (s1, r1, s2, r2) = (enc_self [3; 4; 5] [Wrote 9] [1; 2], VC "Ok" [VC "()" []], enc_self [] [] [1; 2; 3; 4; 5], VC "Ok" [VC "()" []]).
Proof. vm_compute. reflexivity. Qed.
