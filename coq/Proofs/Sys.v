(* A synchronous call returns the server's reply to that very call, under EVERY interleaving
   of callers, I/O thread and server (Model/Sys.v): invariant by induction over schedules.
   Stdlib only, no axioms. *)
From Amq Require Import Lib.Base Model.Sys.

Lemma projc_app {A} n (a b : list (N * A)) : projc n (a ++ b) = projc n a ++ projc n b.
Proof. unfold projc. apply flat_map_app. Qed.

Lemma syncs_app a b : syncs (a ++ b) = syncs a ++ syncs b.
Proof. unfold syncs. apply flat_map_app. Qed.

Lemma projc_map_same {A} n (l : list A) : projc n (map (pair n) l) = l.
Proof.
  induction l as [|x l IH]; [reflexivity|]. cbn [map]. unfold projc in *. cbn [flat_map fst snd].
  rewrite N.eqb_refl. cbn [app]. f_equal. exact IH.
Qed.

Lemma projc_map_other {A} m n (l : list A) : m <> n -> projc m (map (pair n) l) = [].
Proof.
  intro H. induction l as [|x l IH]; [reflexivity|]. cbn [map]. unfold projc in *. cbn [flat_map fst snd].
  destruct (n =? m) eqn:E; [apply N.eqb_eq in E; congruence|]. exact IH.
Qed.

Lemma projc_cons {A} n m (x : A) l :
  projc m ((n, x) :: l) = (if n =? m then [x] else []) ++ projc m l.
Proof. reflexivity. Qed.

Lemma projc_firstn_skipn {A} n k (l : list (N * A)) :
  projc n (firstn k l) ++ projc n (skipn k l) = projc n l.
Proof. rewrite <- projc_app, firstn_skipn. reflexivity. Qed.

Lemma yupd_same {A} (f : N -> A) n v : yupd f n v n = v.
Proof. unfold yupd. rewrite N.eqb_refl. reflexivity. Qed.

Lemma yupd_other {A} (f : N -> A) n v m : m <> n -> yupd f n v m = f m.
Proof. unfold yupd. intro H. destruct (m =? n) eqn:E; [apply N.eqb_eq in E; congruence|reflexivity]. Qed.

Lemma syncs_one x : syncs [x] = if is_sync x then [snd x] else [].
Proof. unfold syncs. cbn [flat_map]. rewrite app_nil_r. reflexivity. Qed.

Lemma rvals_app a b : rvals (a ++ b) = rvals a ++ rvals b.
Proof. unfold rvals. apply flat_map_app. Qed.
Lemma wvals_app a b : wvals (a ++ b) = wvals a ++ wvals b.
Proof. unfold wvals. apply flat_map_app. Qed.
Lemma ncloses_app a b : ncloses (a ++ b) = (ncloses a + ncloses b)%nat.
Proof. unfold ncloses. rewrite filter_app, app_length. reflexivity. Qed.
Lemma nverdicts_app a b : nverdicts (a ++ b) = (nverdicts a + nverdicts b)%nat.
Proof. unfold nverdicts. rewrite filter_app, app_length. reflexivity. Qed.
Lemma length_ritems l : length l = (length (rvals l) + nverdicts l)%nat.
Proof.
  induction l as [|[v|] l IH]; [reflexivity| |]; unfold rvals, nverdicts in *; cbn [flat_map filter length app];
    rewrite IH; lia.
Qed.
Lemma length_witems l : length l = (length (wvals l) + ncloses l)%nat.
Proof.
  induction l as [|[v|] l IH]; [reflexivity| |]; unfold wvals, ncloses in *; cbn [flat_map filter length app];
    rewrite IH; lia.
Qed.

(* the server sends nothing on a channel after closing it: in what is on the wire for that
   channel the Channel.Close, if any, is the last item *)
Fixpoint close_lastb (l : list witem) : bool :=
  match l with
  | [] => true
  | WClose :: t => match t with [] => true | _ => false end
  | WReply _ :: t => close_lastb t
  end.

Lemma close_lastb_snoc l : ncloses l = 0%nat -> close_lastb (l ++ [WClose]) = true.
Proof.
  induction l as [|[v|] l IH]; intro H; [reflexivity| |cbn in H; discriminate].
  cbn [app close_lastb]. apply IH. exact H.
Qed.

Lemma close_lastb_tail x l : close_lastb (x :: l) = true -> close_lastb l = true.
Proof. destruct x; cbn [close_lastb]; [auto|]. destruct l; [reflexivity|discriminate]. Qed.

Section Safety.
  Variable answer : N -> N -> N.
  Variables bound qcap : N.
  Variable progs : N -> list call.
  (* the capacity the code gives a reply queue: one reply and one verdict fit *)
  Hypothesis Hq : 2 <= qcap.

  (* a channel the server has not closed *)
  Definition open_inv (s : sys) (n : N) : Prop :=
    let c := y_ch s n in
    map (answer n) (syncs (yc_issued c)) = yc_results c ++ inflight answer s n /\
    (length (inflight answer s n) <= 1)%nat /\
    (yc_failed c = false -> length (inflight answer s n) = (if yc_wait c then 1 else 0)%nat) /\
    (yc_failed c = true -> y_dead s = true /\ yc_wait c = false) /\
    projc n (y_seen s) ++ projc n (y_outwire s) ++ projc n (y_outbuf s) ++ yc_mail c = yc_issued c /\
    nverdicts (yc_replyq c) = 0%nat /\ ncloses (projc n (y_inwire s)) = 0%nat /\ yc_slot_gone c = false.

  (* a channel the server has closed: what was delivered, and what still will be, are the right
     answers in order; at most one reply and the one verdict are on their way *)
  Definition closed_inv (s : sys) (n : N) : Prop :=
    let c := y_ch s n in
    (exists tail, map (answer n) (syncs (yc_issued c)) =
                  yc_results c ++ rvals (yc_replyq c) ++ wvals (projc n (y_inwire s)) ++ tail) /\
    (length (rvals (yc_replyq c) ++ wvals (projc n (y_inwire s))) <= 1)%nat /\
    (nverdicts (yc_replyq c) + ncloses (projc n (y_inwire s)) <= 1)%nat /\
    ((yc_slot_gone c = true -> projc n (y_inwire s) = []) /\ close_lastb (projc n (y_inwire s)) = true) /\
    yc_pend c = [] /\
    (yc_wait c = true -> yc_failed c = false).

  Definition chan_inv (s : sys) (n : N) : Prop :=
    let c := y_ch s n in
    yc_issued c ++ yc_prog c = progs n /\
    (yc_srv_closed c = false -> open_inv s n) /\
    (yc_srv_closed c = true -> closed_inv s n).

  Definition YInv (s : sys) : Prop := y_fail s = false /\ forall n, chan_inv s n.

  Lemma YInv_init : YInv (init_sys progs).
  Proof.
    split; [reflexivity|]. intro n. split; [reflexivity|]. split; [|discriminate].
    intros _. repeat split; cbn; intros; try discriminate; lia.
  Qed.

  (* ---- a channel an action does not touch ---- *)
  Record same_for (m : N) (s s' : sys) : Prop := {
    sf_ch : y_ch s' m = y_ch s m;
    sf_in : projc m (y_inwire s') = projc m (y_inwire s);
    sf_seen : projc m (y_seen s') = projc m (y_seen s);
    sf_out : projc m (y_outwire s') ++ projc m (y_outbuf s') = projc m (y_outwire s) ++ projc m (y_outbuf s);
    sf_dead : y_dead s = true -> y_dead s' = true }.

  Lemma inflight_grouped s n :
    inflight answer s n =
    rvals (yc_replyq (y_ch s n)) ++ wvals (projc n (y_inwire s)) ++ map (answer n) (yc_pend (y_ch s n)) ++
    map (answer n) (syncs ((projc n (y_outwire s) ++ projc n (y_outbuf s)) ++ yc_mail (y_ch s n))).
  Proof. unfold inflight. rewrite <- app_assoc. reflexivity. Qed.

  Lemma chan_inv_same m s s' : same_for m s s' -> chan_inv s m -> chan_inv s' m.
  Proof.
    intros [Hc Hi Hs Ho Hd] (HP & HO & HC). unfold chan_inv. rewrite Hc.
    split; [exact HP|]. split.
    - intro E. specialize (HO E). unfold open_inv in *. rewrite !inflight_grouped in *. rewrite Hc, Hi, Ho.
      destruct HO as (H1 & H2 & H3 & H4 & H5 & H6 & H7 & H8).
      split; [exact H1|]. split; [exact H2|]. split; [exact H3|]. split.
      { intro F. destruct (H4 F) as [D W]. split; [apply Hd; exact D|exact W]. }
      split.
      { rewrite Hs. rewrite (app_assoc (projc m (y_outwire s'))), Ho, <- app_assoc. exact H5. }
      split; [exact H6|]. split; [exact H7|exact H8].
    - intro E. specialize (HC E). unfold closed_inv in *. rewrite Hc, Hi. exact HC.
  Qed.

  Ltac chan_cases m n :=
    destruct (N.eq_dec m n) as [->|Hmn];
    [rewrite ?yupd_same|rewrite ?(yupd_other _ _ Hmn)].
  Ltac norm := repeat progress (rewrite ?projc_app, ?syncs_app, ?map_app, ?syncs_one, ?rvals_app, ?wvals_app, ?app_nil_r in * );
               rewrite <- ?app_assoc in *.
  Ltac normlen := rewrite ?app_length, ?map_length in *.
  Ltac fields := cbn [yc_issued yc_results yc_replyq yc_pend yc_mail yc_wait yc_prog yc_failed yc_srv_closed yc_slot_gone
                      ch_set_mail ch_set_pend ch_set_replyq].
  (* an action that changes only the channel record of n leaves every other channel as it was *)
  Ltac other_by_ch s m Hmn H :=
    apply (@chan_inv_same m s); [|exact (H m)];
    constructor; cbn [with_ch y_ch y_inwire y_outwire y_outbuf y_seen y_dead];
    rewrite ?(yupd_other _ _ Hmn); try reflexivity; try (intro; assumption).

  Lemma step_send s n : YInv s -> YInv (ystep answer bound qcap s (ASend n)).
  Proof.
    intros [Hf H]. unfold ystep. rewrite Hf.
    destruct (yc_wait (y_ch s n)) eqn:Hw; [split; assumption|].
    destruct (yc_failed (y_ch s n)) eqn:Hfl; [split; assumption|]. cbn [orb].
    destruct (yc_prog (y_ch s n)) as [|x rest] eqn:Hp; [split; assumption|].
    destruct (y_dead s || yc_slot_gone (y_ch s n)) eqn:Hgone.
    - (* the send fails *)
      split; [exact Hf|]. intro m. destruct (N.eq_dec m n) as [->|Hmn]; [|other_by_ch s m Hmn H].
      destruct (H n) as (HP & HO & HC). unfold chan_inv. cbn [with_ch y_ch]. rewrite yupd_same. fields.
      split; [rewrite Hp in HP; exact HP|]. split.
      + intro E. specialize (HO E). unfold open_inv, inflight in *. cbn [with_ch y_ch y_inwire y_outwire y_outbuf y_seen y_dead].
        rewrite yupd_same. fields. destruct HO as (H1 & H2 & H3 & H4 & H5 & H6 & H7 & H8).
        split; [exact H1|]. split; [exact H2|]. split; [discriminate|]. split.
        { intros _. rewrite H8, orb_false_r in Hgone. split; [exact Hgone|reflexivity]. }
        split; [exact H5|]. split; [exact H6|]. split; [exact H7|exact H8].
      + intro E. specialize (HC E). unfold closed_inv in *. cbn [with_ch y_ch y_inwire].
        rewrite yupd_same. fields. destruct HC as (G1 & G2 & G3 & G4 & G5 & G6).
        split; [exact G1|]. split; [exact G2|]. split; [exact G3|]. split; [exact G4|]. split; [exact G5|discriminate].
    - destruct (_ <? bound); [|split; assumption].
      apply orb_false_iff in Hgone as [Hd Hg].
      split; [exact Hf|]. intro m. destruct (N.eq_dec m n) as [->|Hmn]; [|other_by_ch s m Hmn H].
      destruct (H n) as (HP & HO & HC). unfold chan_inv. cbn [with_ch y_ch]. rewrite yupd_same. fields.
      split; [rewrite Hp in HP; rewrite <- app_assoc; exact HP|]. split.
      + intro E. specialize (HO E). unfold open_inv, inflight in *. cbn [with_ch y_ch y_inwire y_outwire y_outbuf y_seen y_dead].
        rewrite yupd_same. fields. rewrite Hw, Hfl in HO. destruct HO as (H1 & H2 & H3 & H4 & H5 & H6 & H7 & H8).
        specialize (H3 eq_refl). norm.
        split; [rewrite H1; rewrite <- ?app_assoc; reflexivity|].
        assert (L : length (rvals (yc_replyq (y_ch s n)) ++ wvals (projc n (y_inwire s)) ++ map (answer n) (yc_pend (y_ch s n)) ++
                            map (answer n) (syncs (projc n (y_outwire s))) ++ map (answer n) (syncs (projc n (y_outbuf s))) ++
                            map (answer n) (syncs (yc_mail (y_ch s n))) ++ map (answer n) (if is_sync x then [snd x] else []))
                    = (if is_sync x then 1 else 0)%nat).
        { normlen. normlen. destruct (is_sync x); cbn [length map]; lia. }
        split; [rewrite L; destruct (is_sync x); lia|]. split; [intros _; exact L|]. split; [discriminate|].
        split; [rewrite <- H5; rewrite <- ?app_assoc; reflexivity|]. split; [exact H6|]. split; [exact H7|exact H8].
      + intro E. specialize (HC E). unfold closed_inv in *. cbn [with_ch y_ch y_inwire].
        rewrite yupd_same. fields. destruct HC as ((tail & G1) & G2 & G3 & G4 & G5 & G6).
        split.
        { exists (tail ++ map (answer n) (if is_sync x then [snd x] else [])). norm. rewrite G1. rewrite <- ?app_assoc. reflexivity. }
        split; [exact G2|]. split; [exact G3|]. split; [exact G4|]. split; [exact G5|reflexivity].
  Qed.

  Lemma step_recv s n : YInv s -> YInv (ystep answer bound qcap s (ARecv n)).
  Proof.
    intros [Hf H]. unfold ystep. rewrite Hf.
    destruct (yc_wait (y_ch s n)) eqn:Hw; [|split; assumption].
    destruct (yc_replyq (y_ch s n)) as [|[v|] rest] eqn:Hr.
    - (* empty *)
      destruct (y_dead s || yc_slot_gone (y_ch s n)) eqn:Hgone; [|split; assumption].
      split; [exact Hf|]. intro m. destruct (N.eq_dec m n) as [->|Hmn]; [|other_by_ch s m Hmn H].
      destruct (H n) as (HP & HO & HC). unfold chan_inv. cbn [with_ch y_ch]. rewrite yupd_same. fields.
      split; [exact HP|]. split.
      + intro E. specialize (HO E). unfold open_inv, inflight in *. cbn [with_ch y_ch y_inwire y_outwire y_outbuf y_seen y_dead].
        rewrite yupd_same. fields. rewrite Hr in HO. destruct HO as (H1 & H2 & H3 & H4 & H5 & H6 & H7 & H8).
        split; [exact H1|]. split; [exact H2|]. split; [discriminate|]. split.
        { intros _. rewrite H8, orb_false_r in Hgone. split; [exact Hgone|reflexivity]. }
        split; [exact H5|]. split; [reflexivity|]. split; [exact H7|exact H8].
      + intro E. specialize (HC E). unfold closed_inv in *. cbn [with_ch y_ch y_inwire].
        rewrite yupd_same. fields. rewrite Hr in HC. destruct HC as (G1 & G2 & G3 & G4 & G5 & G6).
        split; [exact G1|]. split; [exact G2|]. split; [exact G3|]. split; [exact G4|]. split; [exact G5|discriminate].
    - (* a reply *)
      split; [exact Hf|]. intro m. destruct (N.eq_dec m n) as [->|Hmn]; [|other_by_ch s m Hmn H].
      destruct (H n) as (HP & HO & HC). unfold chan_inv. cbn [with_ch y_ch]. rewrite yupd_same. fields.
      split; [exact HP|]. split.
      + intro E. specialize (HO E). unfold open_inv, inflight in *. cbn [with_ch y_ch y_inwire y_outwire y_outbuf y_seen y_dead].
        rewrite yupd_same. fields. rewrite Hw, Hr in HO. destruct HO as (H1 & H2 & H3 & H4 & H5 & H6 & H7 & H8).
        change (rvals (RVal v :: rest)) with (v :: rvals rest) in *. cbn [app length] in *.
        split; [rewrite H1; rewrite <- app_assoc; reflexivity|]. split; [lia|]. split.
        { intro F. specialize (H3 F). lia. }
        split; [intro F; destruct (H4 F); discriminate|]. split; [exact H5|].
        split; [exact H6|]. split; [exact H7|exact H8].
      + intro E. specialize (HC E). unfold closed_inv in *. cbn [with_ch y_ch y_inwire].
        rewrite yupd_same. fields. rewrite Hr in HC. destruct HC as ((tail & G1) & G2 & G3 & G4 & G5 & G6).
        change (rvals (RVal v :: rest)) with (v :: rvals rest) in *. change (nverdicts (RVal v :: rest)) with (nverdicts rest) in *.
        cbn [app length] in *.
        split; [exists tail; rewrite G1; rewrite <- app_assoc; reflexivity|]. split; [lia|]. split; [exact G3|].
        split; [exact G4|]. split; [exact G5|discriminate].
    - (* the verdict *)
      split; [exact Hf|]. intro m. destruct (N.eq_dec m n) as [->|Hmn]; [|other_by_ch s m Hmn H].
      destruct (H n) as (HP & HO & HC). unfold chan_inv. cbn [with_ch y_ch]. rewrite yupd_same. fields.
      split; [exact HP|]. split.
      + intro E. specialize (HO E). unfold open_inv in HO. rewrite Hr in HO. destruct HO as (_ & _ & _ & _ & _ & H6 & _).
        change (nverdicts (RVerdict :: rest)) with (S (nverdicts rest)) in H6. discriminate.
      + intro E. specialize (HC E). unfold closed_inv in *. cbn [with_ch y_ch y_inwire].
        rewrite yupd_same. fields. rewrite Hr in HC. destruct HC as (G1 & G2 & G3 & G4 & G5 & G6).
        change (rvals (RVerdict :: rest)) with (rvals rest) in *. change (nverdicts (RVerdict :: rest)) with (S (nverdicts rest)) in *.
        split; [exact G1|]. split; [exact G2|]. split; [lia|]. split; [exact G4|]. split; [exact G5|discriminate].
  Qed.

  Lemma step_drain s n k : YInv s -> YInv (ystep answer bound qcap s (ADrain n k)).
  Proof.
    intros [Hf H]. unfold ystep. rewrite Hf.
    destruct (y_dead s || yc_slot_gone (y_ch s n)) eqn:Hgone; [split; assumption|].
    apply orb_false_iff in Hgone as [Hd Hg].
    split; [reflexivity|]. intro m. destruct (N.eq_dec m n) as [->|Hmn].
    - destruct (H n) as (HP & HO & HC). unfold chan_inv. cbn [y_ch]. rewrite yupd_same. fields.
      split; [exact HP|]. split.
      + intro E. specialize (HO E). unfold open_inv, inflight in *. cbn [y_ch y_inwire y_outwire y_outbuf y_seen y_dead].
        rewrite yupd_same. fields.
        rewrite <- (firstn_skipn k (yc_mail (y_ch s n))) in HO at 1 2 3 4. norm. rewrite projc_map_same. norm.
        destruct HO as (H1 & H2 & H3 & H4 & H5 & H6 & H7 & H8).
        split; [exact H1|]. split; [exact H2|]. split; [exact H3|]. split; [exact H4|]. split; [exact H5|].
        split; [exact H6|]. split; [exact H7|exact H8].
      + intro E. specialize (HC E). unfold closed_inv in *. cbn [y_ch y_inwire]. rewrite yupd_same. fields. exact HC.
    - apply (@chan_inv_same m s); [|exact (H m)].
      constructor; cbn [y_ch y_inwire y_outwire y_outbuf y_seen y_dead]; rewrite ?(yupd_other _ _ Hmn); try reflexivity.
      + rewrite projc_app, (projc_map_other _ Hmn), app_nil_r. reflexivity.
      + intro D. congruence.
  Qed.

  Lemma step_write s k : YInv s -> YInv (ystep answer bound qcap s (AWrite k)).
  Proof.
    intros [Hf H]. unfold ystep. rewrite Hf.
    destruct (y_dead s) eqn:Hd; [split; assumption|].
    split; [reflexivity|]. intro m. apply (@chan_inv_same m s); [|exact (H m)].
    constructor; cbn [y_ch y_inwire y_outwire y_outbuf y_seen y_dead]; try reflexivity.
    - rewrite projc_app, <- app_assoc, projc_firstn_skipn. reflexivity.
    - intro D. congruence.
  Qed.

  Lemma step_die s : YInv s -> YInv (ystep answer bound qcap s ADie).
  Proof.
    intros [Hf H]. unfold ystep. rewrite Hf.
    split; [reflexivity|]. intro m. apply (@chan_inv_same m s); [|exact (H m)].
    constructor; cbn [y_ch y_inwire y_outwire y_outbuf y_seen y_dead]; reflexivity.
  Qed.

  Lemma step_srvread s : YInv s -> YInv (ystep answer bound qcap s ASrvRead).
  Proof.
    intros [Hf H]. unfold ystep. rewrite Hf.
    destruct (y_outwire s) as [|[n x] rest] eqn:Ho; [split; assumption|].
    split; [reflexivity|]. intro m. destruct (N.eq_dec m n) as [->|Hmn].
    - destruct (H n) as (HP & HO & HC). unfold chan_inv.
      destruct (yc_srv_closed (y_ch s n)) eqn:Ecl.
      + (* closed: the request is discarded *)
        cbn [negb]. rewrite andb_false_r. cbn [y_ch]. split; [exact HP|]. split; [intro; congruence|].
        intros _. specialize (HC eq_refl). unfold closed_inv in *. cbn [y_ch y_inwire]. exact HC.
      + cbn [negb]. rewrite andb_true_r. specialize (HO eq_refl).
        unfold open_inv, inflight in *. rewrite Ho, projc_cons, N.eqb_refl in HO.
        destruct (is_sync x) eqn:Hs.
        * cbn [y_ch y_inwire y_outwire y_outbuf y_seen y_dead]. unfold yupd. rewrite !N.eqb_refl. fields. split; [exact HP|]. split; [|intro; congruence].
          intros _.
          rewrite projc_app, (projc_cons n n x []), N.eqb_refl. change (projc n (@nil (N * call))) with (@nil call).
          norm. rewrite Hs in HO. cbn [map app] in *.
          destruct HO as (H1 & H2 & H3 & H4 & H5 & H6 & H7 & H8).
          split; [exact H1|]. split; [normlen; normlen; cbn [length] in *; lia|]. split.
          { intro F. specialize (H3 F). normlen. normlen. cbn [length] in *. lia. }
          split; [exact H4|]. split; [exact H5|]. split; [exact H6|]. split; [exact H7|exact H8].
        * cbn [y_ch]. split; [exact HP|]. split; [|intro; congruence].
          intros _. cbn [y_ch y_inwire y_outwire y_outbuf y_seen y_dead].
          rewrite projc_app, (projc_cons n n x []), N.eqb_refl. change (projc n (@nil (N * call))) with (@nil call).
          norm. rewrite Hs in HO. cbn [map app] in *. exact HO.
    - apply (@chan_inv_same m s); [|exact (H m)].
      constructor; cbn [y_ch y_inwire y_outwire y_outbuf y_seen y_dead].
      + destruct (is_sync x && negb (yc_srv_closed (y_ch s n))); [rewrite (yupd_other _ _ Hmn)|]; reflexivity.
      + reflexivity.
      + rewrite projc_app, projc_cons. destruct (n =? m) eqn:E; [apply N.eqb_eq in E; congruence|].
        cbn [app]. change (projc m (@nil (N * call))) with (@nil call). apply app_nil_r.
      + rewrite Ho, projc_cons. destruct (n =? m) eqn:E; [apply N.eqb_eq in E; congruence|]. reflexivity.
      + intro D; exact D.
  Qed.

  Ltac other_by_wire s m n Hmn H :=
    apply (@chan_inv_same m s); [|exact (H m)];
    constructor; cbn [y_ch y_inwire y_outwire y_outbuf y_seen y_dead];
    rewrite ?(yupd_other _ _ Hmn); try reflexivity; try (intro; assumption);
    rewrite ?projc_app, ?projc_cons;
    (destruct (n =? m) eqn:?E; [apply N.eqb_eq in E; congruence|]);
    cbn [app]; rewrite ?app_nil_r; reflexivity.

  Lemma step_answer s n : YInv s -> YInv (ystep answer bound qcap s (ASrvAnswer n)).
  Proof.
    intros [Hf H]. unfold ystep. rewrite Hf.
    destruct (yc_pend (y_ch s n)) as [|r rest] eqn:Hp; [split; assumption|].
    split; [reflexivity|]. intro m. destruct (N.eq_dec m n) as [->|Hmn]; [|other_by_wire s m n Hmn H].
    destruct (H n) as (HP & HO & HC). unfold chan_inv. cbn [y_ch]. unfold yupd. rewrite !N.eqb_refl. fields.
    split; [exact HP|]. split.
    - intro E. specialize (HO E). unfold open_inv, inflight in *. cbn [y_ch y_inwire y_outwire y_outbuf y_seen y_dead].
      unfold yupd. rewrite !N.eqb_refl. fields. rewrite Hp in HO.
      rewrite projc_app, (projc_cons n n (WReply (answer n r)) []), N.eqb_refl.
      change (projc n (@nil (N * witem))) with (@nil witem). norm.
      change (wvals [WReply (answer n r)]) with [answer n r]. cbn [map app] in *.
      destruct HO as (H1 & H2 & H3 & H4 & H5 & H6 & H7 & H8).
      split; [exact H1|]. split. { normlen. normlen. cbn [length] in *. exact H2. } split.
      { intro F. specialize (H3 F). normlen. normlen. cbn [length] in *. exact H3. }
      split; [exact H4|]. split; [exact H5|]. split; [exact H6|]. split; [rewrite ncloses_app, H7; reflexivity|exact H8].
    - intro E. destruct (HC E) as (_ & _ & _ & _ & G5 & _). congruence.
  Qed.

  Lemma step_close s n : YInv s -> YInv (ystep answer bound qcap s (ASrvClose n)).
  Proof.
    intros [Hf H]. unfold ystep. rewrite Hf.
    destruct (yc_srv_closed (y_ch s n)) eqn:Ecl; [split; assumption|].
    split; [reflexivity|]. intro m. destruct (N.eq_dec m n) as [->|Hmn]; [|other_by_wire s m n Hmn H].
    destruct (H n) as (HP & HO & _). specialize (HO Ecl).
    unfold chan_inv. cbn [y_ch]. unfold yupd. rewrite !N.eqb_refl. fields.
    split; [exact HP|]. split; [discriminate|]. intros _.
    unfold open_inv, inflight, closed_inv in *. cbn [y_ch y_inwire]. unfold yupd. rewrite !N.eqb_refl. fields.
    rewrite projc_app, (projc_cons n n WClose []), N.eqb_refl. change (projc n (@nil (N * witem))) with (@nil witem).
    rewrite wvals_app, ncloses_app. change (wvals [WClose]) with (@nil N). change (ncloses [WClose]) with 1%nat. rewrite app_nil_r.
    destruct HO as (H1 & H2 & H3 & H4 & H5 & H6 & H7 & H8).
    split; [eexists; rewrite H1; rewrite <- ?app_assoc; reflexivity|].
    split; [clear - H2; rewrite !app_length in H2; rewrite app_length; lia|]. split; [rewrite H6, H7; cbn; lia|]. split; [split; [congruence|apply close_lastb_snoc; exact H7]|]. split; [reflexivity|].
    intro W. destruct (yc_failed (y_ch s n)) eqn:F; [|reflexivity]. destruct (H4 eq_refl). congruence.
  Qed.

  Lemma step_read s : YInv s -> YInv (ystep answer bound qcap s ARead).
  Proof.
    intros [Hf H]. unfold ystep. rewrite Hf.
    destruct (y_dead s) eqn:Hd; [split; assumption|].
    destruct (y_inwire s) as [|[n it] rest] eqn:Hi; [split; assumption|].
    destruct (H n) as (HP & HO & HC).
    (* the slot is there, and there is room *)
    assert (Hslot : yc_slot_gone (y_ch s n) = false).
    { destruct (yc_srv_closed (y_ch s n)) eqn:Ecl.
      - destruct (HC eq_refl) as (_ & _ & _ & (G4 & _) & _). destruct (yc_slot_gone (y_ch s n)); [|reflexivity].
        specialize (G4 eq_refl). rewrite Hi, projc_cons, N.eqb_refl in G4. discriminate.
      - destruct (HO eq_refl) as (_ & _ & _ & _ & _ & _ & _ & H8). exact H8. }
    assert (Hroom : N.of_nat (length (yc_replyq (y_ch s n))) <? qcap = true).
    { apply N.ltb_lt. rewrite length_ritems.
      destruct (yc_srv_closed (y_ch s n)) eqn:Ecl.
      - destruct (HC eq_refl) as (_ & G2 & G3 & _). rewrite Hi, projc_cons, N.eqb_refl in G2, G3.
        rewrite app_length in G2. destruct it; cbn in G2, G3; rewrite ?app_length in *; lia.
      - destruct (HO eq_refl) as (_ & H2 & _ & _ & _ & H6 & H7 & _). unfold inflight in H2.
        rewrite Hi, projc_cons, N.eqb_refl in H2, H7. rewrite !app_length in H2.
        destruct it; cbn in H2, H7; [|discriminate]. lia. }
    rewrite Hslot, Hroom.
    destruct it as [v|].
    - (* a reply *)
      split; [reflexivity|]. intro m. destruct (N.eq_dec m n) as [->|Hmn].
      + unfold chan_inv. cbn [y_ch]. unfold yupd. rewrite !N.eqb_refl. fields.
        split; [exact HP|]. split.
        * intro E. specialize (HO E). unfold open_inv, inflight in *. cbn [y_ch y_inwire y_outwire y_outbuf y_seen y_dead].
          unfold yupd. rewrite !N.eqb_refl. fields. rewrite Hi, projc_cons, N.eqb_refl in HO.
          rewrite rvals_app, nverdicts_app. change (rvals [RVal v]) with [v]. change (nverdicts [RVal v]) with 0%nat.
          change (wvals ([WReply v] ++ projc n rest)) with (v :: wvals (projc n rest)) in HO.
          change (ncloses ([WReply v] ++ projc n rest)) with (ncloses (projc n rest)) in HO.
          rewrite <- !app_assoc. cbn [app] in *.
          destruct HO as (H1 & H2 & H3 & H4 & H5 & H6 & H7 & H8).
          split; [exact H1|]. split; [rewrite !app_length in *; cbn [length] in *; lia|]. split.
          { intro F. specialize (H3 F). rewrite !app_length in *. cbn [length] in *. lia. }
          split; [intro F; destruct (H4 F) as [D _]; congruence|]. split; [exact H5|]. split; [lia|]. split; [exact H7|exact H8].
        * intro E. specialize (HC E). unfold closed_inv in *. cbn [y_ch y_inwire]. unfold yupd. rewrite !N.eqb_refl. fields.
          rewrite Hi, projc_cons, N.eqb_refl in HC.
          rewrite rvals_app, nverdicts_app. change (rvals [RVal v]) with [v]. change (nverdicts [RVal v]) with 0%nat.
          change (wvals ([WReply v] ++ projc n rest)) with (v :: wvals (projc n rest)) in HC.
          change (ncloses ([WReply v] ++ projc n rest)) with (ncloses (projc n rest)) in HC.
          rewrite <- !app_assoc. cbn [app] in *.
          destruct HC as ((tail & G1) & G2 & G3 & G4 & G5 & G6).
          split; [exists tail; rewrite G1; rewrite <- !app_assoc; reflexivity|]. split; [rewrite !app_length in *; cbn [length] in *; lia|]. split; [lia|].
          split; [split; [intro X; congruence|exact (close_lastb_tail (proj2 G4))]|]. split; [exact G5|exact G6].
      + apply (@chan_inv_same m s); [|exact (H m)].
        constructor; cbn [y_ch y_inwire y_outwire y_outbuf y_seen y_dead]; unfold yupd;
          try (destruct (m =? n) eqn:E1; [apply N.eqb_eq in E1; congruence|]); try reflexivity; try (intro; assumption).
        all: try (rewrite Hi, projc_cons; destruct (n =? m) eqn:E2; [apply N.eqb_eq in E2; congruence|]; reflexivity).
        all: intro; congruence.
    - (* the server's Channel.Close *)
      split; [reflexivity|]. intro m. destruct (N.eq_dec m n) as [->|Hmn].
      + unfold chan_inv. cbn [y_ch]. unfold yupd. rewrite !N.eqb_refl. fields.
        split; [exact HP|]. split.
        * intro E. specialize (HO E). destruct HO as (_ & _ & _ & _ & _ & _ & H7 & _).
          rewrite Hi, projc_cons, N.eqb_refl in H7. cbn in H7. discriminate.
        * intro E. specialize (HC E). unfold closed_inv in *. cbn [y_ch y_inwire]. unfold yupd. rewrite !N.eqb_refl. fields.
          rewrite Hi, projc_cons, N.eqb_refl in HC.
          rewrite rvals_app, nverdicts_app. change (rvals [RVerdict]) with (@nil N). change (nverdicts [RVerdict]) with 1%nat.
          change (wvals ([WClose] ++ projc n rest)) with (wvals (projc n rest)) in HC.
          change (ncloses ([WClose] ++ projc n rest)) with (S (ncloses (projc n rest))) in HC.
          rewrite app_nil_r.
          destruct HC as (G1 & G2 & G3 & G4 & G5 & G6).
          split; [exact G1|]. split; [exact G2|]. split; [lia|]. split.
          { destruct G4 as [_ G7]. cbn [app close_lastb] in G7.
            destruct (projc n rest) as [|w tl] eqn:Er; [split; [reflexivity|reflexivity]|discriminate]. }
          split; [exact G5|exact G6].
      + apply (@chan_inv_same m s); [|exact (H m)].
        constructor; cbn [y_ch y_inwire y_outwire y_outbuf y_seen y_dead]; unfold yupd;
          try (destruct (m =? n) eqn:E1; [apply N.eqb_eq in E1; congruence|]); try reflexivity; try (intro; assumption).
        all: try (rewrite Hi, projc_cons; destruct (n =? m) eqn:E2; [apply N.eqb_eq in E2; congruence|]; reflexivity).
        all: intro; congruence.
  Qed.

  Lemma YInv_step s a : YInv s -> YInv (ystep answer bound qcap s a).
  Proof.
    destruct a; [apply step_send|apply step_recv|apply step_drain|apply step_write|apply step_srvread
                |apply step_answer|apply step_close|apply step_read|apply step_die].
  Qed.

  Lemma YInv_run sched : forall s, YInv s -> YInv (yrun answer bound qcap s sched).
  Proof.
    induction sched as [|a sched IH]; intros s H; cbn [yrun fold_left]; [exact H|].
    apply IH. apply YInv_step. exact H.
  Qed.

  Lemma prefix_of_app (r rest : list N) (l : list N) :
    l = r ++ rest -> r = firstn (length r) l.
  Proof. intros ->. rewrite firstn_app, Nat.sub_diag, firstn_all. cbn [firstn]. rewrite app_nil_r. reflexivity. Qed.

  (* EVERY schedule: any number of channels, any interleaving of callers, I/O thread and
     server, any cross-channel order of the server's answers, the server closing any channel at
     any moment, the I/O thread ending at any moment *)
  Theorem sys_own_reply sched :
    let s := yrun answer bound qcap (init_sys progs) sched in
    y_fail s = false /\
    forall n, let c := y_ch s n in
      yc_results c = map (answer n) (firstn (length (yc_results c)) (syncs (yc_issued c))) /\
      (yc_srv_closed c = false -> yc_wait c = false -> yc_failed c = false ->
       yc_results c = map (answer n) (syncs (yc_issued c))) /\
      (yc_srv_closed c = false -> yc_wait c = true ->
       exists r, syncs (yc_issued c) = firstn (length (yc_results c)) (syncs (yc_issued c)) ++ [r] /\
                 inflight answer s n = [answer n r]) /\
      (length (yc_replyq c) <= 2)%nat /\
      yc_issued c ++ yc_prog c = progs n /\
      (yc_failed c = true -> y_dead s = true \/ yc_srv_closed c = true).
  Proof.
    cbn zeta. pose proof (YInv_run sched YInv_init) as [Hf H]. split; [exact Hf|].
    intro n. destruct (H n) as (HP & HO & HC).
    set (s := yrun answer bound qcap (init_sys progs) sched) in *.
    assert (Hpre : yc_results (y_ch s n) = map (answer n) (firstn (length (yc_results (y_ch s n))) (syncs (yc_issued (y_ch s n))))).
    { rewrite <- firstn_map. destruct (yc_srv_closed (y_ch s n)) eqn:Ecl.
      - destruct (HC eq_refl) as ((tail & G1) & _). exact (prefix_of_app G1).
      - destruct (HO eq_refl) as (H1 & _). exact (prefix_of_app H1). }
    split; [exact Hpre|]. split; [|split; [|split; [|split]]].
    - intros Ecl Hw Hfl. destruct (HO Ecl) as (H1 & _ & H3 & _). specialize (H3 Hfl). rewrite Hw in H3.
      apply length_zero_iff_nil in H3. rewrite H3, app_nil_r in H1. symmetry. exact H1.
    - intros Ecl Hw. destruct (HO Ecl) as (H1 & _ & H3 & H4 & _).
      assert (Hfl : yc_failed (y_ch s n) = false).
      { destruct (yc_failed (y_ch s n)) eqn:E; [|reflexivity]. destruct (H4 eq_refl). congruence. }
      specialize (H3 Hfl). rewrite Hw in H3.
      destruct (inflight answer s n) as [|v [|v' t]] eqn:Ei; try discriminate.
      assert (Hlen : length (syncs (yc_issued (y_ch s n))) = S (length (yc_results (y_ch s n)))).
      { rewrite <- (map_length (answer n)), H1, app_length. cbn. lia. }
      pose proof (firstn_skipn (length (yc_results (y_ch s n))) (syncs (yc_issued (y_ch s n)))) as Hsplit.
      destruct (skipn (length (yc_results (y_ch s n))) (syncs (yc_issued (y_ch s n)))) as [|r [|r' t]] eqn:Es.
      + exfalso. apply (f_equal (@length N)) in Hsplit. rewrite app_length, firstn_length in Hsplit. cbn in Hsplit. lia.
      + exists r. split; [symmetry; exact Hsplit|].
        rewrite <- Hsplit in H1. rewrite map_app in H1. rewrite <- Hpre in H1. apply app_inv_head in H1.
        cbn in H1. congruence.
      + exfalso. apply (f_equal (@length N)) in Hsplit. rewrite app_length, firstn_length in Hsplit. cbn in Hsplit. lia.
    - rewrite length_ritems. destruct (yc_srv_closed (y_ch s n)) eqn:Ecl.
      + destruct (HC eq_refl) as (_ & G2 & G3 & _). rewrite app_length in G2. lia.
      + destruct (HO eq_refl) as (_ & H2 & _ & _ & _ & H6 & _). unfold inflight in H2.
        rewrite app_length in H2. lia.
    - exact HP.
    - intro F. destruct (yc_srv_closed (y_ch s n)) eqn:Ecl; [right; reflexivity|]. left.
      destruct (HO eq_refl) as (_ & _ & _ & H4 & _). exact (proj1 (H4 F)).
  Qed.

  (* THE BOUND OF 2 IS ENOUGH: with one reply and one verdict of room, the I/O thread's send never
     finds a reply queue full, and no frame arrives for a channel whose slot is gone - under a
     server that answers each request once and sends nothing on a channel after closing it *)
  Theorem sys_reply_queue_never_full sched :
    y_fail (yrun answer bound qcap (init_sys progs) sched) = false.
  Proof. exact (proj1 (sys_own_reply sched)). Qed.

  (* NOBODY WAITS FOR NOTHING: while the I/O thread lives, whenever a caller of a channel the
     server has not closed is blocked, its one outstanding item is in one of the six stages, and
     the action that moves it on is enabled - no reachable state is a deadlock *)
  Theorem sys_waiting_progress sched n :
    let s := yrun answer bound qcap (init_sys progs) sched in
    yc_srv_closed (y_ch s n) = false -> yc_wait (y_ch s n) = true ->
    yc_replyq (y_ch s n) <> [] \/ y_inwire s <> [] \/ yc_pend (y_ch s n) <> [] \/
    y_outwire s <> [] \/ y_outbuf s <> [] \/ yc_mail (y_ch s n) <> [].
  Proof.
    cbn zeta. intros Ecl Hw. pose proof (YInv_run sched YInv_init) as [_ H]. destruct (H n) as (_ & HO & _).
    destruct (HO Ecl) as (_ & _ & H3 & H4 & _).
    set (s := yrun answer bound qcap (init_sys progs) sched) in *.
    assert (Hfl : yc_failed (y_ch s n) = false).
    { destruct (yc_failed (y_ch s n)) eqn:E; [|reflexivity]. destruct (H4 eq_refl). congruence. }
    specialize (H3 Hfl). rewrite Hw in H3. unfold inflight in H3.
    destruct (yc_replyq (y_ch s n)); [|left; discriminate].
    destruct (y_inwire s); [|right; left; discriminate].
    destruct (yc_pend (y_ch s n)); [|right; right; left; discriminate].
    destruct (y_outwire s); [|right; right; right; left; discriminate].
    destruct (y_outbuf s); [|right; right; right; right; left; discriminate].
    destruct (yc_mail (y_ch s n)); [|right; right; right; right; right; discriminate].
    cbn in H3. discriminate.
  Qed.

  (* WHEN THE CONNECTION DIES - OR THE SERVER HAS CLOSED THE CHANNEL - NOBODY HANGS (C05, C09): in
     every reachable state in which the I/O thread has ended, or has processed the server's close
     of channel n, a blocked caller's recv returns at once (the reply that was already queued, the
     verdict, or an error), and a caller's next call returns an error at once without handing
     anything over *)
  Theorem sys_dead_releases sched n :
    let s := yrun answer bound qcap (init_sys progs) sched in
    y_dead s = true \/ yc_slot_gone (y_ch s n) = true ->
    yc_wait (y_ch (ystep answer bound qcap s (ARecv n)) n) = false /\
    yc_wait (y_ch (ystep answer bound qcap s (ASend n)) n) = yc_wait (y_ch s n) /\
    (yc_wait (y_ch s n) = false -> yc_failed (y_ch s n) = false -> yc_prog (y_ch s n) <> [] ->
     yc_failed (y_ch (ystep answer bound qcap s (ASend n)) n) = true /\
     yc_mail (y_ch (ystep answer bound qcap s (ASend n)) n) = yc_mail (y_ch s n)).
  Proof.
    cbn zeta. intro Hd. pose proof (YInv_run sched YInv_init) as [Hf _].
    set (s := yrun answer bound qcap (init_sys progs) sched) in *.
    assert (Hg : y_dead s || yc_slot_gone (y_ch s n) = true) by (apply orb_true_iff; exact Hd).
    unfold ystep. rewrite Hf, Hg. split; [|split].
    - destruct (yc_wait (y_ch s n)) eqn:Hw; [|exact Hw].
      destruct (yc_replyq (y_ch s n)) as [|[v|] r]; cbn [with_ch y_ch]; rewrite yupd_same; reflexivity.
    - destruct (yc_wait (y_ch s n)) eqn:Hw; cbn [orb]; [exact Hw|].
      destruct (yc_failed (y_ch s n)); [exact Hw|].
      destruct (yc_prog (y_ch s n)); [exact Hw|]. cbn [with_ch y_ch]. rewrite yupd_same. reflexivity.
    - intros Hw Hfl Hp. rewrite Hw, Hfl. cbn [orb].
      destruct (yc_prog (y_ch s n)); [contradiction|]. cbn [with_ch y_ch]. rewrite yupd_same. split; reflexivity.
  Qed.

  (* C01 AT THE LEVEL OF THE SYSTEM: for a channel the server has not closed, what the server has
     read of it, followed by what is still on its way (on the wire, in the out-buffer, in the
     mailbox), is exactly what caller n issued, in order - no frame of a channel is lost,
     duplicated or overtaken by another frame of the same channel, however the channels' frames
     interleave, whatever prefix each drain or write takes; and what was issued is a prefix of
     the caller's program *)
  Theorem sys_wire_order sched n :
    let s := yrun answer bound qcap (init_sys progs) sched in
    yc_srv_closed (y_ch s n) = false ->
    projc n (y_seen s) ++ projc n (y_outwire s) ++ projc n (y_outbuf s) ++ yc_mail (y_ch s n)
      = yc_issued (y_ch s n) /\
    yc_issued (y_ch s n) ++ yc_prog (y_ch s n) = progs n.
  Proof.
    cbn zeta. intro Ecl. pose proof (YInv_run sched YInv_init) as [_ H].
    destruct (H n) as (HP & HO & _). destruct (HO Ecl) as (_ & _ & _ & _ & H5 & _). split; assumption.
  Qed.
End Safety.
