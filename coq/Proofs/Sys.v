(* A synchronous call returns the server's reply to that very call, under EVERY interleaving
   of callers, I/O thread and server (Model/Sys.v): invariant by induction over schedules.
   Stdlib only, no axioms. *)
From Amq Require Import Lib.Base Model.Sys.

Lemma projc_app {A} n (a b : list (N * A)) : projc n (a ++ b) = projc n a ++ projc n b.
Proof. unfold projc. apply flat_map_app. Qed.

Lemma syncs_app a b : syncs (a ++ b) = syncs a ++ syncs b.
Proof. unfold syncs. apply flat_map_app. Qed.

Lemma projc_map_same {A} n (l : list A) : projc n (map (pair n) l) = l.
Proof.
  induction l as [|x l IH]; [reflexivity|]. cbn [map]. unfold projc in *. cbn [flat_map fst snd].
  rewrite N.eqb_refl. cbn [app]. f_equal. exact IH.
Qed.

Lemma projc_map_other {A} m n (l : list A) : m <> n -> projc m (map (pair n) l) = [].
Proof.
  intro H. induction l as [|x l IH]; [reflexivity|]. cbn [map]. unfold projc in *. cbn [flat_map fst snd].
  destruct (n =? m) eqn:E; [apply N.eqb_eq in E; congruence|]. exact IH.
Qed.

Lemma projc_cons {A} n m (x : A) l :
  projc m ((n, x) :: l) = (if n =? m then [x] else []) ++ projc m l.
Proof. reflexivity. Qed.

Lemma projc_firstn_skipn {A} n k (l : list (N * A)) :
  projc n (firstn k l) ++ projc n (skipn k l) = projc n l.
Proof. rewrite <- projc_app, firstn_skipn. reflexivity. Qed.

Lemma yupd_same {A} (f : N -> A) n v : yupd f n v n = v.
Proof. unfold yupd. rewrite N.eqb_refl. reflexivity. Qed.

Lemma yupd_other {A} (f : N -> A) n v m : m <> n -> yupd f n v m = f m.
Proof. unfold yupd. intro H. destruct (m =? n) eqn:E; [apply N.eqb_eq in E; congruence|reflexivity]. Qed.

Lemma syncs_one x : syncs [x] = if is_sync x then [snd x] else [].
Proof. unfold syncs. cbn [flat_map]. rewrite app_nil_r. reflexivity. Qed.

Section Safety.
  Variable answer : N -> N -> N.
  Variables bound qcap : N.
  Variable progs : N -> list call.
  Hypothesis Hq : 1 <= qcap.

  Definition chan_inv (s : sys) (n : N) : Prop :=
    let c := y_ch s n in
    map (answer n) (syncs (yc_issued c)) = yc_results c ++ inflight answer s n /\
    (yc_failed c = false -> length (inflight answer s n) = (if yc_wait c then 1 else 0)%nat) /\
    yc_issued c ++ yc_prog c = progs n /\
    (yc_failed c = true -> y_dead s = true /\ yc_wait c = false) /\
    projc n (y_seen s) ++ projc n (y_outwire s) ++ projc n (y_outbuf s) ++ yc_mail c = yc_issued c.

  Definition YInv (s : sys) : Prop := y_fail s = false /\ forall n, chan_inv s n.

  Lemma YInv_init : YInv (init_sys progs).
  Proof. split; [reflexivity|]. intro n. repeat split; cbn; intros; discriminate. Qed.

  Ltac chan_cases m n :=
    destruct (N.eq_dec m n) as [->|Hmn];
    [rewrite ?yupd_same|rewrite ?(yupd_other _ _ Hmn)].

  Ltac norm := repeat progress (rewrite ?projc_app, ?syncs_app, ?map_app, ?syncs_one, ?app_nil_r in * );
               rewrite <- ?app_assoc in *.
  Ltac normlen := rewrite ?app_length, ?map_length in *.
  Ltac fields := cbn [yc_issued yc_results yc_replyq yc_pend yc_mail yc_wait yc_prog yc_failed].
  Ltac open m H := intro m; specialize (H m); unfold chan_inv, inflight in *;
                   cbn [with_ch y_ch y_inwire y_outwire y_outbuf y_dead y_seen].

  Lemma YInv_step s a : YInv s -> YInv (ystep answer bound qcap s a).
  Proof.
    intros [Hf H]. unfold ystep. rewrite Hf.
    destruct a as [n|n|n k|k| |n| | ].
    - (* ASend *)
      destruct (yc_wait (y_ch s n)) eqn:Hw; [split; assumption|].
      destruct (yc_failed (y_ch s n)) eqn:Hfl; [split; assumption|]. cbn [orb].
      destruct (yc_prog (y_ch s n)) as [|x rest] eqn:Hp; [split; assumption|].
      destruct (y_dead s) eqn:Hd.
      + (* the send fails *)
        split; [exact Hf|]. open m H. chan_cases m n; [|exact H]. fields.
        destruct H as (H1 & H2 & H3 & H4 & H5). rewrite Hp in H3.
        split; [exact H1|]. split; [discriminate|]. split; [exact H3|]. split; [intros _; split; [exact Hd|reflexivity]|exact H5].
      + destruct (_ <? bound); [|split; assumption].
        split; [exact Hf|]. open m H. chan_cases m n; [|exact H]. fields.
        rewrite Hw, Hp, Hfl in H. destruct H as (H1 & H2 & H3 & H4 & H5). specialize (H2 eq_refl). norm.
        split; [|split; [|split; [|split]]].
        * rewrite H1. rewrite <- ?app_assoc. reflexivity.
        * intros _. normlen. destruct (is_sync x); cbn [length map]; lia.
        * exact H3.
        * discriminate.
        * rewrite <- H5. rewrite <- ?app_assoc. reflexivity.
    - (* ARecv *)
      destruct (yc_wait (y_ch s n)) eqn:Hw; [|split; assumption].
      destruct (yc_replyq (y_ch s n)) as [|v rest] eqn:Hr.
      + destruct (y_dead s) eqn:Hd; [|split; assumption].
        split; [exact Hf|]. open m H. chan_cases m n; [|exact H]. fields.
        rewrite Hr in H. destruct H as (H1 & H2 & H3 & H4 & H5).
        split; [exact H1|]. split; [discriminate|]. split; [exact H3|]. split; [intros _; split; [exact Hd|reflexivity]|exact H5].
      + split; [exact Hf|]. open m H. chan_cases m n; [|exact H]. fields.
        rewrite Hw, Hr in H. destruct H as (H1 & H2 & H3 & H4 & H5). norm.
        split; [|split; [|split; [|split]]].
        * rewrite H1. rewrite <- ?app_assoc. reflexivity.
        * intro E. specialize (H2 E). cbn [app length] in H2. lia.
        * exact H3.
        * intro E. destruct (H4 E). discriminate.
        * exact H5.
    - (* ADrain *)
      destruct (y_dead s) eqn:Hd; [split; assumption|].
      split; [reflexivity|]. open m H. rewrite Hd in *.
      chan_cases m n.
      + fields.
        rewrite <- (firstn_skipn k (yc_mail (y_ch s n))) in H at 1 2 3. norm.
        rewrite projc_map_same. norm. exact H.
      + rewrite projc_app, (projc_map_other _ Hmn). norm. exact H.
    - (* AWrite *)
      destruct (y_dead s) eqn:Hd; [split; assumption|].
      split; [reflexivity|]. open m H. rewrite Hd in *.
      rewrite <- (firstn_skipn k (y_outbuf s)) in H at 1 2 3. norm. exact H.
    - (* ASrvRead *)
      destruct (y_outwire s) as [|[n x] rest] eqn:Ho; [split; assumption|].
      split; [reflexivity|]. open m H.
      rewrite Ho, projc_cons in H.
      rewrite (projc_app m (y_seen s)), (projc_cons n m x []). change (projc m (@nil (N * call))) with (@nil call).
      destruct (is_sync x) eqn:Hs.
      + chan_cases m n.
        * fields.
          rewrite N.eqb_refl in *. norm. rewrite Hs in H. cbn [map app] in *. exact H.
        * destruct (n =? m) eqn:E; [apply N.eqb_eq in E; congruence|]. norm. exact H.
      + destruct (n =? m) eqn:E; [|norm; exact H].
        norm. rewrite Hs in H. cbn [map app] in *. exact H.
    - (* ASrvAnswer *)
      destruct (yc_pend (y_ch s n)) as [|r rest] eqn:Hp; [split; assumption|].
      split; [reflexivity|]. open m H.
      rewrite projc_app, projc_cons. change (projc m (@nil (N * N))) with (@nil N).
      chan_cases m n.
      + fields.
        rewrite N.eqb_refl. rewrite Hp in H. norm. cbn [map app] in *. exact H.
      + destruct (n =? m) eqn:E; [apply N.eqb_eq in E; congruence|]. norm. exact H.
    - (* ARead *)
      destruct (y_dead s) eqn:Hd; [split; assumption|].
      destruct (y_inwire s) as [|[n v] rest] eqn:Hi; [split; assumption|].
      assert (Hroom : N.of_nat (length (yc_replyq (y_ch s n))) <? qcap = true).
      { pose proof (H n) as (_ & H2 & _ & H4 & _). unfold inflight in H2. rewrite Hi in H2.
        rewrite projc_cons, N.eqb_refl in H2.
        destruct (yc_failed (y_ch s n)) eqn:Hfl; [destruct (H4 eq_refl); congruence|].
        specialize (H2 eq_refl).
        rewrite !app_length in H2. cbn [length app] in H2. apply N.ltb_lt.
        destruct (yc_wait (y_ch s n)); lia. }
      rewrite Hroom.
      split; [reflexivity|]. open m H. rewrite Hd in *.
      rewrite Hi in H. rewrite projc_cons in H.
      chan_cases m n.
      + fields.
        rewrite N.eqb_refl in H. norm. cbn [app] in *. exact H.
      + destruct (n =? m) eqn:E; [apply N.eqb_eq in E; congruence|]. exact H.
    - (* ADie *)
      split; [reflexivity|]. open m H. destruct H as (H1 & H2 & H3 & H4 & H5).
      split; [exact H1|]. split; [exact H2|]. split; [exact H3|]. split; [|exact H5]. intro E. split; [reflexivity|]. apply H4. exact E.
  Qed.

  Lemma YInv_run sched : forall s, YInv s -> YInv (yrun answer bound qcap s sched).
  Proof.
    induction sched as [|a sched IH]; intros s H; cbn [yrun fold_left]; [exact H|].
    apply IH. apply YInv_step. exact H.
  Qed.

  (* EVERY schedule: any number of channels, any interleaving of callers, I/O thread and
     server, any cross-channel order of the server's answers, the I/O thread ending at any
     moment *)
  Theorem sys_own_reply sched :
    let s := yrun answer bound qcap (init_sys progs) sched in
    y_fail s = false /\
    forall n, let c := y_ch s n in
      yc_results c = map (answer n) (firstn (length (yc_results c)) (syncs (yc_issued c))) /\
      (yc_wait c = false -> yc_failed c = false -> yc_results c = map (answer n) (syncs (yc_issued c))) /\
      (yc_wait c = true -> exists r, syncs (yc_issued c) = firstn (length (yc_results c)) (syncs (yc_issued c)) ++ [r] /\
                                    inflight answer s n = [answer n r]) /\
      (yc_failed c = false -> length (yc_replyq c) <= 1)%nat /\
      yc_issued c ++ yc_prog c = progs n /\
      (yc_failed c = true -> y_dead s = true).
  Proof.
    cbn zeta. pose proof (YInv_run sched YInv_init) as [Hf H]. split; [exact Hf|].
    intro n. destruct (H n) as (H1 & H2 & H3 & H4 & H5).
    set (s := yrun answer bound qcap (init_sys progs) sched) in *.
    set (c := y_ch s n) in *.
    assert (Hpre : yc_results c = map (answer n) (firstn (length (yc_results c)) (syncs (yc_issued c)))).
    { rewrite <- firstn_map, H1, firstn_app, Nat.sub_diag, firstn_all. cbn [firstn]. rewrite app_nil_r. reflexivity. }
    split; [exact Hpre|]. split; [|split; [|split; [|split]]].
    - intros Hw Hfl. specialize (H2 Hfl). rewrite Hw in H2. apply length_zero_iff_nil in H2.
      rewrite H2, app_nil_r in H1. symmetry. exact H1.
    - intro Hw.
      assert (Hfl : yc_failed c = false).
      { destruct (yc_failed c) eqn:E; [|reflexivity]. destruct (H4 eq_refl). congruence. }
      specialize (H2 Hfl). rewrite Hw in H2.
      destruct (inflight answer s n) as [|v [|v' t]] eqn:Ei; try discriminate.
      assert (Hlen : length (syncs (yc_issued c)) = S (length (yc_results c))).
      { rewrite <- (map_length (answer n)), H1, app_length. cbn. lia. }
      pose proof (firstn_skipn (length (yc_results c)) (syncs (yc_issued c))) as Hsplit.
      destruct (skipn (length (yc_results c)) (syncs (yc_issued c))) as [|r [|r' t]] eqn:Es.
      + exfalso. apply (f_equal (@length N)) in Hsplit. rewrite app_length, firstn_length in Hsplit. cbn in Hsplit. lia.
      + exists r. split; [symmetry; exact Hsplit|].
        rewrite <- Hsplit in H1. rewrite map_app in H1. rewrite <- Hpre in H1. apply app_inv_head in H1.
        cbn in H1. congruence.
      + exfalso. apply (f_equal (@length N)) in Hsplit. rewrite app_length, firstn_length in Hsplit. cbn in Hsplit. lia.
    - intro Hfl. specialize (H2 Hfl). unfold inflight in H2. fold c in H2. rewrite app_length in H2. destruct (yc_wait c); lia.
    - exact H3.
    - intro E. apply H4. exact E.
  Qed.

  (* C01 AT THE LEVEL OF THE SYSTEM: what the server has read of channel n, followed by what is
     still on its way (on the wire, in the out-buffer, in the mailbox), is exactly what caller n
     issued, in order - no frame of a channel is lost, duplicated or overtaken by another frame
     of the same channel, however the channels' frames interleave, whatever prefix each drain or
     write takes; and what was issued is a prefix of the caller's program *)
  Theorem sys_wire_order sched n :
    let s := yrun answer bound qcap (init_sys progs) sched in
    projc n (y_seen s) ++ projc n (y_outwire s) ++ projc n (y_outbuf s) ++ yc_mail (y_ch s n)
      = yc_issued (y_ch s n) /\
    yc_issued (y_ch s n) ++ yc_prog (y_ch s n) = progs n.
  Proof.
    cbn zeta. pose proof (YInv_run sched YInv_init) as [_ H].
    destruct (H n) as (_ & _ & H3 & _ & H5). split; assumption.
  Qed.

  (* the reply queue never holds more than one item: the capacity the code gives it (2) is
     never reached, the I/O thread's send never finds it full *)
  Theorem sys_reply_queue_never_full sched :
    y_fail (yrun answer bound qcap (init_sys progs) sched) = false.
  Proof. exact (proj1 (sys_own_reply sched)). Qed.

  (* NOBODY WAITS FOR NOTHING: while the I/O thread lives, whenever a caller is blocked its one
     outstanding item is in one of the six stages, and the action that moves it on is enabled -
     no reachable state is a deadlock *)
  Theorem sys_waiting_progress sched n :
    let s := yrun answer bound qcap (init_sys progs) sched in
    yc_wait (y_ch s n) = true ->
    yc_replyq (y_ch s n) <> [] \/ y_inwire s <> [] \/ yc_pend (y_ch s n) <> [] \/
    y_outwire s <> [] \/ y_outbuf s <> [] \/ yc_mail (y_ch s n) <> [].
  Proof.
    cbn zeta. intro Hw. pose proof (YInv_run sched YInv_init) as [_ H]. destruct (H n) as (_ & H2 & _ & H4 & _).
    set (s := yrun answer bound qcap (init_sys progs) sched) in *.
    assert (Hfl : yc_failed (y_ch s n) = false).
    { destruct (yc_failed (y_ch s n)) eqn:E; [|reflexivity]. destruct (H4 eq_refl). congruence. }
    specialize (H2 Hfl). rewrite Hw in H2. unfold inflight in H2.
    destruct (yc_replyq (y_ch s n)); [|left; discriminate].
    destruct (y_inwire s); [|right; left; discriminate].
    destruct (yc_pend (y_ch s n)); [|right; right; left; discriminate].
    destruct (y_outwire s); [|right; right; right; left; discriminate].
    destruct (y_outbuf s); [|right; right; right; right; left; discriminate].
    destruct (yc_mail (y_ch s n)); [|right; right; right; right; right; discriminate].
    cbn in H2. discriminate.
  Qed.

  (* WHEN THE CONNECTION DIES NOBODY HANGS (C05), in every reachable state in which the I/O
     thread has ended - whenever and for whatever reason it ended, whatever was in flight:
     a blocked caller's recv returns at once (the reply that was already queued, or an error),
     and a caller's next call returns an error at once without handing anything over *)
  Theorem sys_dead_releases sched n :
    let s := yrun answer bound qcap (init_sys progs) sched in
    y_dead s = true ->
    yc_wait (y_ch (ystep answer bound qcap s (ARecv n)) n) = false /\
    yc_wait (y_ch (ystep answer bound qcap s (ASend n)) n) = yc_wait (y_ch s n) /\
    (yc_wait (y_ch s n) = false -> yc_failed (y_ch s n) = false -> yc_prog (y_ch s n) <> [] ->
     yc_failed (y_ch (ystep answer bound qcap s (ASend n)) n) = true /\
     yc_mail (y_ch (ystep answer bound qcap s (ASend n)) n) = yc_mail (y_ch s n)).
  Proof.
    cbn zeta. intro Hd. pose proof (YInv_run sched YInv_init) as [Hf _].
    set (s := yrun answer bound qcap (init_sys progs) sched) in *.
    unfold ystep. rewrite Hf, Hd. split; [|split].
    - destruct (yc_wait (y_ch s n)) eqn:Hw; [|exact Hw].
      destruct (yc_replyq (y_ch s n)); cbn [with_ch y_ch]; rewrite yupd_same; reflexivity.
    - destruct (yc_wait (y_ch s n)) eqn:Hw; cbn [orb]; [exact Hw|].
      destruct (yc_failed (y_ch s n)); [exact Hw|].
      destruct (yc_prog (y_ch s n)); [exact Hw|]. cbn [with_ch y_ch]. rewrite yupd_same. reflexivity.
    - intros Hw Hfl Hp. rewrite Hw, Hfl. cbn [orb].
      destruct (yc_prog (y_ch s n)); [contradiction|]. cbn [with_ch y_ch]. rewrite yupd_same. split; reflexivity.
  Qed.
End Safety.
