(* The content collector (Model/Collector.v) against the spec of Spec/Content.v:
   round trip for every message and every partition of its body, and soundness against
   the compliant reading for every frame sequence.  Stdlib only, no axioms. *)
From Amq Require Import Lib.Base Model.Frames Model.Collector Spec.Content.

(* the collector as a machine over one channel's content frames *)
Inductive cev := EvM (k : ckind) | EvH (size props : N) | EvB (b : bytes).

Definition cstep (st : cstate) (e : cev) : cres :=
  match e with
  | EvM k => collect_method k st
  | EvH size props => collect_header size props st
  | EvB b => collect_body b st
  end.

(* run: completed messages in order, and the final state (None after an error) *)
Fixpoint crun (st : cstate) (evs : list cev) : list (ckind * N * bytes) * option cstate :=
  match evs with
  | [] => ([], Some st)
  | e :: evs' =>
      match cstep st e with
      | CErr => ([], None)
      | CMore st' => crun st' evs'
      | CDone k props body => let '(out, fin) := crun CNone evs' in ((k, props, body) :: out, fin)
      end
  end.

Definition crender (k : ckind) (props : N) (parts : list bytes) : list cev :=
  EvM k :: EvH (N.of_nat (length (concat parts))) props :: map EvB parts.

Lemma crun_app st evs1 evs2 out st' :
  crun st evs1 = (out, Some st') ->
  crun st (evs1 ++ evs2) = let '(out2, fin) := crun st' evs2 in (out ++ out2, fin).
Proof.
  revert st out st'. induction evs1 as [|e evs1 IH]; intros st out st' H; cbn [crun app] in *.
  - inversion H; subst. destruct (crun st' evs2); reflexivity.
  - destruct (cstep st e) as [|st1|k p b] eqn:E.
    + discriminate.
    + apply IH; exact H.
    + destruct (crun CNone evs1) as [o1 f1] eqn:E1. inversion H; subst.
      rewrite (IH CNone o1 st' E1). destruct (crun st' evs2). reflexivity.
Qed.

(* body frames that do not yet complete the body: nothing is emitted, bytes accumulate *)
Lemma crun_body_partial k size props acc ps :
  N.of_nat (length (acc ++ concat ps)) < size ->
  crun (CBody k size props acc) (map EvB ps) = ([], Some (CBody k size props (acc ++ concat ps))).
Proof.
  revert acc. induction ps as [|p ps IH]; intros acc Hlt; cbn [map crun concat] in *.
  - rewrite app_nil_r. reflexivity.
  - cbn [cstep collect_body].
    assert (Hp : N.of_nat (length (acc ++ p)) < size).
    { rewrite app_assoc in Hlt. rewrite (app_length (acc ++ p)) in Hlt. lia. }
    destruct (N.compare_spec (N.of_nat (length (acc ++ p))) size) as [E|E|E]; try lia.
    rewrite IH; rewrite <- app_assoc; [reflexivity | exact Hlt].
Qed.

(* the last body frame completes it *)
Lemma crun_body_last k props acc ps p :
  p <> [] ->
  crun (CBody k (N.of_nat (length (acc ++ concat ps ++ p))) props acc) (map EvB (ps ++ [p]))
  = ([(k, props, acc ++ concat ps ++ p)], Some CNone).
Proof.
  intro Hp. rewrite map_app.
  assert (Hlt : N.of_nat (length (acc ++ concat ps)) < N.of_nat (length (acc ++ concat ps ++ p))).
  { rewrite app_assoc, (app_length (acc ++ concat ps)). destruct p; [contradiction|]. simpl. lia. }
  erewrite crun_app; [| apply crun_body_partial; exact Hlt].
  cbn [map crun cstep collect_body].
  rewrite <- app_assoc.
  rewrite N.compare_refl. reflexivity.
Qed.

(* ---------- round trip: one message, any valid partition ---------- *)

Theorem collector_roundtrip k props parts :
  valid_parts parts ->
  crun CNone (crender k props parts) = ([(k, props, concat parts)], Some CNone).
Proof.
  intros [E | (ps & p & E & Hp)]; subst parts; unfold crender.
  - cbn. reflexivity.
  - cbn [crun cstep collect_method collect_header].
    assert (Hc : concat (ps ++ [p]) = concat ps ++ p).
    { rewrite concat_app. cbn [concat]. rewrite app_nil_r. reflexivity. }
    rewrite Hc.
    destruct (N.eqb_spec (N.of_nat (length (concat ps ++ p))) 0) as [E0|E0].
    + rewrite app_length in E0. destruct p; [contradiction|]. simpl in E0. lia.
    + exact (@crun_body_last k props [] ps p Hp).
Qed.

(* nothing is handed on before the last frame of the message has been processed *)
Lemma valid_parts_pos parts : valid_parts parts -> parts <> [] -> 0 < N.of_nat (length (concat parts)).
Proof.
  intros [E | (ps & p & E & Hp)] Hne; [contradiction|]. subst.
  rewrite concat_app, app_length. cbn [concat]. rewrite app_nil_r.
  destruct p; [contradiction|]. simpl. lia.
Qed.

Lemma last_app_ne {A} (l1 l2 : list A) d : l2 <> [] -> last (l1 ++ l2) d = last l2 d.
Proof.
  intro H. induction l1 as [|x l1 IH]; [reflexivity|].
  cbn [app]. destruct (l1 ++ l2) eqn:E.
  - destruct l1; [cbn in E; contradiction | discriminate].
  - cbn [last]. rewrite <- IH. reflexivity.
Qed.

Lemma map_EvB_split parts evs1 e evs2 :
  map EvB parts = evs1 ++ e :: evs2 ->
  exists ps1 p1 rest, parts = ps1 ++ p1 :: rest /\ evs1 = map EvB ps1.
Proof.
  revert parts. induction evs1 as [|a evs1 IH]; intros parts H.
  - destruct parts as [|p0 parts]; [discriminate|]. exists [], p0, parts. split; reflexivity.
  - destruct parts as [|p0 parts]; [discriminate|]. cbn [map app] in H. inversion H; subst.
    destruct (IH parts H2) as (ps1 & p1 & rest & E & E'). subst.
    exists (p0 :: ps1), p1, rest. split; reflexivity.
Qed.

Theorem collector_not_early k props parts evs1 e evs2 :
  valid_parts parts ->
  crender k props parts = evs1 ++ e :: evs2 ->
  exists st, crun CNone evs1 = ([], Some st).
Proof.
  intros Hv Hsplit. unfold crender in Hsplit.
  destruct evs1 as [|a evs1]; [eexists; reflexivity|].
  cbn [app] in Hsplit. inversion Hsplit as [[Ha Hrest]]; subst a.
  destruct evs1 as [|h evs1]; [eexists; reflexivity|].
  cbn [app] in Hrest. inversion Hrest as [[Hh Hbodies]]; subst h.
  destruct (map_EvB_split Hbodies) as (ps1 & p1 & rest & E & E'). subst evs1.
  assert (Hne : parts <> []) by (subst parts; destruct ps1; discriminate).
  pose proof (valid_parts_pos Hv Hne) as Hpos.
  cbn [crun cstep collect_method collect_header].
  destruct (N.eqb_spec (N.of_nat (length (concat parts))) 0) as [E0|E0]; [lia|].
  eexists. apply crun_body_partial. cbn [app].
  (* the part still to come contains the non-empty last part *)
  destruct Hv as [Hv | (ps & p & Hv & Hp)]; [contradiction|].
  assert (Hlast : 0 < N.of_nat (length (concat (p1 :: rest)))).
  { assert (Hl : last (p1 :: rest) [] = p).
    { assert (last parts [] = p) by (rewrite Hv; apply last_last).
      rewrite E in H. rewrite last_app_ne in H by discriminate. exact H. }
    clear -Hl Hp. revert p1 Hl. induction rest as [|r rest IH]; intros p1 Hl.
    - cbn in Hl. subst. cbn. rewrite app_nil_r. destruct p; [contradiction|]. simpl. lia.
    - cbn [concat]. rewrite app_length. specialize (IH r Hl). cbn [concat] in IH. lia. }
  rewrite E, concat_app, app_length. lia.
Qed.

(* ---------- any number of messages in sequence ---------- *)

Definition msg3 := (ckind * N * list bytes)%type.   (* kind, properties, partition *)

Theorem collector_sequence (msgs : list msg3) :
  Forall (fun '(_, _, parts) => valid_parts parts) msgs ->
  crun CNone (flat_map (fun '(k, props, parts) => crender k props parts) msgs)
  = (map (fun '(k, props, parts) => (k, props, concat parts)) msgs, Some CNone).
Proof.
  induction msgs as [|[[k props] parts] msgs IH]; intro Hv; cbn [flat_map map].
  - reflexivity.
  - inversion Hv as [|? ? Hv1 Hv2]; subst.
    erewrite crun_app; [| apply collector_roundtrip; exact Hv1].
    rewrite (IH Hv2). reflexivity.
Qed.

(* ---------- soundness against the compliant reading, for EVERY event sequence ---------- *)

(* the single-channel compliant reader, on the same events *)
Definition rs_of (st : cstate) : rstate :=
  match st with
  | CNone => RSNone
  | CStart k => RSStart k
  | CBody k size props acc => RSBody k size props acc
  end.

Definition frame_of (ch : N) (e : cev) : frame :=
  match e with
  | EvM k => FMethod ch (method_of k)
  | EvH size props => FHeader ch size props
  | EvB b => FBody ch b
  end.

Lemma ref_read_step_method ch k st fs :
  ref_read st (FMethod ch (method_of k) :: fs) =
  match alookup ch st with
  | None | Some RSNone => ref_read (ainsert ch (RSStart k) st) fs
  | _ => []
  end.
Proof. destruct k; reflexivity. Qed.

(* what the collector hands on is exactly what the compliant reading of the same frames
   yields, as long as the collector accepts; and where the collector rejects a frame the
   compliant reading ends as well: nothing the collector emits is ever outside it *)
Theorem collector_sound ch evs : forall st rst,
  alookup ch rst = Some (rs_of st) ->
  map (fun '(k, props, body) => finish ch k props body) (fst (crun st evs))
  = ref_read rst (map (frame_of ch) evs).
Proof.
  induction evs as [|e evs IH]; intros st rst Hl; cbn [crun map].
  - reflexivity.
  - destruct e as [k|size props|b]; cbn [cstep frame_of].
    + rewrite ref_read_step_method, Hl.
      destruct st; cbn [collect_method rs_of]; try reflexivity.
      apply IH. rewrite alookup_insert_eq. reflexivity.
    + cbn [ref_read]. rewrite Hl.
      destruct st as [|k|k s p a]; cbn [collect_header rs_of]; try reflexivity.
      destruct (size =? 0) eqn:Ez.
      * destruct (crun CNone evs) as [o f] eqn:E. cbn [fst map]. f_equal.
        specialize (IH CNone (ainsert ch RSNone rst)). rewrite E in IH. apply IH.
        rewrite alookup_insert_eq. reflexivity.
      * apply IH. rewrite alookup_insert_eq. reflexivity.
    + cbn [ref_read]. rewrite Hl.
      destruct st as [|k|k s p a]; cbn [collect_body rs_of]; try reflexivity.
      destruct (N.of_nat (length (a ++ b)) ?= s) eqn:Ec.
      * destruct (crun CNone evs) as [o f] eqn:E. cbn [fst map]. f_equal.
        specialize (IH CNone (ainsert ch RSNone rst)). rewrite E in IH. apply IH.
        rewrite alookup_insert_eq. reflexivity.
      * apply IH. rewrite alookup_insert_eq. reflexivity.
      * reflexivity.
Qed.

(* an announced body size is only a number to compare with: there is no allocation, no
   arithmetic on it that could overflow, and a body frame can only complete, extend or
   be rejected - in particular more bytes than announced are rejected (C07) *)
Theorem collector_overrun k size props acc b :
  size < N.of_nat (length (acc ++ b)) -> collect_body b (CBody k size props acc) = CErr.
Proof.
  intro H. cbn [collect_body].
  destruct (N.compare_spec (N.of_nat (length (acc ++ b))) size); try lia. reflexivity.
Qed.

Theorem collector_out_of_sequence st :
  (st <> CNone -> forall k, collect_method k st = CErr) /\
  ((forall k, st <> CStart k) -> forall s p, collect_header s p st = CErr) /\
  ((forall k s p a, st <> CBody k s p a) -> forall b, collect_body b st = CErr).
Proof.
  repeat split; intros H; destruct st; intros; cbn; try reflexivity;
    try (exfalso; eapply H; reflexivity); try contradiction.
Qed.
