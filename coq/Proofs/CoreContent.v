(* Lifting the collector theorems to the I/O thread's frame dispatch (Model/Core.process):
   a rendered message on channel n reaches exactly the queue of its addressee, once, at
   its last frame, whatever the partition; frames of a channel leave every other
   channel's slot untouched.  Stdlib only, no axioms. *)
From Amq Require Import Lib.Base Gen.Consts Model.Wire Model.Frames Model.OutBuf
     Model.Collector Model.Slots Model.Core Spec.Content Proofs.Collector.

Definition steady (c : core) : Prop := c_phase c = PSteady.

(* content frames carry no debug text *)
Definition df (n : N) (e : cev) : dframe := (frame_of n e, []).

(* c' is c except that slot n is now s' and the queue map is now m *)
Record upd (n : N) (s' : slot) (m : qs) (c c' : core) : Prop := {
  u_phase : c_phase c' = c_phase c;
  u_out : c_out c' = c_out c;
  u_ch0 : c_ch0 c' = c_ch0 c;
  u_ids : c_ids c' = c_ids c;
  u_slot : alookup n (c_slots c') = Some s';
  u_others : forall k, k <> n -> alookup k (c_slots c') = alookup k (c_slots c);
  u_qs : c_qs c' = m }.

Lemma upd_set_slot n s' c : upd n s' (c_qs c) c (set_slot c n s').
Proof.
  constructor; try reflexivity.
  - unfold set_slot, set_slots; cbn. apply alookup_insert_eq.
  - intros k Hk. unfold set_slot, set_slots; cbn. apply alookup_insert_neq; exact Hk.
Qed.

Lemma upd_set_slot_qs n s' m c : upd n s' m c (set_slot (set_qs c m) n s').
Proof.
  constructor; try reflexivity.
  - unfold set_slot, set_slots; cbn. apply alookup_insert_eq.
  - intros k Hk. unfold set_slot, set_slots; cbn. apply alookup_insert_neq; exact Hk.
Qed.

Lemma upd_trans n s1 s2 m1 m2 c c1 c2 :
  upd n s1 m1 c c1 -> upd n s2 m2 c1 c2 -> upd n s2 m2 c c2.
Proof.
  intros [a1 a2 a3 a4 a5 a6 a7] [b1 b2 b3 b4 b5 b6 b7]. constructor; try congruence.
  intros k Hk. rewrite b6, a6; auto.
Qed.

Lemma with_coll_twice s a b : with_coll (with_coll s a) b = with_coll s b.
Proof. destruct s; reflexivity. Qed.
Lemma with_coll_coll s a : s_coll (with_coll s a) = a.
Proof. destruct s; reflexivity. Qed.
Lemma with_coll_consumers s a : s_consumers (with_coll s a) = s_consumers s.
Proof. destruct s; reflexivity. Qed.
Lemma with_coll_reply s a : s_reply (with_coll s a) = s_reply s.
Proof. destruct s; reflexivity. Qed.
Lemma with_coll_ret s a : s_ret (with_coll s a) = s_ret s.
Proof. destruct s; reflexivity. Qed.

(* a content frame on an open non-zero channel goes to that channel's collector *)
Lemma process_content n e c s :
  steady c -> n <> 0 -> alookup n (c_slots c) = Some s ->
  process c (df n e) = collect n s (cstep (s_coll s) e) c.
Proof.
  intros Hs Hn Hl. unfold process, df. rewrite Hs.
  destruct n as [|n']; [contradiction|].
  destruct e as [k|size props|b]; cbn [frame_of cstep].
  - destruct k; cbn [method_of]; unfold process_method; rewrite Hl; reflexivity.
  - rewrite Hl. reflexivity.
  - rewrite Hl. reflexivity.
Qed.

(* frames that complete nothing: only the collector state of slot n moves *)
Lemma process_all_more n : forall evs c s st',
  steady c -> n <> 0 -> alookup n (c_slots c) = Some s ->
  crun (s_coll s) evs = ([], Some st') ->
  exists c', process_all c (map (df n) evs) = (OOk, c') /\
             upd n (with_coll s st') (c_qs c) c c'.
Proof.
  induction evs as [|e evs IH]; intros c s st' Hs Hn Hl Hrun; cbn [map process_all crun] in *.
  - inversion Hrun; subst. exists c. split; [reflexivity|].
    constructor; try reflexivity.
    rewrite Hl. f_equal. destruct s; reflexivity.
  - rewrite (process_content e Hs Hn Hl).
    destruct (cstep (s_coll s) e) as [|st1|k p b] eqn:Ec.
    + discriminate.
    + cbn [collect].
      set (c1 := set_slot c n (with_coll s st1)).
      assert (Hl1 : alookup n (c_slots c1) = Some (with_coll s st1))
        by (apply (u_slot (upd_set_slot n (with_coll s st1) c))).
      assert (Hs1 : steady c1) by exact Hs.
      destruct (IH c1 (with_coll s st1) st' Hs1 Hn Hl1) as (c' & Hp & Hu).
      { rewrite with_coll_coll. exact Hrun. }
      exists c'. split; [exact Hp|].
      rewrite with_coll_twice in Hu.
      eapply upd_trans; [apply upd_set_slot | exact Hu].
    + destruct (crun CNone evs). discriminate.
Qed.

Definition receivable (q : N) (m : qs) : Prop :=
  exists qu, alookup q m = Some qu /\ q_rx qu = true /\ q_cap qu = None.

Definition pushed (q : N) (it : qitem) (m : qs) : qs :=
  match alookup q m with
  | Some qu => ainsert q {| q_items := q_items qu ++ [it]; q_hist := q_hist qu ++ [it];
                            q_cap := q_cap qu; q_tx := q_tx qu; q_rx := q_rx qu |} m
  | None => m
  end.

Lemma try_send_receivable q it m :
  receivable q m -> try_send q it m = (SOk, pushed q it m).
Proof.
  intros (qu & Hl & Hrx & Hcap). unfold try_send, pushed. rewrite Hl, Hrx, Hcap. reflexivity.
Qed.

(* the frame that completes a delivery: dispatched by tag to that consumer's queue *)
Lemma process_last_deliver n e c s tag dtag red exch rk props body q :
  steady c -> n <> 0 -> alookup n (c_slots c) = Some s ->
  cstep (s_coll s) e = CDone (CDeliver tag dtag red exch rk) props body ->
  lookup_tag tag (s_consumers s) = Some q -> receivable q (c_qs c) ->
  exists c', process c (df n e) = (OOk, c') /\
    upd n (with_coll s CNone)
        (pushed q (IDelivery {| m_ch := n; m_dtag := dtag; m_redelivered := red; m_exch := exch;
                               m_rk := rk; m_body := body; m_props := props |}) (c_qs c)) c c'.
Proof.
  intros Hs Hn Hl Hc Ht Hr. rewrite (process_content e Hs Hn Hl), Hc.
  cbn [collect dispatch]. rewrite with_coll_consumers, Ht.
  unfold send. cbn [c_qs set_slot set_slots].
  rewrite (try_send_receivable _ Hr).
  eexists. split; [reflexivity|].
  constructor; try reflexivity.
  - cbn. apply alookup_insert_eq.
  - intros k Hk. cbn. apply alookup_insert_neq; exact Hk.
Qed.

(* ---------- C03, one delivery: every partition, exactly once, at the last frame ---------- *)

Theorem deliver_roundtrip n c s tag dtag red exch rk props parts q :
  steady c -> n <> 0 -> alookup n (c_slots c) = Some s -> s_coll s = CNone ->
  lookup_tag tag (s_consumers s) = Some q -> receivable q (c_qs c) ->
  valid_parts parts ->
  exists c',
    process_all c (map (df n) (crender (CDeliver tag dtag red exch rk) props parts)) = (OOk, c') /\
    upd n s
        (pushed q (IDelivery {| m_ch := n; m_dtag := dtag; m_redelivered := red; m_exch := exch;
                               m_rk := rk; m_body := concat parts; m_props := props |}) (c_qs c))
        c c'.
Proof.
  intros Hs Hn Hl Hc Ht Hr Hv.
  set (k := CDeliver tag dtag red exch rk).
  (* split the rendering into everything but the last event, and the last event *)
  assert (Hne : crender k props parts <> []) by (unfold crender; discriminate).
  destruct (exists_last Hne) as (evs1 & e & Hsplit).
  destruct (collector_not_early (k:=k) (props:=props) (evs1:=evs1) (e:=e) (evs2:=[]) Hv Hsplit)
    as (st1 & Hrun1).
  pose proof (@collector_roundtrip k props parts Hv) as Hrt. rewrite Hsplit in Hrt.
  erewrite crun_app in Hrt; [|exact Hrun1].
  cbn [crun] in Hrt.
  destruct (cstep st1 e) as [|st2|k2 p2 b2] eqn:Ec; try discriminate.
  cbn in Hrt. inversion Hrt; subst k2 p2 b2. clear Hrt.
  rewrite Hsplit, map_app. cbn [map].
  rewrite <- Hc in Hrun1.
  destruct (@process_all_more n evs1 c s st1 Hs Hn Hl Hrun1) as (c1 & Hp1 & Hu1).
  assert (Hs1 : steady c1) by (unfold steady; rewrite (u_phase Hu1); exact Hs).
  assert (Hr1 : receivable q (c_qs c1)) by (rewrite (u_qs Hu1); exact Hr).
  destruct (@process_last_deliver n e c1 (with_coll s st1) tag dtag red exch rk props
              (concat parts) q Hs1 Hn (u_slot Hu1)) as (c2 & Hp2 & Hu2).
  { rewrite with_coll_coll. exact Ec. }
  { rewrite with_coll_consumers. exact Ht. }
  { exact Hr1. }
  exists c2. split.
  - (* process_all over the concatenation *)
    clear -Hp1 Hp2. revert c Hp1. induction (map (df n) evs1) as [|f fs IH]; intros c Hp1.
    + cbn in *. inversion Hp1; subst. rewrite Hp2. reflexivity.
    + cbn [app process_all] in *. destruct (process c f) as [o cx]. destruct o; try discriminate.
      apply IH. exact Hp1.
  - rewrite with_coll_twice in Hu2. rewrite (u_qs Hu1) in Hu2.
    assert (Hsame : with_coll s CNone = s) by (destruct s; cbn in *; subst; reflexivity).
    rewrite Hsame in Hu2.
    eapply upd_trans; [exact Hu1 | exact Hu2].
Qed.

(* ---------- frames of other channels do not touch slot n (C03 / C09 isolation) ---------- *)

Definition slots_off (m : N) (c c' : core) : Prop :=
  forall k, k <> m -> alookup k (c_slots c') = alookup k (c_slots c).

Lemma slots_off_refl m c : slots_off m c c. Proof. intros k _. reflexivity. Qed.

Lemma slots_off_eq m c c' : c_slots c' = c_slots c -> slots_off m c c'.
Proof. intros E k _. rewrite E. reflexivity. Qed.

Lemma slots_off_trans m c1 c2 c3 : slots_off m c1 c2 -> slots_off m c2 c3 -> slots_off m c1 c3.
Proof. intros H1 H2 k Hk. rewrite H2, H1; auto. Qed.

Lemma send_slots q it c o c' : send q it c = (o, c') -> c_slots c' = c_slots c.
Proof.
  unfold send. destruct (try_send q it (c_qs c)) as [[| |] m]; intro H; inversion H; reflexivity.
Qed.

Lemma send_all_slots cons it : forall c o c', send_all cons it c = (o, c') -> c_slots c' = c_slots c.
Proof.
  induction cons as [|[t q] cons IH]; intros c o c' H; cbn [send_all] in H.
  - inversion H; reflexivity.
  - destruct (send q it c) as [o1 c1] eqn:E. pose proof (send_slots E) as E1.
    destruct o1; [rewrite <- E1; eapply IH; exact H | inversion H; subst; exact E1 ..].
Qed.

Lemma notify_slot_gen_slots b s rep cons c o c' :
  notify_slot_gen b s rep cons c = (o, c') -> c_slots c' = c_slots c.
Proof.
  unfold notify_slot_gen. destruct b.
  - destruct (send_all (s_consumers s) cons c) as [o1 c1] eqn:E1.
    pose proof (send_all_slots E1) as H1.
    destruct o1.
    + destruct (send (s_reply s) rep c1) as [o2 c2] eqn:E2. pose proof (send_slots E2) as H2.
      intro H; inversion H; subst; cbn; congruence.
    + intro H; inversion H; subst; cbn; exact H1.
    + intro H; inversion H; subst; cbn; exact H1.
  - destruct (send (s_reply s) rep c) as [o1 c1] eqn:E1.
    pose proof (send_slots E1) as H1.
    destruct o1.
    + destruct (send_all (s_consumers s) cons c1) as [o2 c2] eqn:E2.
      pose proof (send_all_slots E2) as H2.
      intro H; inversion H; subst; cbn; congruence.
    + intro H; inversion H; subst; cbn; exact H1.
    + intro H; inversion H; subst; cbn; exact H1.
Qed.
Definition notify_slot_slots s rep cons c o c' := @notify_slot_gen_slots true s rep cons c o c'.
Definition notify_slot_cf_slots s rep cons c o c' := @notify_slot_gen_slots false s rep cons c o c'.

Lemma client_exception_slots code text c o c' :
  client_exception code text c = (o, c') -> c_slots c' = c_slots c.
Proof.
  unfold client_exception. intro H; inversion H; subst. unfold drop_ch0, seal, push_out.
  cbn. destruct (c_ch0 _); reflexivity.
Qed.

Lemma set_slot_off m s c : slots_off m c (set_slot c m s).
Proof. intros k Hk. unfold set_slot, set_slots; cbn. apply alookup_insert_neq; exact Hk. Qed.

Lemma remove_slot_off m c : slots_off m c (remove_slot m c).
Proof. intros k Hk. unfold remove_slot, set_slots; cbn. apply alookup_remove_neq; exact Hk. Qed.

Lemma collect_off m s r c o c' : collect m s r c = (o, c') -> slots_off m c c'.
Proof.
  unfold collect. destruct r as [|st|k props body].
  - intro H; inversion H; subst. apply set_slot_off.
  - intro H; inversion H; subst. apply set_slot_off.
  - unfold dispatch. destruct k.
    + destruct (lookup_tag _ _).
      * intro H. eapply slots_off_trans; [apply set_slot_off|].
        apply slots_off_eq. eapply send_slots; exact H.
      * intro H; inversion H; subst. apply set_slot_off.
    + destruct (listener_send _ _ _) as [h qm]. intro H; inversion H; subst.
      eapply slots_off_trans; [apply set_slot_off|].
      eapply slots_off_trans; [|apply set_slot_off]. apply slots_off_eq; reflexivity.
    + intro H. eapply slots_off_trans; [apply set_slot_off|].
      apply slots_off_eq. eapply send_slots; exact H.
Qed.

(* a method frame on channel m (non-zero) leaves every other slot as it was *)
Lemma process_method_off m meth dbg c o c' :
  process_method m meth dbg c = (o, c') -> slots_off m c c'.
Proof.
  unfold process_method.
  destruct meth; try (intro H; apply slots_off_eq; eapply client_exception_slots; exact H).
  - (* channel close *)
    destruct (alookup m (c_slots c)) as [sl|]; [|intro H; inversion H; subst; apply slots_off_refl].
    destruct (notify_slot sl _ _ (remove_slot m c)) as [o1 c1] eqn:E.
    pose proof (notify_slot_slots E) as H1.
    intro H. eapply slots_off_trans; [apply remove_slot_off|].
    apply slots_off_eq. destruct o1; inversion H; subst; cbn; exact H1.
  - (* channel close-ok *)
    destruct (alookup m (c_slots c)) as [sl|]; [|intro H; inversion H; subst; apply slots_off_refl].
    intro H. eapply slots_off_trans; [apply remove_slot_off|].
    apply slots_off_eq. eapply notify_slot_cf_slots; exact H.
  - (* consume-ok *)
    destruct (alookup m (c_slots c)) as [sl|]; [|intro H; inversion H; subst; apply slots_off_refl].
    destruct (lookup_tag tag (s_consumers sl)); [intro H; inversion H; subst; apply slots_off_refl|].
    intro H. eapply slots_off_trans; [|apply slots_off_eq; eapply send_slots; exact H].
    eapply slots_off_trans; [|apply set_slot_off]. apply slots_off_eq. reflexivity.
  - (* cancel *)
    destruct (alookup m (c_slots c)) as [sl|]; [|intro H; inversion H; subst; apply slots_off_refl].
    destruct (lookup_tag tag (s_consumers sl)) as [q|].
    + destruct (send q IServerCancelled _) as [o1 c1] eqn:E. pose proof (send_slots E) as H1.
      intro H.
      assert (Hoff : slots_off m c c1).
      { eapply slots_off_trans; [apply set_slot_off|]. apply slots_off_eq. exact H1. }
      destruct o1; [destruct nowait|..]; inversion H; subst;
        (eapply slots_off_trans; [exact Hoff|]); apply slots_off_eq; reflexivity.
    + destruct nowait; intro H; inversion H; subst; apply slots_off_eq; reflexivity.
  - (* cancel-ok *)
    destruct (alookup m (c_slots c)) as [sl|]; [|intro H; inversion H; subst; apply slots_off_refl].
    destruct (lookup_tag tag (s_consumers sl)) as [q|].
    + destruct (send q IClientCancelled _) as [o1 c1] eqn:E. pose proof (send_slots E) as H1.
      assert (Hoff : slots_off m c (set_qs c1 (drop_tx q (c_qs c1)))).
      { eapply slots_off_trans; [apply set_slot_off|]. apply slots_off_eq. exact H1. }
      destruct o1.
      * destruct (send (s_reply sl) _ _) as [o2 c2] eqn:E2. pose proof (send_slots E2) as H2.
        intro H; inversion H; subst.
        eapply slots_off_trans; [exact Hoff|]. apply slots_off_eq. exact H2.
      * intro H; inversion H; subst. exact Hoff.
      * intro H; inversion H; subst. exact Hoff.
    + destruct (send (s_reply sl) _ _) as [o2 c2] eqn:E2. pose proof (send_slots E2) as H2.
      intro H; inversion H; subst.
      eapply slots_off_trans; [apply set_slot_off|]. apply slots_off_eq. exact H2.
  - destruct (alookup m (c_slots c)) as [sl|]; [|intro H; inversion H; subst; apply slots_off_refl].
    apply collect_off.
  - destruct (alookup m (c_slots c)) as [sl|]; [|intro H; inversion H; subst; apply slots_off_refl].
    apply collect_off.
  - destruct (alookup m (c_slots c)) as [sl|]; [|intro H; inversion H; subst; apply slots_off_refl].
    apply collect_off.
  - destruct (alookup m (c_slots c)) as [sl|]; [|intro H; inversion H; subst; apply slots_off_refl].
    intro H. apply slots_off_eq. eapply send_slots; exact H.
  - destruct (alookup m (c_slots c)) as [sl|]; [|intro H; inversion H; subst; apply slots_off_refl].
    destruct (listener_send _ _ _) as [h qm]. intro H; inversion H; subst.
    eapply slots_off_trans; [|apply set_slot_off]. apply slots_off_eq; reflexivity.
  - destruct (alookup m (c_slots c)) as [sl|]; [|intro H; inversion H; subst; apply slots_off_refl].
    destruct (listener_send _ _ _) as [h qm]. intro H; inversion H; subst.
    eapply slots_off_trans; [|apply set_slot_off]. apply slots_off_eq; reflexivity.
  - destruct (alookup m (c_slots c)) as [sl|]; [|intro H; inversion H; subst; apply slots_off_refl].
    intro H. apply slots_off_eq. eapply send_slots; exact H.
Qed.

(* the channel a frame is about *)
Definition frame_chan (f : frame) : N :=
  match f with
  | FMethod ch _ | FHeader ch _ _ | FBody ch _ | FHeartbeat ch => ch
  | FProtoHeader => 0
  end.

(* C03 / C09 frame lemma: whatever a frame of channel m <> 0 is, and whatever happens
   (success, error, client exception), every slot other than m is exactly as before *)
Theorem frame_other_channels f dbg c o c' :
  frame_chan f <> 0 -> process c (f, dbg) = (o, c') -> slots_off (frame_chan f) c c'.
Proof.
  intros Hm. unfold process.
  destruct (c_phase c); try (intro H; inversion H; subst; apply slots_off_refl).
  destruct f as [ch meth|ch size props|ch body|ch|]; cbn [frame_chan] in *.
  - destruct ch as [|p]; [contradiction|]. apply process_method_off.
  - destruct ch as [|p]; [contradiction|].
    destruct (alookup _ _) as [s|]; [apply collect_off|intro H; inversion H; subst; apply slots_off_refl].
  - destruct ch as [|p]; [contradiction|].
    destruct (alookup _ _) as [s|]; [apply collect_off|intro H; inversion H; subst; apply slots_off_refl].
  - destruct ch as [|p]; [contradiction|]. intro H; inversion H; subst; apply slots_off_refl.
  - contradiction.
Qed.
