(* AMQP URLs (Model/Url.v).  Stdlib only, no axioms. *)
From Amq Require Import Lib.Base Gen.Consts Model.Url.

(* ---------- percent encoding round trip ---------- *)

Definition hexdigit (n : N) : N := if n <? 10 then 48 + n else 55 + n.   (* upper case *)
Definition percent_encode (s : str) : str := flat_map (fun c => [37; hexdigit (c / 16); hexdigit (c mod 16)]) s.

Lemma hexval_hexdigit n : n < 16 -> hexval (hexdigit n) = Some n.
Proof.
  intro H. unfold hexdigit, hexval.
  destruct (N.ltb_spec n 10).
  - replace ((48 <=? 48 + n) && (48 + n <=? 57)) with true by lia. f_equal. lia.
  - replace ((48 <=? 55 + n) && (55 + n <=? 57)) with false by lia.
    replace ((65 <=? 55 + n) && (55 + n <=? 70)) with true by lia. f_equal. lia.
Qed.

(* every byte string survives encoding followed by the client's decoding *)
Theorem percent_roundtrip s : Forall (fun c => c < 256) s -> percent_decode (percent_encode s) = s.
Proof.
  induction s as [|c s IH]; intro H; [reflexivity|]. inversion H as [|? ? Hc Hs]; subst.
  cbn [percent_encode flat_map app percent_decode]. rewrite N.eqb_refl.
  rewrite (hexval_hexdigit (n := c / 16)), (hexval_hexdigit (n := c mod 16)); try lia.
  - f_equal; [lia|]. apply IH. exact Hs.
Qed.

(* text without '%' is taken literally *)
Theorem percent_plain s : ~ In 37 s -> percent_decode s = s.
Proof.
  induction s as [|c s IH]; intro H; [reflexivity|]. cbn [percent_decode].
  destruct (N.eqb_spec c 37) as [->|Hne]; [exfalso; apply H; left; reflexivity|].
  f_equal. apply IH. intro Hin. apply H. right. exact Hin.
Qed.

(* ---------- the query parameters ---------- *)

(* is a pair acceptable, and if not which error does it give *)
Definition pair_error (kv : str * str) : option uerr :=
  let '(k, v) := kv in
  if bytes_eqb k k_heartbeat then (match parse_uint 65535 v with Some _ => None | None => Some UeHeartbeat end)
  else if bytes_eqb k k_channel_max then (match parse_uint 65535 v with Some _ => None | None => Some UeChannelMax end)
  else if bytes_eqb k k_timeout then
    (match parse_uint 18446744073709551615 v with Some _ => None | None => Some UeTimeout end)
  else if bytes_eqb k k_auth then (if bytes_eqb v s_external then None else Some (UeAuthMechanism v))
  else Some (UeParameter k).

(* the error reported is that of the FIRST offending pair *)
Theorem query_first_error : forall good bad rest o e,
  Forall (fun kv => pair_error kv = None) good -> pair_error bad = Some e ->
  query_fold o (good ++ bad :: rest) = inr e.
Proof.
  induction good as [|[k v] good IH]; intros bad rest o e Hg Hb; cbn [app query_fold].
  - destruct bad as [k v]. unfold pair_error in Hb.
    destruct (bytes_eqb k k_heartbeat); [destruct (parse_uint 65535 v); [discriminate|inversion Hb; reflexivity]|].
    destruct (bytes_eqb k k_channel_max); [destruct (parse_uint 65535 v); [discriminate|inversion Hb; reflexivity]|].
    destruct (bytes_eqb k k_timeout); [destruct (parse_uint _ v); [discriminate|inversion Hb; reflexivity]|].
    destruct (bytes_eqb k k_auth); [destruct (bytes_eqb v s_external); [discriminate|inversion Hb; reflexivity]|].
    inversion Hb; reflexivity.
  - inversion Hg as [|? ? Hkv Hrest]; subst. unfold pair_error in Hkv.
    destruct (bytes_eqb k k_heartbeat); [destruct (parse_uint 65535 v); [apply IH; assumption|discriminate]|].
    destruct (bytes_eqb k k_channel_max); [destruct (parse_uint 65535 v); [apply IH; assumption|discriminate]|].
    destruct (bytes_eqb k k_timeout); [destruct (parse_uint _ v); [apply IH; assumption|discriminate]|].
    destruct (bytes_eqb k k_auth); [destruct (bytes_eqb v s_external); [apply IH; assumption|discriminate]|].
    discriminate.
Qed.

(* with every pair acceptable the fold succeeds ... *)
Theorem query_all_good : forall q o,
  Forall (fun kv => pair_error kv = None) q -> exists o', query_fold o q = inl o'.
Proof.
  induction q as [|[k v] q IH]; intros o Hg; cbn [query_fold]; [eauto|].
  inversion Hg as [|? ? Hkv Hrest]; subst. unfold pair_error in Hkv.
  destruct (bytes_eqb k k_heartbeat); [destruct (parse_uint 65535 v); [apply IH; assumption|discriminate]|].
  destruct (bytes_eqb k k_channel_max); [destruct (parse_uint 65535 v); [apply IH; assumption|discriminate]|].
  destruct (bytes_eqb k k_timeout); [destruct (parse_uint _ v); [apply IH; assumption|discriminate]|].
  destruct (bytes_eqb k k_auth); [destruct (bytes_eqb v s_external); [apply IH; assumption|discriminate]|].
  discriminate.
Qed.

(* ... and each numeric parameter takes the value of its LAST occurrence, the default if none *)
Lemma keys_distinct :
  bytes_eqb k_channel_max k_heartbeat = false /\ bytes_eqb k_timeout k_heartbeat = false /\
  bytes_eqb k_auth k_heartbeat = false /\ bytes_eqb k_timeout k_channel_max = false /\
  bytes_eqb k_auth k_channel_max = false /\ bytes_eqb k_auth k_timeout = false /\
  bytes_eqb k_heartbeat k_channel_max = false /\ bytes_eqb k_heartbeat k_timeout = false /\
  bytes_eqb k_channel_max k_timeout = false.
Proof. repeat split; reflexivity. Qed.

Definition has_key (key : str) (q : list (str * str)) : Prop := exists v, In (key, v) q.

(* the heartbeat after the fold: that of the last heartbeat pair; unchanged if there is none *)
Theorem query_heartbeat_none : forall q o o',
  query_fold o q = inl o' -> ~ has_key k_heartbeat q -> v_heartbeat o' = v_heartbeat o.
Proof.
  induction q as [|[k v] q IH]; intros o o' H Hn; cbn [query_fold] in H.
  - inversion H; subst; reflexivity.
  - assert (Hn' : ~ has_key k_heartbeat q) by (intros (v0 & Hin); apply Hn; exists v0; right; exact Hin).
    destruct (bytes_eqb k k_heartbeat) eqn:E1.
    + exfalso. apply Hn. exists v. left. apply bytes_eqb_spec in E1. subst. reflexivity.
    + destruct (bytes_eqb k k_channel_max); [destruct (parse_uint 65535 v); [rewrite (IH _ _ H Hn'); reflexivity|discriminate]|].
      destruct (bytes_eqb k k_timeout); [destruct (parse_uint _ v); [rewrite (IH _ _ H Hn'); reflexivity|discriminate]|].
      destruct (bytes_eqb k k_auth); [destruct (bytes_eqb v s_external); [rewrite (IH _ _ H Hn'); reflexivity|discriminate]|].
      discriminate.
Qed.

Theorem query_heartbeat_last : forall q1 v q2 o o',
  query_fold o (q1 ++ (k_heartbeat, v) :: q2) = inl o' -> ~ has_key k_heartbeat q2 ->
  parse_uint 65535 v = Some (v_heartbeat o').
Proof.
  induction q1 as [|[k w] q1 IH]; intros v q2 o o' H Hn; cbn [app query_fold] in H.
  - rewrite (proj2 (bytes_eqb_spec k_heartbeat k_heartbeat) eq_refl) in H.
    destruct (parse_uint 65535 v) as [n|] eqn:Ep; [|discriminate].
    rewrite (query_heartbeat_none H Hn). reflexivity.
  - destruct (bytes_eqb k k_heartbeat); [destruct (parse_uint 65535 w); [eapply IH; eassumption|discriminate]|].
    destruct (bytes_eqb k k_channel_max); [destruct (parse_uint 65535 w); [eapply IH; eassumption|discriminate]|].
    destruct (bytes_eqb k k_timeout); [destruct (parse_uint _ w); [eapply IH; eassumption|discriminate]|].
    destruct (bytes_eqb k k_auth); [destruct (bytes_eqb w s_external); [eapply IH; eassumption|discriminate]|].
    discriminate.
Qed.

(* EXTERNAL whenever auth_mechanism=external occurs, whatever the credentials say *)
Theorem query_external : forall q o o',
  query_fold o q = inl o' ->
  (exists v, In (k_auth, v) q) -> v_auth o' = UExternal.
Proof.
  induction q as [|[k v] q IH]; intros o o' H [v0 Hin]; [contradiction|]. cbn [query_fold] in H.
  assert (Hkeep : forall o1, v_auth o1 = UExternal -> forall q1 o2, query_fold o1 q1 = inl o2 -> v_auth o2 = UExternal).
  { clear. intros o1 Ho1 q1. revert o1 Ho1. induction q1 as [|[k v] q1 IH]; intros o1 Ho1 o2 H; cbn [query_fold] in H.
    - inversion H; subst; exact Ho1.
    - destruct (bytes_eqb k k_heartbeat); [destruct (parse_uint 65535 v); [eapply IH; [|exact H]; exact Ho1|discriminate]|].
      destruct (bytes_eqb k k_channel_max); [destruct (parse_uint 65535 v); [eapply IH; [|exact H]; exact Ho1|discriminate]|].
      destruct (bytes_eqb k k_timeout); [destruct (parse_uint _ v); [eapply IH; [|exact H]; exact Ho1|discriminate]|].
      destruct (bytes_eqb k k_auth); [destruct (bytes_eqb v s_external); [eapply IH; [|exact H]; reflexivity|discriminate]|].
      discriminate. }
  destruct Hin as [E|Hin].
  - inversion E; subst k v. pose proof keys_distinct as (_ & _ & E1 & _ & E2 & E3 & _).
    rewrite E1, E2, E3 in H. rewrite (proj2 (bytes_eqb_spec k_auth k_auth) eq_refl) in H.
    destruct (bytes_eqb v0 s_external); [|discriminate].
    eapply Hkeep; [|exact H]. reflexivity.
  - destruct (bytes_eqb k k_heartbeat); [destruct (parse_uint 65535 v); [eapply IH; [exact H|eauto]|discriminate]|].
    destruct (bytes_eqb k k_channel_max); [destruct (parse_uint 65535 v); [eapply IH; [exact H|eauto]|discriminate]|].
    destruct (bytes_eqb k k_timeout); [destruct (parse_uint _ v); [eapply IH; [exact H|eauto]|discriminate]|].
    destruct (bytes_eqb k k_auth); [destruct (bytes_eqb v s_external); [eapply IH; [exact H|eauto]|discriminate]|].
    discriminate.
Qed.

(* ---------- path, user info, host and port ---------- *)

Theorem extra_segments u v w more : u_segments u = Some (v :: w :: more) -> decode u = inr UeExtraPath.
Proof. intro H. unfold decode. rewrite H. reflexivity. Qed.

Theorem vhost_default u o :
  (u_segments u = None \/ u_segments u = Some [[]]) -> decode u = inl o -> v_vhost o = s_slash.
Proof.
  intros Hs H. unfold decode in H.
  assert (Hq : forall o1 q o2, v_vhost o1 = s_slash -> query_fold o1 q = inl o2 -> v_vhost o2 = s_slash).
  { intros o1 q. revert o1. induction q as [|[k v] q IH]; intros o1 o2 Ho1 Hf; cbn [query_fold] in Hf.
    - inversion Hf; subst; exact Ho1.
    - destruct (bytes_eqb k k_heartbeat); [destruct (parse_uint 65535 v); [eapply IH; [|exact Hf]; exact Ho1|discriminate]|].
      destruct (bytes_eqb k k_channel_max); [destruct (parse_uint 65535 v); [eapply IH; [|exact Hf]; exact Ho1|discriminate]|].
      destruct (bytes_eqb k k_timeout); [destruct (parse_uint _ v); [eapply IH; [|exact Hf]; exact Ho1|discriminate]|].
      destruct (bytes_eqb k k_auth); [destruct (bytes_eqb v s_external); [eapply IH; [|exact Hf]; exact Ho1|discriminate]|].
      discriminate. }
  destruct Hs as [Hs|Hs]; rewrite Hs in H; cbn in H;
    (destruct (u_user u), (u_pass u); (eapply Hq; [|exact H]); reflexivity).
Qed.

Theorem host_port_defaults u :
  (u_host u = None \/ u_host u = Some [] -> host_of u = s_localhost) /\
  (u_scheme u = s_amqp -> scheme_port u = inl (false, match u_port u with Some p => p | None => 5672 end)) /\
  (u_scheme u = s_amqps -> scheme_port u = inl (true, match u_port u with Some p => p | None => 5671 end)) /\
  (u_scheme u <> s_amqp -> u_scheme u <> s_amqps -> scheme_port u = inr UeInvalidScheme).
Proof.
  repeat split.
  - intros [H|H]; unfold host_of; rewrite H; reflexivity.
  - intro H. unfold scheme_port. rewrite H. reflexivity.
  - intro H. unfold scheme_port. rewrite H. reflexivity.
  - intros H1 H2. unfold scheme_port.
    destruct (bytes_eqb (u_scheme u) s_amqp) eqn:E1; [apply bytes_eqb_spec in E1; contradiction|].
    destruct (bytes_eqb (u_scheme u) s_amqps) eqn:E2; [apply bytes_eqb_spec in E2; contradiction|].
    reflexivity.
Qed.

(* the secure-only entry points never attempt a connection for an amqp:// URL *)
Theorem secure_gate u : u_scheme u = s_amqp -> exists e, open_plan u false = PFail e.
Proof.
  intro H. unfold open_plan, scheme_port. rewrite H. cbn.
  destruct (decode u) as [o|e]; [exists UeInsecure|exists e]; reflexivity.
Qed.

Theorem secure_gate_insecure u o : u_scheme u = s_amqp -> decode u = inl o -> open_plan u false = PFail UeInsecure.
Proof. intros H Hd. unfold open_plan, scheme_port. rewrite H. cbn. rewrite Hd. reflexivity. Qed.

(* user info: guest / guest when absent, either one defaulting to guest *)
Theorem userinfo_defaults u o :
  u_segments u = None -> u_query u = [] -> decode u = inl o ->
  v_auth o = match u_user u, u_pass u with
             | [], None => UPlain s_guest s_guest
             | [], Some p => UPlain s_guest (percent_decode p)
             | usr, None => UPlain (percent_decode usr) s_guest
             | usr, Some p => UPlain (percent_decode usr) (percent_decode p)
             end.
Proof.
  intros Hs Hq H. unfold decode in H. rewrite Hs, Hq in H. cbn in H.
  destruct (u_user u) as [|c usr], (u_pass u) as [p|]; inversion H; subst; reflexivity.
Qed.
