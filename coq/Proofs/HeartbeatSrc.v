(* The hand-written model of Heartbeat::fire IS what the source says (coq/Gen/Src.v is
   translated from src/heartbeats.rs on every run): the verdict (Expired or not) and the time the
   timer is re-armed for are equal on all inputs.  Stdlib only, no axioms. *)
From Coq Require Import String.
From Amq Require Import Lib.Base Lib.RsResult Gen.Consts Gen.SrcFire Model.Heartbeat.
Open Scope string_scope.

Theorem fire_source_is_model last interval deadline now :
  last <= now ->
  let h := {| h_last := last; h_interval := interval; h_deadline := deadline |} in
  gen_Heartbeat_fire interval (now - last) =
  RsOk "Heartbeat_fire" [("result", if fst (hb_fire now h) then 1 else 0);
               ("timer.set_timeout#0", h_deadline (snd (hb_fire now h)) - now)].
Proof.
  intro Hle. unfold gen_Heartbeat_fire, hb_fire, fudge_ms. cbv zeta. cbn [h_last h_interval h_deadline].
  destruct (interval <=? now - last + 5)%N eqn:E; cbn [fst snd h_deadline].
  - replace (now + interval - now) with interval by lia. reflexivity.
  - apply N.leb_gt in E. replace (now + (interval - (now - last)) - now) with (interval - (now - last)) by lia. reflexivity.
Qed.
