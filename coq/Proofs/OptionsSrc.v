(* The option helpers that build the declare / delete methods AS TRANSLATED FROM THE SOURCE on
   every run (Gen/SrcOptions.v, by tools/rs2sm.py from src/queue.rs and src/exchange.rs):
   QueueDeclareOptions::into_declare, QueueDeleteOptions::into_delete,
   ExchangeDeclareOptions::into_declare put every option into the field of the method that
   Model/ApiTable.v's `emit` says (C12): read off in the order of the AMQP method's fields, the
   struct they build is the model's field list.  Stdlib only, no axioms. *)
From Coq Require Import String.
From Amq Require Import Lib.Base Lib.RsVal Model.ApiTable Gen.SrcOptions.
Open Scope string_scope.
Open Scope list_scope.
Open Scope N_scope.

Definition enc_bool (b : bool) : val := VC (if b then "true" else "false") [].
Definition enc_fval (f : fval) : val :=
  match f with VStr s => VBytes s | VNum n => VN n | VBool b => enc_bool b | VTab id => VO id end.

(* the fields of a struct value, in the given order *)
Definition in_order (names : list string) (v : val) : list val := map (fun n => v_field n v) names.

(* the order of the fields in the AMQP 0-9-1 methods (amq-protocol's structs have these names) *)
Definition queue_declare_fields := ["ticket"; "queue"; "passive"; "durable"; "exclusive"; "auto_delete"; "nowait"; "arguments"].
Definition queue_delete_fields := ["ticket"; "queue"; "if_unused"; "if_empty"; "nowait"].
Definition exchange_declare_fields := ["ticket"; "exchange"; "type_"; "passive"; "durable"; "auto_delete"; "internal"; "nowait"; "arguments"].

Definition fields_of (o : api_op) : list val :=
  match emit o with Some [(_, _, fs)] => map enc_fval fs | _ => [] end.

(* ExchangeType::as_ref().to_string(): the name of the type *)
Definition ext_model (name : string) (args : list val) : val :=
  match args with [x] => x | _ => VStuck end.

(* Channel::queue_declare / queue_declare_nowait pass (name, passive = false, nowait) with the
   caller's options; queue_declare_passive passes default options with passive = true *)
Theorem queue_declare_source_is_model name durable exclusive auto_delete args nowait :
  in_order queue_declare_fields
    (gen_QueueDeclareOptions_into_declare
       (VR [("durable", enc_bool durable); ("exclusive", enc_bool exclusive); ("auto_delete", enc_bool auto_delete); ("arguments", VO args)])
       (VBytes name) (enc_bool false) (enc_bool nowait))
  = fields_of (AQueueDeclare (if nowait then DNowait else DSync) name durable exclusive auto_delete args) /\
  in_order queue_declare_fields
    (gen_QueueDeclareOptions_into_declare
       (VR [("durable", enc_bool false); ("exclusive", enc_bool false); ("auto_delete", enc_bool false); ("arguments", VO 0)])
       (VBytes name) (enc_bool true) (enc_bool false))
  = fields_of (AQueueDeclare DPassive name durable exclusive auto_delete args).
Proof. destruct nowait; split; reflexivity. Qed.

Theorem queue_delete_source_is_model v name if_unused if_empty nowait :
  in_order queue_delete_fields
    (gen_QueueDeleteOptions_into_delete
       (VR [("if_unused", enc_bool if_unused); ("if_empty", enc_bool if_empty)]) (VBytes name) (enc_bool nowait))
  = fields_of (AQueueDelete v nowait name if_unused if_empty).
Proof. reflexivity. Qed.

Theorem exchange_declare_source_is_model ty name durable auto_delete internal args nowait :
  in_order exchange_declare_fields
    (gen_ExchangeDeclareOptions_into_declare
       (VR [("durable", enc_bool durable); ("auto_delete", enc_bool auto_delete); ("internal", enc_bool internal); ("arguments", VO args)])
       (VBytes ty) (VBytes name) (enc_bool false) (enc_bool nowait))
  = fields_of (AExchangeDeclare (if nowait then DNowait else DSync) ty name durable auto_delete internal args).
Proof. destruct nowait; reflexivity. Qed.
