(* The caller's side of a channel AS TRANSLATED FROM THE SOURCE on every run (Gen/SrcHandle.v, by
   tools/rs2sm.py from src/io_loop/io_loop_handle.rs: recv, check_recv_for_error, send,
   call_message - the body of call and call_connection_close -, call_nowait, get, consume) is the
   hand-written model `hstep` (Model/Handle.v) the C04 / C05 / C09 theorems about a call are
   about: for every state of the mailbox and the reply queue in which the call does not block -
   what it returns and what it leaves in the queues.  Stdlib only, no axioms. *)
From Coq Require Import String.
From Amq Require Import Lib.Base Lib.RsVal Model.Handle Gen.SrcHandle.
Open Scope string_scope.
Open Scope N_scope.

(* what the I/O thread queued, as the caller's receiver yields it: Result<ChannelMessage> *)
Definition enc_item (it : hitem) : val :=
  match it with
  | HMethod cls => VC "Ok" [VC "ChannelMessage::Method" [VN cls]]
  | HGet => VC "Ok" [VC "ChannelMessage::GetOk" [VC "get" []]]
  | HConsume => VC "Ok" [VC "ChannelMessage::ConsumeOk" [VC "tag" []; VC "receiver" []]]
  | HErr e => VC "Err" [VO e]
  end.

Definition b2n (b : bool) : N := if b then 1 else 0.

(* the handle: its two channel ends, seen as the queues behind them *)
Definition enc_state (s : hstate) : val :=
  VR [("replies", VC "queue" (map enc_item (h_replies s))); ("reply_tx", VN (b2n (h_reply_tx s)));
      ("mail_rx", VN (b2n (h_mail_rx s))); ("mail", VN (h_mail s))].

(* crossbeam's bounded channel, as far as a handle uses it (the mailbox never fills here: the
   blocking send of a full mailbox is C18's subject):
     tx.send(m)  - Ok(()) and one more message in the mailbox while the receiver lives, else Err(SendError(m))
     rx.recv()   - the oldest item; Err(RecvError) when empty and every sender is gone; blocks otherwise *)
Definition ext_st_model (name : string) (args : list val) (self : val) : val * val :=
  if (name =? "tx.send")%string then
    match v_field "mail_rx" self, v_field "mail" self with
    | VN 1, VN m => (v_set "mail" (VN (m + 1)) self, VC "Ok" [VC "()" []])
    | _, _ => (self, VC "Err" [VC "SendError" args])
    end
  else if (name =? "rx.recv")%string then
    match v_field "replies" self with
    | VC q (it :: rest) => (v_set "replies" (VC q rest) self, VC "Ok" [it])
    | _ => match v_field "reply_tx" self with
           | VN 0 => (self, VC "Err" [VC "RecvError" []])
           | _ => (self, VC "Blocks" [])
           end
    end
  else (self, VStuck).

(* T::try_from(method) of call::<_, T> accepts exactly the method type asked for; make_buf only
   serialises *)
Definition ext_model (want : N) (name : string) (args : list val) : val :=
  if (name =? "T::try_from")%string then
    match args with
    | [VN cls] => if cls =? want then VC "Ok" [VN cls] else VC "Err" [VC "Error::FrameUnexpected" []]
    | _ => VStuck
    end
  else VC "buf" args.

Definition enc_err (r : hres) : val :=
  match r with
  | RFrameUnexpected => VC "Err" [VC "Error::FrameUnexpected" []]
  | RDropped => VC "Err" [VC "Error::EventLoopDropped" []]
  | RErrItem e => VC "Err" [VO e]
  | ROk _ => VStuck
  end.

(* what call / get / consume / call_nowait return for the model's outcome *)
Definition enc_res (c : hcall) (r : hres) : val :=
  match r with
  | ROk cls =>
      match c with
      | CCall _ => VC "Ok" [VN cls]
      | CGet => VC "Ok" [VC "get" []]
      | CConsume => VC "Ok" [VC "tuple" [VC "tag" []; VC "receiver" []]]
      | CNowait => VC "Ok" [VC "()" []]
      end
  | _ => enc_err r
  end.

Definition gen_call (c : hcall) (self arg : val) : val * val :=
  match c with
  | CCall want => gen_IoLoopHandle_call_message (ext_model want) ext_st_model self arg
  | CGet => gen_IoLoopHandle_get (ext_model 0) ext_st_model self arg
  | CConsume => gen_IoLoopHandle_consume (ext_model 0) ext_st_model self arg
  | CNowait => gen_IoLoopHandle_call_nowait (ext_model 0) ext_st_model self arg
  end.

(* THE MODEL IS THE SOURCE: whenever the model says the call returns (does not block), the
   translated code returns exactly that and leaves the mailbox and the reply queue as the model
   says - for every kind of call, every content of the reply queue, the I/O thread alive or gone *)
Theorem call_source_is_model c s r s' arg :
  hstep c s = Some (r, s') ->
  gen_call c (enc_state s) arg = (enc_state s', enc_res c r).
Proof.
  destruct s as [replies rtx mrx mail]. unfold hstep. cbn [h_mail_rx h_replies h_reply_tx h_mail].
  destruct mrx.
  - (* the send succeeds *)
    destruct c as [want| | |].
    + destruct replies as [|it rest].
      * destruct rtx; [discriminate|]. intro H; inversion H; subst. reflexivity.
      * intro H; inversion H; subst. destruct it as [cls| | |e]; cbn; try reflexivity.
        destruct (cls =? want); reflexivity.
    + destruct replies as [|it rest].
      * destruct rtx; [discriminate|]. intro H; inversion H; subst. reflexivity.
      * intro H; inversion H; subst. destruct it as [cls| | |e]; reflexivity.
    + destruct replies as [|it rest].
      * destruct rtx; [discriminate|]. intro H; inversion H; subst. reflexivity.
      * intro H; inversion H; subst. destruct it as [cls| | |e]; reflexivity.
    + intro H; inversion H; subst. reflexivity.
  - (* the send fails: check_recv_for_error *)
    destruct replies as [|it rest].
    + destruct rtx; [discriminate|]. intro H; inversion H; subst. destruct c; reflexivity.
    + destruct it as [cls| | |e]; intro H; inversion H; subst; destruct c; reflexivity.
Qed.

(* non-vacuity: the server's verdict behind a queued reply (C09).  While the slot still takes
   requests the call gets its reply and the next call the verdict; once the slot is gone the next
   call reports the verdict and the one after that EventLoopDropped *)
Example call_source_example :
  let s := {| h_replies := [HMethod 7; HErr 406]; h_reply_tx := false; h_mail_rx := true; h_mail := 0 |} in
  let '(s1, r1) := gen_call (CCall 7) (enc_state s) (VC "m" []) in
  let '(s2, r2) := gen_call CGet s1 (VC "m" []) in
  let t := {| h_replies := [HErr 406]; h_reply_tx := false; h_mail_rx := false; h_mail := 0 |} in
  let '(t1, q1) := gen_call CNowait (enc_state t) (VC "m" []) in
  let '(t2, q2) := gen_call CConsume t1 (VC "m" []) in
  (r1, r2, q1, q2) = (VC "Ok" [VN 7], VC "Err" [VO 406], VC "Err" [VO 406], VC "Err" [VC "Error::EventLoopDropped" []]).
Proof. vm_compute. reflexivity. Qed.
