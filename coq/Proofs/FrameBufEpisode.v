(* C06 as a theorem about the translated frame buffer: Proofs/FrameBufSrc.v composed with
   Proofs/FrameBuf.v.  Stdlib only, no axioms. *)
From Coq Require Import String.
From Amq Require Import Lib.Base Lib.RsVal Gen.Consts Model.Wire Model.FrameBuf Spec.FrameBuf Proofs.FrameBuf Gen.SrcFrameBuf Proofs.FrameBufSrc.
Open Scope string_scope.
Open Scope list_scope.
Open Scope N_scope.

(* C06 AS A THEOREM ABOUT THE TRANSLATED CODE: a call of the translated read_from that ends in
   would-block - after chunks of ANY sizes - has handed on exactly the complete frames of the bytes
   delivered so far, in order, each once, keeps exactly the incomplete rest buffered and reports the
   right byte count; so the frames do not depend on how the stream was cut *)
Theorem read_from_source_episode accepts fuel fb script D F delivered hv stream hs n fb' sc' :
  Rel accepts D fb F -> chunks_nonempty script ->
  read_from accepts okh fuel fb 0 script = (hs, EpOk n, fb', sc') ->
  gen_Inner_read_from ext_model (ext_st_model accepts okh) fuel (enc_self fb script delivered) stream hv
  = (enc_self fb' sc' (delivered ++ hs), VC "Ok" [VN n]) /\
  exists pre, all_chunks pre /\ script = pre ++ Block :: sc' /\
    split_all (D ++ chunk_bytes pre) = (F ++ map snd hs, buf fb').
Proof.
  intros HR Hne Hrun. split.
  - pose proof (@read_from_source_is_model accepts okh hv stream fuel fb script delivered Hne) as H.
    rewrite Hrun in H. apply H. cbn. discriminate.
  - destruct (episode_ok HR Hrun) as (pre & A & B & C).
    exists pre. split; [exact A|]. split; [exact B|]. cbv zeta in C. destruct C as (_ & C & _). exact C.
Qed.
