(* Proofs for C14: the smoother model refines the first-cover specification. *)
From Amq Require Import Lib.Base Model.Confirm Spec.Confirm.

(* ---------- first_cover ---------- *)

Lemma first_cover_app h r t :
  first_cover (h ++ [r]) t =
  match first_cover h t with
  | Some c => Some c
  | None => if covers r t then Some (r_ack r) else None
  end.
Proof.
  induction h as [|a h IH]; simpl.
  - destruct (covers r t); reflexivity.
  - destruct (covers a t); auto.
Qed.

Lemma first_cover_none h t :
  first_cover h t = None <-> forall r, In r h -> covers r t = false.
Proof.
  induction h as [|a h IH]; simpl.
  - split; [intros _ r []|reflexivity].
  - destruct (covers a t) eqn:E.
    + split; [discriminate|]. intro H. rewrite (H a) in E by auto. discriminate.
    + rewrite IH. split.
      * intros H r [->|Hin]; auto.
      * intros H r Hin; apply H; auto.
Qed.

Lemma first_cover_some_in h t c :
  first_cover h t = Some c -> exists r, In r h /\ covers r t = true.
Proof.
  induction h as [|a h IH]; simpl; [discriminate|].
  destruct (covers a t) eqn:E.
  - intros _. exists a; auto.
  - intro H. destruct (IH H) as [r [Hin Hc]]. exists r; auto.
Qed.

Lemma covers_single r t : r_multiple r = false -> covers r t = (r_tag r =? t).
Proof. unfold covers. intros ->. simpl. apply orb_false_r. Qed.

Lemma covers_below r t : r_tag r < t -> covers r t = false.
Proof.
  unfold covers. intro H.
  destruct (r_tag r =? t) eqn:E1; [apply N.eqb_eq in E1; lia|].
  destruct (t <=? r_tag r) eqn:E2; [apply N.leb_le in E2; lia|].
  rewrite andb_false_r. reflexivity.
Qed.

Definition stored (h : list raw) (t : N) : option out :=
  option_map (fun c => to_confirm c t) (first_cover h t).

(* ---------- the invariant between raw confirmations ---------- *)

Record Inv (e0 : N) (h : list raw) (outs : list out) (p : smoother) : Prop := {
  inv_e : expected p = e0 + N.of_nat (length outs);
  inv_spec : spec_ok e0 h outs;
  inv_above : forall t, expected p < t -> alookup t (ooo p) = stored h t;
  inv_below : forall t, t <= expected p -> alookup t (ooo p) = None }.

(* ---------- the invariant between two calls of next, while r is processed ---------- *)

Definition L (p : smoother) (it : iter) (t : N) : option out :=
  if (r_tag (it_payload it) <? expected p) && (t =? expected p)
  then it_next it else alookup t (ooo p).

Record Mid (e0 : N) (h : list raw) (r : raw) (outs : list out)
       (p : smoother) (it : iter) : Prop := {
  mid_done : it_done it = false;
  mid_pay : it_payload it = r;
  mid_e : expected p = e0 + N.of_nat (length outs);
  mid_outs : forall i o, nth_error outs i = Some o ->
      o_tag o = e0 + N.of_nat i /\ o_multiple o = false /\
      first_cover (h ++ [r]) (o_tag o) = Some (o_ack o);
  mid_L : forall t, expected p <= t -> L p it t = stored h t;
  mid_below : forall t, t < expected p -> alookup t (ooo p) = None;
  mid_c : r_tag r < expected p -> alookup (expected p) (ooo p) = None;
  mid_nomulti : forall r', In r' h -> r_multiple r' = true -> r_tag r' < expected p;
  mid_single : r_multiple r = false -> expected p <= r_tag r ->
               first_cover h (expected p) = None;
  mid_nodup : r_multiple r = false ->
      forall r', In r' h -> r_multiple r' = false -> r_tag r' <> r_tag r }.

Definition mu (p : smoother) (it : iter) : nat :=
  let a := N.to_nat (r_tag (it_payload it) + 1 - expected p) in
  let b := if r_tag (it_payload it) <? expected p
           then (if it_next it then 1%nat else 0%nat) else 1%nat in
  (a + length (ooo p) + b)%nat.

Lemma nth_error_snoc {A} (l : list A) x i o :
  nth_error (l ++ [x]) i = Some o ->
  (nth_error l i = Some o) \/ (i = length l /\ o = x).
Proof.
  intro H. destruct (Nat.lt_ge_cases i (length l)) as [Hlt|Hge].
  - left. rewrite nth_error_app1 in H; assumption.
  - right. rewrite nth_error_app2 in H by assumption.
    destruct (i - length l)%nat eqn:E.
    + simpl in H. inversion H. split; [lia|reflexivity].
    + simpl in H. destruct n; discriminate.
Qed.

Lemma Inv_to_Mid e0 h r outs p :
  Inv e0 h outs p ->
  (r_multiple r = false ->
     forall r', In r' h -> r_multiple r' = false -> r_tag r' <> r_tag r) ->
  Mid e0 h r outs p (new_iter r).
Proof.
  intros [He [Hs Hn] Ha Hb] Hnd.
  rewrite <- He in Hn.
  constructor; simpl; auto.
  - intros i o Hi. destruct (Hs i o Hi) as (H1 & H2 & H3).
    repeat split; auto. rewrite first_cover_app, H3. reflexivity.
  - intros t Ht. unfold L; simpl.
    destruct ((r_tag r <? expected p) && (t =? expected p)) eqn:E.
    + apply andb_true_iff in E as [_ E]. apply N.eqb_eq in E; subst t.
      unfold stored. rewrite Hn. reflexivity.
    + destruct (N.eq_dec t (expected p)) as [->|Hne].
      * rewrite Hb by lia. unfold stored. rewrite Hn. reflexivity.
      * apply Ha. lia.
  - intros t Ht. apply Hb. lia.
  - intros _. apply Hb. lia.
  - intros r' Hin Hm.
    rewrite first_cover_none in Hn. specialize (Hn r' Hin).
    unfold covers in Hn. rewrite Hm in Hn. simpl in Hn.
    apply orb_false_iff in Hn as [_ Hn]. apply N.leb_gt in Hn. exact Hn.
Qed.

Lemma stored_some h t o :
  stored h t = Some o ->
  o_tag o = t /\ o_multiple o = false /\ first_cover h t = Some (o_ack o).
Proof.
  unfold stored. destruct (first_cover h t) as [c|]; simpl; [|discriminate].
  intro H; inversion H; subst; simpl. auto.
Qed.

(* the value emitted in branches 1 and 2 is the first cover in h ++ [r] *)
Lemma emitted_ok h r t :
  covers r t = true ->
  o_tag (or_else (stored h t) (to_confirm (r_ack r) t)) = t /\
  o_multiple (or_else (stored h t) (to_confirm (r_ack r) t)) = false /\
  first_cover (h ++ [r]) t =
    Some (o_ack (or_else (stored h t) (to_confirm (r_ack r) t))).
Proof.
  intros Hc. rewrite first_cover_app, Hc. unfold stored.
  destruct (first_cover h t) as [c|]; simpl; auto.
Qed.

Lemma next_some e0 h r outs p it o p' it' :
  Mid e0 h r outs p it ->
  next p it = (Some o, p', it') ->
  Mid e0 h r (outs ++ [o]) p' it' /\ (mu p' it' < mu p it)%nat.
Proof.
  intros M. pose proof M as [Hd Hp He Ho HL Hb Hc Hm Hs Hnd].
  unfold next. rewrite Hd, Hp.
  destruct (r_tag r =? expected p) eqn:E1.
  - (* exact match *)
    apply N.eqb_eq in E1. intro H; inversion H; subst o p' it'; clear H.
    assert (HLe : alookup (r_tag r) (ooo p) = stored h (r_tag r)).
    { specialize (HL (r_tag r)). unfold L in HL. rewrite Hp in HL.
      replace (r_tag r <? expected p) with false in HL
        by (symmetry; apply N.ltb_ge; lia).
      simpl in HL. apply HL. lia. }
    assert (Hcov : covers r (r_tag r) = true).
    { unfold covers. rewrite N.eqb_refl. reflexivity. }
    split.
    + constructor; simpl; auto.
      * rewrite app_length; simpl. lia.
      * intros i o Hi. apply nth_error_snoc in Hi as [Hi|[-> ->]]; [auto|].
        rewrite HLe. rewrite <- E1 in He. rewrite <- He.
        pose proof (emitted_ok h Hcov) as (X1 & X2 & X3).
        rewrite X1. auto.
      * intros t Ht. unfold L; simpl.
        replace (r_tag r <? expected p + 1) with true
          by (symmetry; apply N.ltb_lt; lia).
        simpl. destruct (t =? expected p + 1) eqn:E2.
        -- apply N.eqb_eq in E2; subst t.
           rewrite alookup_remove_neq by lia.
           specialize (HL (expected p + 1)). unfold L in HL. rewrite Hp in HL.
           replace (r_tag r <? expected p) with false in HL
             by (symmetry; apply N.ltb_ge; lia).
           apply HL. lia.
        -- apply N.eqb_neq in E2.
           rewrite !alookup_remove_neq by lia.
           specialize (HL t). unfold L in HL. rewrite Hp in HL.
           replace (r_tag r <? expected p) with false in HL
             by (symmetry; apply N.ltb_ge; lia).
           apply HL. lia.
      * intros t Ht. destruct (N.eq_dec t (r_tag r)) as [->|Hne].
        -- rewrite alookup_remove_neq by lia. apply alookup_remove_eq.
        -- rewrite !alookup_remove_neq by lia. apply Hb. lia.
      * intros _. apply alookup_remove_eq.
      * intros r' Hin Hmul. specialize (Hm r' Hin Hmul). lia.
      * intros _ Hle. lia.
    + unfold mu; simpl. rewrite Hp.
      replace (r_tag r <? expected p + 1) with true
        by (symmetry; apply N.ltb_lt; lia).
      replace (r_tag r <? expected p) with false
        by (symmetry; apply N.ltb_ge; lia).
      replace (N.to_nat (r_tag r + 1 - (expected p + 1))) with 0%nat by lia.
      pose proof (aremove_length (r_tag r) (ooo p)).
      destruct (alookup (expected p + 1) (aremove (r_tag r) (ooo p))) eqn:E3.
      * pose proof (aremove_length_lt E3). lia.
      * pose proof (aremove_length (expected p + 1) (aremove (r_tag r) (ooo p))). lia.
  - apply N.eqb_neq in E1.
    destruct (expected p <? r_tag r) eqn:E2.
    + (* above expected *)
      apply N.ltb_lt in E2.
      destruct (r_multiple r) eqn:Emul; [|discriminate].
      intro H; inversion H; subst o p' it'; clear H.
      assert (HLe : alookup (expected p) (ooo p) = stored h (expected p)).
      { specialize (HL (expected p)). unfold L in HL. rewrite Hp in HL.
        replace (r_tag r <? expected p) with false in HL
          by (symmetry; apply N.ltb_ge; lia).
        simpl in HL. apply HL. lia. }
      assert (Hcov : covers r (expected p) = true).
      { unfold covers. rewrite Emul. simpl.
        replace (expected p <=? r_tag r) with true by (symmetry; apply N.leb_le; lia).
        apply orb_true_r. }
      split.
      * constructor; simpl; auto.
        -- rewrite app_length; simpl. lia.
        -- intros i o Hi. apply nth_error_snoc in Hi as [Hi|[-> ->]]; [auto|].
           rewrite HLe. rewrite <- He.
           pose proof (emitted_ok h Hcov) as (X1 & X2 & X3).
           rewrite X1. auto.
        -- intros t Ht. unfold L; simpl. rewrite Hp.
           replace (r_tag r <? expected p + 1) with false
             by (symmetry; apply N.ltb_ge; lia).
           simpl. rewrite alookup_remove_neq by lia.
           specialize (HL t). unfold L in HL. rewrite Hp in HL.
           replace (r_tag r <? expected p) with false in HL
             by (symmetry; apply N.ltb_ge; lia).
           apply HL. lia.
        -- intros t Ht. destruct (N.eq_dec t (expected p)) as [->|Hne].
           ++ apply alookup_remove_eq.
           ++ rewrite alookup_remove_neq by lia. apply Hb. lia.
        -- intro Hlt. lia.
        -- intros r' Hin Hmul. specialize (Hm r' Hin Hmul). lia.
        -- intro Hf; congruence.
        -- intro Hf; congruence.
      * unfold mu; simpl. rewrite Hp.
        replace (r_tag r <? expected p + 1) with false
          by (symmetry; apply N.ltb_ge; lia).
        replace (r_tag r <? expected p) with false
          by (symmetry; apply N.ltb_ge; lia).
        pose proof (aremove_length (expected p) (ooo p)). lia.
    + (* below expected: drain the chain held in it_next *)
      apply N.ltb_ge in E2. assert (Hlt : r_tag r < expected p) by lia.
      destruct (it_next it) as [nx|] eqn:Enx; [|discriminate].
      intro H; inversion H; subst o p' it'; clear H.
      assert (HLe : stored h (expected p) = Some nx).
      { specialize (HL (expected p)). unfold L in HL. rewrite Hp in HL.
        replace (r_tag r <? expected p) with true in HL
          by (symmetry; apply N.ltb_lt; lia).
        rewrite N.eqb_refl in HL. simpl in HL. rewrite <- HL by lia. exact Enx. }
      split.
      * constructor; simpl; auto.
        -- rewrite app_length; simpl. lia.
        -- intros i o Hi. apply nth_error_snoc in Hi as [Hi|[-> ->]]; [auto|].
           apply stored_some in HLe as (H1 & H2 & H3).
           rewrite <- He. repeat split; auto.
           rewrite H1. rewrite first_cover_app, H3. reflexivity.
        -- intros t Ht. unfold L; simpl.
           replace (r_tag r <? expected p + 1) with true
             by (symmetry; apply N.ltb_lt; lia).
           simpl. destruct (t =? expected p + 1) eqn:E3.
           ++ apply N.eqb_eq in E3; subst t.
              specialize (HL (expected p + 1)). unfold L in HL. rewrite Hp in HL.
              replace (expected p + 1 =? expected p) with false in HL
                by (symmetry; apply N.eqb_neq; lia).
              rewrite andb_false_r in HL. apply HL. lia.
           ++ apply N.eqb_neq in E3. rewrite alookup_remove_neq by lia.
              specialize (HL t). unfold L in HL. rewrite Hp in HL.
              replace (t =? expected p) with false in HL
                by (symmetry; apply N.eqb_neq; lia).
              rewrite andb_false_r in HL. apply HL. lia.
        -- intros t Ht. destruct (N.eq_dec t (expected p)) as [->|Hne].
           ++ rewrite alookup_remove_neq by lia. apply Hc. lia.
           ++ rewrite alookup_remove_neq by lia. apply Hb. lia.
        -- intros _. apply alookup_remove_eq.
        -- intros r' Hin Hmul. specialize (Hm r' Hin Hmul). lia.
        -- intros _ Hle. lia.
      * unfold mu; simpl. rewrite Hp, Enx.
        replace (r_tag r <? expected p + 1) with true
          by (symmetry; apply N.ltb_lt; lia).
        replace (r_tag r <? expected p) with true
          by (symmetry; apply N.ltb_lt; lia).
        destruct (alookup (expected p + 1) (ooo p)) eqn:E3.
        -- pose proof (aremove_length_lt E3). lia.
        -- pose proof (aremove_length (expected p + 1) (ooo p)). lia.
Qed.

Lemma next_none e0 h r outs p it p' it' :
  Mid e0 h r outs p it ->
  next p it = (None, p', it') ->
  Inv e0 (h ++ [r]) outs p' /\ it_done it' = true.
Proof.
  intros M. pose proof M as [Hd Hp He Ho HL Hb Hc Hm Hs Hnd].
  unfold next. rewrite Hd, Hp.
  destruct (r_tag r =? expected p) eqn:E1; [discriminate|].
  apply N.eqb_neq in E1.
  destruct (expected p <? r_tag r) eqn:E2.
  - apply N.ltb_lt in E2.
    destruct (r_multiple r) eqn:Emul; [discriminate|].
    intro H; inversion H; subst p' it'; clear H. split; [|reflexivity].
    assert (Hfc : first_cover h (expected p) = None) by (apply Hs; [reflexivity|lia]).
    assert (HL' : forall t, expected p <= t -> alookup t (ooo p) = stored h t).
    { intros t Ht. specialize (HL t Ht). unfold L in HL. rewrite Hp in HL.
      replace (r_tag r <? expected p) with false in HL
        by (symmetry; apply N.ltb_ge; lia). exact HL. }
    assert (Hnone : first_cover h (r_tag r) = None).
    { apply first_cover_none. intros r' Hin.
      destruct (r_multiple r') eqn:Em'.
      - apply covers_below. specialize (Hm r' Hin Em'). lia.
      - rewrite covers_single by assumption.
        apply N.eqb_neq. apply Hnd; auto. }
    constructor; cbn [expected ooo]; auto.
    + split; [exact Ho|].
      rewrite <- He. rewrite first_cover_app, Hfc.
      rewrite covers_single by assumption.
      replace (r_tag r =? expected p) with false by (symmetry; apply N.eqb_neq; lia).
      reflexivity.
    + intros t Ht. destruct (N.eq_dec t (r_tag r)) as [->|Hne].
      * rewrite alookup_insert_eq. unfold stored.
        rewrite first_cover_app, Hnone.
        rewrite covers_single by assumption. rewrite N.eqb_refl. reflexivity.
      * rewrite alookup_insert_neq by assumption. rewrite HL' by lia.
        unfold stored. rewrite first_cover_app.
        rewrite covers_single by assumption.
        replace (r_tag r =? t) with false by (symmetry; apply N.eqb_neq; lia).
        destruct (first_cover h t); reflexivity.
    + intros t Ht. rewrite alookup_insert_neq by lia.
      destruct (N.eq_dec t (expected p)) as [->|Hne].
      * rewrite HL' by lia. unfold stored. rewrite Hfc. reflexivity.
      * apply Hb. lia.
  - apply N.ltb_ge in E2. assert (Hlt : r_tag r < expected p) by lia.
    destruct (it_next it) as [nx|] eqn:Enx; [discriminate|].
    intro H; inversion H; subst p' it'; clear H. split; [|reflexivity].
    assert (Hfc : first_cover h (expected p) = None).
    { specialize (HL (expected p)). unfold L in HL. rewrite Hp in HL.
      replace (r_tag r <? expected p) with true in HL
        by (symmetry; apply N.ltb_lt; lia).
      rewrite N.eqb_refl in HL. simpl in HL. rewrite Enx in HL.
      unfold stored in HL. destruct (first_cover h (expected p)); [|reflexivity].
      specialize (HL (N.le_refl _)). discriminate. }
    constructor; cbn [expected ooo]; auto.
    + split; [exact Ho|].
      rewrite <- He. rewrite first_cover_app, Hfc.
      rewrite covers_below by assumption. reflexivity.
    + intros t Ht. specialize (HL t). unfold L in HL. rewrite Hp in HL.
      replace (t =? expected p) with false in HL
        by (symmetry; apply N.eqb_neq; lia).
      rewrite andb_false_r in HL. rewrite HL by lia.
      unfold stored. rewrite first_cover_app.
      rewrite covers_below by lia.
      destruct (first_cover h t); reflexivity.
    + intros t Ht. destruct (N.eq_dec t (expected p)) as [->|Hne].
      * apply Hc. assumption.
      * apply Hb. lia.
Qed.

Lemma next_none_done p it p' it' :
  next p it = (None, p', it') -> it_done it' = true.
Proof.
  unfold next. destruct (it_done it) eqn:Hd.
  - intro H; inversion H; subst. exact Hd.
  - destruct (r_tag (it_payload it) =? expected p); [discriminate|].
    destruct (expected p <? r_tag (it_payload it)).
    + destruct (r_multiple (it_payload it)); [discriminate|].
      intro H; inversion H; reflexivity.
    + destruct (it_next it); [discriminate|]. intro H; inversion H; reflexivity.
Qed.

Lemma next_done p it : it_done it = true -> next p it = (None, p, it).
Proof. unfold next. intros ->. reflexivity. Qed.

(* ---------- running an iterator to the end ---------- *)

Lemma pull_all_inv e0 h r fuel : forall outs p it,
  Mid e0 h r outs p it -> (mu p it < fuel)%nat ->
  exists os p' it', pull_all fuel p it = (os, p', it') /\
     it_done it' = true /\ Inv e0 (h ++ [r]) (outs ++ os) p'.
Proof.
  induction fuel as [|f IH]; intros outs p it M Hmu; [lia|].
  simpl. destruct (next p it) as [[[o|] p1] it1] eqn:En.
  - destruct (next_some M En) as [M1 Hlt].
    destruct (IH (outs ++ [o]) p1 it1 M1) as (os & p' & it' & Hpa & Hd & Hinv); [lia|].
    rewrite Hpa. exists (o :: os), p', it'.
    rewrite <- app_assoc in Hinv. simpl in Hinv. split; [reflexivity|]. split; assumption.
  - destruct (next_none M En) as [Hinv Hd].
    exists [], p1, it1. rewrite app_nil_r. auto.
Qed.

Lemma fuel_for_enough p r : (mu p (new_iter r) < fuel_for p r)%nat.
Proof.
  unfold mu, fuel_for; simpl.
  destruct (r_tag r <? expected p); lia.
Qed.

Lemma drop_iter_done f p it : it_done it = true -> drop_iter f p it = (p, it).
Proof. destruct f; simpl; [reflexivity|]. intros ->. reflexivity. Qed.

(* one raw confirmation, consumed completely *)
Lemma process_inv e0 h r outs p :
  Inv e0 h outs p ->
  (r_multiple r = false ->
     forall r', In r' h -> r_multiple r' = false -> r_tag r' <> r_tag r) ->
  exists os p', process p r = (os, p') /\ Inv e0 (h ++ [r]) (outs ++ os) p'.
Proof.
  intros Hinv Hnd.
  pose proof (Inv_to_Mid Hinv Hnd) as M.
  destruct (pull_all_inv M (fuel_for_enough p r)) as (os & p' & it' & Hpa & Hd & Hinv').
  unfold process. rewrite Hpa. rewrite drop_iter_done by assumption.
  exists os, p'. auto.
Qed.

(* ---------- whole histories ---------- *)

Lemma singles_distinct_snoc h r :
  singles_distinct (h ++ [r]) ->
  singles_distinct h /\
  (r_multiple r = false ->
     forall r', In r' h -> r_multiple r' = false -> r_tag r' <> r_tag r).
Proof.
  unfold singles_distinct. rewrite filter_app, map_app. simpl.
  unfold is_single at 2. destruct (r_multiple r) eqn:Em; simpl.
  - rewrite app_nil_r. intro H. split; [exact H|discriminate].
  - intro H. apply NoDup_remove in H as [H1 H2]. rewrite app_nil_r in *.
    split; [exact H1|]. intros _ r' Hin Hm' Heq. apply H2.
    rewrite <- Heq. apply in_map. apply filter_In. split; [exact Hin|].
    unfold is_single. rewrite Hm'. reflexivity.
Qed.

Lemma Inv_init e0 : Inv e0 [] [] (new_smoother e0).
Proof.
  constructor; simpl; auto.
  - lia.
  - split; [|reflexivity]. intros [|i] o H; discriminate.
Qed.

Lemma run_all_snoc p h r :
  run_all p (h ++ [r]) =
  let '(acc, p1) := run_all p h in
  let '(os, p2) := process p1 r in (acc ++ os, p2).
Proof.
  unfold run_all. rewrite fold_left_app_step.
  destruct (fold_left _ h ([], p)) as [acc p1]. reflexivity.
Qed.

Theorem run_all_exact e0 h :
  singles_distinct h ->
  exists outs p, run_all (new_smoother e0) h = (outs, p) /\ Inv e0 h outs p.
Proof.
  induction h as [|r h IH] using rev_ind; intro Hsd.
  - exists [], (new_smoother e0). split; [reflexivity|apply Inv_init].
  - apply singles_distinct_snoc in Hsd as [Hsd Hnd].
    destruct (IH Hsd) as (outs & p & Hrun & Hinv).
    destruct (process_inv Hinv Hnd) as (os & p' & Hpr & Hinv').
    exists (outs ++ os), p'. split; [|exact Hinv'].
    rewrite run_all_snoc, Hrun, Hpr. reflexivity.
Qed.

(* C14, exact half: after EVERY valid history (hence after every prefix of one) the
   total output is the maximal run of covered tags with first-cover outcomes,
   and the out-of-order map holds only tags above `expected` (no leak). *)
Theorem smoother_exact e0 h :
  singles_distinct h ->
  exists outs p, run_all (new_smoother e0) h = (outs, p) /\
    spec_ok e0 h outs /\
    expected p = e0 + N.of_nat (length outs) /\
    (forall t, t <= expected p -> alookup t (ooo p) = None).
Proof.
  intro Hsd. destruct (run_all_exact e0 Hsd) as (outs & p & Hr & [He Hs Ha Hb]).
  exists outs, p. auto.
Qed.

(* No u64 overflow: every emitted tag is covered by some confirmation of the history,
   so if all tags are below u64::MAX, `expected` never exceeds u64::MAX and the
   unbounded arithmetic of the model coincides with the u64 arithmetic of the code. *)
Lemma spec_ok_bound e0 h outs bound :
  spec_ok e0 h outs -> tags_below bound h -> e0 <= bound ->
  e0 + N.of_nat (length outs) <= bound.
Proof.
  intros [Hs _] Htb He0.
  destruct outs as [|o0 outs'] eqn:Eo; [simpl; lia|]. rewrite <- Eo in *.
  assert (Hlast : exists o, nth_error outs (length outs - 1) = Some o).
  { destruct (nth_error outs (length outs - 1)) eqn:E; [eauto|].
    apply nth_error_None in E. subst outs. simpl in E. lia. }
  destruct Hlast as [o Hn]. destruct (Hs _ _ Hn) as (H1 & _ & H3).
  apply first_cover_some_in in H3 as (r & Hin & Hc).
  specialize (Htb r Hin).
  assert (o_tag o <= r_tag r).
  { unfold covers in Hc. apply orb_true_iff in Hc as [Hc|Hc].
    - apply N.eqb_eq in Hc. lia.
    - apply andb_true_iff in Hc as [_ Hc]. apply N.leb_le in Hc. exact Hc. }
  assert (length outs > 0)%nat by (subst outs; simpl; lia). lia.
Qed.

(* ---------- early drop ---------- *)

Lemma pull_all_fuel_mono f : forall p it os p' it',
  pull_all f p it = (os, p', it') -> it_done it' = true ->
  forall f', (f <= f')%nat -> pull_all f' p it = (os, p', it').
Proof.
  induction f as [|f IH]; intros p it os p' it' H Hd f' Hle.
  - simpl in H. inversion H; subst.
    destruct f'; simpl; [reflexivity|]. rewrite next_done by assumption. reflexivity.
  - destruct f' as [|f']; [lia|]. simpl in *.
    destruct (next p it) as [[[o|] p1] it1]; [|exact H].
    destruct (pull_all f p1 it1) as [[os1 p2] it2] eqn:E.
    inversion H; subst. rewrite (IH _ _ _ _ _ E Hd f') by lia. reflexivity.
Qed.

Lemma drop_is_pull f : forall p it,
  drop_iter f p it = (let '(_, p', it') := pull_all f p it in (p', it')).
Proof.
  induction f as [|f IH]; intros p it; simpl; [reflexivity|].
  destruct (it_done it) eqn:Hd.
  - rewrite next_done by assumption. reflexivity.
  - destruct (next p it) as [[[o|] p1] it1] eqn:En.
    + rewrite IH. destruct (pull_all f p1 it1) as [[? ?] ?]. reflexivity.
    + rewrite drop_iter_done; [reflexivity|]. eapply next_none_done; eauto.
Qed.

Lemma pull_k_split f : forall k p it os p' it',
  pull_all f p it = (os, p', it') -> it_done it' = true ->
  exists pk itk, pull_k k p it = (firstn k os, pk, itk) /\
     pull_all f pk itk = (skipn k os, p', it').
Proof.
  induction f as [|f IH]; intros k p it os p' it' H Hd.
  - simpl in H. inversion H; subst.
    destruct k; simpl.
    + exists p', it'. auto.
    + rewrite next_done by assumption. exists p', it'. auto.
  - destruct k as [|k].
    + simpl. exists p, it. auto.
    + simpl in H. simpl pull_k.
      destruct (next p it) as [[[o|] p1] it1] eqn:En.
      * destruct (pull_all f p1 it1) as [[os1 p2] it2] eqn:E.
        inversion H; subst.
        destruct (IH k _ _ _ _ _ E Hd) as (pk & itk & Hk & Hrest).
        rewrite Hk. exists pk, itk. split; [reflexivity|].
        change (skipn (S k) (o :: os1)) with (skipn k os1).
        apply pull_all_fuel_mono with (f := f); auto.
      * inversion H; subst. exists p', it'. split; [reflexivity|].
        simpl. rewrite next_done by assumption. reflexivity.
Qed.

(* C14, drop clause: taking only k items and dropping the iterator leaves the smoother
   in exactly the state a complete traversal leaves it in, the k items are the first
   k of the complete output, and the Drop loop terminates (done = true). *)
Theorem process_k_drop e0 h r outs p k :
  Inv e0 h outs p ->
  (r_multiple r = false ->
     forall r', In r' h -> r_multiple r' = false -> r_tag r' <> r_tag r) ->
  exists os p', process p r = (os, p') /\
     process_k p r k = (firstn k os, p', true).
Proof.
  intros Hinv Hnd.
  pose proof (Inv_to_Mid Hinv Hnd) as M.
  destruct (pull_all_inv M (fuel_for_enough p r)) as (os & p' & it' & Hpa & Hd & _).
  exists os, p'. unfold process, process_k. rewrite Hpa.
  rewrite drop_iter_done by assumption. split; [reflexivity|].
  destruct (pull_k_split k Hpa Hd) as (pk & itk & Hk & Hrest).
  rewrite Hk. rewrite drop_is_pull, Hrest. rewrite Hd. reflexivity.
Qed.

(* ---------- safety half: arbitrary histories (duplicates, stale confirmations) ---------- *)

Definition good (h : list raw) (t : N) (o : out) : Prop :=
  o_tag o = t /\ o_multiple o = false /\ exists r, In r h /\ covers r t = true.

Lemma good_mono h r t o : good h t o -> good (h ++ [r]) t o.
Proof.
  intros (H1 & H2 & r' & Hin & Hc). repeat split; auto.
  exists r'. split; [apply in_or_app; auto|exact Hc].
Qed.

Definition outs_good (e0 : N) (h : list raw) (outs : list out) : Prop :=
  forall i o, nth_error outs i = Some o -> good h (e0 + N.of_nat i) o.

Record SInv (e0 : N) (h : list raw) (outs : list out) (p : smoother) : Prop := {
  sinv_e : expected p = e0 + N.of_nat (length outs);
  sinv_outs : outs_good e0 h outs;
  sinv_map : forall t o, alookup t (ooo p) = Some o -> good h t o }.

Record WMid (e0 : N) (h : list raw) (r : raw) (outs : list out)
       (p : smoother) (it : iter) : Prop := {
  wmid_done : it_done it = false;
  wmid_pay : it_payload it = r;
  wmid_e : expected p = e0 + N.of_nat (length outs);
  wmid_outs : outs_good e0 (h ++ [r]) outs;
  wmid_map : forall t o, alookup t (ooo p) = Some o -> good h t o;
  wmid_next : forall o, it_next it = Some o ->
                r_tag r < expected p /\ good h (expected p) o }.

Lemma outs_good_snoc e0 h outs o :
  outs_good e0 h outs -> good h (e0 + N.of_nat (length outs)) o ->
  outs_good e0 h (outs ++ [o]).
Proof.
  intros H1 H2 i o' Hi. apply nth_error_snoc in Hi as [Hi|[-> ->]]; auto.
Qed.

Lemma alookup_remove_some {V} k k' (m : alist V) v :
  alookup k (aremove k' m) = Some v -> alookup k m = Some v.
Proof.
  destruct (N.eq_dec k k') as [->|Hne].
  - rewrite alookup_remove_eq. discriminate.
  - rewrite alookup_remove_neq by assumption. auto.
Qed.

Lemma good_self h r t :
  covers r t = true -> good (h ++ [r]) t (to_confirm (r_ack r) t).
Proof.
  intro Hc. repeat split. exists r. split; [apply in_or_app; simpl; auto|exact Hc].
Qed.

Lemma next_some_weak e0 h r outs p it o p' it' :
  WMid e0 h r outs p it ->
  next p it = (Some o, p', it') ->
  WMid e0 h r (outs ++ [o]) p' it' /\ (mu p' it' < mu p it)%nat.
Proof.
  intros [Hd Hp He Ho Hmap Hnx].
  unfold next. rewrite Hd, Hp.
  destruct (r_tag r =? expected p) eqn:E1.
  - apply N.eqb_eq in E1. intro H; inversion H; subst o p' it'; clear H.
    assert (Hcov : covers r (r_tag r) = true).
    { unfold covers. rewrite N.eqb_refl. reflexivity. }
    split.
    + constructor; cbn [expected ooo it_done it_payload it_next]; auto.
      * rewrite app_length; simpl. lia.
      * apply outs_good_snoc; [exact Ho|]. rewrite <- He, <- E1.
        destruct (alookup (r_tag r) (ooo p)) as [v|] eqn:El; simpl.
        -- apply good_mono. apply Hmap. exact El.
        -- apply good_self. exact Hcov.
      * intros t o Hl. apply Hmap. do 2 apply alookup_remove_some in Hl. exact Hl.
      * intros o Hl. split; [lia|]. apply Hmap.
        apply alookup_remove_some in Hl. exact Hl.
    + unfold mu; cbn [expected ooo it_done it_payload it_next]. rewrite Hp.
      replace (r_tag r <? expected p + 1) with true
        by (symmetry; apply N.ltb_lt; lia).
      replace (r_tag r <? expected p) with false
        by (symmetry; apply N.ltb_ge; lia).
      replace (N.to_nat (r_tag r + 1 - (expected p + 1))) with 0%nat by lia.
      pose proof (aremove_length (r_tag r) (ooo p)).
      destruct (alookup (expected p + 1) (aremove (r_tag r) (ooo p))) eqn:E3.
      * pose proof (aremove_length_lt E3). lia.
      * pose proof (aremove_length (expected p + 1) (aremove (r_tag r) (ooo p))). lia.
  - apply N.eqb_neq in E1.
    destruct (expected p <? r_tag r) eqn:E2.
    + apply N.ltb_lt in E2.
      destruct (r_multiple r) eqn:Emul; [|discriminate].
      intro H; inversion H; subst o p' it'; clear H.
      assert (Hcov : covers r (expected p) = true).
      { unfold covers. rewrite Emul. simpl.
        replace (expected p <=? r_tag r) with true by (symmetry; apply N.leb_le; lia).
        apply orb_true_r. }
      split.
      * constructor; cbn [expected ooo it_done it_payload it_next]; auto.
        -- rewrite app_length; simpl. lia.
        -- apply outs_good_snoc; [exact Ho|]. rewrite <- He.
           destruct (alookup (expected p) (ooo p)) as [v|] eqn:El; simpl.
           ++ apply good_mono. apply Hmap. exact El.
           ++ apply good_self. exact Hcov.
        -- intros t o Hl. apply Hmap. apply alookup_remove_some in Hl. exact Hl.
        -- intros o Hl. destruct (Hnx o Hl) as [Hlt _]. lia.
      * unfold mu; cbn [expected ooo it_done it_payload it_next]. rewrite Hp.
        replace (r_tag r <? expected p + 1) with false
          by (symmetry; apply N.ltb_ge; lia).
        replace (r_tag r <? expected p) with false
          by (symmetry; apply N.ltb_ge; lia).
        pose proof (aremove_length (expected p) (ooo p)). lia.
    + apply N.ltb_ge in E2. assert (Hlt : r_tag r < expected p) by lia.
      destruct (it_next it) as [nx|] eqn:Enx; [|discriminate].
      intro H; inversion H; subst o p' it'; clear H.
      destruct (Hnx nx eq_refl) as [_ Hg].
      split.
      * constructor; cbn [expected ooo it_done it_payload it_next]; auto.
        -- rewrite app_length; simpl. lia.
        -- apply outs_good_snoc; [exact Ho|]. rewrite <- He.
           apply good_mono. exact Hg.
        -- intros t o Hl. apply Hmap. apply alookup_remove_some in Hl. exact Hl.
        -- intros o Hl. split; [lia|]. apply Hmap. exact Hl.
      * unfold mu; cbn [expected ooo it_done it_payload it_next]. rewrite Hp, Enx.
        replace (r_tag r <? expected p + 1) with true
          by (symmetry; apply N.ltb_lt; lia).
        replace (r_tag r <? expected p) with true
          by (symmetry; apply N.ltb_lt; lia).
        destruct (alookup (expected p + 1) (ooo p)) eqn:E3.
        -- pose proof (aremove_length_lt E3). lia.
        -- pose proof (aremove_length (expected p + 1) (ooo p)). lia.
Qed.

Lemma next_none_weak e0 h r outs p it p' it' :
  WMid e0 h r outs p it ->
  next p it = (None, p', it') ->
  SInv e0 (h ++ [r]) outs p' /\ it_done it' = true.
Proof.
  intros [Hd Hp He Ho Hmap Hnx] H.
  split; [|eapply next_none_done; eauto].
  revert H. unfold next. rewrite Hd, Hp.
  destruct (r_tag r =? expected p) eqn:E1; [discriminate|].
  destruct (expected p <? r_tag r) eqn:E2.
  - destruct (r_multiple r) eqn:Emul; [discriminate|].
    intro H; inversion H; subst p' it'; clear H.
    constructor; cbn [expected ooo]; auto.
    intros t o Hl. destruct (N.eq_dec t (r_tag r)) as [->|Hne].
    + rewrite alookup_insert_eq in Hl. inversion Hl; subst o.
      apply good_self. unfold covers. rewrite N.eqb_refl. reflexivity.
    + rewrite alookup_insert_neq in Hl by assumption.
      apply good_mono. apply Hmap. exact Hl.
  - destruct (it_next it); [discriminate|].
    intro H; inversion H; subst p' it'; clear H.
    constructor; auto. intros t o Hl. apply good_mono. apply Hmap. exact Hl.
Qed.

Lemma pull_all_weak e0 h r fuel : forall outs p it,
  WMid e0 h r outs p it -> (mu p it < fuel)%nat ->
  exists os p' it', pull_all fuel p it = (os, p', it') /\
     it_done it' = true /\ SInv e0 (h ++ [r]) (outs ++ os) p'.
Proof.
  induction fuel as [|f IH]; intros outs p it M Hmu; [lia|].
  simpl. destruct (next p it) as [[[o|] p1] it1] eqn:En.
  - destruct (next_some_weak M En) as [M1 Hlt].
    destruct (IH (outs ++ [o]) p1 it1 M1) as (os & p' & it' & Hpa & Hd & Hinv); [lia|].
    rewrite Hpa. exists (o :: os), p', it'.
    rewrite <- app_assoc in Hinv. simpl in Hinv. split; [reflexivity|]. split; assumption.
  - destruct (next_none_weak M En) as [Hinv Hd].
    exists [], p1, it1. rewrite app_nil_r. auto.
Qed.

Lemma SInv_to_WMid e0 h r outs p :
  SInv e0 h outs p -> WMid e0 h r outs p (new_iter r).
Proof.
  intros [He Ho Hm]. constructor; simpl; auto.
  - intros i o Hi. apply good_mono. apply Ho. exact Hi.
  - intros o Hf; discriminate.
Qed.

Lemma process_weak e0 h r outs p :
  SInv e0 h outs p ->
  exists os p', process p r = (os, p') /\ SInv e0 (h ++ [r]) (outs ++ os) p'.
Proof.
  intros Hinv. pose proof (SInv_to_WMid r Hinv) as M.
  destruct (pull_all_weak M (fuel_for_enough p r)) as (os & p' & it' & Hpa & Hd & Hinv').
  unfold process. rewrite Hpa. rewrite drop_iter_done by assumption.
  exists os, p'. auto.
Qed.

(* C14, safety half: for ARBITRARY histories the outputs are consecutive from e0
   (hence strictly increasing, no duplicates), non-multiple, and every emitted tag
   is covered by some confirmation of the history; every run terminates. *)
Theorem smoother_safe e0 h :
  exists outs p, run_all (new_smoother e0) h = (outs, p) /\
    safe_ok e0 h outs /\ expected p = e0 + N.of_nat (length outs).
Proof.
  assert (H : exists outs p, run_all (new_smoother e0) h = (outs, p) /\ SInv e0 h outs p).
  { induction h as [|r h IH] using rev_ind.
    - exists [], (new_smoother e0). split; [reflexivity|].
      constructor; simpl; [lia| |discriminate].
      intros [|i] o Hi; discriminate.
    - destruct IH as (outs & p & Hrun & Hinv).
      destruct (process_weak r Hinv) as (os & p' & Hpr & Hinv').
      exists (outs ++ os), p'. split; [|exact Hinv'].
      rewrite run_all_snoc, Hrun, Hpr. reflexivity. }
  destruct H as (outs & p & Hrun & [He Ho Hm]).
  exists outs, p. repeat split; auto.
  - destruct (Ho i o H) as (H1 & _). exact H1.
  - destruct (Ho i o H) as (_ & H2 & _). exact H2.
  - destruct (Ho i o H) as (H1 & _ & r & Hin & Hc). exists r. rewrite H1. auto.
Qed.
