(* No wake-up is lost and buffering stays bounded (C18), for every interleaving of publishers,
   polls, channel events, socket writes, allocations, removals and loop tails.
   Stdlib only, no axioms. *)
From Amq Require Import Lib.Base Model.Wake.

(* ---------- association-list helpers ---------- *)

Lemma alookup_In {V} k (m : alist V) v : alookup k m = Some v -> In (k, v) m.
Proof.
  induction m as [|[k' v'] m IH]; simpl; [discriminate|].
  destruct (N.eqb_spec k k') as [E|E]; intro H.
  - inversion H; subst. left; reflexivity.
  - right; apply IH; exact H.
Qed.

Lemma Forall_aremove {V} (P : N * V -> Prop) k (m : alist V) : Forall P m -> Forall P (aremove k m).
Proof.
  induction 1 as [|[k' v] m Hx Hm IH]; simpl; [constructor|].
  destruct (k =? k'); [exact IH|constructor; assumption].
Qed.

Lemma Forall_ainsert {V} (P : N * V -> Prop) k v (m : alist V) :
  P (k, v) -> Forall P m -> Forall P (ainsert k v m).
Proof. intros Hp Hm. unfold ainsert. constructor; [exact Hp|apply Forall_aremove; exact Hm]. Qed.

Lemma In_aremove {V} k (m : alist V) e : In e (aremove k m) -> In e m /\ fst e <> k.
Proof.
  induction m as [|[k' v] m IH]; simpl; [tauto|].
  destruct (N.eqb_spec k k') as [E|E].
  - intro H. destruct (IH H). split; [right; assumption|assumption].
  - intros [H|H]; [subst e; split; [left; reflexivity|cbn; congruence]|].
    destruct (IH H). split; [right; assumption|assumption].
Qed.

Lemma Forall_ainsert' {V} (P : N * V -> Prop) k v (m : alist V) :
  P (k, v) -> (forall e, In e m -> fst e <> k -> P e) -> Forall P (ainsert k v m).
Proof.
  intros Hp Hm. unfold ainsert. constructor; [exact Hp|].
  apply Forall_forall. intros e He. destruct (In_aremove He). apply Hm; assumption.
Qed.

Lemma alookup_None_In {V} k (m : alist V) e : alookup k m = None -> In e m -> fst e <> k.
Proof.
  induction m as [|[k' v] m IH]; simpl; [tauto|].
  destruct (N.eqb_spec k k') as [E|E]; [discriminate|].
  intros H [H1|H1]; [subst e; cbn; congruence|apply IH; assumption].
Qed.

Lemma In_remove1 n x l : x <> n -> In x l -> In x (remove1 n l).
Proof.
  intro Hne. induction l as [|y l IH]; simpl; [tauto|].
  intros [E|H].
  - subst y. destruct (N.eqb_spec x n); [contradiction|left; reflexivity].
  - destruct (y =? n); [exact H|right; apply IH; exact H].
Qed.

(* ---------- the invariant ---------- *)

Definition sum (l : list N) : N := fold_right N.add 0 l.

(* what holds of every channel: a non-empty mailbox has its readiness set and - while the
   channels are polled - a wake-up on the way: queued in the poll, reported and not handled
   yet, or owed by the loop tail (channels_need_repoll); the mailbox respects the bound; mx
   bounds the message sizes *)
Definition cok (listening : bool) (pending : list N) (need : bool) (bound mx : N) (e : N * chan) : Prop :=
  let c := snd e in
  (k_mail c <> [] -> k_ready c = true) /\
  (k_mail c <> [] -> listening = true ->
     k_queued c = true \/ In (fst e) pending \/ need = true) /\
  N.of_nat (length (k_mail c)) <= N.max 1 bound /\
  Forall (fun m => m <= mx) (k_mail c).

Definition J (mx : N) (w : wstate) : Prop :=
  Forall (cok (w_listening w) (w_pending w) (w_need w) (w_bound w) mx) (w_chans w).

Lemma J_init mx bound high low : J mx (winit bound high low).
Proof. constructor. Qed.

(* weakening: more pending, need set, or not listening only help *)
Lemma cok_weaken l p need b mx e l' p' need' :
  cok l p need b mx e ->
  (l' = true -> l = true) -> (forall x, In x p -> In x p') -> (need = true -> need' = true) ->
  cok l' p' need' b mx e.
Proof.
  intros (H1 & H2 & H3 & H4) Hl Hp Hn. refine (conj H1 (conj _ (conj H3 H4))).
  intros Hm Hl'. destruct (H2 Hm (Hl Hl')) as [Hq|[Hq|Hq]]; auto.
Qed.

Ltac unf := unfold J, set_chan, with_chans, with_out, with_need, with_pending, with_listening in *;
            cbn [w_chans w_out w_listening w_need w_pending w_bound w_high w_low] in *.

Lemma wsend_J mx w ch sz : sz <= mx -> J mx w -> J mx (snd (wsend w ch sz)).
Proof.
  intros Hsz HJ. unfold wsend. destruct (alookup ch (w_chans w)) as [c|] eqn:Hc; [|exact HJ].
  destruct (k_tx c && _) eqn:Hg; [|exact HJ]. cbn [snd]. unf.
  apply Forall_ainsert; [|exact HJ].
  pose proof (alookup_In Hc) as Hin. rewrite Forall_forall in HJ. specialize (HJ _ Hin).
  destruct HJ as (H1 & H2 & H3 & H4). cbn [fst snd] in *. unfold cok; cbn [fst snd k_mail k_ready k_queued].
  apply andb_true_iff in Hg. destruct Hg as [_ Hlen]. apply N.ltb_lt in Hlen.
  split; [|split; [|split]].
  - intros _. destruct (k_mail c) as [|m r] eqn:Hm; [apply orb_true_r|].
    rewrite orb_false_r. apply H1; try rewrite Hm; discriminate.
  - intros _ Hl. destruct (k_mail c) as [|m r] eqn:Hm.
    + left. rewrite Hl. cbn. apply orb_true_r.
    + assert (Hne : m :: r <> []) by discriminate.
      destruct (H2 Hne Hl) as [Hq|[Hq|Hq]]; auto. left. rewrite Hq. reflexivity.
  - rewrite app_length. cbn [length]. lia.
  - apply Forall_app. split; [exact H4|]. constructor; [exact Hsz|constructor].
Qed.

Lemma wdrop_J mx w ch : J mx w -> J mx (wdrop w ch).
Proof.
  intro HJ. unfold wdrop. destruct (alookup ch (w_chans w)) as [c|] eqn:Hc; [|exact HJ].
  destruct (k_tx c); [|exact HJ]. unf. apply Forall_ainsert; [|exact HJ].
  pose proof (alookup_In Hc) as Hin. rewrite Forall_forall in HJ. specialize (HJ _ Hin).
  destruct HJ as (H1 & H2 & H3 & H4). cbn [fst snd] in *. unfold cok; cbn [fst snd k_mail k_ready k_queued].
  refine (conj _ (conj _ (conj H3 H4))).
  - intro Hm. rewrite (H1 Hm). reflexivity.
  - intros Hm Hl. destruct (H2 Hm Hl) as [Hq|[Hq|Hq]]; auto. left. rewrite Hq. reflexivity.
Qed.

Lemma In_reported l cs ch c :
  In (ch, c) cs -> k_queued c = true -> k_ready c = true -> l = true -> In ch (reported l cs).
Proof.
  intros Hin Hq Hr Hl. unfold reported. apply in_map_iff. exists (ch, c). split; [reflexivity|].
  apply filter_In. split; [exact Hin|]. cbn. rewrite Hq, Hr, Hl. reflexivity.
Qed.

Lemma wpoll_J mx w : J mx w -> J mx (snd (wpoll w)).
Proof.
  intro HJ. unfold wpoll. cbn [snd]. unf.
  rewrite Forall_forall in *. intros [ch c'] Hin. apply in_map_iff in Hin.
  destruct Hin as [[ch0 c] [E Hin]]. inversion E; subst ch0 c'. clear E.
  destruct (HJ _ Hin) as (H1 & H2 & H3 & H4). unfold cok; cbn [fst snd dequeue k_mail k_ready k_queued] in *.
  refine (conj H1 (conj _ (conj H3 H4))).
  intros Hm Hl. destruct (H2 Hm Hl) as [Hq|[Hq|Hq]]; auto.
  - right; left. apply in_or_app. right. apply (In_reported Hin Hq (H1 Hm) Hl).
  - right; left. apply in_or_app. left. exact Hq.
Qed.

(* ---------- the drain loop ---------- *)

Lemma drain_spec fuel high c out :
  (length (k_mail c) < fuel)%nat ->
  let '(r, c', out', stopped) := drain fuel high c out in
  exists taken,
    k_mail c = taken ++ k_mail c' /\ out' = out + sum taken /\
    k_tx c' = k_tx c /\ k_queued c' = k_queued c /\
    (k_mail c' <> [] -> k_ready c' = k_ready c) /\
    (stopped = true -> high < out' /\ r = EvOk) /\
    (stopped = false -> k_mail c' = [] /\ (r = EvOk <-> k_tx c = true)) /\
    (* nothing is received while the buffer is above the mark *)
    (taken <> [] -> out <= high /\ forall mx, Forall (fun m => m <= mx) (k_mail c) -> out' <= high + mx).
Proof.
  revert c out. induction fuel as [|f IH]; intros c out Hlen; [lia|]. cbn [drain].
  destruct (N.ltb_spec high out) as [Hh|Hh].
  - exists []. cbn [app sum fold_right]. repeat split; try reflexivity; try lia; try discriminate; try congruence.
  - destruct (k_mail c) as [|m rest] eqn:Hm.
    + exists []. rewrite Hm. cbn [app sum fold_right]. repeat split; try reflexivity; try lia; try discriminate;
        try congruence; destruct (k_tx c); intros; try reflexivity; try discriminate; congruence.
    + cbn [length] in Hlen.
      specialize (IH {| k_mail := rest; k_tx := k_tx c;
                        k_ready := match rest with [] => negb (k_tx c) && k_ready c | _ => k_ready c end;
                        k_queued := k_queued c |} (out + m)).
      cbn [k_mail k_tx k_ready k_queued] in IH. specialize (IH ltac:(lia)).
      destruct (drain f high _ (out + m)) as [[[r c'] out'] stopped].
      destruct IH as (taken & E1 & E2 & E3 & E4 & E5 & E6 & E7 & E8).
      exists (m :: taken). cbn [app sum fold_right]. rewrite E1.
      split; [reflexivity|]. split; [unfold sum in *; lia|]. split; [exact E3|]. split; [exact E4|].
      split. { intro Hne. rewrite (E5 Hne). rewrite E1. destruct taken; [|reflexivity].
               cbn [app]. destruct (k_mail c'); [contradiction|reflexivity]. }
      split; [exact E6|]. split; [exact E7|].
      intros _. split; [exact Hh|]. intros mx Hall. try rewrite Hm in Hall. apply Forall_cons_iff in Hall. destruct Hall as [Hm1 Hrest].
      destruct taken as [|t taken'].
      * cbn [sum fold_right] in E2. lia.
      * destruct (E8 ltac:(discriminate)) as [_ E9]. apply E9. rewrite E1. exact Hrest.
Qed.

Lemma Forall_app_r {A} (P : A -> Prop) l1 l2 : Forall P (l1 ++ l2) -> Forall P l2.
Proof. intro H. apply Forall_app in H. tauto. Qed.

Lemma wevent_J mx w ch : J mx w -> J mx (snd (wevent w ch)).
Proof.
  intro HJ. unfold wevent. destruct (existsb (N.eqb ch) (w_pending w)); [|exact HJ].
  destruct (alookup ch (w_chans (with_pending w (remove1 ch (w_pending w))))) as [c|] eqn:Hc.
  - unf.
    pose proof (@drain_spec (S (S (length (k_mail c)))) (w_high w) c (w_out w) ltac:(lia)) as Hd.
    destruct (drain _ (w_high w) c (w_out w)) as [[[r c'] out'] stopped].
    destruct Hd as (taken & E1 & E2 & E3 & E4 & E5 & E6 & E7 & E8). cbn [snd].
    pose proof (alookup_In Hc) as Hin.
    assert (Hc0 : cok (w_listening w) (w_pending w) (w_need w) (w_bound w) mx (ch, c))
      by (rewrite Forall_forall in HJ; apply HJ; exact Hin).
    destruct Hc0 as (H1 & H2 & H3 & H4). cbn [fst snd] in *.
    assert (Hrest : forall need', (stopped = true -> need' = true) -> (w_need w = true -> need' = true) ->
              Forall (cok (w_listening w) (remove1 ch (w_pending w)) need' (w_bound w) mx)
                     (ainsert ch c' (w_chans w))).
    { intros need' Hs Hn. apply Forall_ainsert'.
      - unfold cok; cbn [fst snd]. split; [|split; [|split]].
        + intro Hne. rewrite (E5 Hne). apply H1. rewrite E1. destruct taken; [exact Hne|discriminate].
        + intros Hne _. right; right. destruct stopped; [apply Hs; reflexivity|].
          destruct (E7 eq_refl) as [E _]. contradiction.
        + rewrite E1, app_length in H3. lia.
        + rewrite E1 in H4. apply (Forall_app_r H4).
      - rewrite Forall_forall in HJ. intros [ch2 c2] Hin2 Hne. specialize (HJ _ Hin2).
        destruct HJ as (G1 & G2 & G3 & G4). cbn [fst snd] in *.
        refine (conj G1 (conj _ (conj G3 G4))). intros Hm Hl.
        destruct (G2 Hm Hl) as [Hq|[Hq|Hq]]; auto.
        right; left. apply In_remove1; assumption. }
    destruct stopped; apply Hrest; auto; discriminate.
  - unf. cbn [snd].
    assert (Hrest : forall need', (w_need w = true -> need' = true) ->
              Forall (cok (w_listening w) (remove1 ch (w_pending w)) need' (w_bound w) mx) (w_chans w)).
    { intros need' Hn. rewrite Forall_forall in *. intros [ch2 c2] Hin2.
      pose proof (alookup_None_In Hc Hin2) as Hne. specialize (HJ _ Hin2).
      destruct HJ as (G1 & G2 & G3 & G4). cbn [fst snd] in *.
      refine (conj G1 (conj _ (conj G3 G4))). intros Hm Hl.
      destruct (G2 Hm Hl) as [Hq|[Hq|Hq]]; auto.
      right; left. apply In_remove1; assumption. }
    destruct (w_high w <? w_out w); unf; apply Hrest; auto.
Qed.

Lemma walloc_J mx w ch : J mx w -> J mx (walloc w ch).
Proof.
  intro HJ. unfold walloc. destruct (alookup ch (w_chans w)); [exact HJ|]. unf.
  apply Forall_ainsert; [|exact HJ]. unfold cok; cbn.
  split; [congruence|]. split; [congruence|]. split; [lia|constructor].
Qed.

Lemma wremove_J mx w ch : J mx w -> J mx (wremove w ch).
Proof. intro HJ. unfold wremove. unf. apply Forall_aremove. exact HJ. Qed.

Lemma rearm_all_J l p b mx cs need :
  Forall (cok l p need b mx) cs -> Forall (cok true p false b mx) (rearm_all cs).
Proof.
  intro H. unfold rearm_all. rewrite Forall_forall in *. intros [ch c'] Hin.
  apply in_map_iff in Hin. destruct Hin as [[ch0 c] [E Hin]]. inversion E; subst ch0 c'. clear E.
  destruct (H _ Hin) as (H1 & H2 & H3 & H4). unfold cok; cbn [fst snd rearm k_mail k_ready k_queued] in *.
  refine (conj H1 (conj _ (conj H3 H4))). intros Hm _. left. rewrite (H1 Hm). apply orb_true_r.
Qed.

Lemma wtail_J mx w : J mx w -> J mx (snd (wtail w)).
Proof.
  intro HJ. unfold wtail.
  destruct (w_listening w && (w_high w <? w_out w)) eqn:C1; cbn [snd].
  - unf. eapply Forall_impl; [|exact HJ]. intros e He.
    apply (cok_weaken He); auto. discriminate.
  - destruct (negb (w_listening w) && (w_out w <=? w_low w)) eqn:C2; cbn [snd].
    + unf. eapply rearm_all_J. exact HJ.
    + destruct (w_listening w && w_need w) eqn:C3; cbn [snd]; [|exact HJ].
      unf. eapply rearm_all_J. exact HJ.
Qed.

Definition op_ok (mx : N) (o : wop) : Prop :=
  match o with WSend _ sz => sz <= mx | _ => True end.

Lemma wstep_J mx w o : op_ok mx o -> J mx w -> J mx (wstep w o).
Proof.
  intros Ho HJ. destruct o; cbn [wstep].
  - apply wsend_J; assumption.
  - apply wdrop_J; assumption.
  - apply wpoll_J; assumption.
  - apply wevent_J; assumption.
  - exact HJ.
  - exact HJ.
  - apply walloc_J; assumption.
  - apply wremove_J; assumption.
  - apply wtail_J; assumption.
Qed.

(* every reachable state, whatever the interleaving *)
Theorem wake_invariant mx bound high low ops :
  Forall (op_ok mx) ops -> J mx (wrun (winit bound high low) ops).
Proof.
  unfold wrun. generalize (J_init mx bound high low). generalize (winit bound high low).
  induction ops as [|o ops IH]; intros w HJ Hops; cbn [fold_left]; [exact HJ|].
  apply Forall_cons_iff in Hops. destruct Hops as [Ho Hops].
  apply IH; [apply wstep_J; assumption|exact Hops].
Qed.

(* ---------- what the invariant gives ---------- *)

(* NO LOST WAKE-UP.  After the loop tail of a batch whose events were all handled: while the
   channels are polled, every channel that holds a message is queued in the poll ... *)
Theorem tail_leaves_wakeups mx w ch c :
  J mx w -> w_pending w = [] ->
  let w' := snd (wtail w) in
  alookup ch (w_chans w') = Some c -> k_mail c <> [] -> w_listening w' = true ->
  k_queued c = true /\ k_ready c = true.
Proof.
  intros HJ Hp w' Hc Hm Hl. subst w'.
  pose proof (wtail_J HJ) as HJ'. pose proof (alookup_In Hc) as Hin.
  unfold J in HJ'. rewrite Forall_forall in HJ'. destruct (HJ' _ Hin) as (H1 & H2 & _ & _).
  cbn [fst snd] in *. split; [|exact (H1 Hm)].
  destruct (H2 Hm Hl) as [Hq|[Hq|Hq]]; [exact Hq| |].
  - (* pending is still empty *)
    exfalso. revert Hq. unfold wtail.
    destruct (w_listening w && _); [cbn; rewrite Hp; tauto|].
    destruct (negb (w_listening w) && _); [cbn; rewrite Hp; tauto|].
    destruct (w_listening w && w_need w); cbn; rewrite Hp; tauto.
  - (* need is false whenever the tail leaves the channels polled *)
    exfalso. revert Hq Hl. unfold wtail.
    destruct (w_listening w) eqn:L; cbn [andb negb].
    + destruct (w_high w <? w_out w); [cbn; discriminate|].
      destruct (w_need w) eqn:Nd; cbn; [discriminate|]. rewrite Nd. discriminate.
    + destruct (w_out w <=? w_low w); cbn; [discriminate|]. rewrite L. discriminate.
Qed.

(* ... so the very next poll reports it *)
Theorem next_poll_reports mx w ch c :
  J mx w -> w_pending w = [] ->
  let w' := snd (wtail w) in
  alookup ch (w_chans w') = Some c -> k_mail c <> [] -> w_listening w' = true ->
  In ch (fst (wpoll w')).
Proof.
  intros HJ Hp w' Hc Hm Hl. destruct (@tail_leaves_wakeups mx w ch c HJ Hp Hc Hm Hl) as [Hq Hr].
  unfold wpoll. cbn [fst]. apply (In_reported (alookup_In Hc) Hq Hr Hl).
Qed.

(* while the channels are not polled there is unsent data, hence (C01_write_interest) a
   writable interest on the socket: the tail runs again when the transport takes data ... *)
Theorem throttled_has_data w :
  w_listening (snd (wtail w)) = false -> 0 < w_out (snd (wtail w)).
Proof.
  unfold wtail. destruct (w_listening w) eqn:L; cbn [andb negb].
  - destruct (N.ltb_spec (w_high w) (w_out w)); [cbn; intros _; lia|].
    destruct (w_need w); cbn; [discriminate|]. rewrite L. discriminate.
  - destruct (N.leb_spec (w_out w) (w_low w)); cbn; [discriminate|]. intros _. lia.
Qed.

(* ... and as soon as it finds the buffer at or below the low-water mark every channel with
   messages is queued again *)
Theorem resume_rearms mx w ch c :
  J mx w -> w_listening w = false -> w_out w <= w_low w ->
  let w' := snd (wtail w) in
  w_listening w' = true /\ w_need w' = false /\
  (alookup ch (w_chans w') = Some c -> k_mail c <> [] -> k_queued c = true).
Proof.
  intros HJ L Hlow. cbn zeta. unfold wtail. rewrite L. cbn [andb negb].
  destruct (N.leb_spec (w_out w) (w_low w)); [|lia]. cbn [snd]. unf.
  split; [reflexivity|]. split; [reflexivity|]. intros Hc Hm.
  pose proof (rearm_all_J HJ) as HR. rewrite Forall_forall in HR.
  destruct (HR _ (alookup_In Hc)) as (_ & H2 & _). cbn [fst snd] in H2.
  destruct (H2 Hm eq_refl) as [Hq|[Hq|Hq]]; [exact Hq| |discriminate].
  (* pending: rearm queued it anyway *)
  unfold rearm_all in Hc. clear - Hc Hm HJ.
  apply alookup_In in Hc. apply in_map_iff in Hc. destruct Hc as [[ch0 c0] [E Hin]].
  inversion E; subst. unfold J in HJ. rewrite Forall_forall in HJ.
  destruct (HJ _ Hin) as (H1 & _). cbn [snd rearm k_mail k_queued k_ready] in *.
  rewrite (H1 Hm). apply orb_true_r.
Qed.

(* BOUNDED BUFFERING.  A channel event receives nothing while the buffer is above the
   high-water mark, so it leaves the buffer no larger than it found it or at most one
   message above the mark *)
Theorem event_bounded mx w ch :
  J mx w ->
  w_out (snd (wevent w ch)) <= N.max (w_out w) (w_high w + mx).
Proof.
  intro HJ. unfold wevent. destruct (existsb (N.eqb ch) (w_pending w)); [|cbn; lia].
  destruct (alookup ch (w_chans (with_pending w (remove1 ch (w_pending w))))) as [c|] eqn:Hc.
  - unf.
    pose proof (@drain_spec (S (S (length (k_mail c)))) (w_high w) c (w_out w) ltac:(lia)) as Hd.
    destruct (drain _ (w_high w) c (w_out w)) as [[[r c'] out'] stopped].
    destruct Hd as (taken & E1 & E2 & _ & _ & _ & _ & _ & E8). cbn [snd].
    assert (Hout : out' <= N.max (w_out w) (w_high w + mx)).
    { destruct taken as [|t tk]; [cbn [sum fold_right] in E2; lia|].
      destruct (E8 ltac:(discriminate)) as [_ E9].
      unfold J in HJ. rewrite Forall_forall in HJ.
      destruct (HJ _ (alookup_In Hc)) as (_ & _ & _ & H4). specialize (E9 mx H4). lia. }
    destruct stopped; unf; exact Hout.
  - cbn [snd]. unf. destruct (w_high w <? w_out w); unf; lia.
Qed.

Fixpoint grown (ops : list wop) : N :=
  match ops with [] => 0 | WGrow k :: r => k + grown r | _ :: r => grown r end.

Lemma wstep_high w o : w_high (wstep w o) = w_high w.
Proof.
  destruct o; cbn [wstep]; try reflexivity.
  - unfold wsend. destruct (alookup _ _); [|reflexivity]. destruct (_ && _); reflexivity.
  - unfold wdrop. destruct (alookup _ _); [|reflexivity]. destruct (k_tx _); reflexivity.
  - unfold wevent. destruct (existsb _ _); [|reflexivity].
    destruct (alookup _ _).
    + destruct (drain _ _ _ _) as [[[? ?] ?] s]. destruct s; reflexivity.
    + cbn. destruct (_ <? _); reflexivity.
  - unfold walloc. destruct (alookup _ _); reflexivity.
  - unfold wtail. destruct (_ && _); [reflexivity|]. destruct (_ && _); [reflexivity|].
    destruct (_ && _); reflexivity.
Qed.

Lemma wstep_out_other w o :
  match o with WEv _ | WGrow _ => True | _ => w_out (wstep w o) <= w_out w end.
Proof.
  destruct o; cbn [wstep]; try exact I.
  - unfold wsend. destruct (alookup _ _); [|cbn; lia]. destruct (_ && _); cbn; lia.
  - unfold wdrop. destruct (alookup _ _); [|lia]. destruct (k_tx _); cbn; lia.
  - cbn. lia.
  - unfold wwrote. cbn. lia.
  - unfold walloc. destruct (alookup _ _); cbn; lia.
  - cbn. lia.
  - unfold wtail. destruct (_ && _); [cbn; lia|]. destruct (_ && _); [cbn; lia|].
    destruct (_ && _); cbn; lia.
Qed.

(* for every run: the buffer never exceeds the high-water mark by more than one message plus
   what the I/O thread queued itself (replies, heartbeats) *)
Theorem out_bounded mx bound high low ops :
  Forall (op_ok mx) ops ->
  w_out (wrun (winit bound high low) ops) <= high + mx + grown ops.
Proof.
  intro Hops.
  assert (G : forall ops w, Forall (op_ok mx) ops -> J mx w ->
            forall g, w_out w <= w_high w + mx + g ->
            w_out (wrun w ops) <= w_high w + mx + (g + grown ops)).
  { clear. induction ops as [|o ops IH]; intros w Hops HJ g Hg; cbn [wrun fold_left grown]; [lia|].
    apply Forall_cons_iff in Hops. destruct Hops as [Ho Hops].
    pose proof (wstep_J Ho HJ) as HJ'. pose proof (wstep_high w o) as Hh.
    fold (wrun (wstep w o) ops).
    destruct o; try (specialize (IH (wstep w _) Hops HJ' g); rewrite Hh in IH;
                     match goal with |- context [wstep w ?op] => pose proof (wstep_out_other w op) as Ho' end;
                     cbn beta iota in Ho'; apply IH; lia).
    - (* WEv *)
      specialize (IH (wstep w (WEv ch)) Hops HJ' g). rewrite Hh in IH. apply IH.
      cbn [wstep]. pose proof (@event_bounded mx w ch HJ). lia.
    - (* WGrow *)
      specialize (IH (wstep w (WGrow k)) Hops HJ' (g + k)). rewrite Hh in IH.
      replace (g + (k + grown ops)) with (g + k + grown ops) by lia. apply IH.
      cbn [wstep wgrow with_out w_out]. lia. }
  specialize (G ops (winit bound high low) Hops (J_init mx bound high low) 0).
  cbn [winit w_out w_high] in G. specialize (G ltac:(lia)). lia.
Qed.

(* what publishers have been allowed to hand over and the socket has not taken yet: the
   buffer plus the mailboxes; the mailboxes hold at most max(1, bound) messages each *)
Definition mail_total (cs : alist chan) : N := sum (map (fun e => sum (k_mail (snd e))) cs).
Definition backlog (w : wstate) : N := w_out w + mail_total (w_chans w).

Lemma sum_bounded mx l : Forall (fun m => m <= mx) l -> sum l <= N.of_nat (length l) * mx.
Proof.
  induction 1 as [|x l Hx Hl IH]; cbn [sum fold_right length]; [lia|]. unfold sum in *. lia.
Qed.

Lemma mail_total_bounded l p need b mx cs :
  Forall (cok l p need b mx) cs -> mail_total cs <= N.of_nat (length cs) * (N.max 1 b * mx).
Proof.
  induction 1 as [|[ch c] cs Hc Hcs IH]; unfold mail_total in *; cbn [map sum fold_right length snd]; [lia|].
  destruct Hc as (_ & _ & H3 & H4). cbn [snd] in *. pose proof (sum_bounded H4). unfold sum in *. nia.
Qed.

Lemma wstep_bound w o : w_bound (wstep w o) = w_bound w.
Proof.
  destruct o; cbn [wstep]; try reflexivity.
  - unfold wsend. destruct (alookup _ _); [|reflexivity]. destruct (_ && _); reflexivity.
  - unfold wdrop. destruct (alookup _ _); [|reflexivity]. destruct (k_tx _); reflexivity.
  - unfold wevent. destruct (existsb _ _); [|reflexivity].
    destruct (alookup _ _).
    + destruct (drain _ _ _ _) as [[[? ?] ?] s]. destruct s; reflexivity.
    + cbn. destruct (_ <? _); reflexivity.
  - unfold walloc. destruct (alookup _ _); reflexivity.
  - unfold wtail. destruct (_ && _); [reflexivity|]. destruct (_ && _); [reflexivity|].
    destruct (_ && _); reflexivity.
Qed.

Lemma wrun_bound w ops : w_bound (wrun w ops) = w_bound w.
Proof.
  revert w. induction ops as [|o ops IH]; intro w; cbn [wrun fold_left]; [reflexivity|].
  fold (wrun (wstep w o) ops). rewrite IH. apply wstep_bound.
Qed.

(* "the outbound data a connection buffers stays bounded in terms of its tuning (high-water
   mark plus the in-memory channel bound)" - for every run *)
Theorem backlog_bounded mx bound high low ops :
  Forall (op_ok mx) ops ->
  let w := wrun (winit bound high low) ops in
  backlog w <= high + mx + grown ops + N.of_nat (length (w_chans w)) * (N.max 1 bound * mx).
Proof.
  intros Hops w. unfold backlog.
  pose proof (@out_bounded mx bound high low ops Hops) as H1.
  pose proof (@wake_invariant mx bound high low ops Hops) as HJ. fold w in H1, HJ.
  pose proof (mail_total_bounded HJ) as H2.
  replace (w_bound w) with bound in H2 by (unfold w; rewrite wrun_bound; reflexivity). lia.
Qed.

(* the drain loop hands the mailbox over in order, whole, and only a prefix of it *)
Theorem drain_in_order fuel high c out :
  (length (k_mail c) < fuel)%nat ->
  let '(_, c', out', _) := drain fuel high c out in
  exists taken, k_mail c = taken ++ k_mail c' /\ out' = out + sum taken.
Proof.
  intro H. pose proof (@drain_spec fuel high c out H) as Hd.
  destruct (drain fuel high c out) as [[[r c'] out'] stopped].
  destruct Hd as (taken & E1 & E2 & _). exists taken. split; assumption.
Qed.

(* PROGRESS.  A channel event that finds the buffer at or below the mark hands over at least
   the channel's oldest message: together with C18_next_poll_reports (a channel holding a
   message is reported by the next poll while channels are polled), C18_throttled_has_data
   and C18_resume_rearms (while they are not, there is data to write and the first tail at or
   below the low-water mark polls them again) every accepted message moves towards the wire as
   long as the transport goes on taking data *)
Lemma drain_takes_first fuel high c out m rest :
  k_mail c = m :: rest -> out <= high -> (length (k_mail c) < fuel)%nat ->
  let '(_, c', out', _) := drain fuel high c out in
  exists more, rest = more ++ k_mail c' /\ out' = out + m + sum more.
Proof.
  intros Hm Hle Hf. destruct fuel as [|f]; [lia|]. cbn [drain].
  destruct (N.ltb_spec high out) as [H|_]; [lia|]. rewrite Hm.
  set (c1 := {| k_mail := rest; k_tx := k_tx c;
                k_ready := match rest with [] => negb (k_tx c) && k_ready c | _ => k_ready c end;
                k_queued := k_queued c |}).
  assert (Hf1 : (length (k_mail c1) < f)%nat) by (rewrite Hm in Hf; cbn in *; lia).
  pose proof (@drain_spec f high c1 (out + m) Hf1) as Hd.
  destruct (drain f high c1 (out + m)) as [[[r c'] out'] stopped].
  destruct Hd as (taken & E1 & E2 & _). exists taken. cbn [k_mail c1] in E1. split; [exact E1|exact E2].
Qed.

Theorem event_progress w ch c m rest :
  In ch (w_pending w) -> alookup ch (w_chans w) = Some c -> k_mail c = m :: rest ->
  w_out w <= w_high w ->
  exists c' more, alookup ch (w_chans (snd (wevent w ch))) = Some c' /\
    rest = more ++ k_mail c' /\ w_out (snd (wevent w ch)) = w_out w + m + sum more.
Proof.
  intros Hin Hc Hm Hle. unfold wevent.
  assert (He : existsb (N.eqb ch) (w_pending w) = true).
  { apply existsb_exists. exists ch. split; [exact Hin|apply N.eqb_refl]. }
  rewrite He. cbn [w_chans with_pending]. rewrite Hc.
  pose proof (@drain_takes_first (S (S (length (k_mail c)))) (w_high w) c (w_out w) m rest Hm Hle ltac:(lia)) as Hd.
  cbn [w_high w_out with_pending].
  destruct (drain _ (w_high w) c (w_out w)) as [[[r c'] out'] stopped].
  destruct Hd as (more & E1 & E2). exists c', more. cbn [snd].
  destruct stopped; unf; (split; [apply alookup_insert_eq|split; [exact E1|exact E2]]).
Qed.
