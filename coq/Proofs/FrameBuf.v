(* Proofs for C06: what read_from hands on depends on the bytes only. *)
From Amq Require Import Lib.Base Gen.Consts Model.Wire Model.FrameBuf Spec.FrameBuf.

(* ---------- parse_size ---------- *)

Lemma parse_size_some buf fs : parse_size buf = Some fs -> (7 <= length buf)%nat /\ 8 <= fs.
Proof.
  unfold parse_size.
  destruct buf as [|x0 [|x1 [|x2 [|a [|b [|c [|d rest]]]]]]]; try discriminate.
  intro H; inversion H; subst. simpl. split; lia.
Qed.

Lemma parse_size_app buf X fs : parse_size buf = Some fs -> parse_size (buf ++ X) = Some fs.
Proof.
  unfold parse_size.
  destruct buf as [|x0 [|x1 [|x2 [|a [|b [|c [|d rest]]]]]]]; try discriminate.
  simpl. auto.
Qed.

(* ---------- greedy split: fuel irrelevance and composition ---------- *)

Lemma split_frames_fuel f : forall f' s,
  (length s < f)%nat -> (length s < f')%nat -> split_frames f s = split_frames f' s.
Proof.
  induction f as [|f IH]; intros f' s H1 H2; [lia|].
  destruct f' as [|f']; [lia|]. simpl.
  destruct (parse_size s) as [fs|] eqn:E; [|reflexivity].
  destruct (fs <=? N.of_nat (length s)) eqn:E2; [|reflexivity].
  apply parse_size_some in E as [E3 E4]. apply N.leb_le in E2.
  assert (Hl : (length (skipn (N.to_nat fs) s) < length s)%nat).
  { rewrite skipn_length. lia. }
  rewrite (IH f' (skipn (N.to_nat fs) s)) by lia. reflexivity.
Qed.

Lemma split_all_unfold s :
  split_all s =
  match parse_size s with
  | Some fs =>
      if fs <=? N.of_nat (length s) then
        let '(fs', rest) := split_all (skipn (N.to_nat fs) s) in
        (firstn (N.to_nat fs) s :: fs', rest)
      else ([], s)
  | None => ([], s)
  end.
Proof.
  unfold split_all at 1. simpl.
  destruct (parse_size s) as [fs|] eqn:E; [|reflexivity].
  destruct (fs <=? N.of_nat (length s)) eqn:E2; [|reflexivity].
  apply parse_size_some in E as [E3 E4]. apply N.leb_le in E2.
  unfold split_all.
  rewrite (@split_frames_fuel (length s) (S (length (skipn (N.to_nat fs) s)))).
  - reflexivity.
  - rewrite skipn_length. lia.
  - lia.
Qed.

(* taking the first complete frame off a buffer, with any continuation X *)
Lemma split_all_first buf X fs :
  parse_size buf = Some fs -> fs <= N.of_nat (length buf) ->
  split_all (buf ++ X) =
  let '(G, r) := split_all (skipn (N.to_nat fs) buf ++ X) in
  (firstn (N.to_nat fs) buf :: G, r).
Proof.
  intros E Hle. rewrite split_all_unfold. rewrite (parse_size_app X E).
  rewrite app_length.
  replace (fs <=? N.of_nat (length buf + length X)) with true
    by (symmetry; apply N.leb_le; lia).
  rewrite firstn_app, skipn_app.
  replace (N.to_nat fs - length buf)%nat with 0%nat by lia.
  simpl. rewrite app_nil_r. reflexivity.
Qed.

(* ---------- the relation between the buffer and the bytes delivered so far ---------- *)

Definition all_good (accepts : N -> bool) (F : list bytes) : Prop :=
  good_prefix accepts 0 F = (F, false).

Record Rel (accepts : N -> bool) (D : bytes) (fb : fbuf) (F : list bytes) : Prop := {
  rel_seen : seen fb = N.of_nat (length F);
  rel_good : all_good accepts F;
  rel_split : forall X G r, split_all (buf fb ++ X) = (G, r) ->
                            split_all (D ++ X) = (F ++ G, r) }.

Lemma Rel_init accepts : Rel accepts [] new_fbuf [].
Proof. constructor; simpl; auto. reflexivity. Qed.

Lemma good_prefix_app accepts F : forall i G,
  good_prefix accepts i F = (F, false) ->
  good_prefix accepts i (F ++ G) =
  let '(g, bad) := good_prefix accepts (i + N.of_nat (length F)) G in (F ++ g, bad).
Proof.
  induction F as [|fr F IH]; intros i G H; simpl in *.
  - rewrite N.add_0_r. destruct (good_prefix accepts i G); reflexivity.
  - destruct (envelope_ok fr && accepts i) eqn:E; [|discriminate].
    destruct (good_prefix accepts (i + 1) F) as [g bad] eqn:E2.
    inversion H; subst. rewrite (IH (i + 1) G E2).
    replace (i + 1 + N.of_nat (length F)) with (i + N.pos (Pos.of_succ_nat (length F))) by lia.
    destruct (good_prefix accepts _ G). reflexivity.
Qed.

Lemma all_good_snoc accepts F fr :
  all_good accepts F -> envelope_ok fr && accepts (N.of_nat (length F)) = true ->
  all_good accepts (F ++ [fr]).
Proof.
  unfold all_good. intros H E. rewrite (good_prefix_app _ H). simpl.
  rewrite N.add_0_l, E. reflexivity.
Qed.

(* chunk items at the front of a script *)
Fixpoint chunk_bytes (pre : list rd) : bytes :=
  match pre with
  | Chunk bs :: pre' => bs ++ chunk_bytes pre'
  | _ => []
  end.
Definition all_chunks (pre : list rd) : Prop :=
  forall x, In x pre -> exists bs, x = Chunk bs.

Definition is_term (e : rd) (r : ep_result) (nread0 : N) (bs : bytes) : Prop :=
  match e, r with
  | Block, EpOk n => n = nread0 + N.of_nat (length bs)
  | Eof, EpClosed => True
  | IoErr, EpIoErr => True
  | _, _ => False
  end.

(* ---------- try_frame ---------- *)

Definition okh : N -> bytes -> bool := fun _ _ => true.

Lemma try_frame_none accepts fb :
  try_frame accepts okh fb = None -> split_all (buf fb) = ([], buf fb).
Proof.
  unfold try_frame. rewrite split_all_unfold.
  destruct (parse_size (buf fb)) as [fs|]; [|reflexivity].
  destruct (fs <=? N.of_nat (length (buf fb))); [|reflexivity].
  destruct (envelope_ok _ && accepts (seen fb)); simpl; discriminate.
Qed.

Lemma try_frame_frame accepts fb fb1 i fr :
  try_frame accepts okh fb = Some (inl (fb1, i, fr)) ->
  exists fs, parse_size (buf fb) = Some fs /\ fs <= N.of_nat (length (buf fb)) /\
    fr = firstn (N.to_nat fs) (buf fb) /\ i = seen fb /\
    fb1 = {| buf := skipn (N.to_nat fs) (buf fb); seen := seen fb + 1 |} /\
    envelope_ok fr && accepts (seen fb) = true.
Proof.
  unfold try_frame.
  destruct (parse_size (buf fb)) as [fs|]; [|discriminate].
  destruct (fs <=? N.of_nat (length (buf fb))) eqn:E; [|discriminate].
  destruct (envelope_ok _ && accepts (seen fb)) eqn:E2; simpl; [|discriminate].
  intro H; inversion H; subst. exists fs. apply N.leb_le in E. repeat split; auto.
Qed.

Lemma try_frame_bad accepts fb r :
  try_frame accepts okh fb = Some (inr r) ->
  r = EpMalformed /\
  exists fs, parse_size (buf fb) = Some fs /\ fs <= N.of_nat (length (buf fb)) /\
    envelope_ok (firstn (N.to_nat fs) (buf fb)) && accepts (seen fb) = false.
Proof.
  unfold try_frame.
  destruct (parse_size (buf fb)) as [fs|]; [|discriminate].
  destruct (fs <=? N.of_nat (length (buf fb))) eqn:E; [|discriminate].
  destruct (envelope_ok _ && accepts (seen fb)) eqn:E2; simpl; [discriminate|].
  intro H; inversion H; subst. split; [reflexivity|].
  exists fs. apply N.leb_le in E. auto.
Qed.

Lemma Rel_chunk accepts D fb F bs :
  Rel accepts D fb F ->
  Rel accepts (D ++ bs) {| buf := buf fb ++ bs; seen := seen fb |} F.
Proof.
  intros [Hs Hg Hsp]. constructor; simpl; auto.
  intros X G r HX. rewrite <- app_assoc in *. apply Hsp. exact HX.
Qed.

(* One call of read_from, from any related state.  Handler always Ok. *)
Theorem read_from_spec accepts fuel : forall fb nread script D F hs res fb' sc',
  Rel accepts D fb F ->
  read_from accepts okh fuel fb nread script = (hs, res, fb', sc') ->
  res <> EpHandlerErr /\
  (res = EpStuck \/
   exists pre, all_chunks pre /\
     map fst hs = map N.of_nat (seq (length F) (length hs)) /\
     ((exists e, script = pre ++ e :: sc' /\ is_term e res nread (chunk_bytes pre) /\
                 Rel accepts (D ++ chunk_bytes pre) fb' (F ++ map snd hs) /\
                 split_all (buf fb') = ([], buf fb'))
      \/
      (res = EpMalformed /\ script = pre ++ sc' /\
       good_prefix accepts 0 (fst (split_all (D ++ chunk_bytes pre))) =
         (F ++ map snd hs, true)))).
Proof.
  induction fuel as [|f IH]; intros fb nread script D F hs res fb' sc' HR Hrun.
  - simpl in Hrun. inversion Hrun; subst. split; [discriminate|left; reflexivity].
  - simpl in Hrun.
    destruct (try_frame accepts okh fb) as [[[[fb1 i] fr]|r]|] eqn:Etf.
    + (* a frame is handed on *)
      destruct (try_frame_frame Etf) as (fs & Eps & Ele & -> & -> & -> & Eacc).
      set (fr := firstn (N.to_nat fs) (buf fb)) in *.
      set (fb1 := {| buf := skipn (N.to_nat fs) (buf fb); seen := seen fb + 1 |}) in *.
      destruct (read_from accepts okh f fb1 nread script) as [[[hs1 r1] fb2] sc2] eqn:Erec.
      inversion Hrun; subst hs res fb' sc'; clear Hrun.
      assert (HR1 : Rel accepts D fb1 (F ++ [fr])).
      { destruct HR as [Hs Hg Hsp]. constructor.
        - simpl. rewrite app_length. simpl. rewrite Hs. lia.
        - apply all_good_snoc; [exact Hg|]. rewrite <- Hs. exact Eacc.
          (* *)
        - intros X G r HX. simpl in HX.
          rewrite <- app_assoc. simpl. apply Hsp.
          rewrite (split_all_first X Eps Ele). rewrite HX. reflexivity. }
      destruct (IH _ _ _ _ _ _ _ _ _ HR1 Erec) as [Hne Hc].
      split; [exact Hne|].
      destruct Hc as [Hst|(pre & Hpre & Hidx & Hc)]; [left; exact Hst|].
      right. exists pre. split; [exact Hpre|].
      rewrite app_length in Hidx. simpl in Hidx.
      split.
      { simpl. rewrite Hidx. rewrite (rel_seen HR).
        replace (length F + 1)%nat with (S (length F)) by lia. reflexivity. }
      simpl map. rewrite <- !app_assoc in Hc. exact Hc.
    + (* malformed *)
      destruct (try_frame_bad Etf) as (-> & fs & Eps & Ele & Eacc).
      inversion Hrun; subst hs res fb' sc'; clear Hrun.
      split; [discriminate|]. right. exists []. split; [intros x []|].
      simpl. rewrite !app_nil_r. split; [reflexivity|].
      right. split; [reflexivity|]. split; [reflexivity|].
      destruct HR as [Hs Hg Hsp].
      destruct (split_all (skipn (N.to_nat fs) (buf fb) ++ [])) as [G r] eqn:EG.
      assert (Hsplit : split_all (buf fb ++ []) = (firstn (N.to_nat fs) (buf fb) :: G, r)).
      { rewrite (split_all_first [] Eps Ele). rewrite EG. reflexivity. }
      specialize (Hsp [] _ _ Hsplit). rewrite app_nil_r in Hsp. rewrite Hsp. simpl.
      rewrite (good_prefix_app _ Hg). simpl. rewrite N.add_0_l, <- Hs, Eacc.
      rewrite app_nil_r. reflexivity.
    + (* nothing complete buffered: read *)
      pose proof (try_frame_none Etf) as Hnone.
      destruct script as [|[bs| | |] sc].
      * inversion Hrun; subst. split; [discriminate|left; reflexivity].
      * (* Chunk *)
        pose proof (Rel_chunk bs HR) as HR1.
        destruct (IH _ _ _ _ _ _ _ _ _ HR1 Hrun) as [Hne Hc].
        split; [exact Hne|].
        destruct Hc as [Hst|(pre & Hpre & Hidx & Hc)]; [left; exact Hst|].
        right. exists (Chunk bs :: pre). split.
        { intros x [<-|Hx]; [eauto|apply Hpre; exact Hx]. }
        split; [exact Hidx|]. simpl chunk_bytes. rewrite app_assoc.
        destruct Hc as [(e & Hsc & Ht & HRel & Hsp)|(Hm & Hsc & Hg)].
        -- left. exists e. split; [simpl; rewrite Hsc; reflexivity|].
           split; [|split; assumption].
           destruct e; destruct res; simpl in *; try contradiction; auto.
           rewrite app_length. lia.
        -- right. split; [exact Hm|]. split; [simpl; rewrite Hsc; reflexivity|exact Hg].
      * (* Block *)
        inversion Hrun; subst hs res fb' sc'; clear Hrun.
        split; [discriminate|]. right. exists []. split; [intros x []|].
        simpl. rewrite !app_nil_r. split; [reflexivity|].
        left. exists Block. split; [reflexivity|]. split; [simpl; lia|]. split; assumption.
      * (* Eof *)
        inversion Hrun; subst hs res fb' sc'; clear Hrun.
        split; [discriminate|]. right. exists []. split; [intros x []|].
        simpl. rewrite !app_nil_r. split; [reflexivity|].
        left. exists Eof. split; [reflexivity|]. split; [exact I|]. split; assumption.
      * (* IoErr *)
        inversion Hrun; subst hs res fb' sc'; clear Hrun.
        split; [discriminate|]. right. exists []. split; [intros x []|].
        simpl. rewrite !app_nil_r. split; [reflexivity|].
        left. exists IoErr. split; [reflexivity|]. split; [exact I|]. split; assumption.
Qed.

(* ---------- termination: the fuel handed out by ep_fuel is enough ---------- *)

Definition is_chunk (x : rd) : bool := match x with Chunk _ => true | _ => false end.
Definition has_term (sc : list rd) : Prop := exists x, In x sc /\ is_chunk x = false.

Lemma read_from_not_stuck accepts fuel : forall fb nread script hs res fb' sc',
  (length (buf fb) + script_bytes script + length script < fuel)%nat ->
  has_term script ->
  read_from accepts okh fuel fb nread script = (hs, res, fb', sc') ->
  res <> EpStuck.
Proof.
  induction fuel as [|f IH]; intros fb nread script hs res fb' sc' Hm Ht Hrun; [lia|].
  simpl in Hrun.
  destruct (try_frame accepts okh fb) as [[[[fb1 i] fr]|r]|] eqn:Etf.
  - destruct (try_frame_frame Etf) as (fs & Eps & Ele & -> & -> & -> & Eacc).
    destruct (read_from accepts okh f _ nread script) as [[[hs1 r1] fb2] sc2] eqn:Erec.
    inversion Hrun; subst. eapply IH; [|exact Ht|exact Erec].
    simpl. rewrite skipn_length. apply parse_size_some in Eps as [_ E8]. lia.
  - destruct (try_frame_bad Etf) as (-> & _). inversion Hrun; subst. discriminate.
  - destruct script as [|[bs| | |] sc].
    + destruct Ht as (x & [] & _).
    + eapply IH; [| |exact Hrun].
      * simpl in *. rewrite app_length. lia.
      * destruct Ht as (x & [<-|Hin] & Hx); [discriminate|]. exists x. auto.
    + inversion Hrun; subst. discriminate.
    + inversion Hrun; subst. discriminate.
    + inversion Hrun; subst. discriminate.
Qed.

(* ---------- the statement in readable form, for an episode ended by would-block ---------- *)

Corollary episode_ok accepts fuel fb nread script D F hs n fb' sc' :
  Rel accepts D fb F ->
  read_from accepts okh fuel fb nread script = (hs, EpOk n, fb', sc') ->
  exists pre, all_chunks pre /\ script = pre ++ Block :: sc' /\
    let D' := D ++ chunk_bytes pre in
    n = nread + N.of_nat (length (chunk_bytes pre)) /\
    split_all D' = (F ++ map snd hs, buf fb') /\
    all_good accepts (F ++ map snd hs) /\
    map fst hs = map N.of_nat (seq (length F) (length hs)) /\
    Rel accepts D' fb' (F ++ map snd hs).
Proof.
  intros HR Hrun.
  destruct (read_from_spec HR Hrun) as [_ [Hst|(pre & Hpre & Hidx & Hc)]]; [discriminate|].
  destruct Hc as [(e & Hsc & Ht & HRel & Hsp)|(Hm & _)]; [|discriminate].
  destruct e; simpl in Ht; try contradiction.
  exists pre. split; [exact Hpre|]. split; [exact Hsc|]. cbv zeta.
  split; [exact Ht|]. split; [|split; [apply (rel_good HRel)|split; [exact Hidx|exact HRel]]].
  pose proof (@rel_split _ _ _ _ HRel [] [] (buf fb')) as H.
  rewrite !app_nil_r in H. apply H. exact Hsp.
Qed.

Corollary episode_malformed accepts fuel fb nread script D F hs fb' sc' :
  Rel accepts D fb F ->
  read_from accepts okh fuel fb nread script = (hs, EpMalformed, fb', sc') ->
  exists pre, all_chunks pre /\ script = pre ++ sc' /\
    good_prefix accepts 0 (fst (split_all (D ++ chunk_bytes pre))) = (F ++ map snd hs, true).
Proof.
  intros HR Hrun.
  destruct (read_from_spec HR Hrun) as [_ [Hst|(pre & Hpre & Hidx & Hc)]]; [discriminate|].
  destruct Hc as [(e & Hsc & Ht & _)|(_ & Hsc & Hg)].
  - destruct e; simpl in Ht; contradiction.
  - exists pre. auto.
Qed.

Corollary episode_eof accepts fuel fb nread script D F hs fb' sc' :
  Rel accepts D fb F ->
  read_from accepts okh fuel fb nread script = (hs, EpClosed, fb', sc') ->
  exists pre, all_chunks pre /\ script = pre ++ Eof :: sc' /\
    split_all (D ++ chunk_bytes pre) = (F ++ map snd hs, buf fb') /\
    all_good accepts (F ++ map snd hs).
Proof.
  intros HR Hrun.
  destruct (read_from_spec HR Hrun) as [_ [Hst|(pre & Hpre & Hidx & Hc)]]; [discriminate|].
  destruct Hc as [(e & Hsc & Ht & HRel & Hsp)|(Hm & _)]; [|discriminate].
  destruct e; simpl in Ht; try contradiction.
  exists pre. split; [exact Hpre|]. split; [exact Hsc|]. split; [|apply (rel_good HRel)].
  pose proof (@rel_split _ _ _ _ HRel [] [] (buf fb')) as H.
  rewrite !app_nil_r in H. apply H. exact Hsp.
Qed.
