(* RxTxHeartbeat::new AS TRANSLATED FROM THE SOURCE on every run (Gen/SrcTimers.v, by
   tools/rs2sm.py from src/io_loop/heartbeat_timers.rs): the receive timer is started with
   MAX_MISSED_SERVER_HEARTBEATS (2, read from the source) times the negotiated interval, the send
   timer with the interval itself - the two heartbeats Model/Heartbeat.v's start_heartbeats starts
   (C17: "the server is declared dead after 2h of silence", "a heartbeat every h").
   Stdlib only, no axioms. *)
From Coq Require Import String.
From Amq Require Import Lib.Base Lib.RsVal Lib.RsStr Gen.Consts Model.Heartbeat Gen.SrcTimers.
Open Scope string_scope.
Open Scope N_scope.

(* Heartbeat::start(kind, interval, timer): the heartbeat it returns, as its kind and interval *)
Definition ext_model (name : string) (args : list val) : val :=
  match args with [k; i; _] => VC "Heartbeat" [k; i] | _ => VStuck end.

Theorem timers_source_is_model timer h :
  gen_RxTxHeartbeat_new ext_model timer (VN h)
  = VR [("rx", VC "Heartbeat" [VC "HeartbeatKind::Rx" []; VN (c_max_missed_server_heartbeats * h)]);
        ("tx", VC "Heartbeat" [VC "HeartbeatKind::Tx" []; VN h])].
Proof. reflexivity. Qed.
