(* RxTxHeartbeat::new AS TRANSLATED FROM THE SOURCE on every run (Gen/SrcTimers.v, by
   tools/rs2sm.py from src/io_loop/heartbeat_timers.rs): the receive timer is started with
   MAX_MISSED_SERVER_HEARTBEATS (2, read from the source) times the negotiated interval, the send
   timer with the interval itself - the two heartbeats Model/Heartbeat.v's start_heartbeats starts
   (C17: "the server is declared dead after 2h of silence", "a heartbeat every h").
   Stdlib only, no axioms. *)
From Coq Require Import String.
From Amq Require Import Lib.Base Lib.RsVal Lib.RsStr Gen.Consts Model.Heartbeat Gen.SrcTimers.
Open Scope string_scope.
Open Scope N_scope.

(* Heartbeat::start(kind, interval, timer): the heartbeat it returns, as its kind and interval *)
Definition ext_model (name : string) (args : list val) : val :=
  match args with [k; i; _] => VC "Heartbeat" [k; i] | _ => VStuck end.

Theorem timers_source_is_model timer h :
  gen_RxTxHeartbeat_new ext_model timer (VN h)
  = VR [("rx", VC "Heartbeat" [VC "HeartbeatKind::Rx" []; VN (c_max_missed_server_heartbeats * h)]);
        ("tx", VC "Heartbeat" [VC "HeartbeatKind::Tx" []; VN h])].
Proof. reflexivity. Qed.

(* HeartbeatTimers::{start, fire_rx, fire_tx} as translated: start stores the pair RxTxHeartbeat::new
   builds from the timer and the interval; a receive-timer event fires the heartbeat started with
   2 x interval, a send-timer event the one started with the interval - never the other one.
   ext_model2 reads RxTxHeartbeat::new as its own translation, Option::as_mut / expect as the
   projection out of Some (None: the panic, VStuck) and Heartbeat::fire(hb, timer) as a term naming
   the heartbeat it is applied to (what fire computes is C17_fire_source_is_model's subject; the
   translation of fire_rx / fire_tx is about WHICH heartbeat decides, not about fire's update of it). *)
Definition ext_model2 (name : string) (args : list val) : val :=
  if String.eqb name "RxTxHeartbeat::new" then
    match args with [t; i] => gen_RxTxHeartbeat_new ext_model t i | _ => VStuck end
  else if String.eqb name "as_mut" then match args with [x] => x | _ => VStuck end
  else if String.eqb name "expect" then match args with [VC "Some" [x]; _] => x | _ => VStuck end
  else if String.eqb name "fire" then match args with [hb; t] => VC "fire" [hb; t] | _ => VStuck end
  else ext_model name args.

Definition timers0 (timer : val) : val := VR [("timer", timer); ("heartbeats", VC "None" [])].

Theorem start_fire_source_is_model timer h :
  let s1 := fst (gen_HeartbeatTimers_start ext_model2 (timers0 timer) (VN h)) in
  v_field "timer" s1 = timer /\
  snd (gen_HeartbeatTimers_fire_rx ext_model2 s1)
    = VC "fire" [VC "Heartbeat" [VC "HeartbeatKind::Rx" []; VN (c_max_missed_server_heartbeats * h)]; timer] /\
  snd (gen_HeartbeatTimers_fire_tx ext_model2 s1)
    = VC "fire" [VC "Heartbeat" [VC "HeartbeatKind::Tx" []; VN h]; timer] /\
  (* before start there is nothing to fire: the expect() panics *)
  snd (gen_HeartbeatTimers_fire_rx ext_model2 (timers0 timer)) = VC "fire" [VStuck; timer].
Proof. repeat split; reflexivity. Qed.
