(* Inner::handle_channel0_readable - the loop that drains channel 0's mailbox - AS TRANSLATED FROM THE
   SOURCE on every run (Gen/SrcDrain.v, by tools/rs2sm.py from src/io_loop/mod.rs; try_recv on the
   receiver reached through the `ch0_slot` parameter and process_channel_message are externals):
   (1) for EVERY behaviour of the two externals it is the generic loop `drain` (take a message; Empty
       returns Ok, Disconnected returns EventLoopClientDropped; a failing process_channel_message
       returns its error; otherwise go round again);
   (2) Model/Core.v's ch0_readable - the function the C05 / C09 core theorems are about - is the same
       generic loop over the model's state;
   (3) two instances of `drain` whose externals correspond give corresponding states and results;
   so (ch0_readable_source_is_model) under ANY relation between the model's state and the translated
   one that the externals preserve, the translated loop and ch0_readable end in related states with
   related results.  Stdlib only, no axioms; the hypotheses live in sections and appear in the
   statements. *)
From Coq Require Import String.
From Amq Require Import Lib.Base Lib.RsVal Lib.RsStr Gen.SrcDrain.
Local Open Scope string_scope.
Local Open Scope list_scope.

Inductive dstep (M R : Type) := SGot (m : M) | SRet (r : R).
Arguments SGot {M R}. Arguments SRet {M R}.

Section Drain.
Context {S M R : Type}.
Variable rcv : S -> S * dstep M R.
Variable proc : M -> S -> S * option R.
Variable out_of_fuel : R.
Fixpoint drain (fuel : nat) (s : S) : S * R :=
  match fuel with
  | O => (s, out_of_fuel)
  | Datatypes.S f =>
      let '(s1, r) := rcv s in
      match r with
      | SRet r => (s1, r)
      | SGot m => let '(s2, e) := proc m s1 in
                  match e with Some r => (s2, r) | None => drain f s2 end
      end
  end.
End Drain.

Definition dec_rcv (v : val) : dstep val val :=
  match v with
  | VC c args =>
      if c =? "Ok" then match args with [m] => SGot m | _ => SRet VStuck end
      else if c =? "Err" then
        match args with
        | [VC e []] =>
            if e =? "TryRecvError::Empty" then SRet (VC "Ok" [VC "()" []])
            else if e =? "TryRecvError::Disconnected" then SRet (VC "Err" [VC "Error::EventLoopClientDropped" []])
            else SRet VStuck
        | _ => SRet VStuck
        end
      else SRet VStuck
  | _ => SRet VStuck
  end.

Definition dec_proc (v : val) : option val :=
  match v with
  | VC c [x] => if c =? "Ok" then None else if c =? "Some" then None
                else if c =? "Err" then Some v else Some VStuck
  | VC c [] => if c =? "None" then Some v else Some VStuck
  | _ => Some VStuck
  end.

Section V.
Variable ext_st : string -> list val -> val -> val * val.
Variable slot : val.
Definition rcv_v (s : val) : val * dstep val val :=
  let '(s1, v) := ext_st "ch0_slot.common.rx.try_recv" [slot] s in (s1, dec_rcv v).
Definition proc_v (m s : val) : val * option val :=
  let '(s2, v) := ext_st "self.process_channel_message" [VN 0; m] s in (s2, dec_proc v).

(* process_channel_message returns a Result<()>: Ok(_) or Err(e) *)
Hypothesis proc_typed : forall m s,
  (exists u, snd (ext_st "self.process_channel_message" [VN 0; m] s) = VC "Ok" [u]) \/
  (exists e, snd (ext_st "self.process_channel_message" [VN 0; m] s) = VC "Err" [e]).

Theorem ch0_drain_source_is_drain fuel : forall self,
  gen_Inner_handle_channel0_readable ext_st fuel self slot = drain rcv_v proc_v VStuck fuel self.
Proof.
  unfold gen_Inner_handle_channel0_readable.
  induction fuel as [|f IH]; intros self; [reflexivity|].
  cbn [gen_Inner_handle_channel0_readable_loop1 drain]. unfold rcv_v.
  destruct (ext_st "ch0_slot.common.rx.try_recv" [slot] self) as [s1 v].
  unfold dec_rcv.
  repeat (first [ reflexivity
    | match goal with
      | |- context [match ?x with _ => _ end] => is_var x; destruct x
      | |- context [if ?b then _ else _] => destruct b eqn:?
      end ]).
  all: unfold proc_v;
    match goal with
    | |- context [ext_st "self.process_channel_message" ?a ?s] =>
        let H := fresh "H" in
        match a with [_; ?m] => pose proof (proc_typed m s) as H end;
        destruct (ext_st "self.process_channel_message" a s) as [s2 v2];
        cbn [snd] in H; destruct H as [[u ->]|[e ->]]; cbn; [apply IH | reflexivity]
    end.
Qed.
End V.

(* ---- the hand-written model is the same loop ---- *)
From Amq Require Import Model.Frames Model.OutBuf Model.Core.

Definition rcv_core (c : core) : core * dstep msg outcome :=
  match c_ch0 c with
  | None => (c, SRet OOk)
  | Some z =>
      match z_mail z with
      | [] => (c, SRet (if z_mail_tx z then OOk else OErr EClientDropped))
      | m :: rest => (set_ch0 c (Some (z_with_mail z rest)), SGot m)
      end
  end.
Definition proc_core (m : msg) (c : core) : core * option outcome :=
  match channel_message 0 m c with
  | (OOk, c') => (c', None)
  | (o, c') => (c', Some o)
  end.

Theorem ch0_readable_is_drain fuel : forall c,
  ch0_readable fuel c = (let '(c', o) := drain rcv_core proc_core OOk fuel c in (o, c')).
Proof.
  induction fuel as [|f IH]; intros c; [reflexivity|].
  cbn [ch0_readable drain]. unfold rcv_core.
  destruct (c_ch0 c) as [z|]; [|reflexivity].
  destruct (z_mail z) as [|m rest]; [destruct (z_mail_tx z); reflexivity|].
  unfold proc_core.
  destruct (channel_message 0 m (set_ch0 c (Some (z_with_mail z rest)))) as [o c'].
  destruct o; try reflexivity. apply IH.
Qed.

(* ---- two instances of the loop whose externals correspond give corresponding results ---- *)
Section Sim.
Context {S1 S2 M1 M2 R1 R2 : Type}.
Variable RS : S1 -> S2 -> Prop.
Variable RM : M1 -> M2 -> Prop.
Variable RR : R1 -> R2 -> Prop.
Variable rcv1 : S1 -> S1 * dstep M1 R1.
Variable rcv2 : S2 -> S2 * dstep M2 R2.
Variable proc1 : M1 -> S1 -> S1 * option R1.
Variable proc2 : M2 -> S2 -> S2 * option R2.
Variable f1 : R1.
Variable f2 : R2.
Definition step_rel (a : dstep M1 R1) (b : dstep M2 R2) : Prop :=
  match a, b with
  | SGot m1, SGot m2 => RM m1 m2
  | SRet r1, SRet r2 => RR r1 r2
  | _, _ => False
  end.
Definition opt_rel (a : option R1) (b : option R2) : Prop :=
  match a, b with
  | Some r1, Some r2 => RR r1 r2
  | None, None => True
  | _, _ => False
  end.
Hypothesis rcv_sim : forall s1 s2, RS s1 s2 ->
  RS (fst (rcv1 s1)) (fst (rcv2 s2)) /\ step_rel (snd (rcv1 s1)) (snd (rcv2 s2)).
Hypothesis proc_sim : forall m1 m2 s1 s2, RM m1 m2 -> RS s1 s2 ->
  RS (fst (proc1 m1 s1)) (fst (proc2 m2 s2)) /\ opt_rel (snd (proc1 m1 s1)) (snd (proc2 m2 s2)).
Hypothesis fuel_rel : RR f1 f2.

Theorem drain_sim fuel : forall s1 s2, RS s1 s2 ->
  RS (fst (drain rcv1 proc1 f1 fuel s1)) (fst (drain rcv2 proc2 f2 fuel s2)) /\
  RR (snd (drain rcv1 proc1 f1 fuel s1)) (snd (drain rcv2 proc2 f2 fuel s2)).
Proof.
  induction fuel as [|f IH]; intros s1 s2 H; [split; [exact H|exact fuel_rel]|].
  cbn [drain]. destruct (rcv_sim H) as [Hs Hr].
  destruct (rcv1 s1) as [a1 r1], (rcv2 s2) as [a2 r2]. cbn [fst snd] in Hs, Hr.
  destruct r1 as [m1|r1], r2 as [m2|r2]; cbn [step_rel] in Hr; try contradiction.
  - destruct (proc_sim Hr Hs) as [Hs' Ho].
    destruct (proc1 m1 a1) as [b1 o1], (proc2 m2 a2) as [b2 o2]. cbn [fst snd] in Hs', Ho.
    destruct o1 as [x1|], o2 as [x2|]; cbn [opt_rel] in Ho; try contradiction.
    + split; assumption.
    + apply IH; exact Hs'.
  - split; assumption.
Qed.
End Sim.

(* ---- together: the translated handle_channel0_readable and Model/Core.v's ch0_readable ---- *)
Section Together.
Variable ext_st : string -> list val -> val -> val * val.
Variable slot : val.
Variable RS : core -> val -> Prop.
Variable RM : msg -> val -> Prop.
Variable RR : outcome -> val -> Prop.
Hypothesis proc_typed : forall m s,
  (exists u, snd (ext_st "self.process_channel_message" [VN 0; m] s) = VC "Ok" [u]) \/
  (exists e, snd (ext_st "self.process_channel_message" [VN 0; m] s) = VC "Err" [e]).
Hypothesis rcv_sim : forall c s, RS c s ->
  RS (fst (rcv_core c)) (fst (rcv_v ext_st slot s)) /\
  step_rel RM RR (snd (rcv_core c)) (snd (rcv_v ext_st slot s)).
Hypothesis proc_sim : forall m mv c s, RM m mv -> RS c s ->
  RS (fst (proc_core m c)) (fst (proc_v ext_st mv s)) /\
  opt_rel RR (snd (proc_core m c)) (snd (proc_v ext_st mv s)).
(* out of fuel the model says Ok and the translation is stuck: RR has to allow that pair *)
Hypothesis fuel_rel : RR OOk VStuck.

Theorem ch0_readable_source_is_model fuel c self :
  RS c self ->
  RS (snd (ch0_readable fuel c)) (fst (gen_Inner_handle_channel0_readable ext_st fuel self slot)) /\
  RR (fst (ch0_readable fuel c)) (snd (gen_Inner_handle_channel0_readable ext_st fuel self slot)).
Proof.
  intros H. rewrite ch0_readable_is_drain. rewrite ch0_drain_source_is_drain by exact proc_typed.
  pose proof (drain_sim rcv_sim proc_sim fuel_rel fuel H) as [A B].
  destruct (drain rcv_core proc_core OOk fuel c) as [c' o]. cbn [fst snd] in *. split; assumption.
Qed.
End Together.

(* non-vacuity: a mailbox with two sends then empty, process_channel_message always Ok, over a toy state
   (the list of pending messages): the translated loop takes both and returns Ok *)
Definition toy_ext_st (name : string) (args : list val) (s : val) : val * val :=
  if name =? "ch0_slot.common.rx.try_recv" then
    match s with
    | VC _ (m :: rest) => (VC "mail" rest, VC "Ok" [m])
    | _ => (s, VC "Err" [VC "TryRecvError::Empty" []])
    end
  else (s, VC "Ok" [VC "()" []]).
Example ch0_drain_source_example :
  gen_Inner_handle_channel0_readable toy_ext_st 5 (VC "mail" [VN 1; VN 2]) (VC "slot" [])
  = (VC "mail" [], VC "Ok" [VC "()" []]).
Proof. vm_compute. reflexivity. Qed.

(* ================= handle_channel_readable: the same loop with the high-water test and the slot
   lookup in front of the receive ================= *)
Definition dec_slot_rcv (ext_st : string -> list val -> val -> val * val) (s1 v : val) : val * dstep val val :=
  match v with
  | VC c args =>
      if c =? "Some" then
        match args with
        | [slot] => let '(s2, v2) := ext_st "slot.rx.try_recv" [slot] s1 in (s2, dec_rcv v2)
        | _ => (s1, SRet VStuck)
        end
      else if c =? "None" then
        match args with [] => (s1, SRet (VC "Ok" [VC "()" []])) | _ => (s1, SRet VStuck) end
      else (s1, SRet VStuck)
  | _ => (s1, SRet VStuck)
  end.

Section V2.
Variable ext_st : string -> list val -> val -> val * val.
Variable id high : val.
Definition rcv_v2 (s : val) : val * dstep val val :=
  if v_ltb high (v_len (v_field "outbuf" s)) then
    (v_set "channels_need_repoll" (VC "true" []) s, SRet (VC "Ok" [VC "()" []]))
  else
    let '(s1, v) := ext_st "chan_slots.get" [id] s in dec_slot_rcv ext_st s1 v.
Definition proc_v2 (m s : val) : val * option val :=
  let '(s2, v) := ext_st "self.process_channel_message" [id; m] s in (s2, dec_proc v).
Hypothesis proc_typed2 : forall m s,
  (exists u, snd (ext_st "self.process_channel_message" [id; m] s) = VC "Ok" [u]) \/
  (exists e, snd (ext_st "self.process_channel_message" [id; m] s) = VC "Err" [e]).

Theorem chan_drain_source_is_drain fuel : forall self,
  gen_Inner_handle_channel_readable ext_st fuel self id high = drain rcv_v2 proc_v2 VStuck fuel self.
Proof.
  unfold gen_Inner_handle_channel_readable.
  induction fuel as [|f IH]; intros self; [reflexivity|].
  cbn [gen_Inner_handle_channel_readable_loop1 drain]. unfold rcv_v2.
  destruct (v_ltb high (v_len (v_field "outbuf" self))); [reflexivity|].
  destruct (ext_st "chan_slots.get" [id] self) as [s1 v].
  unfold dec_slot_rcv, dec_rcv.
  repeat (first [ reflexivity
    | match goal with
      | |- context [match ?x with _ => _ end] => is_var x; destruct x
      | |- context [ext_st "slot.rx.try_recv" ?a ?s] => destruct (ext_st "slot.rx.try_recv" a s) as [? ?]
      | |- context [if ?b then _ else _] => destruct b eqn:?
      end ]).
  all: try (exfalso; repeat match goal with H : (_ =? _) = true |- _ => apply String.eqb_eq in H end;
            congruence).
  all: unfold proc_v2;
    match goal with
    | |- context [ext_st "self.process_channel_message" ?a ?s] =>
        let H := fresh "H" in
        match a with [_; ?m] => pose proof (proc_typed2 m s) as H end;
        destruct (ext_st "self.process_channel_message" a s) as [s2 v2];
        cbn [snd] in H; destruct H as [[u ->]|[e ->]]; cbn; [apply IH | reflexivity]
    end.
Qed.
End V2.

Definition rcv_core2 (n : N) (c : core) : core * dstep msg outcome :=
  if (c_high c <? out_len c)%N then (set_need c true, SRet OOk) else
  match alookup n (c_slots c) with
  | None => (c, SRet OOk)
  | Some s =>
      match s_mail s with
      | [] => (c, SRet (if s_mail_tx s then OOk else OErr EClientDropped))
      | m :: rest => (set_slot c n (with_mail s rest), SGot m)
      end
  end.
Definition proc_core2 (n : N) (m : msg) (c : core) : core * option outcome :=
  match channel_message n m c with
  | (OOk, c') => (c', None)
  | (o, c') => (c', Some o)
  end.

Theorem chan_readable_is_drain n fuel : forall c,
  chan_readable fuel n c = (let '(c', o) := drain (rcv_core2 n) (proc_core2 n) OOk fuel c in (o, c')).
Proof.
  induction fuel as [|f IH]; intros c; [reflexivity|].
  cbn [chan_readable drain]. unfold rcv_core2.
  destruct (c_high c <? out_len c)%N; [reflexivity|].
  destruct (alookup n (c_slots c)) as [s|]; [|reflexivity].
  destruct (s_mail s) as [|m rest]; [destruct (s_mail_tx s); reflexivity|].
  unfold proc_core2.
  destruct (channel_message n m (set_slot c n (with_mail s rest))) as [o c'].
  destruct o; try reflexivity. apply IH.
Qed.

Section Together2.
Variable ext_st : string -> list val -> val -> val * val.
Variable n : N.
Variable id high : val.
Variable RS : core -> val -> Prop.
Variable RM : msg -> val -> Prop.
Variable RR : outcome -> val -> Prop.
Hypothesis proc_typed2 : forall m s,
  (exists u, snd (ext_st "self.process_channel_message" [id; m] s) = VC "Ok" [u]) \/
  (exists e, snd (ext_st "self.process_channel_message" [id; m] s) = VC "Err" [e]).
Hypothesis rcv_sim : forall c s, RS c s ->
  RS (fst (rcv_core2 n c)) (fst (rcv_v2 ext_st id high s)) /\
  step_rel RM RR (snd (rcv_core2 n c)) (snd (rcv_v2 ext_st id high s)).
Hypothesis proc_sim : forall m mv c s, RM m mv -> RS c s ->
  RS (fst (proc_core2 n m c)) (fst (proc_v2 ext_st id mv s)) /\
  opt_rel RR (snd (proc_core2 n m c)) (snd (proc_v2 ext_st id mv s)).
Hypothesis fuel_rel : RR OOk VStuck.

Theorem chan_readable_source_is_model fuel c self :
  RS c self ->
  RS (snd (chan_readable fuel n c)) (fst (gen_Inner_handle_channel_readable ext_st fuel self id high)) /\
  RR (fst (chan_readable fuel n c)) (snd (gen_Inner_handle_channel_readable ext_st fuel self id high)).
Proof.
  intros H. rewrite chan_readable_is_drain. rewrite chan_drain_source_is_drain by exact proc_typed2.
  pose proof (drain_sim rcv_sim proc_sim fuel_rel fuel H) as [A B].
  destruct (drain (rcv_core2 n) (proc_core2 n) OOk fuel c) as [c' o]. cbn [fst snd] in *. split; assumption.
Qed.
End Together2.

(* non-vacuity: the out-buffer above the high-water mark: nothing is taken, a re-poll is owed *)
Example chan_drain_source_example :
  gen_Inner_handle_channel_readable toy_ext_st 5
    (VR [("outbuf", VBytes [1; 2; 3]%N); ("channels_need_repoll", VC "false" [])]) (VN 1) (VN 2)
  = (VR [("outbuf", VBytes [1; 2; 3]%N); ("channels_need_repoll", VC "true" [])], VC "Ok" [VC "()" []]).
Proof. vm_compute. reflexivity. Qed.
