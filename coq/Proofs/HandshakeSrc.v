(* HandshakeState::process AS TRANSLATED FROM THE SOURCE on every run (Gen/SrcHandshake.v, by
   tools/rs2sm.py from src/io_loop/handshake_state.rs) is the hand-written model `hprocess`
   (Model/Handshake.v) that C15 / C16 / C19's handshake theorems are about: for every state and
   every frame - the new state, what is pushed to the out-buffer and in which order, whether the
   buffer is sealed, which heartbeat interval the timers are started with, and the error.
   Stdlib only, no axioms. *)
From Coq Require Import String.
From Amq Require Import Lib.Base Lib.RsVal Gen.Consts Model.Frames Model.Tune Model.Handshake Gen.SrcHandshake.
Open Scope string_scope.
Open Scope N_scope.

(* ---- the encodings ---- *)
Definition enc_frame (f : hframe) : val :=
  match f with
  | HStart mechs locs sprops => VC "AMQPFrame::Method" [VN 0; VC "Start" [VBytes mechs; VBytes locs; VO sprops]]
  | HSecure => VC "AMQPFrame::Method" [VN 0; VC "Secure" []]
  | HTune cm fm hb => VC "AMQPFrame::Method" [VN 0; VC "Tune" [VN cm; VN fm; VN hb]]
  | HOpenOk => VC "AMQPFrame::Method" [VN 0; VC "OpenOk" []]
  | HClose code text => VC "AMQPFrame::Method" [VN 0; VC "Close" [VN code; VBytes text]]
  | HHeartbeat0 => VC "AMQPFrame::Heartbeat" [VN 0]
  | HOther => VC "AMQPFrame::Other" []
  end.

Definition frame_unexpected : val := VC "Err" [VC "Error::FrameUnexpected" []].

Definition enc_tok (tok : N * N * N) : val :=
  let '(cm, fm, hb) := tok in VR [("channel_max", VN cm); ("frame_max", VN fm); ("heartbeat", VN hb)].
Definition enc_info (i : option str) : val :=
  match i with Some s => VC "Some" [VBytes s] | None => VC "None" [] end.
Definition enc_start_ok (o : hopts) : val :=
  VC "StartOk" [VBytes (o_mech o); VBytes (o_response o); VBytes (o_locale o); enc_info (o_info o)].

(* ---- the functions process calls and this file does not translate, as the model has them:
   X::try_from(0, frame) (serialize.rs: the method X on channel 0, else FrameUnexpected),
   ConnectionOptions::make_start_ok / make_open (modelled in Model/Handshake.v, compared with the
   real ones by the handshake drivers) and make_tune_ok (Model/Tune.v: C15_source_is_model) ---- *)
Definition try_from (name : string) (f : val) : val :=
  match f with
  | VC c [VN 0; VC m args] =>
      if (c =? "AMQPFrame::Method")%string && (m =? name)%string then VC "Ok" [VC m args] else frame_unexpected
  | _ => frame_unexpected
  end.

Definition ext_model (o : hopts) (eo : val) (name : string) (args : list val) : val :=
  if (name =? "Start::try_from")%string then match args with [_; f] => try_from "Start" f | _ => VStuck end
  else if (name =? "Secure::try_from")%string then match args with [_; f] => try_from "Secure" f | _ => VStuck end
  else if (name =? "Tune::try_from")%string then match args with [_; f] => try_from "Tune" f | _ => VStuck end
  else if (name =? "Close::try_from")%string then match args with [_; f] => try_from "Close" f | _ => VStuck end
  else if (name =? "OpenOk::try_from")%string then match args with [_; f] => try_from "OpenOk" f | _ => VStuck end
  else if (name =? "make_start_ok")%string then
    match args with
    | [_; VC _ [VBytes mechs; VBytes locs; sprops]] =>
        if negb (server_supports mechs (o_mech o)) then VC "Err" [VC "Error::UnsupportedAuthMechanism" []]
        else if negb (server_supports locs (o_locale o)) then VC "Err" [VC "Error::UnsupportedLocale" []]
        else VC "Ok" [VC "tuple" [enc_start_ok o; sprops]]
    | _ => VStuck
    end
  else if (name =? "make_tune_ok")%string then
    match args with
    | [_; VC _ [VN cm; VN fm; VN hb]] =>
        match make_tune_ok (o_cm o) (o_fm o) (o_hb o) cm fm hb with
        | FrameMaxTooSmall _ _ => VC "Err" [VC "Error::FrameMaxTooSmall" []]
        | TuneOk rcm rfm rhb => VC "Ok" [enc_tok (rcm, rfm, rhb)]
        end
    | _ => VStuck
    end
  else if (name =? "make_open")%string then VC "Open" [VBytes (o_vhost o)]
  else VStuck.

Section Tie.
  Variable o : hopts.
  Variable eo : val.     (* the ConnectionOptions value the states carry: only passed on *)

  Definition enc_state (st : hstate) : val :=
    match st with
    | HsStart => VC "HandshakeState::Start" [eo]
    | HsSecure sp => VC "HandshakeState::Secure" [eo; VO sp]
    | HsTune sp => VC "HandshakeState::Tune" [eo; VO sp]
    | HsOpen tok sp => VC "HandshakeState::Open" [enc_tok tok; VO sp]
    | HsServerClosing code text => VC "HandshakeState::ServerClosing" [VC "Close" [VN code; VBytes text]]
    | HsDone tok sp => VC "HandshakeState::Done" [enc_tok tok; VO sp]
    end.

  Definition enc_send (s : csend) : val :=
    match s with
    | SStartOk _ _ _ _ => VC "push_method" [VN 0; VC "AmqpConnection::StartOk" [enc_start_ok o]]
    | STuneOk cm fm hb => VC "push_method" [VN 0; VC "AmqpConnection::TuneOk" [enc_tok (cm, fm, hb)]]
    | SOpen vhost => VC "push_method" [VN 0; VC "AmqpConnection::Open" [VC "Open" [VBytes vhost]]]
    | SCloseOk => VC "push_method" [VN 0; VC "AmqpConnection::CloseOk" [VC "CloseOk" []]]
    end.

  (* what process does to `inner`, in order: start_heartbeats, the methods pushed, seal_writes *)
  Definition enc_effects (r : hres) : list val :=
    (match r_hb r with Some h => [VC "start_heartbeats" [VN h]] | None => [] end) ++
    map enc_send (r_sent r) ++
    (if r_seal r then [VC "seal_writes" []] else []).

  Definition enc_err (e : herr) : val :=
    match e with
    | HeUnsupportedMech => VC "Error::UnsupportedAuthMechanism" []
    | HeUnsupportedLocale => VC "Error::UnsupportedLocale" []
    | HeSaslSecure => VC "Error::SaslSecureNotSupported" []
    | HeFrameMaxTooSmall => VC "Error::FrameMaxTooSmall" []
    | _ => VC "Error::FrameUnexpected" []
    end.

  Definition enc_result (r : hres) : val :=
    match r_err r with None => VC "Ok" [VC "()" []] | Some e => VC "Err" [enc_err e] end.

  Theorem process_source_is_model st f log fuel :
    gen_HandshakeState_process (ext_model o eo) (S (S fuel)) (enc_state st) (VC "effects" log) (enc_frame f)
    = (enc_state (r_state (hprocess o st f)),
       VC "effects" (log ++ enc_effects (hprocess o st f)),
       enc_result (hprocess o st f)).
  Proof.
    destruct st as [|sp|sp|[[cm0 fm0] hb0] sp|code text|[[cm0 fm0] hb0] sp];
      destruct f as [mechs locs sprops| |cm fm hb| |code' text'| |];
      cbn -[make_tune_ok server_supports]; rewrite ?app_nil_r; try reflexivity.
    all: try (destruct (server_supports mechs (o_mech o)); cbn -[server_supports]; rewrite ?app_nil_r; [|reflexivity];
              destruct (server_supports locs (o_locale o)); cbn; rewrite ?app_nil_r; reflexivity).
    all: match goal with |- context [make_tune_ok ?a ?b ?c ?d ?e ?g] => destruct (make_tune_ok a b c d e g) eqn:E | _ => idtac end; cbn; rewrite ?app_nil_r, <- ?app_assoc; try reflexivity.
  Qed.
End Tie.

(* ---- every sequence of frames: the frames of one read episode, until one fails ---- *)
Section Frames.
  Variable o : hopts.
  Variable eo : val.

  (* what IoLoop does with the frames of a read: process one after the other, stop at the first error *)
  Fixpoint gframes (self inner : val) (fs : list hframe) : val * val * val :=
    match fs with
    | [] => (self, inner, VC "Ok" [VC "()" []])
    | f :: fs' =>
        let '(self', inner', r) := gen_HandshakeState_process (ext_model o eo) 2 self inner (enc_frame f) in
        match r with
        | VC c _ => if (c =? "Ok")%string then gframes self' inner' fs' else (self', inner', r)
        | _ => (self', inner', r)
        end
    end.

  (* the effects of a run of frames, in order *)
  Fixpoint run_effects (st : hstate) (fs : list hframe) : list val :=
    match fs with
    | [] => []
    | f :: fs' =>
        let r := hprocess o st f in
        enc_effects o r ++ match r_err r with None => run_effects (r_state r) fs' | Some _ => [] end
    end.
  Fixpoint run_state (st : hstate) (fs : list hframe) : hstate :=
    match fs with
    | [] => st
    | f :: fs' => let r := hprocess o st f in
                  match r_err r with None => run_state (r_state r) fs' | Some _ => r_state r end
    end.
  Fixpoint run_result (st : hstate) (fs : list hframe) : val :=
    match fs with
    | [] => VC "Ok" [VC "()" []]
    | f :: fs' => let r := hprocess o st f in
                  match r_err r with None => run_result (r_state r) fs' | Some _ => enc_result r end
    end.

  (* THE MODEL IS THE SOURCE over ANY sequence of handshake frames from any state: the translated
     process, applied frame after frame until one fails, ends in the model's state, has pushed the
     model's methods (and sealed, and started the heartbeats) in the model's order and returns the
     model's error *)
  Theorem frames_source_is_model : forall fs st log,
    gframes (enc_state eo st) (VC "effects" log) fs
    = (enc_state eo (run_state st fs), VC "effects" (log ++ run_effects st fs), run_result st fs).
  Proof.
    induction fs as [|f fs IH]; intros st log; cbn [gframes run_state run_effects run_result].
    - rewrite app_nil_r. reflexivity.
    - rewrite (process_source_is_model o eo st f log 0).
      destruct (r_err (hprocess o st f)) as [e|] eqn:Ee.
      + unfold enc_result. rewrite Ee. cbn. rewrite app_nil_r. reflexivity.
      + unfold enc_result at 1. rewrite Ee. cbn [String.eqb Ascii.eqb Bool.eqb].
        rewrite IH, <- app_assoc. reflexivity.
  Qed.
End Frames.
