(* The body limit a channel handle works with IS what the source says: Channel0Handle::new
   (src/io_loop/channel_handle.rs, translated into coq/Gen/Src.v on every run) computes exactly
   Model.Publish.payload_limit - 0 means no limit, the 8 bytes of framing come off - for every
   negotiated frame_max at or above the overhead (the negotiation guarantees >= 4096, C15).
   Stdlib only, no axioms. *)
From Coq Require Import String.
From Amq Require Import Lib.Base Lib.RsResult Gen.Consts Gen.SrcLimit Model.Publish.
Open Scope string_scope.

Theorem limit_source_is_model frame_max :
  gen_Channel0Handle_new frame_max = RsOk "Channel0Handle" [("frame_max", payload_limit frame_max)].
Proof. unfold gen_Channel0Handle_new, payload_limit, usize_max. cbv zeta. reflexivity. Qed.
