(* Inner::deregister_nonzero_channels / reregister_nonzero_channels AS TRANSLATED FROM THE SOURCE on
   every run (Gen/SrcRegister.v, by tools/rs2sm.py from src/io_loop/mod.rs) do what the wake-up
   model (Model/Wake.v: ADeregister / AResume / ARearm of wtail, rearm_all) assumes of them - C18:
   EVERY channel's mailbox is deregistered, resp. re-registered - readable, edge-triggered, under
   its own id as token - whatever the flags were before, and the flags are set afterwards.
   Stdlib only, no axioms. *)
From Coq Require Import String.
From Amq Require Import Lib.Base Lib.RsVal Gen.SrcRegister.
Open Scope string_scope.
Open Scope list_scope.
Open Scope N_scope.

Definition enc_bool (b : bool) : val := VC (if b then "true" else "false") [].
Definition enc_slot (id : N) : val := VC "tuple" [VN id; VR [("rx", VN id)]].

(* the I/O thread's state as far as these functions touch it; `calls` is what was asked of mio *)
Definition enc_self (ids : list N) (calls : list val) (registered need : bool) : val :=
  VR [("slots", VC "slots" (map enc_slot ids)); ("calls", VC "calls" calls);
      ("channels_are_registered", enc_bool registered); ("channels_need_repoll", enc_bool need)].

Definition ext_model (name : string) (args : list val) : val := VC name [].

(* ChannelSlots::iter, Poll::deregister / reregister (always succeeding: a failure ends the
   function with that error - the `?` of the translation) *)
Definition ext_st_model (name : string) (args : list val) (self : val) : val * val :=
  if (name =? "chan_slots.iter")%string then (self, VC "iter" (v_items (v_field "slots" self)))
  else match v_field "calls" self, args with
       | VC c l, _ :: rest => (v_set "calls" (VC c (l ++ [VC name rest])) self, VC "Ok" [VC "()" []])
       | _, _ => (self, VStuck)
       end.

Definition dereg_call (id : N) : val := VC "poll.deregister" [VN id].
Definition rereg_call (id : N) : val :=
  VC "poll.reregister" [VN id; VC "Token" [VN id]; VC "Ready::readable" []; VC "PollOpt::edge" []].

Lemma dereg_loop poll : forall ids all calls registered need,
  gen_Inner_deregister_nonzero_channels_loop1 ext_st_model (map enc_slot ids) (enc_self all calls registered need) poll
  = (enc_self all (calls ++ map dereg_call ids) false need, VC "Ok" [VC "()" []]).
Proof.
  induction ids as [|id ids IH]; intros all calls registered need.
  - cbn. rewrite app_nil_r. reflexivity.
  - cbn [map gen_Inner_deregister_nonzero_channels_loop1 enc_slot]. cbn [String.eqb Ascii.eqb Bool.eqb].
    change (ext_st_model "poll.deregister" [poll; v_field "rx" (VR [("rx", VN id)])] (enc_self all calls registered need))
      with (enc_self all (calls ++ [dereg_call id]) registered need, VC "Ok" [VC "()" []]).
    cbn [v_context String.eqb Ascii.eqb Bool.eqb].
    rewrite IH. rewrite <- app_assoc. reflexivity.
Qed.

Lemma rereg_loop poll : forall ids all calls registered need,
  gen_Inner_reregister_nonzero_channels_loop1 ext_model ext_st_model (map enc_slot ids) (enc_self all calls registered need) poll
  = (enc_self all (calls ++ map rereg_call ids) true false, VC "Ok" [VC "()" []]).
Proof.
  induction ids as [|id ids IH]; intros all calls registered need.
  - cbn. rewrite app_nil_r. reflexivity.
  - cbn [map gen_Inner_reregister_nonzero_channels_loop1 enc_slot]. cbn [String.eqb Ascii.eqb Bool.eqb].
    change (ext_st_model "poll.reregister" [poll; v_field "rx" (VR [("rx", VN id)]); VC "Token" [VN id]; ext_model "Ready::readable" []; ext_model "PollOpt::edge" []] (enc_self all calls registered need))
      with (enc_self all (calls ++ [rereg_call id]) registered need, VC "Ok" [VC "()" []]).
    cbn [v_context String.eqb Ascii.eqb Bool.eqb].
    rewrite IH. rewrite <- app_assoc. reflexivity.
Qed.

(* THE MODEL IS THE SOURCE: every channel, whatever the flags say, in the table's order *)
Theorem deregister_source_is_model poll ids calls registered need :
  gen_Inner_deregister_nonzero_channels ext_st_model (enc_self ids calls registered need) poll
  = (enc_self ids (calls ++ map dereg_call ids) false need, VC "Ok" [VC "()" []]).
Proof. unfold gen_Inner_deregister_nonzero_channels. apply dereg_loop. Qed.

Theorem reregister_source_is_model poll ids calls registered need :
  gen_Inner_reregister_nonzero_channels ext_model ext_st_model (enc_self ids calls registered need) poll
  = (enc_self ids (calls ++ map rereg_call ids) true false, VC "Ok" [VC "()" []]).
Proof. unfold gen_Inner_reregister_nonzero_channels. apply rereg_loop. Qed.
