(* The body splitter (Model/Publish.v): every body, every limit.  Stdlib only, no axioms. *)
From Amq Require Import Lib.Base Gen.Consts Model.Publish.

Lemma chunks_concat fuel : forall fm body,
  0 < fm -> (length body < fuel)%nat -> concat (chunks fuel fm body) = body.
Proof.
  induction fuel as [|fuel IH]; intros fm body Hfm Hf; [lia|]. cbn [chunks].
  destruct (N.ltb_spec fm (N.of_nat (length body))) as [Hlt|Hge].
  - cbn [concat]. rewrite IH; [apply firstn_skipn | exact Hfm |].
    rewrite skipn_length. lia.
  - destruct body; [reflexivity|]. cbn. rewrite app_nil_r. reflexivity.
Qed.

Lemma chunks_sizes fuel : forall fm body,
  0 < fm -> (length body < fuel)%nat ->
  Forall (fun c => 0 < N.of_nat (length c) /\ N.of_nat (length c) <= fm) (chunks fuel fm body).
Proof.
  induction fuel as [|fuel IH]; intros fm body Hfm Hf; [lia|]. cbn [chunks].
  destruct (N.ltb_spec fm (N.of_nat (length body))) as [Hlt|Hge].
  - constructor.
    + rewrite firstn_length. lia.
    + apply IH; [exact Hfm|]. rewrite skipn_length. lia.
  - destruct body as [|x body]; [constructor|]. constructor; [|constructor].
    split; [cbn; lia | exact Hge].
Qed.

Lemma chunks_nonempty fuel fm body :
  (length body < fuel)%nat -> body <> [] -> chunks fuel fm body <> [].
Proof.
  destruct fuel as [|fuel]; [lia|]. intros _ Hne. cbn [chunks].
  destruct (fm <? N.of_nat (length body)); [discriminate|].
  destruct body; [contradiction|discriminate].
Qed.

(* all chunks but the last are full *)
Lemma chunks_full fuel : forall fm body pre c,
  0 < fm -> (length body < fuel)%nat ->
  chunks fuel fm body = pre ++ [c] -> Forall (fun x => N.of_nat (length x) = fm) pre.
Proof.
  induction fuel as [|fuel IH]; intros fm body pre c Hfm Hf H; [lia|]. cbn [chunks] in H.
  destruct (N.ltb_spec fm (N.of_nat (length body))) as [Hlt|Hge].
  - destruct pre as [|p pre].
    + (* the first chunk cannot be the last one: more than fm bytes remain after it *)
      cbn in H. inversion H as [[Hc Hrest]]. exfalso.
      eapply (@chunks_nonempty fuel fm (skipn (N.to_nat fm) body)); [| |exact Hrest].
      * rewrite skipn_length. lia.
      * intro E. apply (f_equal (@length _)) in E. rewrite skipn_length in E. cbn in E. lia.
    + cbn in H. inversion H as [[Hp Hrest]]. constructor.
      * rewrite firstn_length. lia.
      * eapply IH; [exact Hfm | | exact Hrest]. rewrite skipn_length. lia.
  - destruct body as [|x body].
    + destruct pre; discriminate.
    + destruct pre as [|p pre]; [constructor|].
      inversion H. destruct pre; discriminate.
Qed.

Lemma chunks_count fuel : forall fm body,
  0 < fm -> (length body < fuel)%nat ->
  N.of_nat (length (chunks fuel fm body)) = (N.of_nat (length body) + fm - 1) / fm.
Proof.
  induction fuel as [|fuel IH]; intros fm body Hfm Hf; [lia|]. cbn [chunks].
  destruct (N.ltb_spec fm (N.of_nat (length body))) as [Hlt|Hge].
  - cbn [length]. rewrite Nat2N.inj_succ, IH; [|exact Hfm|rewrite skipn_length; lia].
    rewrite skipn_length.
    replace (N.of_nat (length body - N.to_nat fm)) with (N.of_nat (length body) - fm) by lia.
    set (L := N.of_nat (length body)) in *.
    replace (L + fm - 1) with ((L - fm + fm - 1) + 1 * fm) by lia.
    rewrite N.div_add by lia. lia.
  - destruct body as [|x body].
    + cbn. symmetry. apply N.div_small. lia.
    + set (L := N.of_nat (length (x :: body))) in *. cbn [length].
      assert (HL : 1 <= L) by (unfold L; cbn; lia).
      symmetry. replace (N.of_nat 1) with 1 by reflexivity.
      assert (Hq : 1 = (L + fm - 1) / fm).
      { apply N.div_unique with (r := L - 1); lia. }
      symmetry. exact Hq.
Qed.

(* ---------- the statements about body_chunks ---------- *)

Theorem body_chunks_concat fm body : 0 < fm -> concat (body_chunks fm body) = body.
Proof. intro H. apply chunks_concat; [exact H|lia]. Qed.

Theorem body_chunks_sizes fm body : 0 < fm ->
  Forall (fun c => 0 < N.of_nat (length c) /\ N.of_nat (length c) <= fm) (body_chunks fm body).
Proof. intro H. apply chunks_sizes; [exact H|lia]. Qed.

Theorem body_chunks_full fm body pre c : 0 < fm ->
  body_chunks fm body = pre ++ [c] -> Forall (fun x => N.of_nat (length x) = fm) pre.
Proof. intros H E. eapply chunks_full; [exact H| |exact E]. lia. Qed.

Theorem body_chunks_empty fm : body_chunks fm [] = [].
Proof. unfold body_chunks. cbn. destruct (N.ltb_spec fm 0); [lia|reflexivity]. Qed.

Theorem body_chunks_count fm body : 0 < fm ->
  N.of_nat (length (body_chunks fm body)) = (N.of_nat (length body) + fm - 1) / fm.
Proof. intro H. apply chunks_count; [exact H|lia]. Qed.

(* with the negotiated frame_max (>= FRAME_MIN_SIZE, or 0 = unlimited) no body frame,
   including its 8 bytes of framing, exceeds frame_max *)
Theorem body_frame_size frame_max body :
  c_frame_min_size <= frame_max ->
  Forall (fun c => N.of_nat (length c) + c_frame_overhead <= frame_max)
         (body_chunks (payload_limit frame_max) body).
Proof.
  intro Hmin. unfold c_frame_min_size in Hmin.
  assert (Hz : (frame_max =? 0) = false) by (apply N.eqb_neq; lia).
  unfold payload_limit. rewrite Hz. unfold c_frame_overhead.
  pose proof (@body_chunks_sizes (frame_max - 8) body ltac:(lia)) as H.
  eapply Forall_impl; [|exact H]. cbn. intros c [_ Hc]. lia.
Qed.

Theorem payload_limit_pos frame_max :
  frame_max = 0 \/ c_frame_min_size <= frame_max -> 0 < payload_limit frame_max.
Proof.
  unfold payload_limit, c_frame_min_size, c_frame_overhead, usize_max.
  intros [->|H]; [reflexivity|]. destruct (N.eqb_spec frame_max 0); lia.
Qed.

(* the whole publish: the method carries the four arguments, the header announces exactly
   the body length and the given properties, the body frames concatenate to the body *)
Definition body_of_frames (fs : list pframe) : bytes :=
  concat (map (fun f => match f with PBody b => b | _ => [] end) fs).

Theorem publish_frames_spec frame_max p :
  frame_max = 0 \/ c_frame_min_size <= frame_max ->
  exists bodies,
    publish_frames frame_max p =
      PMethod (p_exchange p) (p_rk p) (p_mandatory p) (p_immediate p)
      :: PHeader 60 (N.of_nat (length (p_body p))) (p_props p) :: map PBody bodies /\
    concat bodies = p_body p /\
    Forall (fun c => c <> []) bodies /\
    (p_body p = [] -> bodies = []).
Proof.
  intro H. pose proof (payload_limit_pos H) as Hpos.
  exists (body_chunks (payload_limit frame_max) (p_body p)). split; [reflexivity|].
  split; [apply body_chunks_concat; exact Hpos|]. split.
  - eapply Forall_impl; [|apply body_chunks_sizes; exact Hpos]. cbn.
    intros c [Hc _] E. subst c. cbn in Hc. lia.
  - intro E. rewrite E. apply body_chunks_empty.
Qed.
