(* The handshake machine (Model/Handshake.v): a connection only after the complete
   exchange, the frames sent, the cause of every failure.  Stdlib only, no axioms. *)
From Amq Require Import Lib.Base Gen.Consts Model.Frames Model.Tune Model.Handshake.

(* what has been sent so far is determined by the state *)
Definition start_ok_of (o : hopts) : csend :=
  SStartOk (o_mech o) (o_response o) (o_locale o) (o_info o).

Definition tune_ok_of (tok : N * N * N) : csend := let '(cm, fm, hb) := tok in STuneOk cm fm hb.

Definition sent_inv (o : hopts) (st : hstate) (sent : list csend) (hb : option N) : Prop :=
  match st with
  | HsStart => sent = [] /\ hb = None
  | HsSecure _ | HsTune _ => sent = [start_ok_of o] /\ hb = None
  | HsOpen tok _ | HsDone tok _ =>
      sent = [start_ok_of o; tune_ok_of tok; SOpen (o_vhost o)] /\ hb = Some (snd tok)
  | HsServerClosing _ _ =>
      exists tok, sent = [start_ok_of o; tune_ok_of tok; SOpen (o_vhost o); SCloseOk] /\ hb = Some (snd tok)
  end.

Lemma tune_step_inv o sprops st0 f r :
  tune_step o sprops st0 f = r -> r_err r = None ->
  exists tok, r_state r = HsOpen tok sprops /\ r_sent r = [tune_ok_of tok; SOpen (o_vhost o)] /\
              r_hb r = Some (snd tok) /\ r_seal r = false.
Proof.
  intros H He. subst r. unfold tune_step in *. destruct f; try discriminate.
  destruct (make_tune_ok _ _ _ _ _ _) as [rcm rfm rhb|]; [|discriminate].
  exists (rcm, rfm, rhb). cbn. auto.
Qed.

Lemma hprocess_inv o st f sent hb :
  sent_inv o st sent hb -> r_err (hprocess o st f) = None ->
  let r := hprocess o st f in
  sent_inv o (r_state r) (sent ++ r_sent r) (match r_hb r with Some h => Some h | None => hb end).
Proof.
  intros Hinv He. cbv zeta. unfold hprocess in *.
  destruct f; try (cbn; rewrite app_nil_r; exact Hinv);
  destruct st; cbn in He |- *; try discriminate;
    try (destruct Hinv as [-> ->]); try (destruct Hinv as (tok0 & -> & ->)).
  - (* Start in HsStart *)
    destruct (negb (server_supports mechanisms (o_mech o))); [discriminate|].
    destruct (negb (server_supports locales (o_locale o))); [discriminate|]. cbn. auto.
  - (* Tune in HsSecure *)
    destruct (make_tune_ok _ _ _ _ _ _) as [rcm rfm rhb|]; [|discriminate]. cbn. auto.
  - (* Tune in HsTune *)
    destruct (make_tune_ok _ _ _ _ _ _) as [rcm rfm rhb|]; [|discriminate]. cbn. auto.
  - (* OpenOk in HsOpen *) cbn. auto.
  - (* Close in HsOpen *) exists tok. cbn. auto.
Qed.

Lemma hframes_inv o : forall fs st sent hb e st' sent' hb',
  sent_inv o st sent hb ->
  hframes o st fs sent hb = (e, st', sent', hb') ->
  e = None -> sent_inv o st' sent' hb'.
Proof.
  induction fs as [|f fs IH]; intros st sent hb e st' sent' hb' Hinv H He; cbn [hframes] in H.
  - inversion H; subst. exact Hinv.
  - destruct (r_err (hprocess o st f)) eqn:Er.
    + inversion H; subst. discriminate.
    + eapply IH; [|exact H|exact He]. apply (hprocess_inv Hinv Er).
Qed.

(* a failing frame sends nothing and seals nothing, except that a sent prefix stays *)
Lemma hprocess_err_sends_nothing o st f e :
  r_err (hprocess o st f) = Some e -> r_sent (hprocess o st f) = [] /\ r_state (hprocess o st f) = st
  \/ (exists sp, st = HsSecure sp /\ r_sent (hprocess o st f) = [] /\ r_state (hprocess o st f) = HsTune sp).
Proof.
  unfold hprocess. destruct f; destruct st; cbn; intro H; try discriminate; auto;
    try (destruct (negb _); [auto|destruct (negb _); [auto|discriminate]]);
    try (destruct (make_tune_ok _ _ _ _ _ _); [discriminate|]; cbn; eauto).
  all: try (right; eexists; split; [reflexivity|]; cbn; auto).
Qed.

(* ---------- C16: a connection only after the complete exchange ---------- *)

Lemma hrun_connected o : forall evs st sent hb tok sprops sent' hb',
  sent_inv o st sent hb ->
  hrun o st evs sent hb = (Connected tok sprops, sent', hb') ->
  sent' = [start_ok_of o; tune_ok_of tok; SOpen (o_vhost o)] /\ hb' = Some (snd tok).
Proof.
  induction evs as [|ev evs IH]; intros st sent hb tok sprops sent' hb' Hinv H; cbn [hrun] in H.
  - destruct (o_timeout o); discriminate.
  - destruct ev as [fs t|].
    + destruct (hframes o st fs sent hb) as [[[e st1] sent1] hb1] eqn:Ef.
      destruct e; [discriminate|].
      pose proof (hframes_inv Hinv Ef eq_refl) as Hinv1.
      destruct (term_err t); [discriminate|].
      destruct (hdone st1) as [out|] eqn:Ed.
      * inversion H; subst. destruct st1; cbn in Ed; try discriminate; inversion Ed; subst.
        exact Hinv1.
      * eapply IH; eassumption.
    + destruct (o_timeout o); [discriminate|]. eapply IH; eassumption.
Qed.

Theorem connected_only_after_exchange o evs tok sprops sent hb :
  handshake o evs = (Connected tok sprops, sent, hb) ->
  sent = [start_ok_of o; tune_ok_of tok; SOpen (o_vhost o)] /\ hb = Some (snd tok).
Proof. intro H. eapply hrun_connected; [|exact H]. cbn. auto. Qed.

(* in EVERY run the frames sent are a prefix of StartOk, TuneOk, Open, CloseOk *)
Definition sent_shape (o : hopts) (sent : list csend) : Prop :=
  sent = [] \/ sent = [start_ok_of o] \/
  (exists tok, sent = [start_ok_of o; tune_ok_of tok; SOpen (o_vhost o)]) \/
  (exists tok, sent = [start_ok_of o; tune_ok_of tok; SOpen (o_vhost o); SCloseOk]).

Lemma inv_shape o st sent hb : sent_inv o st sent hb -> sent_shape o sent.
Proof.
  destruct st; cbn; intro H; unfold sent_shape.
  - destruct H as [-> _]. auto.
  - destruct H as [-> _]. auto.
  - destruct H as [-> _]. auto.
  - destruct H as [-> _]. right; right; left. eauto.
  - destruct H as (tok & -> & _). right; right; right. eauto.
  - destruct H as [-> _]. right; right; left. eauto.
Qed.

Lemma hframes_shape o : forall fs st sent hb e st' sent' hb',
  sent_inv o st sent hb ->
  hframes o st fs sent hb = (e, st', sent', hb') -> sent_shape o sent'.
Proof.
  induction fs as [|f fs IH]; intros st sent hb e st' sent' hb' Hinv H; cbn [hframes] in H.
  - inversion H; subst. eapply inv_shape; exact Hinv.
  - destruct (r_err (hprocess o st f)) eqn:Er.
    + inversion H; subst.
      destruct (hprocess_err_sends_nothing Er) as [[-> _]|(sp & _ & -> & _)];
        rewrite app_nil_r; eapply inv_shape; exact Hinv.
    + eapply IH; [|exact H]. apply (hprocess_inv Hinv Er).
Qed.

Theorem sent_always_prefix o : forall evs st sent hb out sent' hb',
  sent_inv o st sent hb -> hrun o st evs sent hb = (out, sent', hb') -> sent_shape o sent'.
Proof.
  induction evs as [|ev evs IH]; intros st sent hb out sent' hb' Hinv H; cbn [hrun] in H.
  - inversion H; subst. eapply inv_shape; exact Hinv.
  - destruct ev as [fs t|].
    + destruct (hframes o st fs sent hb) as [[[e st1] sent1] hb1] eqn:Ef.
      pose proof (hframes_shape Hinv Ef) as Hsh.
      destruct e; [inversion H; subst; exact Hsh|].
      pose proof (hframes_inv Hinv Ef eq_refl) as Hinv1.
      destruct (term_err t); [inversion H; subst; exact Hsh|].
      destruct (hdone st1); [inversion H; subst; exact Hsh|].
      eapply IH; eassumption.
    + destruct (o_timeout o); [inversion H; subst; eapply inv_shape; exact Hinv|].
      eapply IH; eassumption.
Qed.

(* ---------- the cause of every failure ---------- *)

Theorem err_mechanism o mechs locs sp :
  server_supports mechs (o_mech o) = false ->
  hprocess o HsStart (HStart mechs locs sp) = hfail HsStart HeUnsupportedMech.
Proof. intro H. unfold hprocess. rewrite H. reflexivity. Qed.

Theorem err_locale o mechs locs sp :
  server_supports mechs (o_mech o) = true -> server_supports locs (o_locale o) = false ->
  hprocess o HsStart (HStart mechs locs sp) = hfail HsStart HeUnsupportedLocale.
Proof. intros H1 H2. unfold hprocess. rewrite H1, H2. reflexivity. Qed.

(* a Secure challenge is reported as such - not rewritten to InvalidCredentials *)
Theorem err_secure o sp evs sent hb :
  hrun o (HsSecure sp) (HRead [HSecure] HtBlock :: evs) sent hb = (Failed HeSaslSecure, sent, hb).
Proof. cbn. rewrite app_nil_r. reflexivity. Qed.

(* the socket dropped after StartOk without a reply: bad credentials *)
Theorem err_credentials o sp evs sent hb :
  hrun o (HsSecure sp) (HRead [] HtEof :: evs) sent hb = (Failed HeInvalidCredentials, sent, hb).
Proof. reflexivity. Qed.

(* ... but only a dropped socket: silence with a timeout, or garbage, keep their names *)
Theorem err_secure_timeout o sp evs sent hb :
  o_timeout o = true -> hrun o (HsSecure sp) (HSilence :: evs) sent hb = (Failed HeTimeout, sent, hb).
Proof. intro H. cbn. rewrite H. reflexivity. Qed.

Theorem err_secure_malformed o sp evs sent hb :
  hrun o (HsSecure sp) (HRead [] HtMalformed :: evs) sent hb = (Failed HeMalformed, sent, hb).
Proof. reflexivity. Qed.

(* Close instead of OpenOk: CloseOk is sent, the buffer sealed, the error carries code and text *)
Theorem err_server_close o tok sp code text evs sent hb :
  hrun o (HsOpen tok sp) (HRead [HClose code text] HtBlock :: evs) sent hb
  = (Failed (HeServerClosed code text), sent ++ [SCloseOk], hb) /\
  r_seal (hprocess o (HsOpen tok sp) (HClose code text)) = true.
Proof. split; reflexivity. Qed.

(* frame_max below the minimum: the attempt fails and NO TuneOk is sent *)
Theorem err_frame_max o sp cm fm hb min req :
  make_tune_ok (o_cm o) (o_fm o) (o_hb o) cm fm hb = FrameMaxTooSmall min req ->
  hprocess o (HsTune sp) (HTune cm fm hb) = hfail (HsTune sp) HeFrameMaxTooSmall /\
  hprocess o (HsSecure sp) (HTune cm fm hb) = hfail (HsTune sp) HeFrameMaxTooSmall.
Proof. intro H. unfold hprocess, tune_step. rewrite H. split; reflexivity. Qed.

(* any frame out of order *)
Theorem err_unexpected o st :
  r_err (hprocess o st HOther) = Some HeFrameUnexpected /\ r_sent (hprocess o st HOther) = [].
Proof. destruct st; split; reflexivity. Qed.

Theorem err_after_done o st f :
  (exists tok sp, st = HsDone tok sp) \/ (exists c t, st = HsServerClosing c t) ->
  f <> HHeartbeat0 -> r_err (hprocess o st f) = Some HeFrameUnexpected.
Proof.
  intros [(tok & sp & ->)|(c & t & ->)] Hf; destruct f; try reflexivity; exfalso; apply Hf; reflexivity.
Qed.

(* silence: a timeout if one is configured, in every state *)
Theorem err_timeout o st evs sent hb :
  o_timeout o = true -> hrun o st (HSilence :: evs) sent hb = (Failed HeTimeout, sent, hb).
Proof. intro H. cbn. rewrite H. reflexivity. Qed.

(* never a hang when a timeout is configured, whatever the server does or does not do *)
Theorem no_hang_with_timeout o : forall evs st sent hb out sent' hb',
  o_timeout o = true -> hrun o st evs sent hb = (out, sent', hb') -> out <> Hang.
Proof.
  induction evs as [|ev evs IH]; intros st sent hb out sent' hb' Ht H; cbn [hrun] in H.
  - rewrite Ht in H. inversion H; subst. discriminate.
  - destruct ev as [fs t|].
    + destruct (hframes o st fs sent hb) as [[[e st1] sent1] hb1].
      destruct e; [inversion H; subst; discriminate|].
      destruct (term_err t); [inversion H; subst; discriminate|].
      destruct (hdone st1) as [out1|] eqn:Ed.
      * inversion H; subst. destruct st1; cbn in Ed; try discriminate; inversion Ed; subst; discriminate.
      * eapply IH; eassumption.
    + rewrite Ht in H. inversion H; subst. discriminate.
Qed.

(* without a timeout the attempt hangs only if the server never does anything decisive:
   every read ends in would-block and leaves the exchange incomplete *)
Theorem hang_means_silence o : forall evs st sent hb sent' hb',
  hrun o st evs sent hb = (Hang, sent', hb') ->
  Forall (fun ev => match ev with HRead _ t => t = HtBlock | HSilence => True end) evs.
Proof.
  induction evs as [|ev evs IH]; intros st sent hb sent' hb' H; [constructor|].
  cbn [hrun] in H. destruct ev as [fs t|].
  - destruct (hframes o st fs sent hb) as [[[e st1] sent1] hb1]. destruct e; [discriminate|].
    destruct t; cbn [term_err] in H; try discriminate.
    destruct (hdone st1) as [out1|] eqn:Ed.
    + inversion H; subst. destruct st1; cbn in Ed; discriminate.
    + constructor; [reflexivity|]. eapply IH; eassumption.
  - destruct (o_timeout o); [discriminate|]. constructor; [exact I|]. eapply IH; eassumption.
Qed.

(* the heartbeat timers are started with exactly the interval announced in TuneOk *)
Theorem heartbeat_started_as_announced o st f :
  forall h, r_hb (hprocess o st f) = Some h ->
  exists cm fm, In (STuneOk cm fm h) (r_sent (hprocess o st f)).
Proof.
  intros h H. unfold hprocess in *.
  destruct f; destruct st; cbn in *; try discriminate;
    try (destruct (negb _); [discriminate|destruct (negb _); discriminate]);
    unfold tune_step in *; cbn in *;
    (destruct (make_tune_ok _ _ _ _ _ _) as [rcm rfm rhb|]; cbn in *; [|discriminate]);
    inversion H; subst; eexists _, _; left; reflexivity.
Qed.
